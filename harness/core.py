"""Common machinery of the correspondence harness: environment, tokenisation of inner values,
Coq literal printers, the coqc shard runner, verdict parsing, evidence / replay writers.

Run only through /verif/check (which sets PYTHONPATH=/repo/src, PYTHONHASHSEED=0,
NESTED_PANDAS_VERIF=1 and uses /venv/bin/python)."""
from __future__ import annotations

import hashlib
import json
import math
import os
import re
import shutil
import struct
import subprocess
import sys
import time

VERIF = "/verif"
COQ = os.path.join(VERIF, "coq")
THEORIES = os.path.join(COQ, "theories")
RUN_ROOT = os.path.join(COQ, "run")
EVIDENCE = os.path.join(VERIF, "evidence")
REPLAYS = os.path.join(VERIF, "replays")

assert os.environ.get("NESTED_PANDAS_VERIF") == "1", "run through /verif/check"

import numpy as np  # noqa: E402
import pandas as pd  # noqa: E402
import pyarrow as pa  # noqa: E402

import nested_pandas  # noqa: E402,F401
from nested_pandas.series import ext_array as _ext  # noqa: E402

# (VERIF_REPO_SRC: mutation drills only - tools/prun_seeded.sh runs the kept seeded changes in scratch worktrees of /repo, in parallel;
# the registered commands never set it)
assert os.path.realpath(nested_pandas.__file__).startswith(os.environ.get("VERIF_REPO_SRC", "/repo/src") + "/"), nested_pandas.__file__
assert getattr(_ext, "_VERIF", False), "hook not enabled"

# --------------------------------------------------------------------------------------
# inner values -> model values

ETY = {"int64": "TI64", "double": "TF64", "string": "TStr", "large_string": "TStr", "bool": "TBool",
       "timestamp[ns]": "TTs"}
_other_types: dict[str, int] = {}


def ety_of(t: pa.DataType) -> str:
    s = str(t)
    if s in ETY:
        return ETY[s]
    k = _other_types.setdefault(s, len(_other_types))
    return f"(TOther {k})"


_str_tokens: dict[str, int] = {}
STR_BASE = 1 << 70
TS_BASE = 1 << 80
NAN_TOKEN = (1 << 66)


def tok(v):
    """python value (as produced by to_pylist / DataFrame cells) -> ('null',) | ('int', z) | ('bool', b) | ('tok', k)"""
    if v is None or v is pd.NA or v is pd.NaT:
        return ("null",)
    if isinstance(v, (bool, np.bool_)):
        return ("bool", bool(v))
    if isinstance(v, (int, np.integer)):
        return ("int", int(v))
    if isinstance(v, (float, np.floating)):
        f = float(v)
        if math.isnan(f):
            return ("tok", NAN_TOKEN)
        return ("tok", struct.unpack(">Q", struct.pack(">d", f))[0])
    if isinstance(v, str):
        return ("tok", STR_BASE + _str_tokens.setdefault(v, len(_str_tokens)))
    if isinstance(v, pd.Timestamp):
        return ("tok", TS_BASE + int(v.value))
    if isinstance(v, np.datetime64):
        return ("tok", TS_BASE + int(v.astype("datetime64[ns]").astype("int64")))
    import datetime as _dt

    if isinstance(v, _dt.datetime):
        return ("tok", TS_BASE + int(pd.Timestamp(v).value))
    raise TypeError(f"cannot tokenise {type(v)}: {v!r}")


def cq_val(t) -> str:
    k = t[0]
    if k == "null":
        return "VNull"
    if k == "int":
        return f"VInt {t[1]}" if t[1] >= 0 else f"VInt ({t[1]})"
    if k == "bool":
        return "VBool true" if t[1] else "VBool false"
    return f"VTok {t[1]}"


def cq_bool(b) -> str:
    return "true" if b else "false"


def cq_list(items) -> str:
    return "[" + "; ".join(items) + "]"


def cq_vals(vs) -> str:
    return cq_list(cq_val(tok(v)) for v in vs)


def cq_nats(ns) -> str:
    return cq_list(str(int(n)) for n in ns)


def cq_bools(bs) -> str:
    return cq_list(cq_bool(b) for b in bs)


def cq_str(s: str) -> str:
    assert all(32 <= ord(ch) < 127 for ch in s), s
    return '"' + s.replace('"', '""') + '"'


def cq_strs(ss) -> str:
    return cq_list(cq_str(s) for s in ss)


def cq_Z(z) -> str:
    z = int(z)
    return f"({z})%Z"


def cq_optZ(z) -> str:
    return "None" if z is None else f"(Some {cq_Z(z)})"


def cq_Zs(zs) -> str:
    return cq_list(cq_Z(z) for z in zs)


def cq_opt(x, f) -> str:
    return "None" if x is None else f"(Some {f(x)})"


def cq_res(x, f) -> str:
    """x is ('ok', value) or ('err', kind)"""
    return f"(Ok {f(x[1])})" if x[0] == "ok" else "Err"


def cq_schema(sch) -> str:
    return cq_list(f"({cq_str(n)}, {t})" for n, t in sch)


# --------------------------------------------------------------------------------------
# physical read-back of a ChunkedArray of struct<list...>


def child_values(values: pa.Array) -> list:
    t = values.type
    if pa.types.is_timestamp(t):
        ints = values.cast(pa.int64()).to_pylist()
        return [None if v is None else pd.Timestamp(v) for v in ints]
    return values.to_pylist()


def phys(ca: pa.ChunkedArray | pa.Array) -> dict:
    if isinstance(ca, pa.Array):
        ca = pa.chunked_array([ca])
    sch = [(f.name, ety_of(f.type.value_type)) for f in ca.type]
    chunks = []
    for ch in ca.chunks:
        fields = []
        for i, f in enumerate(ca.type):
            la = ch.field(i)
            fields.append({"name": f.name, "ety": ety_of(f.type.value_type),
                           "offs": la.offsets.to_pylist(),
                           "lvalid": la.is_valid().to_pylist(),
                           "child": child_values(la.values)})
        chunks.append({"svalid": ch.is_valid().to_pylist(), "fields": fields})
    return {"schema": sch, "chunks": chunks}


def cq_larr(offs, lvalid, child) -> str:
    return f"{{| offs := {cq_nats(offs)}; lvalid := {cq_bools(lvalid)}; child := {cq_vals(child)} |}}"


def cq_phys(ph: dict) -> str:
    chs = []
    for c in ph["chunks"]:
        fs = cq_list(
            f"{{| fname := {cq_str(f['name'])}; fty := {f['ety']}; farr := {cq_larr(f['offs'], f['lvalid'], f['child'])} |}}"
            for f in c["fields"])
        chs.append(f"{{| svalid := {cq_bools(c['svalid'])}; sfields := {fs} |}}")
    return f"{{| ctype := {cq_schema(ph['schema'])}; chunks := {cq_list(chs)} |}}"


def phys_stats(ph: dict) -> dict:
    """layout facts used for evidence histograms and known-finding triggers"""
    nch = len(ph["chunks"])
    zero_based = all(f["offs"][0] == 0 for c in ph["chunks"] for f in c["fields"]) if nch else True
    hidden = False
    null_lists_in_missing = False
    for c in ph["chunks"]:
        for f in c["fields"]:
            for i, sv in enumerate(c["svalid"]):
                if not sv and f["offs"][i + 1] - f["offs"][i] > 0:
                    hidden = True
    return {"num_chunks": nch, "zero_based": zero_based, "hidden_children": hidden,
            "empty_chunks": sum(1 for c in ph["chunks"] if len(c["svalid"]) == 0),
            "rows": sum(len(c["svalid"]) for c in ph["chunks"]),
            "missing": sum(1 for c in ph["chunks"] for v in c["svalid"] if not v)}


# --------------------------------------------------------------------------------------
# independent logical read-back (pyarrow to_pylist only; no nested-pandas code)


def logical(ca: pa.ChunkedArray | pa.Array) -> dict:
    if isinstance(ca, pa.Array):
        ca = pa.chunked_array([ca])
    sch = [(f.name, ety_of(f.type.value_type)) for f in ca.type]
    rows = ca.to_pylist()
    valid = [r is not None for r in rows]
    cols = []
    for name, _ in sch:
        col = []
        for r in rows:
            if r is None or r[name] is None:
                col.append([])
            else:
                col.append(list(r[name]))
        cols.append(col)
    return {"schema": sch, "valid": valid, "cols": cols}


def cq_lcol(lc: dict) -> str:
    cols = cq_list(cq_list(cq_vals(l) for l in col) for col in lc["cols"])
    return f"{{| lsch := {cq_schema(lc['schema'])}; lvalidity := {cq_bools(lc['valid'])}; lcols := {cols} |}}"


def cq_lrow(r) -> str:
    """r: None or list (per field) of lists of python values"""
    if r is None:
        return "None"
    return "(Some " + cq_list(cq_vals(f) for f in r) + ")"


def cq_lrows(rs) -> str:
    return cq_list(cq_lrow(r) for r in rs)


def df_to_lrow(df, pa_struct_type):
    """a boxed element (pd.DataFrame or NA/None) -> None | per-field lists in schema order.
    Boxing into pandas loses the null/NaN distinction for numeric columns (an int list with a
    null becomes float with NaN), so values are read back through the field's Arrow type with
    from_pandas=True: in the element view NaN and null are ONE thing (see denan in Checks.v)."""
    if df is None or df is pd.NA:
        return None
    assert isinstance(df, pd.DataFrame), type(df)
    names = [f.name for f in pa_struct_type]
    assert list(df.columns) == names, (list(df.columns), names)
    out = []
    for f in pa_struct_type:
        arr = pa.array(df[f.name], type=f.type.value_type, from_pandas=True)
        if isinstance(arr, pa.ChunkedArray):
            arr = arr.combine_chunks()
        vals = child_values(arr)
        out.append([None if (isinstance(v, float) and math.isnan(v)) else v for v in vals])
    return out


# --------------------------------------------------------------------------------------
# exceptions -> small enum


def err_kind(e: BaseException) -> str:
    n = type(e).__name__
    if n.startswith("Arrow"):
        return "Arrow"
    return n if n in ("ValueError", "TypeError", "IndexError", "KeyError", "AttributeError",
                      "NotImplementedError", "SyntaxError") else "other"


class ErrKind(str):
    """the error kind (compares and hashes like the plain string); its repr also shows what was raised"""
    detail = ""

    def __repr__(self):
        return f"{str.__repr__(self)} <{self.detail}>" if self.detail else str.__repr__(self)


def attempt(f):
    """run f(); ('ok', value) or ('err', kind)"""
    try:
        return ("ok", f())
    except Exception as e:  # noqa: BLE001
        k = ErrKind(err_kind(e))
        k.detail = f"{type(e).__name__}: {str(e)[:200]}"
        return ("err", k)


# --------------------------------------------------------------------------------------
# coqc shard runner

HEADER = """From Coq Require Import String List Arith Bool ZArith.
Import ListNotations.
From NP Require Import Base Values Arrow Abs Kernels ExtArray Logical Checks {extra}.
{extra_header}
Open Scope string_scope.
Open Scope list_scope.
Open Scope nat_scope.
"""

_VERDICT = re.compile(r"\((\d+),\s*\[([^\]]*)\]\)")


class CoqRunner:
    def __init__(self, tag: str, extra_imports: str = "", extra_header: str = ""):
        self.extra_header = extra_header
        self.dir = os.path.join(RUN_ROOT, f"{tag}-{os.getpid()}")
        shutil.rmtree(self.dir, ignore_errors=True)
        os.makedirs(self.dir)
        self.extra = extra_imports
        self.coq_seconds = 0.0

    def cleanup(self):
        shutil.rmtree(self.dir, ignore_errors=True)

    def evaluate(self, cases: list[tuple[int, str]], shard: int = 100, timeout: int = 600) -> dict[int, list[bool]]:
        """cases: (cid, coq term of type list bool).  Returns {cid: flags} for EVERY case
        whose flags are not all true; raises if coqc fails or counts disagree."""
        t0 = time.time()
        files = []
        for k in range(0, len(cases), shard):
            part = cases[k:k + shard]
            fn = os.path.join(self.dir, f"cases_{len(files):04d}_{k}.v")
            with open(fn, "w") as fh:
                fh.write(HEADER.format(extra=self.extra, extra_header=self.extra_header))
                for cid, term in part:
                    fh.write(f"Definition case_{cid} : nat * list bool := ({cid}, {term}).\n")
                fh.write("Definition cases := " + cq_list(f"case_{cid}" for cid, _ in part) + ".\n")
                fh.write("Eval vm_compute in (length cases).\n")
                fh.write("Eval vm_compute in (failing cases).\n")
            files.append((fn, len(part)))
        procs = []
        out: dict[int, list[bool]] = {}
        maxpar = 16
        pending = list(files)
        running = []
        errors = []

        def reap(block):
            nonlocal running
            still = []
            for (p, fn, n) in running:
                if block:
                    try:
                        p.wait(timeout=timeout)
                    except subprocess.TimeoutExpired:
                        p.kill()
                        errors.append(f"timeout on {fn}")
                        continue
                if p.poll() is None:
                    still.append((p, fn, n))
                    continue
                so, se = p.communicate()
                if p.returncode != 0:
                    errors.append(f"coqc failed on {fn}: {se[-2000:]}")
                    continue
                flat = " ".join(so.split())
                m = re.search(r"= (\d+) : nat", flat)
                if not m or int(m.group(1)) != n:
                    errors.append(f"case count mismatch in {fn}: {flat[:200]}")
                    continue
                tail = flat[m.end():]
                for mm in _VERDICT.finditer(tail):
                    out[int(mm.group(1))] = [x.strip() == "true" for x in mm.group(2).split(";") if x.strip()]
            running = still

        while pending or running:
            while pending and len(running) < maxpar:
                fn, n = pending.pop(0)
                p = subprocess.Popen(["timeout", str(timeout), "coqc", "-Q", THEORIES, "NP", "-Q", os.path.join(COQ, "gen"), "NPgen", fn],
                                     stdout=subprocess.PIPE, stderr=subprocess.PIPE, text=True, cwd=self.dir)
                running.append((p, fn, n))
            if running:
                if len(running) >= maxpar or not pending:
                    # wait for the oldest
                    p, fn, n = running[0]
                    try:
                        p.wait(timeout=timeout + 30)
                    except subprocess.TimeoutExpired:
                        p.kill()
                reap(False)
        self.coq_seconds += time.time() - t0
        if errors:
            raise RuntimeError("coqc evaluation failed:\n" + "\n".join(errors[:5]))
        return out

    def eval_term(self, term: str, timeout: int = 300) -> str:
        """evaluate one term, return the printed normal form (single line)"""
        fn = os.path.join(self.dir, f"term_{int(time.time() * 1e6)}.v")
        with open(fn, "w") as fh:
            fh.write(HEADER.format(extra=self.extra, extra_header=self.extra_header))
            fh.write(f"Eval vm_compute in ({term}).\n")
        r = subprocess.run(["timeout", str(timeout), "coqc", "-Q", THEORIES, "NP", "-Q", os.path.join(COQ, "gen"), "NPgen", fn],
                           capture_output=True, text=True, cwd=self.dir)
        if r.returncode != 0:
            raise RuntimeError(f"coqc failed: {r.stderr[-2000:]}")
        return " ".join(r.stdout.split())


def stable_hash(obj) -> str:
    return hashlib.sha1(json.dumps(obj, sort_keys=True, default=str).encode()).hexdigest()[:12]
