"""Known findings: committed list of genuine, unrepaired defects (/verif/known_findings.json).
An entry identifies a defect by call site(s) (ops) + a NAMED trigger predicate on the failing
case's input facts + a NAMED failure mode.  The sets of predicates and modes are closed and
defined here; the file is never written at run time."""
from __future__ import annotations

import json
import os

PATH = "/verif/known_findings.json"

# trigger predicates over case["meta"] (facts about the input, measured by the harness)
TRIGGERS = {
    "always": lambda m: True,
    "hidden_children": lambda m: bool(m.get("hidden_children")),
    "not_single_zero_based_chunk": lambda m: (m.get("num_chunks", 1) != 1) or (not m.get("zero_based", True)),
    "has_missing_row": lambda m: m.get("missing", 0) > 0,
    "repeated_labels": lambda m: bool(m.get("repeated_labels")),
    "inplace_false_multiline": lambda m: bool(m.get("multiline")) and not m.get("inplace"),
    "backtick_whole_path": lambda m: bool(m.get("backtick_whole_path")),
    "separate_bases": lambda m: bool(m.get("separate_bases")),
    "seq_as_scalar": lambda m: bool(m.get("seq_as_scalar")),
    "flat_index_equals_index": lambda m: bool(m.get("flat_index_equals_index")),
    "neg_step_slice": lambda m: bool(m.get("neg_step")),
}

# failure modes over the flags [A model=impl, B spec=impl, C monitors, S selfcheck] + meta
MODES = {
    "spec_differs": lambda fl, m: (not fl[1]),
    "impl_raises": lambda fl, m: (not fl[1]) and m.get("impl_raised") is True,
    "impl_wrong_value": lambda fl, m: (not fl[1]) and m.get("impl_raised") is False,
    "monitor": lambda fl, m: (not fl[2]),
    "any": lambda fl, m: (not fl[1]) or (not fl[2]),
}


def load():
    if not os.path.exists(PATH):
        return []
    data = json.load(open(PATH))
    out = []
    for e in data.get("findings", []):
        if e.get("status") != "open":
            continue
        assert e["trigger"] in TRIGGERS and e["mode"] in MODES, e
        out.append(e)
    return out


def match(kf, pid, case, flags):
    m = case.get("meta") or {}
    for e in kf:
        props = [e["property"]] + e.get("also", [])
        if pid not in props:
            continue
        if case.get("op") not in e["ops"]:
            continue
        if not TRIGGERS[e["trigger"]](m):
            continue
        if not MODES[e["mode"]](flags, m):
            continue
        return e
    return None


def stale(kf, pid, hits, cases):
    out = []
    for e in kf:
        props = [e["property"]] + e.get("also", [])
        if pid in props and e["id"] not in hits and e.get("expect_in", pid) == pid:
            out.append(e["id"])
    return out
