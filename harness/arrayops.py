"""Operation families on one nested column (array / accessor level), shared by the C05, C06,
C19, C01 and C04 streams.  Every function runs the REAL library on a generated input and returns
a case: the Coq term computing the flags [A model=impl, B spec=impl, C monitors, S selfcheck],
plus what is needed for evidence, replay and known-finding matching."""
from __future__ import annotations

import pickle

import numpy as np
import pandas as pd
import pyarrow as pa

from harness import core, gen
from harness.core import (attempt, cq_bool, cq_bools, cq_list, cq_lcol, cq_lrow, cq_lrows, cq_nats, cq_opt, cq_optZ,
                          cq_phys, cq_str, cq_strs, cq_vals, cq_Zs, cq_Z)
from nested_pandas.series.ext_array import NestedExtensionArray as NEA

# --------------------------------------------------------------------------------------


TNAME = {str(v): k for k, v in gen.TYPES.items()}


def warm(rng, arr):
    """read-only calls that give the object a chance to cache something"""
    for f in rng.sample([
        lambda: arr.list_offsets, lambda: arr.list_lengths, lambda: arr.flat_length,
        lambda: arr.chunked_list_struct_array, lambda: arr.get_list_index(), lambda: arr.field_names,
        lambda: pd.Series(arr).nest.to_flat(), lambda: pd.Series(arr).nest.to_lists(), lambda: arr.dtype,
        lambda: list(arr), lambda: arr.to_numpy(), lambda: len(arr), lambda: arr.isna(),
        lambda: arr.__arrow_array__(), lambda: arr.nbytes,
    ], rng.randint(2, 6)):
        try:
            f()
        except Exception:  # noqa: BLE001
            pass


def mutate_in_place(rng, arr):
    """one VALID in-place write on the object (never malformed); returns the object to go on with"""
    st = arr.chunked_array.type
    schema = [(f.name, TNAME[str(f.type.value_type)]) for f in st]
    n = len(arr)
    lens = [0 if x is None else x for x in pa.compute.list_value_length(
        pa.chunked_array([c.field(0) for c in arr.chunked_array.chunks])).to_pylist()]
    lens = [0 if v is None else ln for ln, v in zip(lens, arr.chunked_array.to_pylist())]
    kind = rng.choice(["setitem_int", "setitem_mask", "set_flat", "set_flat_new", "set_list", "fill", "pop", "copy", "pickle"])
    if kind == "setitem_int" and n:
        t = None if rng.random() < 0.2 else gen_table(rng, schema, n=rng.randint(0, 4))
        arr[rng.randrange(-n, n)] = table_to_value(rng, schema, t, "dict") if t is not None else None
    elif kind == "setitem_mask" and n:
        m = [rng.random() < 0.4 for _ in range(n)]
        k = sum(m)
        if k:
            ts = [None if rng.random() < 0.2 else gen_table(rng, schema, n=rng.randint(0, 3)) for _ in range(k)]
            arr[np.array(m, dtype=bool)] = NEA(pa.array(ts, type=st))
    elif kind in ("set_flat", "set_flat_new"):
        if kind == "set_flat":
            name, ty = rng.choice(schema)
        else:
            name, ty = rng.choice([x for x in ["h1", "h2", "h3"] if x not in dict(schema)] or ["h9"]), rng.choice(list(gen.TYPES))
        if len(schema) < 4 or kind == "set_flat":
            arr.set_flat_field(name, pa.array(values_of_type(rng, ty, sum(lens)), type=gen.TYPES[ty]))
    elif kind == "set_list":
        name, ty = rng.choice(schema)
        arr.set_list_field(name, pa.array([values_of_type(rng, ty, k) for k in lens], type=pa.list_(gen.TYPES[ty])))
    elif kind == "fill":
        name, ty = rng.choice(schema)
        arr.fill_field_lists(name, pa.array(values_of_type(rng, ty, n, 0.1), type=gen.TYPES[ty]))
    elif kind == "pop" and len(schema) > 1:
        arr.pop_fields([rng.choice(schema)[0]])
    elif kind == "copy":
        arr = arr.copy()
    elif kind == "pickle":
        arr = pickle.loads(pickle.dumps(arr))
    return arr


def apply_history(rng, arr, steps):
    desc = []
    for _ in range(steps):
        warm(rng, arr)
        arr = mutate_in_place(rng, arr)
    warm(rng, arr)
    return arr


def mk_input(rng, max_rows=8, max_len=5, recipe=None, recipes=None, corner=None, content=None, max_fields=4):
    """generated content x layout -> real NestedExtensionArray + its read-backs.
    recipe 'history': the object has lived: reads (which may cache) interleaved with valid in-place writes,
    copies and pickling, all on ONE object; what is handed on is that object and its current storage."""
    if content is None:
        schema, rows = gen.gen_content(rng, max_rows=max_rows, max_len=max_len, corner=corner, max_fields=max_fields)
    else:
        schema, rows = content
    recipe = recipe or rng.choice(recipes or gen.LAYOUTS)
    history = recipe == "history"
    base_recipe = rng.choice([r for r in (recipes or gen.LAYOUTS) if r != "history"]) if history else recipe
    ca = gen.make_layout(rng, schema, rows, base_recipe)
    built = attempt(lambda: NEA(ca))
    history_failed = None
    if history and built[0] == "ok":
        try:
            arr = apply_history(rng, built[1], rng.randint(1, 4))
        except Exception as e:  # noqa: BLE001
            # a VALID read or in-place write failed on an object that has lived: that is a verdict, not a crash
            import traceback
            history_failed = f"{type(e).__name__}: {e}; " + " | ".join(traceback.format_exc().splitlines()[-6:])
            arr = built[1]
        if any(str(f.type.value_type) not in TNAME for f in arr.chunked_array.type):
            # valid steps with values of the catalogue's types never leave a field of another element type: a verdict
            history_failed = history_failed or f"after valid steps the object's type is {arr.chunked_array.type} (an element type outside the offered ones)"
            arr = NEA(ca)
        built = ("ok", arr)
        ca = arr.chunked_array
        schema = [(f.name, TNAME[str(f.type.value_type)]) for f in ca.type]
        rows = ca.to_pylist()
        for r in rows:
            if r is not None:
                for (nm, ty) in schema:
                    if r[nm] is None:
                        # valid steps on a well-formed object never store a present row over a null list: a verdict
                        history_failed = history_failed or f"after valid steps the object holds a present row whose list {nm!r} is null: {rows!r}"[:600]
                        r[nm] = []
                    if ty == "timestamp":
                        r[nm] = [None if v is None else pd.Timestamp(v) for v in r[nm]]
    inp = {"schema": schema, "rows": rows, "recipe": recipe, "ca": ca, "built": built}
    if history_failed:
        inp["history_failed"] = history_failed
    if built[0] == "ok":
        arr = built[1]
        inp["arr"] = arr
        stored = arr.chunked_array
    else:
        stored = ca
    inp["ph"] = core.phys(stored)
    inp["lg"] = core.logical(ca)
    inp["st"] = core.phys_stats(inp["ph"])
    inp["P"] = cq_phys(inp["ph"])
    inp["L"] = cq_lcol(inp["lg"])
    return inp


def history_failure_case(inp):
    """a valid operation raised during the life of a 'history' object"""
    return {"stream": "arrayops", "op": "history", "term": "[true; false; true; true]",
            "input": dict(input_repr(inp), history_error=inp["history_failed"]), "impl_repr": inp["history_failed"],
            "meta": base_meta(inp, impl_raised=True), "sig": ["history_failed"], "trivial": True,
            "hist": {"op": "history_failed", "layout": "history"}}


def run_op(op, rng, inp):
    """one operation case; when the harness cannot even interpret what the library returned (an exception while reading the
    result back or building the case) that is a verdict about the library, not a crash of the check: the stream is run on
    the unchanged tree with many seeds without ever getting here"""
    import traceback
    try:
        return op(rng, inp)
    except Exception:  # noqa: BLE001
        tb = traceback.format_exc()
        return {"stream": "uninterpretable", "op": getattr(op, "__name__", "op"), "term": "[true; false; true; true]",
                "input": {"layout": inp.get("recipe"), "schema": inp.get("schema"), "rows": repr(inp.get("rows"))[:600]},
                "impl_repr": "the result of the operation could not be interpreted: " + tb[-600:],
                "meta": {"impl_raised": True}, "sig": ["uninterpretable", getattr(op, "__name__", "op")], "trivial": False,
                "hist": {"op": "uninterpretable", "layout": str(inp.get("recipe"))}}


def rows_repr(rows):
    return [None if r is None else {k: (None if v is None else [repr(x) for x in v]) for k, v in r.items()} for r in rows]


def input_repr(inp):
    return {"schema": inp["schema"], "rows": rows_repr(inp["rows"]), "layout": inp["recipe"]}


def base_meta(inp, **kw):
    m = dict(inp["st"], layout=inp["recipe"])
    m.update(kw)
    return m


def col_result(res):
    """('ok', NEA|ChunkedArray) | ('err', kind) -> (coq impl term, coq P' term, python logical, raised)"""
    if res[0] == "err":
        return "Err", "None", None, True
    obj = res[1]
    ca = obj.chunked_array if isinstance(obj, NEA) else obj
    lg = core.logical(ca)
    return f"(Ok {cq_lcol(lg)})", f"(Some {cq_phys(core.phys(ca))})", lg, False


def isolated(res, sources):
    """a result that is a NEW column must not share its object / storage binding with a source: an element
    assignment into the result must leave every source as it was (and the result must really change)"""
    if res[0] != "ok" or not isinstance(res[1], NEA) or len(res[1]) == 0:
        return True
    out = res[1]
    before = [repr(a.chunked_array.to_pylist()) for a in sources]
    probe = out.copy()
    try:
        out2 = out          # write into the result object itself
        keep = repr(out2.chunked_array.to_pylist())
        saved = out2.chunked_array
        out2[0] = None if out2.chunked_array.to_pylist()[0] is not None else {f.name: [] for f in out2.chunked_array.type}
        ok = all(repr(a.chunked_array.to_pylist()) == b for a, b in zip(sources, before))
        # restore the result for the read-back that follows
        out2._replace_chunked_array(saved, validate=False)
        return ok and repr(out2.chunked_array.to_pylist()) == keep and repr(probe.chunked_array.to_pylist()) == keep
    except Exception:  # noqa: BLE001
        return True


def col_case(inp, op, model_term, spec_term, res, args_repr, py_agree=True, trivial=False, extra_meta=None,
             monitor_term="true", sources=None):
    if sources is not None and not isolated(res, sources):
        py_agree = False
        args_repr = dict(args_repr, isolation="an element assignment into the result changed a source column")
    impl_term, pq, lg2, raised = col_result(res)
    term = (f"(let P := {inp['P']} in let L := {inp['L']} in "
            f"match chk_col P L ({model_term}) ({spec_term}) {impl_term} {pq} with "
            f"[a; b; c; s] => [a; b && {cq_bool(py_agree)}; c && {monitor_term}; s] | l => l end)")
    meta = base_meta(inp, impl_raised=raised, **(extra_meta or {}))
    return {
        "_result": res[1] if (res[0] == "ok" and isinstance(res[1], NEA)) else None,
        "stream": "arrayops", "op": op, "term": term,
        "input": dict(input_repr(inp), args=args_repr),
        "impl_repr": ("raised " + res[1]) if raised else {"valid": lg2["valid"], "cols": [[[repr(x) for x in l] for l in c] for c in lg2["cols"]]},
        "meta": meta,
        "sig": [op, inp["recipe"], len(inp["rows"]), len(inp["schema"]), inp["st"]["missing"], raised, str(args_repr)[:40]],
        "trivial": trivial or raised,
        "hist": {"op": op, "layout": inp["recipe"], "rows": len(inp["rows"]), "raised": raised,
                 "chunks": inp["st"]["num_chunks"]},
    }


def refused_means_unchanged(obj, fn):
    """run an in-place operation on obj; if it RAISES, the object must be exactly as before - otherwise the (changed) object is
    returned as if the operation had succeeded, so that the verdict sees what was stored"""
    before = repr(obj.chunked_array.to_pylist()), str(obj.chunked_array.type)
    attempt(lambda: summary_views(obj))            # reads that an implementation may cache: taken BEFORE the write
    try:
        fn()
    except Exception:
        after = repr(obj.chunked_array.to_pylist()), str(obj.chunked_array.type)
        if after != before:
            return obj
        raise
    # ... and compared AFTER it with the same reads on a fresh array over the same storage
    # (a validating construction: it also normalises the layout - a missing row holds nothing - so a write that leaves elements
    # hidden under a missing row shows up as a difference in the offsets-based quantities)
    fresh = attempt(lambda: summary_views(type(obj)(obj.chunked_array)))
    if fresh[0] == "ok":
        mine = attempt(lambda: summary_views(obj))
        assert mine[0] == "ok" and mine[1] == fresh[1], \
            f"after an in-place write the object answers {mine[1] if mine[0] == 'ok' else mine} where a fresh array over the same storage answers {fresh[1]}"
    return obj


def summary_views(a):
    """the summary quantities of an array (what an implementation might memoize)"""
    return {"len": len(a), "isna": [bool(x) for x in a.isna()], "hasna": bool(a._hasna),
            "list_lengths": [int(x) for x in a.list_lengths], "flat_length": int(a.flat_length),
            "list_offsets": a.list_offsets.to_pylist(), "list_index": [int(x) for x in a.get_list_index()],
            "field_names": list(a.field_names), "dtype": str(a.dtype)}


def plain_rows(inp):
    """the plain Python list of rows (the property's own oracle for C05)"""
    names = [n for n, _ in inp["schema"]]
    out = []
    for r in inp["rows"]:
        out.append(None if r is None else [list(r[n] or []) for n in names])
    return out


def lg_to_rows(lg):
    n = len(lg["valid"])
    return [([col[i] for col in lg["cols"]] if lg["valid"][i] else None) for i in range(n)]


def same_rows(a, b):
    return cq_lrows(a) == cq_lrows(b)


# --------------------------------------------------------------------------------------
# C05: selection


def gen_int(rng, n):
    return rng.randint(-n - 1, n)


def gen_slice(rng, n):
    def part():
        return None if rng.random() < 0.3 else rng.randint(-n - 2, n + 2)
    step = None if rng.random() < 0.4 else rng.choice([1, 2, 3, -1, -2, -3])
    if n >= 2 and rng.random() < 0.25:
        # a start below -n with a finite stop inside the column (python clamps the start to 0, the stop stays)
        return -n - rng.randint(1, 3), rng.choice([rng.randint(1, n - 1), -rng.randint(1, n - 1)]), rng.choice([None, 1])
    return part(), part(), step


def op_getitem_int(rng, inp):
    arr, n = inp["arr"], len(inp["rows"])
    z = gen_int(rng, n)
    st = inp["ca"].type
    res = attempt(lambda: core.df_to_lrow(arr[z], st))
    rows = plain_rows(inp)
    try:
        expect = ("ok", rows[z])
    except IndexError:
        expect = ("err", "IndexError")
    impl = f"(Ok {cq_lrow(res[1])})" if res[0] == "ok" else "Err"
    agree = (res[0] == expect[0]) and (res[0] == "err" or cq_lrow(_denan_row(expect[1])) == cq_lrow(res[1]))
    term = (f"(let P := {inp['P']} in let L := {inp['L']} in match chk_row P L (m_getitem_int P {cq_Z(z)}) "
            f"(spec_col_getitem_int L {cq_Z(z)}) {impl} with [a; b; c; s] => [a; b && {cq_bool(agree)}; c; s] | l => l end)")
    return {"stream": "arrayops", "op": "getitem_int", "term": term, "input": dict(input_repr(inp), args={"i": z}),
            "impl_repr": str(res)[:300], "meta": base_meta(inp, impl_raised=res[0] == "err"),
            "sig": ["getitem_int", inp["recipe"], n, z], "trivial": res[0] == "err",
            "hist": {"op": "getitem_int", "layout": inp["recipe"], "raised": res[0] == "err"}}


def _denan_row(r):
    import math
    if r is None:
        return None
    return [[None if (isinstance(v, float) and math.isnan(v)) else v for v in f] for f in r]


def op_getitem_slice(rng, inp):
    arr, n = inp["arr"], len(inp["rows"])
    a, b, s = gen_slice(rng, n)
    res = attempt(lambda: arr[slice(a, b, s)])
    rows = plain_rows(inp)
    expect = rows[slice(a, b, s)]
    agree = res[0] == "ok" and same_rows(lg_to_rows(core.logical(res[1].chunked_array)), expect)
    args = f"{cq_optZ(a)} {cq_optZ(b)} {cq_optZ(s)}"
    return col_case(inp, "getitem_slice", f"m_getitem_slice P {args}", f"spec_col_slice L {args}", res,
                    {"slice": [a, b, s]}, py_agree=agree, sources=[arr], trivial=(len(expect) == n and s in (None, 1)) or not expect)


def op_getitem_mask(rng, inp):
    arr, n = inp["arr"], len(inp["rows"])
    wrong_len = rng.random() < 0.08
    m = [rng.random() < 0.5 for _ in range(n + (rng.choice([-1, 1]) if wrong_len else 0) if n or not wrong_len else 1)]
    if rng.random() < 0.1:
        m = [False] * len(m)
    res = attempt(lambda: arr[np.array(m, dtype=bool)])
    rows = plain_rows(inp)
    if len(m) == n:
        expect = [r for r, k in zip(rows, m) if k]
        agree = res[0] == "ok" and same_rows(lg_to_rows(core.logical(res[1].chunked_array)), expect)
    else:
        agree = res[0] == "err"
    return col_case(inp, "getitem_mask", f"m_getitem_mask P {cq_bools(m)}", f"spec_col_mask L {cq_bools(m)}", res,
                    {"mask": m}, py_agree=agree, sources=[arr], trivial=all(m) or not any(m))


def op_getitem_idx(rng, inp, force=None):
    arr, n = inp["arr"], len(inp["rows"])
    k = rng.randint(0, 6)
    oob = rng.random() < 0.1
    ix = [rng.randint(-n, n - 1) if n else 0 for _ in range(k)] if (n or oob) else []
    if oob and ix:
        ix[rng.randrange(len(ix))] = rng.choice([n, -n - 1, n + 3])
    if n == 0 and not oob:
        ix = []
    if n and not oob and rng.random() < 0.3:
        # constant keys: every position the same one (all zero, all the last, all -1)
        ix = [rng.choice([0, 0, 0, n - 1, -1])] * rng.randint(1, 3)
    if force == "zeros" and n:
        ix = [0] * rng.randint(1, 3)           # an integer key holding only zeros selects row 0 that many times (it is not a mask)
    res = attempt(lambda: arr[np.array(ix, dtype=np.int64)])
    rows = plain_rows(inp)
    try:
        expect = [rows[i] for i in ix]
        agree = res[0] == "ok" and same_rows(lg_to_rows(core.logical(res[1].chunked_array)), expect)
    except IndexError:
        agree = res[0] == "err"
    return col_case(inp, "getitem_idx", f"m_getitem_idx P {cq_Zs(ix)}", f"spec_col_idx L {cq_Zs(ix)}", res,
                    {"indices": ix}, py_agree=agree, sources=[arr], trivial=not ix)


def gen_table(rng, schema, n=None, ragged=False, nan_ok=False):
    n = rng.randint(0, 3) if n is None else n
    t = {}
    for name, ty in schema:
        vals = []
        for _ in range(n):
            v = gen.gen_value(rng, ty)
            while not nan_ok and isinstance(v, float) and v != v:
                v = gen.gen_value(rng, ty)
            vals.append(v)
        t[name] = vals
    if ragged and len(schema) > 1:
        name = rng.choice([nm for nm, _ in schema])
        t[name] = t[name] + [next(v for v in iter(lambda: gen.gen_value(rng, dict(schema)[name]), "§") if v == v)]
    return t


LAST_FORM = [None]


def numpy_like_form(form):
    """does pa.scalar / pa.array(..., from_pandas=True) read NaN as missing for a row offered in this form?  python lists and
    pandas tables do (the table's columns are converted through pandas), Arrow arrays inside a dict are taken as they are"""
    return form != "dict_arrow"


def denan_lrow(r, numpy_like):
    if r is None or not numpy_like:
        return r
    return [[None if (isinstance(v, float) and v != v) else v for v in f] for f in r]


def cq_lrow_conv(r, numpy_like):
    """the offered row as the model sees it: the conversion is the model's (ExtArray.from_pandas)"""
    return f"(option_map (map (from_pandas {cq_bool(numpy_like)})) {cq_lrow(r)})"


LAST_ORDER = [None]


def table_to_value(rng, schema, t, form=None):
    """python-level value offered to the library for one row (the chosen form is left in LAST_FORM)"""
    if t is None:
        LAST_FORM[0] = "na"
        return rng.choice([None, pd.NA])
    form = form or rng.choice(["dict", "df_arrow", "df_arrow", "dict_arrow"])
    LAST_FORM[0] = form
    # a table is a table whatever the order of its columns: now and then offered in another order than the fields of the column
    order = list(zip(schema, t.values()))
    LAST_ORDER[0] = None
    if len(order) > 1 and rng.random() < 0.5:
        k = rng.randint(1, len(order) - 1)
        order = order[k:] + order[:k]          # never the identity
    LAST_ORDER[0] = [k_ for (k_, _), _ in order]
    if form == "dict":
        return {k: list(v) for (k, _), v in order}
    if form == "dict_arrow":
        return {k: pa.array(v, type=gen.TYPES[ty]) for (k, ty), v in order}
    lens = {len(v) for v in t.values()}
    if len(lens) > 1:
        return {k: list(v) for k, v in t.items()}  # a ragged DataFrame cannot exist
    return pd.DataFrame({k: pd.array(v, dtype=pd.ArrowDtype(gen.TYPES[ty])) for (k, ty), v in order})


def table_to_lrow(schema, t):
    return None if t is None else [list(t[n]) for n, _ in schema]


def op_take(rng, inp):
    arr, n = inp["arr"], len(inp["rows"])
    schema = inp["schema"]
    allow_fill = rng.random() < 0.5
    k = rng.randint(0, 6)
    lo = -1 if allow_fill else -n
    ix = [rng.randint(lo, n - 1) for _ in range(k)] if n else ([-1] * k if allow_fill else [])
    r = rng.random()
    if r < 0.1 and ix:
        ix[rng.randrange(len(ix))] = rng.choice([n, n + 2])
    elif r < 0.2 and ix:
        ix[rng.randrange(len(ix))] = -2 if allow_fill else -n - 1
    if n >= 2 and rng.random() < 0.25:
        # a run of CONSECUTIVE positions crossing zero (what reindex / shift-like callers produce)
        start = -1 if allow_fill else rng.randint(-min(n, 3), -1)
        ix = list(range(start, start + rng.randint(2, min(n, 4) + 1)))
        ix = [j for j in ix if j < n]
    if n >= 4 and rng.random() < 0.2:
        # a permutation of a run of positions with its end points in place and the middle NOT in order (what sorting rows whose
        # smallest key is first and largest last asks for): looks like a contiguous run to a test of the end points
        a, b = 0, rng.randint(3, n - 1)
        mid = list(range(a + 1, b))
        while mid == sorted(mid):
            rng.shuffle(mid)
        ix = [a] + mid + [b]
    if n >= 2 and not allow_fill and rng.random() < 0.35:
        # positions in non-decreasing order WITH repeats (negative ones spelled from the end): every one of them is a row of the result
        ix = sorted(rng.randint(0, n - 1) for _ in range(rng.randint(2, 6)))
        ix[rng.randrange(1, len(ix))] = ix[0]
        ix.sort()
        if rng.random() < 0.3:
            ix[0] = ix[0] - n
    fill_t = None
    fill_kind = "none"
    if allow_fill and rng.random() < 0.6:
        fill_kind = "table" if rng.random() < 0.85 else "ragged"
        fill_t = gen_table(rng, schema, ragged=(fill_kind == "ragged"))
    fill_val = table_to_value(rng, schema, fill_t) if fill_t is not None else None
    res = attempt(lambda: arr.take(np.array(ix, dtype=np.int64), allow_fill=allow_fill, fill_value=fill_val))
    fill_lrow = table_to_lrow(schema, fill_t)
    m_fill = cq_opt(fill_lrow, lambda r_: cq_list(cq_vals(f) for f in r_))
    args = f"{cq_Zs(ix)} {cq_bool(allow_fill)}"
    return col_case(inp, "take", f"m_take P {args} {m_fill}", f"spec_col_take L {args} {cq_lrow(fill_lrow)}", res,
                    {"indices": ix, "allow_fill": allow_fill, "fill": fill_kind if fill_t is not None else None},
                    trivial=not ix, sources=[arr])


def op_concat(rng, inp):
    schema = inp["schema"]
    others = [inp]
    all_empty = rng.random() < 0.3      # [] + rows: a concatenation is a NEW column also when only one part has rows
    for _ in range(rng.randint(1, 2)):
        rows = gen.gen_rows(rng, schema, 0 if all_empty else rng.randint(0, 4))
        others.append(mk_input(rng, content=(schema, rows), recipes=list(gen.LAYOUTS)))
    rng.shuffle(others)
    res = attempt(lambda: NEA._concat_same_type([o["arr"] for o in others]))
    ps = cq_list(o["P"] for o in others)
    ls = cq_list(o["L"] for o in others)
    c = col_case(inp, "concat", f"m_concat {ps}", f"spec_col_concat {ls}", res,
                 {"n_arrays": len(others), "layouts": [o["recipe"] for o in others]}, sources=[o["arr"] for o in others])
    return c


def op_simple(rng, inp, which=None):
    arr = inp["arr"]
    which = which or rng.choice(["copy", "dropna", "pickle"])
    if which == "copy":
        res = attempt(lambda: arr.copy())
        return col_case(inp, "copy", "m_copy P", "Ok L", res, {}, sources=[arr])
    if which == "dropna":
        res = attempt(lambda: arr.dropna())
        return col_case(inp, "dropna", "m_dropna P", "Ok (spec_col_dropna L)", res, {}, trivial=inp["st"]["missing"] == 0, sources=[arr])
    res = attempt(lambda: pickle.loads(pickle.dumps(arr)))
    return col_case(inp, "pickle", "m_pickle P", "Ok L", res, {}, sources=[arr])


def op_iterate(rng, inp):
    """iteration, length and position-by-position access: exactly the rows of the column, in order (boxed rows compared
    modulo NaN/null, which a pandas table cannot tell apart)"""
    arr, st = inp["arr"], inp["ca"].type

    def run():
        it = [core.df_to_lrow(x, st) for x in arr]
        ix = [core.df_to_lrow(arr[i], st) for i in range(len(arr))]
        rev = [core.df_to_lrow(arr[-1 - i], st) for i in range(len(arr))][::-1]
        assert len(it) == len(arr), "iteration yields another number of rows than len()"
        assert cq_lrows(it) == cq_lrows(ix) == cq_lrows(rev), "iteration differs from access by position"
        return it
    res = attempt(run)
    impl = cq_lrows(res[1]) if res[0] == "ok" else "[]"
    ok = cq_bool(res[0] == "ok")
    term = (f"(let P := {inp['P']} in let L := {inp['L']} in let impl := {impl} in "
            f"[{ok} && lrows_eqb (denan_rows (m_rows P)) impl; {ok} && lrows_eqb (denan_rows (rows_of L)) impl; true; true])")
    return {"stream": "arrayops", "op": "iterate", "term": term, "input": input_repr(inp), "impl_repr": str(res)[:600],
            "meta": base_meta(inp, impl_raised=res[0] == "err"), "sig": ["iterate", inp["recipe"], len(inp["rows"]), len(inp["schema"])],
            "trivial": len(inp["rows"]) == 0,
            "hist": {"op": "iterate", "layout": inp["recipe"], "rows": len(inp["rows"]), "raised": res[0] == "err",
                     "chunks": inp["st"]["num_chunks"]}}


# --------------------------------------------------------------------------------------
# C05 / C01: element assignment


def op_setitem(rng, inp, malformed=False, via_series=False, force_multi=False, force_ragged=False, force_vkind=None):
    arr, n = inp["arr"], len(inp["rows"])
    box_term = "true"
    schema = inp["schema"]
    kind = rng.choice(["int", "slice", "mask", "idx", "idx"])
    if via_series and kind == "slice":
        kind = "idx"   # pandas' own length check for slice keys (length_of_indexer) is not ours to verify
    neg_slice = False
    if force_multi and n >= 2:
        kind = rng.choice(["idx", "mask", "slice"])      # several DIFFERENT rows written to several targets (they may lie in different chunks)
        neg_slice = kind == "slice"
    # key
    if kind == "int":
        z = gen_int(rng, n) if (malformed or n == 0) else rng.randint(-n, n - 1)
        key, mkey, skey = z, f"(KInt {cq_Z(z)})", f"(AInt {cq_Z(z)})"
        try:
            targets = [range(n)[z]]
        except IndexError:
            targets = None
    elif kind == "slice":
        a, b, s = gen_slice(rng, n)
        if neg_slice:
            # a slice with a NEGATIVE step over at least two targets: the values are consumed from the end
            s = rng.choice([-1, -1, -2])
            a, b = rng.choice([(None, None), (n - 1, None), (n - 1, 0), (-1, -n - 1)])
        key = slice(a, b, s)
        mkey = f"(KSlice {cq_optZ(a)} {cq_optZ(b)} {cq_optZ(s)})"
        skey = f"(ASlice {cq_optZ(a)} {cq_optZ(b)} {cq_optZ(s)})"
        targets = list(range(n)[key])
    elif kind == "mask":
        m = [rng.random() < (0.7 if force_multi else 0.4) for _ in range(n)]
        if malformed and rng.random() < 0.3:
            m = m + [True]
        key = np.array(m, dtype=bool)
        mkey, skey = f"(KMask {cq_bools(m)})", f"(AMask {cq_bools(m)})"
        targets = [i for i, x in enumerate(m) if x] if len(m) == n else None
    else:
        k = rng.randint(2 if (force_multi and n >= 2) else 0, min(n, 4))
        pos = rng.sample(range(n), k)
        ix = [p - n if rng.random() < 0.4 else p for p in pos]   # distinct targets, mixed signs
        if k >= 2 and not malformed and rng.random() < 0.25:
            # keys whose RAW values increase while their positions do not: negatives first (late rows), then small positives
            lo = sorted(rng.sample(range(n), k))
            split = rng.randint(1, k - 1)
            ix = [p - n for p in lo[split:]] + lo[:split]
        if malformed and ix and rng.random() < 0.5:
            ix[rng.randrange(len(ix))] = rng.choice([n, -n - 1])
        key = np.array(ix, dtype=np.int64)
        mkey, skey = f"(KIdx {cq_Zs(ix)})", f"(AIdx {cq_Zs(ix)})"
        try:
            targets = [range(n)[i] for i in ix]
        except IndexError:
            targets = None
    cnt = len(targets) if targets is not None else rng.randint(0, 2)
    # value
    seq_as_scalar = False
    vkind = rng.choice(["row", "row", "rows", "rows", "nea"])
    ragged = (malformed and rng.random() < 0.6) or force_ragged
    if ragged and not force_ragged and rng.random() < 0.4:
        vkind = "nea"          # the ragged row inside a raw Arrow (chunked) struct array
    if force_ragged:
        # a VALID key over at least one target and the right number of values: only the raggedness of one offered row is wrong
        vkind = force_vkind or rng.choice(["row", "rows", "nea", "nea"])
        if not targets:
            kind = "int"
            z = rng.randint(-n, n - 1) if n else 0
            key, mkey, skey = z, f"(KInt {cq_Z(z)})", f"(AInt {cq_Z(z)})"
            targets = [range(n)[z]] if n else []
            cnt = len(targets)
    if force_multi:
        vkind = rng.choice(["rows", "nea"])
    if via_series:
        # pandas interprets dict / DataFrame / list values itself before the array sees them: only
        # NA and a nested array of rows are handed through unchanged
        vkind = rng.choice(["row", "nea", "nea"])
        ragged = False
    if vkind == "row" or (cnt == 0 and rng.random() < 0.5 and not via_series and not force_multi):
        t = None if ((rng.random() < 0.25 and not force_ragged) or via_series) else gen_table(rng, schema, ragged=ragged, nan_ok=True)
        value = table_to_value(rng, schema, t)
        nl = numpy_like_form(LAST_FORM[0])
        if t is not None and LAST_ORDER[0] is not None:
            # the table as offered (its columns in the order they were offered) against the row the model is given (Box.v)
            box_term = (f"chk_box {cq_list(cq_str(nm_) for nm_, _ in schema)} "
                        f"{cq_list('(' + cq_str(k_) + ', ' + cq_vals(t[k_]) + ')' for k_ in LAST_ORDER[0])} "
                        f"{cq_list(cq_vals(t[nm_]) for nm_, _ in schema)}")
        mval = f"(SRow {cq_lrow_conv(table_to_lrow(schema, t), nl)})"
        sval = f"(ARow {cq_lrow_conv(table_to_lrow(schema, t), nl)})"
        vrows = [denan_lrow(table_to_lrow(schema, t), nl)] * cnt
        vdesc = {"kind": "row", "ragged": ragged and t is not None}
    else:
        m = cnt
        if malformed and rng.random() < 0.3 and cnt > 0:
            m = cnt - 1    # too few values
        ts = [None if rng.random() < 0.2 else gen_table(rng, schema, nan_ok=True) for _ in range(m)]
        if ragged and ts:
            j = rng.randrange(len(ts))
            ts[j] = gen_table(rng, schema, ragged=True, nan_ok=True)
        raw_hidden = vkind == "nea" and not ragged and rng.random() < 0.5
        if raw_hidden and ts:
            ts[rng.randrange(len(ts))] = None          # at least one missing entry (which will hide elements)
        lrows = [table_to_lrow(schema, t) for t in ts]
        if vkind == "nea" and ragged:
            # a raw Arrow struct array / chunked array holding a ragged row (Arrow itself does not mind): refused like any other value
            st = gen.struct_type(schema)
            whole = pa.array([None if t is None else t for t in ts], type=st)
            cut = rng.randint(0, len(ts))
            value = rng.choice([whole, pa.chunked_array([whole]), pa.chunked_array([whole]), pa.chunked_array([whole.slice(0, cut), whole.slice(cut)], type=st)])
            nls = [False] * len(ts)
        elif vkind == "nea" and not ragged:
            st = gen.struct_type(schema)
            if not raw_hidden:
                value = NEA(pa.array([None if t is None else t for t in ts], type=st))
                if rng.random() < 0.35:
                    value = value.chunked_array if rng.random() < 0.5 else pa.chunked_array(
                        [value.chunked_array.chunk(0).slice(0, len(ts) // 2), value.chunked_array.chunk(0).slice(len(ts) // 2)], type=st)
            else:
                # a raw Arrow struct array whose MISSING entries still span elements of the value buffers
                arrays_ = [pa.array([(t[nm] if t is not None else [v_ for v_ in (gen.gen_value(rng, ty_, 0) for _ in range(2))]) for t in ts],
                                    type=pa.list_(gen.TYPES[ty_])) for nm, ty_ in schema]
                value = pa.StructArray.from_arrays(arrays_, names=[nm for nm, _ in schema],
                                                   mask=pa.array([t is None for t in ts], type=pa.bool_())) if ts else pa.array([], type=st)
            nls = [False] * len(ts)             # an Arrow array: values as they are
        elif rng.random() < 0.3 and not ragged:
            value = pd.Series([table_to_value(rng, schema, t, "df_arrow") if t is not None else None for t in ts],
                              dtype=object)
            nls = [True] * len(ts)
        else:
            value, nls = [], []
            for t in ts:
                value.append(table_to_value(rng, schema, t))
                nls.append(numpy_like_form(LAST_FORM[0]))
        if not isinstance(value, (NEA, pa.Array, pa.ChunkedArray)) and not any(isinstance(v, pd.DataFrame) for v in value):
            # a sequence without tables is first offered to Arrow AS A WHOLE (pa.array(seq, type), no from_pandas): when that
            # works NaN stays a value in every element; only when it fails are the elements converted one by one
            bulk = attempt(lambda: pa.array(value, type=gen.struct_type(schema)))
            if bulk[0] == "ok":
                nls = [False] * len(ts)
        conv = cq_list(cq_lrow_conv(r, b) for r, b in zip(lrows, nls))
        mval, sval = f"(SRows {conv})", f"(ARows {conv})"
        vrows = [denan_lrow(r, b) for r, b in zip(lrows, nls)]
        vdesc = {"kind": vkind, "n": m, "ragged": ragged}
        # pa.array(value, type=struct) accepts an EMPTY DataFrame element as a struct with null fields
        # (a non-empty one makes it fail and the library falls back to boxing row by row), and an
        # empty sequence boxes as one struct scalar: known finding KF-setitem-sequence-as-scalar
        seq = list(value) if not isinstance(value, (NEA, pa.Array, pa.ChunkedArray)) else None
        seq_as_scalar = m == 0 or seq is not None and (
            len(seq) == 0 or (all(v is None or v is pd.NA or (isinstance(v, pd.DataFrame) and len(v) == 0) for v in seq)
                              and any(isinstance(v, pd.DataFrame) for v in seq)))

    def run():
        a2 = arr.copy()
        if via_series:
            s = pd.Series(a2, copy=False)
            if isinstance(key, (int, np.integer)) or isinstance(key, slice):
                s.iloc[key] = value
            else:
                s.iloc[key] = value
            return s.array
        return refused_means_unchanged(a2, lambda: a2.__setitem__(key, value))

    res = attempt(run)
    # the plain-list oracle
    rows = plain_rows(inp)
    ok_expected = (targets is not None) and (len(targets) == 0 or (len(vrows) == len(targets) and not (ragged and any(
        r is not None and len({len(f) for f in r}) > 1 for r in vrows))))
    if targets is not None and len(targets) == 0:
        expect = rows
    elif ok_expected:
        expect = list(rows)
        for tpos, v in zip(targets, vrows):
            expect[tpos] = v
    else:
        expect = None
    if expect is not None:
        agree = res[0] == "ok" and same_rows(lg_to_rows(core.logical(res[1].chunked_array)), expect)
    else:
        agree = res[0] == "err"
    opname = "setitem_series" if via_series else "setitem"
    return col_case(inp, opname, f"m_setitem P {mkey} {mval}", f"spec_col_setitem L {skey} {sval}", res,
                    {"key_kind": kind, "key": str(key)[:80], "value": vdesc}, py_agree=agree, monitor_term=box_term,
                    trivial=(targets is not None and len(targets) == 0),
                    extra_meta={"key_kind": kind, "ragged_value": bool(ragged), "seq_as_scalar": seq_as_scalar,
                                "neg_step": kind == "slice" and (key.step or 1) < 0})


# --------------------------------------------------------------------------------------
# C06: field edits (array level, on a copy)


def new_field(rng, inp):
    schema = inp["schema"]
    existing = rng.random() < 0.5
    if existing:
        name, ty = rng.choice(schema)
        if rng.random() < 0.3:
            ty = rng.choice(list(gen.TYPES))      # replace with another type
        return name, ty, True
    name = rng.choice([x for x in ["new", "zz", "e", "f"] + gen.FIELD_NAMES if x not in dict(schema)])
    return name, rng.choice(list(gen.TYPES)), False


def values_of_type(rng, ty, n, null_p=0.15):
    out = []
    for _ in range(n):
        v = gen.gen_value(rng, ty, null_p)
        out.append(v)
    return out


def row_lengths(inp):
    names = [n for n, _ in inp["schema"]]
    return [0 if r is None else len(r[names[0]]) for r in inp["rows"]]


def op_set_flat(rng, inp, via="array", malformed=False):
    arr = inp["arr"]
    name, ty, existing = new_field(rng, inp)
    fl = sum(row_lengths(inp))
    keep = via == "array" and existing and rng.random() < 0.3
    if keep:
        ty = dict(inp["schema"])[name]
    scalar = rng.random() < 0.2 and ty != "timestamp"   # a Timestamp scalar goes through np.repeat (object, us precision)
    if scalar:
        v = gen.gen_value(rng, ty, 0)
        while v != v:                                      # NaN scalar: from_pandas=True makes it null
            v = gen.gen_value(rng, ty, 0)
        value = v
        mval, sval = f"(FScalar ({core.cq_val(core.tok(v))}))", f"(FVScalar ({core.cq_val(core.tok(v))}))"
        vdesc = {"scalar": repr(v)}
    else:
        m = fl + (rng.choice([-1, 1, 2]) if malformed else 0)
        vals = values_of_type(rng, ty, max(0, m))
        form = rng.choice(["pa", "pa_chunked", "series_arrow", "numpy", "list", "series_numpy"])
        if not vals and form == "pa_chunked":
            form = "pa"        # pa.array(<empty ChunkedArray>) infers the null type: Arrow's inference, not generated
        if form in ("numpy", "list", "series_numpy") and (ty in ("timestamp",) or (not keep and all(v is None for v in vals))):
            form = "pa"        # python / numpy values of these kinds are typed by Arrow's inference: not generated
        if form in ("numpy", "series_numpy") and ty in ("int64", "bool") and any(v is None for v in vals):
            form = "list"      # a numpy integer / boolean array cannot hold a missing value
        pa_arr = pa.array(vals, type=gen.TYPES[ty])
        numpy_like = form in ("numpy", "list", "series_numpy")
        if form == "pa":
            value = pa_arr
        elif form == "pa_chunked":
            cut = rng.randint(0, len(vals))
            value = pa.chunked_array([pa_arr[:cut], pa_arr[cut:]], type=gen.TYPES[ty])
        elif form == "series_arrow":
            value = pd.Series(pa_arr, dtype=pd.ArrowDtype(gen.TYPES[ty]))
        else:
            # what users mostly pass: numpy arrays, python lists, numpy-backed Series; NaN and None both mean "missing" there
            if ty == "double":
                py = [float("nan") if v is None else v for v in vals] if form != "list" else list(vals)
                npv = np.array(py, dtype=np.float64) if form != "list" else py
            elif ty == "string":
                npv = np.array(list(vals), dtype=object) if form != "list" else list(vals)
            else:
                npv = np.array(list(vals), dtype={"int64": np.int64, "bool": np.bool_}[ty]) if form != "list" else list(vals)
            value = pd.Series(npv) if form == "series_numpy" else npv
            if not keep and form == "list" and all(v is None or v != v for v in vals):
                value, numpy_like = pa_arr, False       # nothing to infer a type from
                form = "pa"
        conv = f"(from_pandas {cq_bool(numpy_like)} {cq_vals(vals)})"
        mval, sval = f"(FArray {conv})", f"(FVFlat {conv})"
        vdesc = {"flat": [repr(x) for x in vals], "form": form}
    ety = core.ETY[str(gen.TYPES[ty])]

    def run():
        if via == "array":
            a2 = arr.copy()
            return refused_means_unchanged(a2, lambda: a2.set_flat_field(name, value, keep_dtype=keep))
        s = pd.Series(arr, name="n", index=range(len(arr)))
        out = s.nest.with_flat_field(name, value) if via == "with_flat_field" else s.nest.with_field(name, value)
        assert out.name == "n" and list(out.index) == list(range(len(arr)))
        assert out.dtype == out.array.dtype, "series dtype differs from array dtype"
        return out.array

    res = attempt(run)
    return col_case(inp, "set_flat_field" if via == "array" else via,
                    f"m_set_flat_field P {cq_str(name)} {ety} {mval} {cq_bool(keep)}",
                    f"spec_col_set_flat L {cq_str(name)} {ety} {sval} {cq_bool(keep)}", res,
                    {"field": name, "type": ty, "existing": existing, "keep_dtype": keep, "value": vdesc},
                    trivial=fl == 0)


def op_set_lists(rng, inp, via="array", malformed=False):
    arr = inp["arr"]
    name, ty, existing = new_field(rng, inp)
    keep = via == "array" and existing and rng.random() < 0.3
    if keep:
        ty = dict(inp["schema"])[name]
    lens = row_lengths(inp)
    lists = [values_of_type(rng, ty, k) for k in lens]
    if malformed and lists:
        r = rng.random()
        if r < 0.65:
            j = rng.randrange(len(lists)) if rng.random() < 0.5 else 0   # often in the FIRST row (a first chunk when there are several)
            lists[j] = lists[j] + values_of_type(rng, ty, 1, 0)       # ragged against the other fields
        else:
            lists = lists[:-1]                                          # wrong number of rows
    elif malformed:
        lists = [[]]
    form = rng.choice(["pa", "pa_sliced", "series_arrow", "chunked_series"])
    lt = pa.list_(gen.TYPES[ty])
    if form == "pa_sliced":
        pad = [values_of_type(rng, ty, 2)]
        value = pa.array(pad + lists + pad, type=lt).slice(1, len(lists))
    elif form == "series_arrow":
        value = pd.Series(pa.array(lists, type=lt), dtype=pd.ArrowDtype(lt))
    elif form == "chunked_series":
        cut = rng.randint(0, len(lists))
        value = pd.Series(pa.chunked_array([pa.array(lists[:cut], type=lt), pa.array(lists[cut:], type=lt)], type=lt),
                          dtype=pd.ArrowDtype(lt))
    else:
        value = pa.array(lists, type=lt)
    # the model sees the physical list array the library will see after pa.array(value) + combine_chunks
    pv = pa.array(value, from_pandas=True) if not isinstance(value, (pa.Array, pa.ChunkedArray)) else value
    if isinstance(pv, pa.ChunkedArray):
        pv = pv.combine_chunks()
    mval = core.cq_larr(pv.offsets.to_pylist(), pv.is_valid().to_pylist(), core.child_values(pv.values))
    ety = core.ETY[str(gen.TYPES[ty])]

    def run():
        if via == "array":
            a2 = arr.copy()
            return refused_means_unchanged(a2, lambda: a2.set_list_field(name, value, keep_dtype=keep))
        s = pd.Series(arr, name="n", index=range(len(arr)))
        out = s.nest.with_list_field(name, value)
        assert out.name == "n" and list(out.index) == list(range(len(arr)))
        assert out.dtype == out.array.dtype, "series dtype differs from array dtype"
        return out.array

    res = attempt(run)
    # the same assignment with NO list (None) offered for the rows that hold no element: a present empty row stays a present empty
    # row, a missing row stays missing, every other field and the flat content are what the assignment with [] gives
    none_note, none_ok = "", True
    rows_now = inp["rows"]
    from nested_pandas.series import ext_array as _ext
    monitored = bool(getattr(_ext, "_verif_observers", None))    # C01's born-array monitor demands a list under every present row
    if not malformed and res[0] == "ok" and any(k == 0 for k in lens) and not monitored:
        lists2 = [None if (k == 0 and rng.random() < 0.8) else l for k, l in zip(lens, lists)]
        value2 = pa.array(lists2, type=lt)

        def run2():
            if via == "array":
                a2 = arr.copy()
                a2.set_list_field(name, value2, keep_dtype=keep)
                return a2
            return pd.Series(arr, name="n", index=range(len(arr))).nest.with_list_field(name, value2).array
        r2 = attempt(run2)

        def obs(a):
            s_ = pd.Series(a)
            fl = s_.nest.to_flat()
            return repr(([bool(x) for x in a.isna()], [int(x) for x in a.list_lengths], list(a.field_names),
                         {c: fl[c].array._pa_array.to_pylist() for c in fl.columns}, list(fl.index),
                         [None if (t is None or t is pd.NA) else len(t) for t in a]))
        if r2[0] != "ok":
            none_ok, none_note = False, f"None offered for element-free rows was refused: {r2[1]}"
        elif obs(r2[1]) != obs(res[1]):
            none_ok, none_note = False, f"None offered for element-free rows gives {obs(r2[1])[:300]} instead of {obs(res[1])[:300]}"
    return col_case(inp, "set_list_field" if via == "array" else via,
                    f"m_set_list_field P {cq_str(name)} {ety} {mval} {cq_bool(keep)}",
                    f"spec_col_set_lists L {cq_str(name)} {ety} {cq_list(cq_vals(l) for l in lists)} {cq_bool(keep)}", res,
                    {"field": name, "type": ty, "existing": existing, "keep_dtype": keep, "form": form,
                     "lists": [[repr(x) for x in l] for l in lists], **({"none_lists": none_note} if none_note else {})},
                    trivial=sum(lens) == 0, py_agree=none_ok)


def op_fill(rng, inp, via="array", malformed=False):
    arr, n = inp["arr"], len(inp["rows"])
    name, ty, existing = new_field(rng, inp)
    m = n + (rng.choice([-1, 1]) if malformed else 0)
    vals = values_of_type(rng, ty, max(0, m), null_p=0.1)
    form = rng.choice(["pa", "series_arrow"])
    pa_arr = pa.array(vals, type=gen.TYPES[ty])
    value = pa_arr if form == "pa" else pd.Series(pa_arr, dtype=pd.ArrowDtype(gen.TYPES[ty]))
    ety = core.ETY[str(gen.TYPES[ty])]

    def run():
        if via == "array":
            a2 = arr.copy()
            return refused_means_unchanged(a2, lambda: a2.fill_field_lists(name, value))
        s = pd.Series(arr, name="n", index=range(len(arr)))
        out = s.nest.with_filled_field(name, value)
        assert out.name == "n" and list(out.index) == list(range(len(arr)))
        assert out.dtype == out.array.dtype
        return out.array

    res = attempt(run)
    return col_case(inp, "fill_field_lists" if via == "array" else via,
                    f"m_fill_field_lists P {cq_str(name)} {ety} {cq_vals(vals)} false",
                    f"spec_col_fill L {cq_str(name)} {ety} {cq_vals(vals)} false", res,
                    {"field": name, "type": ty, "existing": existing, "values": [repr(x) for x in vals], "form": form},
                    trivial=sum(row_lengths(inp)) == 0)


def op_select_fields(rng, inp, via="array", malformed=False):
    arr = inp["arr"]
    names = [n for n, _ in inp["schema"]]
    pop = rng.random() < 0.5
    k = rng.randint(1, len(names))
    fields = rng.sample(names, k)
    if not malformed and not pop and rng.random() < 0.25:
        fields = list(names)            # every field, in the column's own order: still a NEW column
    if malformed:
        r = rng.random()
        if r < 0.4:
            fields = fields + ["nope"]
        elif r < 0.7 and not pop:
            fields = fields + [fields[0]]
        else:
            fields = list(names)
            pop = True
    if pop:
        def run():
            if via == "array":
                a2 = arr.copy()
                return refused_means_unchanged(a2, lambda: a2.pop_fields(fields))
            s = pd.Series(arr, name="n", index=range(len(arr)))
            out = s.nest.without_field(fields if len(fields) != 1 or rng.random() < 0.5 else fields[0])
            assert out.name == "n" and out.dtype == out.array.dtype
            return out.array
        res = attempt(run)
        return col_case(inp, "pop_fields" if via == "array" else "without_field", f"m_pop_fields P {cq_strs(fields)}",
                        f"spec_col_pop_fields L {cq_strs(fields)}", res, {"fields": fields})

    def run2():
        if via == "array":
            return arr.view_fields(fields if len(fields) != 1 or rng.random() < 0.5 else fields[0])
        s = pd.Series(arr, name="n", index=range(len(arr)))
        out = s.nest[fields]
        assert out.name == "n" and out.dtype == out.array.dtype
        return out.array
    res = attempt(run2)
    return col_case(inp, "view_fields" if via == "array" else "nest_getitem_list", f"m_view_fields P {cq_strs(fields)}",
                    f"spec_col_view_fields L {cq_strs(fields)}", res, {"fields": fields}, sources=[arr])
