"""Frame-level helpers shared by the C02, C07, C09-C13 streams: building a NestedFrame around a generated nested
column (any layout), snapshots of everything that must NOT change, record-major read-back, Coq printers."""
from __future__ import annotations

import numpy as np
import pandas as pd
import pyarrow as pa

from harness import arrayops as ao
from harness import core, gen
from harness.core import cq_list, cq_val, tok
from nested_pandas import NestedFrame
from nested_pandas.series.ext_array import NestedExtensionArray as NEA

LAYOUTS = list(gen.LAYOUTS) + ["history"]


def rows_rm(ca, names=None):
    """record-major logical read-back of a struct-of-lists ChunkedArray: per row None | list of records (tuples of python values)"""
    if isinstance(ca, pa.Array):
        ca = pa.chunked_array([ca])
    names = names or [f.name for f in ca.type]
    types = {f.name: f.type.value_type for f in ca.type}
    out = []
    for r in ca.to_pylist():
        if r is None:
            out.append(None)
            continue
        cols = []
        for nm in names:
            vals = r[nm] if r[nm] is not None else []
            if pa.types.is_timestamp(types[nm]):
                vals = core.child_values(pa.array(vals, type=types[nm]))
            cols.append(list(vals))
        k = len(cols[0]) if cols else 0
        out.append([[c[j] for c in cols] for j in range(k)])
    return out


def rows_from_gen(schema, rows):
    names = [n for n, _ in schema]
    out = []
    for r in rows:
        if r is None:
            out.append(None)
        else:
            k = len(r[names[0]])
            out.append([[r[nm][j] for nm in names] for j in range(k)])
    return out


def cq_record(rec) -> str:
    return cq_list(cq_val(tok(v)) for v in rec)


def cq_nrow(r) -> str:
    return "None" if r is None else "(Some " + cq_list(cq_record(x) for x in r) + ")"


def cq_nrows(rows) -> str:
    return cq_list(cq_nrow(r) for r in rows)


def cq_ftable(t) -> str:
    return cq_list(f"({core.cq_Z(k)}, {cq_record(rec)})" for k, rec in t)


def cq_res_nrows(res) -> str:
    return f"(Ok {cq_nrows(res[1])})" if res[0] == "ok" else "Err"


def label_codes(labels):
    """labels (ints or strs) -> integers preserving the order pandas uses (ints by value, strs lexicographically)"""
    if all(isinstance(x, (int, np.integer)) for x in labels):
        return {x: int(x) for x in labels}
    order = sorted(set(labels))
    return {x: i for i, x in enumerate(order)}


def make_frame(rng, inp, labels=None, label_kind=None, with_other=True):
    """NestedFrame with base columns x (row id), y, w and the nested column 'n' (layout of inp), optionally a second
    nested column 'other'"""
    n = len(inp["rows"])
    if labels is None:
        labels, label_kind = gen.gen_labels(rng, n, label_kind)
    nf = NestedFrame({"x": list(range(n)), "y": [rng.choice(["p", "q", "r"]) for _ in range(n)],
                      "w": pd.array([rng.choice([1, 2, 2, 3, None]) for _ in range(n)], dtype=pd.ArrowDtype(pa.int64()))},
                     index=gen.as_index(labels, label_kind))
    nf["n"] = pd.Series(inp["arr"], index=nf.index, name="n")
    if with_other:
        other_schema = [("q", "int64")]
        other_rows = gen.gen_rows(rng, other_schema, n, max_len=2)
        nf["other"] = pd.Series(NEA(pa.array(other_rows, type=gen.struct_type(other_schema))), index=nf.index, name="other")
    return nf, labels, label_kind


def snapshot(nf, skip=()):
    """everything observable of a frame except the columns in `skip`"""
    out = {}
    for c in nf.columns:
        if c in skip:
            continue
        col = nf[c]
        if hasattr(col.array, "chunked_array"):
            out[c] = ("nested", str(col.dtype), repr(col.array.chunked_array.to_pylist()))
        else:
            out[c] = ("base", str(col.dtype), [repr(x) for x in col.tolist()])
    return {"cols": out, "order": [c for c in nf.columns if c not in skip], "index": [repr(x) for x in nf.index],
            "index_name": nf.index.name, "type": type(nf).__name__}


def nested_rows(nf, col="n", names=None):
    return rows_rm(nf[col].array.chunked_array, names)
