"""Seeded generators: logical content of nested columns and composable physical layout recipes.
Every random choice derives from the one random.Random passed in."""
from __future__ import annotations

import io
import pickle
import os
import random

import numpy as np
import pandas as pd
import pyarrow as pa

TYPES = {
    "int64": pa.int64(),
    "double": pa.float64(),
    "string": pa.string(),
    "bool": pa.bool_(),
    "timestamp": pa.timestamp("ns"),
}
FIELD_NAMES = ["a", "b", "c", "d", "flux", "t", "band", "x1"]


def gen_value(rng: random.Random, tname: str, null_p=0.15):
    if rng.random() < null_p:
        return None
    if tname == "int64":
        return rng.choice([0, 1, 2, 3, -1, 7, 7, 100, -50, 2**40])
    if tname == "double":
        r = rng.random()
        if r < 0.1:
            return float("nan")
        return rng.choice([0.0, -0.0, 1.5, 2.5, 2.5, -3.25, 1e10, 0.1, 7.0])
    if tname == "string":
        return rng.choice(["", "g", "r", "r", "abc", "x y", "z"])
    if tname == "bool":
        return rng.random() < 0.5
    if tname == "timestamp":
        return pd.Timestamp(rng.choice([0, 1, 10**9, 10**15, 1_600_000_000 * 10**9]))
    raise ValueError(tname)


def gen_schema(rng: random.Random, max_fields=4, types=None):
    k = rng.randint(1, max_fields)
    names = rng.sample(FIELD_NAMES, k)
    types = types or list(TYPES)
    return [(n, rng.choice(types)) for n in names]


RESERVED_LOOKING = ["index", "level_0", "_index", "nt", "n", "n_b"]     # also names that begin like the nested column the streams call "n"


def spice_names(rng: random.Random, schema, p=0.12):
    """now and then one field carries a name pandas itself likes to use (reset_index / unnamed index): legal for a field"""
    if schema and rng.random() < p:
        k = rng.randrange(len(schema))
        schema = list(schema)
        schema[k] = (rng.choice(RESERVED_LOOKING), schema[k][1])
    return schema


def as_index(labels, kind):
    """the pandas index object for generated labels: a genuine RangeIndex for the range kinds"""
    if kind == "range_offset" and len(labels) >= 1:
        step = labels[1] - labels[0] if len(labels) > 1 else 1
        return pd.RangeIndex(labels[0], labels[0] + len(labels) * step, step)
    if kind == "range":
        return pd.RangeIndex(len(labels))
    return labels


def gen_rows(rng: random.Random, schema, nrows: int, max_len=5, missing_p=0.2, empty_p=0.2, null_p=0.15):
    """list of None | {field: list of values}"""
    rows = []
    for _ in range(nrows):
        r = rng.random()
        if r < missing_p:
            rows.append(None)
            continue
        n = 0 if r < missing_p + empty_p else rng.randint(1, max_len)
        rows.append({name: [gen_value(rng, t, null_p) for _ in range(n)] for name, t in schema})
    return rows


def gen_content(rng: random.Random, max_rows=8, max_fields=4, max_len=5, types=None, corner=None):
    schema = gen_schema(rng, max_fields, types)
    if corner == "zero_rows":
        return schema, []
    n = rng.randint(0, max_rows) if rng.random() < 0.9 else 0
    if corner == "all_missing":
        return schema, [None] * max(1, n)
    if corner == "all_empty":
        return schema, [{name: [] for name, _ in schema} for _ in range(max(1, n))]
    return schema, gen_rows(rng, schema, n, max_len)


def struct_type(schema):
    return pa.struct([pa.field(n, pa.list_(TYPES[t])) for n, t in schema])


# --------------------------------------------------------------------------------------
# layouts


def build_chunk(rng: random.Random, schema, rows, missing_enc="null"):
    """one fresh StructArray chunk. missing_enc: how the children of a missing row look:
    'null' (null lists), 'empty' (valid empty lists), 'hidden' (valid NON-empty lists)"""
    st = struct_type(schema)
    if missing_enc == "null" or not any(r is None for r in rows):
        return pa.array(rows, type=st)
    arrays = []
    hidden_len = {i: rng.randint(1, 3) for i, r in enumerate(rows) if r is None}
    # the lists under a missing row may themselves be NULL and still span elements of the value buffers (what
    # StructArray.flatten() of a hidden layout gives back): Arrow validates such arrays and calls them equal to the compact ones
    null_spans = missing_enc == "hidden_null" or (missing_enc == "hidden" and rng.random() < 0.4)
    mask = pa.array([r is None for r in rows], type=pa.bool_())
    for name, t in schema:
        lists = []
        for i, r in enumerate(rows):
            if r is not None:
                lists.append(r[name])
            elif missing_enc == "empty":
                lists.append([])
            else:
                lists.append([gen_value(rng, t) for _ in range(hidden_len[i])])
        la = pa.array(lists, type=pa.list_(TYPES[t]))
        if null_spans and len(rows) > 0:
            la = pa.ListArray.from_arrays(la.offsets, la.values, mask=mask)
        arrays.append(la)
    if len(rows) == 0:
        return pa.array(rows, type=st)
    return pa.StructArray.from_arrays(arrays, names=[n for n, _ in schema], mask=mask)


def random_cuts(rng, n, k):
    cuts = sorted(rng.randint(0, n) for _ in range(k - 1))
    return [0] + cuts + [n]


def pad_rows(rng, schema, k):
    from . import gen as _g  # noqa: F401

    return gen_rows(rng, schema, k, max_len=3, missing_p=0.1, empty_p=0.1)


LAYOUTS = ["fresh", "split_fresh", "split_view", "sliced", "take", "filter", "concat_slices",
           "missing_empty", "missing_hidden", "pickle", "empty_chunks", "sliced_chunks", "mixed_bases"]
if os.environ.get("VERIF_ONLY_LAYOUT"):      # development aid: exercise one layout recipe only
    LAYOUTS = [os.environ["VERIF_ONLY_LAYOUT"], "missing_hidden"]


def make_layout(rng: random.Random, schema, rows, recipe: str) -> pa.ChunkedArray:
    st = struct_type(schema)
    n = len(rows)
    if recipe == "fresh":
        return pa.chunked_array([build_chunk(rng, schema, rows)], type=st)
    if recipe == "split_fresh":  # every chunk allocated separately: offsets restart at 0
        k = rng.randint(2, 4)
        cuts = random_cuts(rng, n, k)
        return pa.chunked_array([build_chunk(rng, schema, rows[a:b]) for a, b in zip(cuts, cuts[1:])], type=st)
    if recipe == "split_view":  # chunks are windows of one buffer: offsets continue
        k = rng.randint(2, 4)
        cuts = random_cuts(rng, n, k)
        whole = build_chunk(rng, schema, rows)
        return pa.chunked_array([whole.slice(a, b - a) for a, b in zip(cuts, cuts[1:])], type=st)
    if recipe == "sliced":  # window into a larger buffer, non-zero offsets
        pre = pad_rows(rng, schema, rng.randint(1, 3))
        post = pad_rows(rng, schema, rng.randint(0, 2))
        whole = build_chunk(rng, schema, pre + rows + post)
        return pa.chunked_array([whole.slice(len(pre), n)], type=st)
    if recipe == "take":  # take of a permuted superset
        extra = pad_rows(rng, schema, rng.randint(0, 3))
        allrows = rows + extra
        perm = list(range(len(allrows)))
        rng.shuffle(perm)
        shuffled = [allrows[i] for i in perm]
        inv = {orig: pos for pos, orig in enumerate(perm)}
        base = pa.chunked_array([build_chunk(rng, schema, shuffled)], type=st)
        if n == 0:
            return base.take(pa.array([], type=pa.int64()))
        return base.take(pa.array([inv[i] for i in range(n)], type=pa.int64()))
    if recipe == "filter":
        keep = []
        allrows = []
        for r in rows:
            while rng.random() < 0.3:
                allrows.extend(pad_rows(rng, schema, 1))
                keep.append(False)
            allrows.append(r)
            keep.append(True)
        if not allrows:
            allrows = pad_rows(rng, schema, 2)
            keep = [False, False]
        base = pa.chunked_array([build_chunk(rng, schema, allrows)], type=st)
        return base.filter(pa.array(keep, type=pa.bool_()))
    if recipe == "concat_slices":
        k = rng.randint(2, 3)
        cuts = random_cuts(rng, n, k)
        chunks = []
        for a, b in zip(cuts, cuts[1:]):
            pre = pad_rows(rng, schema, rng.randint(0, 2))
            whole = build_chunk(rng, schema, pre + rows[a:b] + pad_rows(rng, schema, rng.randint(0, 1)))
            chunks.append(whole.slice(len(pre), b - a))
        return pa.chunked_array(chunks, type=st)
    if recipe == "mixed_bases":
        # every field allocated separately, each a window of its own buffer with its own base (what a row slice followed
        # by a field assignment produces); equal lengths per row, different first offsets
        if n == 0:
            return pa.chunked_array([build_chunk(rng, schema, rows)], type=st)
        arrays = []
        for name, t in schema:
            pre = [[gen_value(rng, t) for _ in range(rng.randint(1, 3))] for _ in range(rng.randint(0, 2))]
            lists = [([] if r is None else r[name]) for r in rows]
            whole = pa.array(pre + lists, type=pa.list_(TYPES[t]))
            arrays.append(whole.slice(len(pre), n))
        mask = pa.array([r is None for r in rows], type=pa.bool_())
        return pa.chunked_array([pa.StructArray.from_arrays(arrays, names=[nm for nm, _ in schema], mask=mask)], type=st)
    if recipe == "empty_as_null":
        # an EMPTY row stored as a present row of NULL lists (in some or all fields); Arrow arrays handed to the constructor
        # may look like this (pa.array([{'a': None, 'b': None}]))
        if n == 0:
            return pa.chunked_array([build_chunk(rng, schema, rows)], type=st)
        pre = pad_rows(rng, schema, rng.randint(0, 2))
        allrows = pre + rows
        arrays = []
        for name, t in schema:
            lists = []
            for r in allrows:
                if r is None:
                    lists.append(None)
                elif len(r[name]) == 0 and rng.random() < 0.7:
                    lists.append(None)
                else:
                    lists.append(r[name])
            arrays.append(pa.array(lists, type=pa.list_(TYPES[t])))
        mask = pa.array([r is None for r in allrows], type=pa.bool_())
        whole = pa.StructArray.from_arrays(arrays, names=[nm for nm, _ in schema], mask=mask)
        return pa.chunked_array([whole.slice(len(pre), n)], type=st)
    if recipe == "missing_empty":
        return pa.chunked_array([build_chunk(rng, schema, rows, "empty")], type=st)
    if recipe == "missing_hidden":
        return pa.chunked_array([build_chunk(rng, schema, rows, "hidden")], type=st)
    if recipe == "missing_hidden_null":      # (not in LAYOUTS: asked for by name) the lists under the missing rows are NULL and span elements
        return pa.chunked_array([build_chunk(rng, schema, rows, "hidden_null")], type=st)
    if recipe == "pickle":
        from nested_pandas.series.ext_array import NestedExtensionArray

        base = make_layout(rng, schema, rows, rng.choice(["split_fresh", "sliced", "fresh"]))
        arr = pickle.loads(pickle.dumps(NestedExtensionArray(base)))
        return arr.chunked_array
    if recipe == "empty_chunks":
        k = rng.randint(2, 3)
        cuts = random_cuts(rng, n, k)
        chunks = []
        for a, b in zip(cuts, cuts[1:]):
            if rng.random() < 0.5:
                chunks.append(build_chunk(rng, schema, []))
            chunks.append(build_chunk(rng, schema, rows[a:b]))
        chunks.append(build_chunk(rng, schema, []))
        return pa.chunked_array(chunks, type=st)
    if recipe == "sliced_chunks":
        k = rng.randint(2, 3)
        cuts = random_cuts(rng, n, k)
        pre = pad_rows(rng, schema, rng.randint(1, 2))
        whole = build_chunk(rng, schema, pre + rows)
        return pa.chunked_array([whole.slice(len(pre) + a, b - a) for a, b in zip(cuts, cuts[1:])], type=st)
    raise ValueError(recipe)


def parquet_layout(rng, schema, rows, tmpdir) -> pa.ChunkedArray:
    import os

    import pyarrow.parquet as pq

    st = struct_type(schema)
    tbl = pa.table({"n": pa.chunked_array([build_chunk(rng, schema, rows)], type=st)})
    path = os.path.join(tmpdir, f"layout_{rng.getrandbits(40)}.parquet")
    pq.write_table(tbl, path, row_group_size=max(1, rng.randint(1, max(1, len(rows)))))
    out = pq.read_table(path)["n"]
    os.remove(path)
    return out


def gen_labels(rng: random.Random, n: int, kind=None):
    kind = kind or rng.choice(["range", "sorted_unique", "unsorted_unique", "repeats", "str", "str_repeats", "range_offset"])
    if kind == "range":
        return list(range(n)), kind
    if kind == "range_offset":      # what a row slice of a default-indexed frame carries: a RangeIndex that does not start at 0 / has a step
        start, step = (0 if rng.random() < 0.4 else rng.randint(1, 9)), rng.choice([1, 1, 2, 3])
        if start == 0 and step == 1:
            step = 2             # never the identity (what frame.iloc[::2] carries starts at 0)
        return list(range(start, start + n * step, step)), kind
    if kind == "sorted_unique":
        return sorted(rng.sample(range(-20, 60), n)), kind
    if kind == "unsorted_unique":
        return rng.sample(range(-20, 60), n), kind
    if kind == "repeats":
        return [rng.choice([1, 2, 3, 5]) for _ in range(n)], kind
    if kind == "str":
        pool = ["a", "b", "c", "d", "e", "f", "g", "h", "i", "j", "k", "l", "m", "n", "o", "p", "q", "r", "s", "t",
                "u", "v", "w", "x", "y", "z", "aa", "ab", "ac", "ad", "ae", "af", "ag", "ah", "ai", "aj", "ak",
                "al", "am", "an", "ao", "ap"]
        return rng.sample(pool, n), kind
    return [rng.choice(["u", "v", "w"]) for _ in range(n)], "str_repeats"
