"""CLI of the verification machinery:  check <ID> [--tier quick|thorough] [--replay <path>]

Per run: (1) rebuild the Coq development (full .vo build, flock'd), hygiene grep; (2) compile the
property's Props/<ID>.v and capture Print Assumptions; (3) run the property's correspondence
stream against /repo/src as it is now; (4) classify failures, match known findings, write
replays and evidence, print VIOLATION / KNOWN-FINDING lines, exit 0/1."""
from __future__ import annotations

import argparse
import fcntl
import glob
import importlib
import json
import os
import random
import re
import subprocess
import sys
import time
import traceback

sys.path.insert(0, "/verif")
from harness import core  # noqa: E402
from harness import findings  # noqa: E402

HYGIENE = re.compile(r"\b(Admitted|admit|Axiom|Parameter|Conjecture|Unset Guard|bypass_check|type-in-type|"
                     r"Admit Obligations|impredicative-set)\b")


def build_coq() -> tuple[bool, str]:
    os.makedirs(core.RUN_ROOT, exist_ok=True)
    with open(os.path.join(core.COQ, ".lock"), "w") as lk:
        fcntl.flock(lk, fcntl.LOCK_EX)
        # the one regenerated input: pyarrow's alias catalogue (rewritten only when it changed)
        g = subprocess.run([sys.executable, os.path.join(core.VERIF, "tools", "gen_alias_table.py")], capture_output=True, text=True)
        if g.returncode != 0:
            return False, "alias table generation failed: " + g.stderr[-1500:]
        if not os.path.exists(os.path.join(core.COQ, "Makefile")):
            subprocess.run(["coq_makefile", "-f", "_CoqProject", "-o", "Makefile"], cwd=core.COQ, check=True,
                           capture_output=True)
        r = subprocess.run(["timeout", "1500", "make", "-j16"], cwd=core.COQ, capture_output=True, text=True)
        return r.returncode == 0, (r.stdout[-3000:] + r.stderr[-3000:])


def hygiene() -> list[str]:
    bad = []
    for fn in sorted(glob.glob(os.path.join(core.THEORIES, "**", "*.v"), recursive=True)):
        txt = open(fn).read()
        # strip comments
        txt = re.sub(r"\(\*.*?\*\)", "", txt, flags=re.S)
        for m in HYGIENE.finditer(txt):
            bad.append(f"{fn}: {m.group(0)}")
    proj = open(os.path.join(core.COQ, "_CoqProject")).read()
    if "type-in-type" in proj or "impredicative" in proj:
        bad.append("_CoqProject: forbidden flag")
    return bad


def props_file(pid: str) -> dict:
    """compile Props/<ID>.v, return theorem names and Print Assumptions output"""
    fn = os.path.join(core.THEORIES, "Props", f"{pid}.v")
    src = open(fn).read()
    src_nc = re.sub(r"\(\*.*?\*\)", "", src, flags=re.S)
    theorems = re.findall(r"^\s*Theorem\s+([A-Za-z0-9_']+)", src_nc, flags=re.M)
    r = subprocess.run(["timeout", "900", "coqc", "-Q", core.THEORIES, "NP", "-Q", os.path.join(core.COQ, "gen"), "NPgen", fn], capture_output=True, text=True,
                       cwd=core.COQ)
    ok = r.returncode == 0
    out = " ".join(r.stdout.split())
    closed = out.count("Closed under the global context")
    axioms = []
    if "Axioms:" in out:
        axioms = re.findall(r"Axioms: (.*?)(?=Closed under|Axioms:|$)", out)
    return {"file": fn, "theorems": theorems, "compiled": ok, "closed": closed, "axioms": axioms,
            "stderr": r.stderr[-2000:], "n_print_assumptions": src_nc.count("Print Assumptions")}


class Ctx:
    def __init__(self, pid, tier, seed, replay=None):
        self.pid = pid
        self.tier = tier
        self.seed = seed
        self.rng = random.Random(f"{pid}-{seed}")
        self.replay = replay
        self.runner = None
        self.scale = 1  # raised by the intensified search

    def budget(self, quick, thorough):
        return (quick if self.tier == "quick" else thorough) * self.scale


def write_replay(pid, case, flags, reason, seed, tier, extra=None) -> str:
    if os.environ.get("VERIF_NO_EVIDENCE"):
        core.REPLAYS = "/tmp/verif_mutant_replays"
    os.makedirs(core.REPLAYS, exist_ok=True)
    body = {"property": pid, "reason": reason, "seed": case.get("stream_seed", seed), "tier": tier, "cid": case.get("orig_cid", case.get("cid")),
            "stream": case.get("stream"), "flags[A model=impl, B spec=impl, C monitors, S selfcheck]": flags,
            "op": case.get("op"), "input": case.get("input"), "impl": case.get("impl_repr"),
            "meta": case.get("meta"), "coq_term": case.get("term"), "scale": case.get("scale", 1)}
    if extra:
        body.update(extra)
    h = core.stable_hash([pid, reason, case.get("op"), case.get("input"), case.get("impl_repr")])
    path = os.path.join(core.REPLAYS, f"{pid}-{h}.json")
    with open(path, "w") as fh:
        json.dump(body, fh, indent=1, default=str)
    return path


def run_stream(mod, ctx):
    """generate cases, evaluate them in Coq, return (cases, failing {cid: flags})"""
    cases = mod.generate(ctx)
    for i, c in enumerate(cases):
        c.setdefault("cid", i)
        c["scale"] = ctx.scale
    terms = [(c["cid"], c["term"]) for c in cases]
    failing = ctx.runner.evaluate(terms, shard=getattr(mod, "SHARD", 60))
    return cases, failing


def main():
    ap = argparse.ArgumentParser()
    ap.add_argument("pid")
    ap.add_argument("--tier", default=os.environ.get("VERIF_TIER", "quick"), choices=["quick", "thorough"])
    ap.add_argument("--replay", default=None)
    args = ap.parse_args()
    pid = args.pid
    seed = int(os.environ.get("VERIF_SEED", "0"))
    t0 = time.time()
    replay = None
    if args.replay:
        replay = json.load(open(args.replay))
        seed, tier = replay["seed"], replay["tier"]
        args.tier = tier
    ctx = Ctx(pid, args.tier, seed, replay)
    if replay:
        ctx.scale = replay.get("scale", 1)
    violations = []   # (replay path, suffix)
    known_lines = []
    notes = []

    # 1. proofs
    ok, log = build_coq()
    bad = hygiene()
    pf = {"theorems": [], "compiled": False, "closed": 0, "axioms": [], "n_print_assumptions": 0}
    if ok:
        pf = props_file(pid)
    proof_broken = None
    if not ok:
        proof_broken = "coq build failed: " + log[-1500:]
    elif bad:
        proof_broken = "hygiene: " + "; ".join(bad[:5])
    elif not pf["compiled"]:
        proof_broken = f"Props/{pid}.v does not compile: " + pf["stderr"]
    elif pf["axioms"]:
        proof_broken = f"Props/{pid}.v depends on axioms: {pf['axioms']}"
    elif pf["closed"] != pf["n_print_assumptions"] or pf["closed"] < len(pf["theorems"]):
        proof_broken = f"Props/{pid}.v: {pf['closed']} closed / {pf['n_print_assumptions']} Print Assumptions / {len(pf['theorems'])} theorems"

    # 2. correspondence stream
    mod = importlib.import_module(f"harness.streams.{pid.lower()}")
    ctx.runner = core.CoqRunner(pid, getattr(mod, "EXTRA_IMPORTS", ""), getattr(mod, "EXTRA_HEADER", ""))
    kf = findings.load()
    cases, failing = [], {}
    stream_error = None
    extra_seeds = []
    if ok:
        try:
            cases, failing = run_stream(mod, ctx)
            # the thorough tier explores two further seeds of the same stream (replays name the seed they came from)
            if args.tier == "thorough" and not replay and not os.environ.get("VERIF_SINGLE_SEED"):
                for k, s_extra in enumerate([seed + 7001, seed + 14002], start=1):
                    ctxk = Ctx(pid, args.tier, s_extra, None)
                    ctxk.runner = ctx.runner
                    cases_k, failing_k = run_stream(mod, ctxk)
                    off = k * 10_000_000
                    for c in cases_k:
                        c["orig_cid"] = c["cid"]
                        c["cid"] = off + c["cid"]
                        c["stream_seed"] = s_extra
                    cases.extend(cases_k)
                    failing.update({off + cid: fl for cid, fl in failing_k.items()})
                    extra_seeds.append(s_extra)
        except Exception:  # noqa: BLE001
            stream_error = traceback.format_exc()
    else:
        stream_error = "no coq build"

    by_cid = {c["cid"]: c for c in cases}
    if replay:
        cid = replay["cid"]
        c = by_cid.get(cid)
        if c is None:
            print(f"replay: case {cid} not regenerated")
            sys.exit(2)
        fl = failing.get(cid)
        print(json.dumps({"cid": cid, "op": c.get("op"), "input": c.get("input"), "impl": c.get("impl_repr"),
                          "flags": fl if fl else "all true (no longer failing)"}, indent=1, default=str))
        if fl and hasattr(mod, "detail_term"):
            print("detail:", ctx.runner.eval_term(mod.detail_term(c)))
        ctx.runner.cleanup()
        sys.exit(1 if fl else 0)

    broken_selfcheck = [cid for cid, fl in failing.items() if len(fl) >= 4 and not fl[3]]
    if stream_error or broken_selfcheck:
        # the harness itself is broken: not a verdict about the code
        print(f"BROKEN-CHECK property={pid}: " + (stream_error or f"self-check failed on cases {broken_selfcheck[:5]}"))
        if broken_selfcheck:
            c = by_cid[broken_selfcheck[0]]
            print(write_replay(pid, c, failing[c["cid"]], "selfcheck", seed, args.tier))
        ctx.runner.cleanup()
        sys.exit(2)

    if os.environ.get("VERIF_DEBUG"):
        for cid, fl in sorted(failing.items()):
            c = by_cid[cid]
            print("DEBUG failing", cid, fl, c.get("op"), json.dumps(c.get("meta"), default=str)[:300])
            if os.environ.get("VERIF_DEBUG") == "2":
                print("      input:", json.dumps(c.get("input"), default=str)[:1500])
                print("      impl :", json.dumps(c.get("impl_repr"), default=str)[:600])
                os.makedirs("/tmp/verif_debug", exist_ok=True)
                json.dump({"cid": cid, "coq_term": c["term"], "op": c.get("op"), "input": c.get("input")},
                          open(f"/tmp/verif_debug/{pid}-{cid}.json", "w"), default=str)
    # 3. classify
    cand = []      # B or C false
    corr = []      # only A false
    for cid, fl in sorted(failing.items()):
        c = by_cid[cid]
        if not fl[1] or not fl[2]:
            cand.append((c, fl))
        elif not fl[0]:
            corr.append((c, fl))
    # candidates that are not A-consistent also break the correspondence

    # known findings: witness replay + matching
    kf_hits = {}
    unmatched = []
    for c, fl in cand:
        k = findings.match(kf, pid, c, fl)
        # a finding the model predicts must keep flag A; one whose zone the model leaves out says so
        if k is not None and (fl[0] or k.get("model_covers") is False):
            kf_hits.setdefault(k["id"], []).append(c)
        else:
            unmatched.append((c, fl))

    # intensified search when only the correspondence (or a proof) is broken
    searched_extra = 0
    if (corr or proof_broken) and not unmatched:
        ctx2 = Ctx(pid, args.tier, seed + 1000003, None)
        ctx2.scale = 6
        ctx2.runner = ctx.runner
        try:
            cases2, failing2 = run_stream(mod, ctx2)
            searched_extra = len(cases2)
            by2 = {c["cid"]: c for c in cases2}
            for cid, fl in sorted(failing2.items()):
                c = by2[cid]
                c["stream_seed"] = ctx2.seed
                if (not fl[1] or not fl[2]) and len(fl) >= 4 and fl[3]:
                    k = findings.match(kf, pid, c, fl)
                    if k is None or not (fl[0] or k.get("model_covers") is False):
                        unmatched.append((c, fl))
        except Exception:  # noqa: BLE001
            notes.append("intensified search failed: " + traceback.format_exc()[-500:])

    if unmatched:
        # report the smallest failing input per (op, flags) class
        groups = {}
        for c, fl in unmatched:
            groups.setdefault((c.get("op"), tuple(fl)), []).append((c, fl))
        for key, items in groups.items():
            c, fl = min(items, key=lambda it: len(it[0]["term"]))
            path = write_replay(pid, c, fl, "spec-or-monitor-fails-on-implementation",
                                c.get("stream_seed", seed), args.tier)
            violations.append((path, ""))
    elif corr:
        c, fl = min(corr, key=lambda it: len(it[0]["term"]))
        path = write_replay(pid, c, fl, "correspondence-broken: model and implementation disagree, "
                            "spec still agrees with the implementation on every explored input", seed, args.tier,
                            {"correspondence": getattr(mod, "CORRESPONDENCE", "model≍impl"),
                             "extra_cases_searched": searched_extra})
        violations.append((path, " no-failing-input-found"))
    elif proof_broken:
        path = write_replay(pid, {"op": "proof", "input": None, "term": "", "stream": "proof"}, [],
                            "proof-obligation-broken", seed, args.tier,
                            {"theorem_file": f"coq/theories/Props/{pid}.v", "detail": proof_broken,
                             "extra_cases_searched": searched_extra})
        violations.append((path, " no-failing-input-found"))

    for kid, cs in kf_hits.items():
        k = next(x for x in kf if x["id"] == kid)
        known_lines.append(f"KNOWN-FINDING: property={pid} {kid}: {k['what']} ({len(cs)} case(s) this run)")
    # every open finding's witness is replayed by the stream's corpus; say so when it no longer fails
    stale = findings.stale(kf, pid, kf_hits, cases)
    for kid in stale:
        notes.append(f"known finding {kid} was not reproduced by this run")

    # 4. evidence
    sigs = set()
    for c in cases:
        if not c.get("trivial"):
            sigs.add(json.dumps(c.get("sig", [c.get("op")]), default=str))
    hist = {}
    for c in cases:
        for k2, v2 in (c.get("hist") or {}).items():
            hist.setdefault(k2, {})
            hist[k2][str(v2)] = hist[k2].get(str(v2), 0) + 1
    samples = [{"op": c.get("op"), "input": c.get("input"), "impl": c.get("impl_repr")}
               for c in cases[:: max(1, len(cases) // 4)][:4]]
    n_obl = max(1, len(pf["theorems"]))
    ev = {
        "property_id": pid, "tier": args.tier, "seed": seed, "level": "proof",
        "coverage": {
            "obligations": n_obl,
            "discharged": n_obl if (ok and not proof_broken) else 0,
            "checker_cmd": f"make -C /verif/coq (full .vo build) && coqc -Q /verif/coq/theories NP /verif/coq/theories/Props/{pid}.v",
            "trusted_base": [
                "Coq 8.16.1 kernel (coqc), vm_compute for case evaluation and _refuted witnesses; no native_compute",
                f"Print Assumptions of every theorem in Props/{pid}.v: " +
                ("Closed under the global context" if not pf["axioms"] else str(pf["axioms"])),
                "hand-written Gallina model of the Python code (coq/theories/*.v); tie = correspondence check of this run",
                "correspondence harness (/verif/harness): generators, physical read-back through pyarrow accessors, "
                "tokenisation, case printer, verdict reader",
                "contracts for Arrow kernels / pandas operations named in the theorem statements (see DESIGN.md section 8)",
            ],
            "theorems": pf["theorems"],
            "evaluations": len(cases) + searched_extra,
            "distinct_nontrivial": len(sigs),
            "rule": getattr(mod, "RULE", "one case = one generated input run through the real library and the Coq model/spec; "
                            "distinct = distinct (op, layout, shape) signature; non-trivial = result is neither an error nor the identity"),
            "samples": samples,
            "histograms": hist,
            "failing_cases": len(failing),
            "known_findings_confirmed": sorted(kf_hits),
            "notes": notes + ([f"further seeds explored by the thorough tier: {extra_seeds}"] if extra_seeds else []),
            "coq_seconds": round(ctx.runner.coq_seconds, 1),
        },
        "assumptions": getattr(mod, "ASSUMPTIONS", []),
        "wall_s": round(time.time() - t0, 1),
        "violations": len(violations),
    }
    os.makedirs(core.EVIDENCE, exist_ok=True)
    evdir = "/tmp/verif_mutant_evidence" if os.environ.get("VERIF_NO_EVIDENCE") else core.EVIDENCE   # mutation drills only
    os.makedirs(evdir, exist_ok=True)
    with open(os.path.join(evdir, f"{pid}.json"), "w") as fh:
        json.dump(ev, fh, indent=1, default=str)
    ctx.runner.cleanup()

    for line in known_lines:
        print(line)
    for n in notes:
        print("note:", n)
    for path, suffix in violations:
        print(f"VIOLATION property={pid} replay={path}{suffix}")
    print(f"{pid} {args.tier} seed={seed}: {len(cases)} cases, {len(failing)} failing, "
          f"{len(kf_hits)} known finding(s), {len(violations)} violation(s), "
          f"{len(pf['theorems'])} theorem(s) {'ok' if not proof_broken else 'BROKEN'}, {time.time() - t0:.0f}s")
    sys.exit(1 if violations else 0)


if __name__ == "__main__":
    main()
