"""C12 stream: dropna aimed at a nested layer removes exactly the incomplete records of every row (how / thresh / subset),
keeps every row, label, order and other column, rows left without records become missing; aimed at the base layer it is
pandas dropna on the base columns (a missing nested value counts as missing) with the surviving tables intact;
conflicting or multi-layer targets are refused."""
from __future__ import annotations

import pandas as pd
import pyarrow as pa

from harness import arrayops as ao
from harness import core, gen
from harness import frameops as fo
from harness.core import attempt, cq_bool, cq_bools, cq_list, cq_nats
from nested_pandas import NestedFrame

RULE = ("one case = one NestedFrame (all label kinds, nested column in one of 15 layouts, nulls in every field with p=.3, NaN) x one "
        "dropna call: target by on_nested / dotted subset / both / conflicting / two layers / base; how in {any, all, default}, thresh, "
        "subset of 1-3 fields, inplace or not; the whole result frame is compared (python snapshot of everything but the target, Coq on the "
        "target's rows: model m_dropna_nested, spec spec_filter_rows (complete how subset)); distinct = (target kind, how, subset size, "
        "layout, labels, sizes); non-trivial = some record or row is dropped and some is kept")
ASSUMPTIONS = ["a NaN in an Arrow-backed double field is a value, not a missing value (pandas' ArrowDtype isna), as observed"]
CORRESPONDENCE = "m_dropna_nested (Frame.v) vs NestedFrame.dropna"
EXTRA_IMPORTS = "Frame Targets"



def _uninterpretable(i, pid):
    """an exception while a case was being built from what the library returned: a verdict about the library (the stream runs
    on the unchanged tree with many seeds without ever getting here), not a crash of the check"""
    import traceback
    return {"stream": "uninterpretable", "op": "uninterpretable", "term": "[true; false; true; true]",
            "input": {"case_number": i}, "impl_repr": "the case could not be built / interpreted: " + traceback.format_exc()[-700:],
            "meta": {"impl_raised": True}, "sig": ["uninterpretable", pid, i], "trivial": False,
            "hist": {"op": "uninterpretable"}}


def generate(ctx):
    rng = ctx.rng
    cases = []
    for i in range(ctx.budget(140, 1300)):
        try:
            schema = gen.spice_names(rng, gen.gen_schema(rng, 4))
            n = rng.randint(0, 7 if ctx.tier == "quick" else 12)
            rows_g = gen.gen_rows(rng, schema, n, max_len=5, null_p=0.0 if i % 6 == 5 else 0.3)     # now and then: nothing to drop
            if i % 40 == 0:
                rows_g = []
            recipe = fo.LAYOUTS[i % len(fo.LAYOUTS)] if i < len(fo.LAYOUTS) else rng.choice(fo.LAYOUTS)
            inp = ao.mk_input(rng, content=(schema, rows_g), recipe=recipe, recipes=fo.LAYOUTS)
            if inp.get("history_failed"):
                cases.append(ao.history_failure_case(inp))
                continue
            if inp["built"][0] != "ok":
                continue
            schema = inp["schema"]
            names = [nm for nm, _ in schema]
            nf, labels, label_kind = fo.make_frame(rng, inp)
            rows = fo.rows_rm(inp["ca"])
            if i % 7 == 3 and len(rows) >= 2:
                # a frame that has been through a nested dropna / a flat view before and whose rows were then replaced IN PLACE by
                # tables of other lengths (the content below is the content AFTER that): what earlier reads may have remembered
                # (lengths, offsets, ordinals) must not matter
                attempt(lambda: nf.dropna(on_nested="n"))
                attempt(lambda: nf["n"].nest.to_flat())
                arr_live = nf["n"].array
                j0, j1 = 0, len(rows) - 1
                k0, k1 = len(rows[j0] or []), len(rows[j1] or [])
                arr_live[j0] = {nm: [gen.gen_value(rng, t, 0.2) for _ in range(k1 + 1)] for nm, t in schema}
                arr_live[j1] = {nm: [gen.gen_value(rng, t, 0.2) for _ in range(k0)] for nm, t in schema} if k0 else None
                rows = fo.rows_rm(nf["n"].array.chunked_array)
            kind = ["on_nested", "subset", "both", "subset", "on_nested", "base", "base_subset", "conflict", "two_layers", "unknown_layer"][i % 10]
            if i % 23 == 7:
                kind = "bad_args"       # a nested target and an argument error: refused, and the (in-place) target is exactly as before
            how = rng.choice(["any", "all", None, None])
            thresh = rng.choice([0, 1, 2, len(names), len(names) + 1]) if (how is None and rng.random() < 0.5) else None
            sub = rng.sample(names, rng.randint(1, min(3, len(names)))) if kind in ("subset", "both") or (kind == "on_nested" and rng.random() < 0.0) else None
            if i % 6 == 5 and rng.random() < 0.7:
                # nothing is null: 'any' / 'all' have nothing to drop, but a threshold above the number of considered fields drops everything
                how, thresh = None, rng.choice([(len(sub) if sub else len(names)) + 1, len(names), 1])
            inplace = rng.random() < 0.3
            kw = {}
            if how is not None:
                kw["how"] = how
            if thresh is not None:
                kw["thresh"] = thresh
            if kind == "on_nested":
                kw["on_nested"] = "n"
            elif kind == "subset":
                kw["subset"] = [f"n.{f}" for f in sub] if (len(sub) > 1 or rng.random() < 0.5) else f"n.{sub[0]}"
            elif kind == "both":
                kw["on_nested"] = "n"
                kw["subset"] = [f"n.{f}" for f in sub]
            elif kind == "base_subset":
                kw["subset"] = rng.choice([["w"], ["w", "n"], ["n"], "n", ["other", "w"]])
            elif kind == "conflict" and i % 20 >= 10:
                # two nests holding the SAME field names: on_nested names one, the subset path the other
                nf["m"] = pd.Series(nf["n"].array.copy(), index=nf.index, name="m")
                kw["on_nested"] = "n"
                kw["subset"] = [f"m.{names[0]}"]
            elif kind == "conflict":
                kw["on_nested"] = "other"
                kw["subset"] = [f"n.{names[0]}"]
            elif kind == "bad_args":
                kw.pop("how", None)
                kw.pop("thresh", None)
                kw.update(rng.choice([{"on_nested": "n", "how": "any", "thresh": 1}, {"subset": [f"n.{names[0]}", "n.no_such_field"]},
                                      {"on_nested": "n", "how": "sometimes"}, {"on_nested": "n", "axis": 3}]))
                inplace = True
            elif kind == "two_layers":
                kw["subset"] = rng.choice([[f"n.{names[0]}", "other.q"], [f"n.{names[0]}", "w"]])
            elif kind == "unknown_layer":
                kw["subset"] = ["nope.a"] if rng.random() < 0.5 else None
                kw["on_nested"] = "nope" if kw["subset"] is None else False
                if kw["subset"] is None:
                    del kw["subset"]
            before = fo.snapshot(nf, skip=("n",))
            whole = fo.snapshot(nf)

            tgt = [None]

            def run():
                target = nf.copy() if inplace else nf
                tgt[0] = target
                out = target.dropna(inplace=inplace, **kw)
                out = target if inplace else out
                assert isinstance(out, NestedFrame), "not a NestedFrame"
                return out
            res = attempt(run)
            unchanged = fo.snapshot(nf) == whole
            if res[0] == "err" and inplace and tgt[0] is not None:
                unchanged = unchanged and fo.snapshot(tgt[0]) == whole       # a refused in-place call leaves its target as it was
            how_t = {"any": "HowAny", "all": "HowAll", None: "HowAny"}[how] if thresh is None else f"(HowThresh {thresh})"
            nontrivial = False
            if kind in ("on_nested", "subset", "both"):
                sub_t = "None" if sub is None else f"(Some {cq_nats([names.index(f) for f in sub])})"
                ok_frame = res[0] == "ok" and fo.snapshot(res[1], skip=("n",)) == before and list(res[1].columns) == list(nf.columns)
                impl = ("ok", fo.rows_rm(res[1]["n"].array.chunked_array)) if res[0] == "ok" else res
                term = (f"(match chk_rows (m_dropna_nested {fo.cq_nrows(rows)} {how_t} {sub_t}) "
                        f"(Ok (spec_filter_rows (complete {how_t} {sub_t}) {fo.cq_nrows(rows)})) {fo.cq_res_nrows(impl)} with "
                        f"[a; b; c; s] => [a; b && {cq_bool(ok_frame and unchanged)}; c; s] | l => l end)")
                if res[0] == "ok":
                    nontrivial = fo.cq_nrows(impl[1]) != fo.cq_nrows(rows) and any(r for r in impl[1])
            elif kind in ("base", "base_subset"):
                cols = kw.get("subset")
                cols = [cols] if isinstance(cols, str) else (cols or ["x", "y", "w", "n", "other"])
                otherv = nf["other"].array.chunked_array.to_pylist()
                wv = nf["w"].tolist()

                def na(j, c):
                    if c == "n":
                        return rows[j] is None
                    if c == "other":
                        return otherv[j] is None
                    if c == "w":
                        return wv[j] is None or wv[j] is pd.NA
                    return False
                cnt = [sum(0 if na(j, c) else 1 for c in cols) for j in range(len(rows))]
                if thresh is not None:
                    keep = [c >= thresh for c in cnt]
                elif how == "all":
                    keep = [c > 0 for c in cnt]
                else:
                    keep = [c == len(cols) for c in cnt]
                ok_frame = False
                if res[0] == "ok":
                    out = res[1]
                    kept = [j for j, k in enumerate(keep) if k]
                    ok_frame = ([int(v) for v in out["x"]] == kept and [repr(v) for v in out.index] == [repr(labels[j]) for j in kept]
                                and repr(out["other"].array.chunked_array.to_pylist()) == repr([otherv[j] for j in kept]))
                impl = ("ok", fo.rows_rm(res[1]["n"].array.chunked_array)) if res[0] == "ok" else res
                sel = f"(Ok (spec_select_rows {fo.cq_nrows(rows)} {cq_bools(keep)}))"
                term = (f"(match chk_rows {sel} {sel} {fo.cq_res_nrows(impl)} with [a; b; c; s] => [a; b && {cq_bool(ok_frame and unchanged)}; c; s] "
                        f"| l => l end)")
                nontrivial = any(keep) and not all(keep)
            else:
                term = f"[true; {cq_bool(res[0] == 'err' and unchanged)}; true; true]"
            # which layer was worked on (Targets.v): the arguments as the parser classifies them against what was observed
            def entry_t(path):
                if "." not in path:
                    return "(Some LBase)"
                head = path.split(".")[0]
                return {"n": "(Some (LNest 1))", "other": "(Some (LNest 2))", "m": "(Some (LNest 3))"}.get(head, "None")
            on_v = kw.get("on_nested", False)
            on_t = "None" if not on_v else {"n": "(Some (Some 1))", "other": "(Some (Some 2))"}.get(on_v, "(Some None)")
            sub_v = kw.get("subset")
            sub_t = "None" if sub_v is None else f"(Some {cq_list(entry_t(p_) for p_ in ([sub_v] if isinstance(sub_v, str) else sub_v))})"
            if res[0] == "err":
                obs_t = "Err"
            else:
                obs_t = "(Ok (LNest 1))" if kind in ("on_nested", "subset", "both") else "(Ok LBase)"
            if kind != "bad_args":
                term = (f"(match {term} with [a; b; c; s] => [a && res_layer_eqb (m_dropna_target {on_t} {sub_t}) {obs_t}; b; c; s] | l => l end)")
            cases.append({
                "stream": "dropna", "op": "dropna_" + kind, "term": term,
                "input": dict(ao.input_repr(inp), labels=[repr(x) for x in labels], kwargs={k: repr(v) for k, v in kw.items()}, inplace=inplace),
                "impl_repr": str(res)[:500],
                "meta": ao.base_meta(inp, impl_raised=res[0] == "err", repeated_labels=len(set(labels)) != len(labels), label_kind=label_kind),
                "sig": [kind, how, thresh, None if sub is None else len(sub), inp["recipe"], label_kind, len(rows)], "trivial": not nontrivial,
                "hist": {"op": "dropna_" + kind, "how": str(how), "thresh": str(thresh), "layout": inp["recipe"], "labels": label_kind,
                         "raised": res[0] == "err"}})
        except Exception:  # noqa: BLE001
            cases.append(_uninterpretable(i, 'C12'))
    for k, c in enumerate(cases):
        c["cid"] = k
    return cases
