"""C01 stream: every nested value is a rectangular table; ragged input is refused at every entry
point and never stored.

Part A (entry points): the same generated content is offered well-formed and with ONE ragged row at
every entry point named by the property: constructor, from_sequence / pack_seq / Series(dtype=nested),
pack_lists / from_lists, element assignment, list-field assignment, astype cast, parquet load.
Part B (histories): random histories over the whole array-level operation alphabet (valid and malformed
steps mixed), every step checked against model and spec like in C05 / C06.
In both parts the guarded hook is on: EVERY array the implementation gives birth to during the step
(including intermediates built with validate=False) is read back physically and the monitor
wf_rect_b (schema = dtype, offsets well-formed, every row rectangular, present rows have lists) is evaluated
on it inside Coq (flag C); its declared dtype must equal the type of its storage."""
from __future__ import annotations

import os
import shutil
import tempfile

import numpy as np
import pandas as pd
import pyarrow as pa
import pyarrow.parquet as pq

from harness import arrayops as ao
from harness import core, gen
from harness.core import attempt, cq_bool, cq_lcol, cq_list, cq_phys
from nested_pandas import NestedDtype, NestedFrame, read_parquet
from nested_pandas.series import ext_array as _ext
from nested_pandas.series.ext_array import NestedExtensionArray as NEA
from nested_pandas.series.packer import pack_lists, pack_seq

RULE = ("part A: one case = one entry point (constructor, from_sequence, pack_seq, Series(dtype), pack_lists, from_lists, "
        "element assignment, set_list_field / with_list_field, astype from a struct ArrowDtype, read_parquet of a file written by "
        "plain pyarrow) offered one generated content either well-formed or with one ragged row (fields of different lengths), "
        "in several Arrow layouts; part B: one case = one step of a random history (length <= 6 quick / 12 thorough) over 20 "
        "array-level operations incl. malformed arguments; in every case ALL arrays born during the step (hook) are read back "
        "physically and checked by the Coq monitor wf_rect_b, and their declared dtype is compared with the storage type; "
        "distinct = (entry point / op, ragged?, layout, sizes); non-trivial = something was stored or refused for raggedness")
ASSUMPTIONS = ["present rows of user-supplied Arrow input hold non-null lists (the property's domain: rows are missing, empty or non-empty)"]
CORRESPONDENCE = "m_init (validator) and m_step (Steps.v) vs the real entry points and operations"
LAYOUTS = list(gen.LAYOUTS) + ["history"]


class Born:
    """collects every array observed by the hook while active"""

    def __init__(self):
        self.items = []

    def __call__(self, site, obj):
        try:
            ca = obj._chunked_array
            ok = obj._dtype.pyarrow_dtype == ca.type
        except Exception:  # noqa: BLE001
            return
        self.items.append((site, ca, ok))

    def __enter__(self):
        _ext._verif_observers.append(self)
        return self

    def __exit__(self, *a):
        _ext._verif_observers.remove(self)

    def monitor(self, limit=6):
        """(coq term: every born array is wf_rect, python: every declared dtype matched, count)"""
        seen, terms, dt_ok = set(), [], True
        for site, ca, ok in self.items:
            dt_ok = dt_ok and ok
            try:
                ph = core.phys(ca)
            except Exception:  # noqa: BLE001
                continue   # not a struct-of-lists storage at all: the dtype comparison above already says so
            t = cq_phys(ph)
            if t in seen:
                continue
            seen.add(t)
            terms.append(t)
        # the largest ones are the least informative; keep the first `limit` distinct
        return f"all_wf_rect {cq_list(terms[:limit])}", dt_ok, len(self.items)


def with_monitor(case, born: Born):
    mon, dt_ok, n = born.monitor()
    case["term"] = (f"(match {case['term']} with [a; b; c; s] => [a; b; c && {mon} && {cq_bool(dt_ok)}; s] | l => l end)")
    case.setdefault("hist", {})["born"] = min(n, 9)
    case.setdefault("meta", {})["born"] = n
    return case


# --------------------------------------------------------------------------------------
# part A


def make_ragged(rng, schema, rows, allow_null=False):
    """copy of rows with ONE present row made ragged; None if impossible (single field / no present row)"""
    if len(schema) < 2:
        return None
    if allow_null and rng.random() < 0.3:
        # ragged through a NULL list: one field of a present, non-empty row has no list at all (length 0 against k > 0)
        cand = [i for i, r in enumerate(rows) if r is not None and len(next(iter(r.values()))) > 0]
        if cand:
            i = rng.choice(cand)
            out = [None if r is None else {k: list(v) for k, v in r.items()} for r in rows]
            out[i][rng.choice(schema)[0]] = None
            return out
    cand = [i for i, r in enumerate(rows) if r is not None]
    if not cand:
        return None
    i = rng.choice(cand)
    name, ty = rng.choice(schema[1:] if rng.random() < 0.7 else schema)
    out = [None if r is None else {k: list(v) for k, v in r.items()} for r in rows]
    extra = [v for v in (gen.gen_value(rng, ty, 0) for _ in range(8)) if v == v][:rng.randint(1, 2)]
    if out[i][name] and rng.random() < 0.4:
        out[i][name] = out[i][name][:-1]
    else:
        out[i][name] = out[i][name] + extra
    return out


def struct_from_rows(rng, schema, rows, layout):
    """a struct-of-lists ChunkedArray holding `rows` (possibly ragged), every field allocated separately"""
    arrays = [pa.array([None if r is None else r[name] for r in rows], type=pa.list_(gen.TYPES[ty])) for name, ty in schema]
    mask = pa.array([r is None for r in rows], type=pa.bool_())
    st = gen.struct_type(schema)
    if not rows:
        return pa.chunked_array([], type=st)
    whole = pa.StructArray.from_arrays(arrays, names=[n for n, _ in schema], mask=mask)
    n = len(rows)
    if layout == "one":
        return pa.chunked_array([whole])
    if layout == "split":
        cut = rng.randint(0, n)
        return pa.chunked_array([whole.slice(0, cut), whole.slice(cut)], type=st)
    pad = pa.StructArray.from_arrays([pa.array([[]], type=pa.list_(gen.TYPES[ty])) for _, ty in schema], names=[n_ for n_, _ in schema])
    return pa.chunked_array([pa.concat_arrays([pad, whole, pad]).slice(1, n)])


def entry_case(rng, tmpdir, i):
    schema, rows = gen.gen_content(rng, max_rows=6, max_len=4)
    while len(schema) < 2 or not any(r is not None for r in rows):
        schema, rows = gen.gen_content(rng, max_rows=6, max_len=4)
    ragged = i % 2 == 1
    entry = ["constructor", "from_sequence", "pack_seq", "series_dtype", "pack_lists", "from_lists", "astype", "parquet",
             "constructor_chunked", "from_sequence_df", "take_fill", "reindex_fill", "setitem", "set_list_field",
             "reduce_pack", "astype_nested", "setitem_raw", "parquet_partial", "from_arrow"][(i // 2) % 19]
    offered = make_ragged(rng, schema, rows, allow_null=entry not in ("from_sequence_df", "take_fill", "reindex_fill", "setitem", "setitem_raw", "set_list_field")) if ragged else rows
    if offered is None:
        offered, ragged = rows, False
    names = [n for n, _ in schema]
    st = gen.struct_type(schema)
    layout = rng.choice(["one", "split", "window"])
    if entry in ("take_fill", "reindex_fill"):
        return fill_entry_case(rng, entry, schema, rows, ragged)
    if entry in ("setitem", "setitem_raw", "set_list_field"):
        return assign_entry_case(rng, entry, schema, rows, ragged)
    if entry == "reduce_pack":
        return reduce_pack_case(rng, schema, rows, offered, ragged)
    if entry == "astype_nested":
        return astype_nested_case(rng, schema, rows, layout, i)
    # a special physical form for the constructor: every field a window of list arrays built over ONE shared offsets array,
    # the windows shifted against each other (field j starts at row j): rectangular iff neighbouring rows have equal lengths
    shared = None
    if entry == "constructor" and (i // 38) % 2 == 1 and len(rows) >= 1:
        nrow = len(rows)
        k = len(schema)
        base_len = rng.randint(0, 3)
        lens = [base_len] * (nrow + k) if not ragged else [rng.randint(0, 3) for _ in range(nrow + k)]
        if ragged and len(set(lens)) == 1:
            lens[rng.randrange(len(lens))] += 1
        if ragged and all(len({lens[r_ + j] for j in range(k)}) == 1 for r_ in range(nrow)):
            ragged = False          # the shifted windows happen to agree
        offs = pa.array(np.cumsum([0] + lens), type=pa.int32())
        fields_pa = []
        for j, (nm, ty) in enumerate(schema):
            vals = pa.array([v for v in (gen.gen_value(rng, ty, 0.1) for _ in range(sum(lens)))], type=gen.TYPES[ty])
            fields_pa.append(pa.ListArray.from_arrays(offs, vals).slice(j, nrow))
        shared = pa.chunked_array([pa.StructArray.from_arrays(fields_pa, names=[nm for nm, _ in schema])])
        rows = [{nm: fields_pa[j][r_].as_py() for j, (nm, _) in enumerate(schema)} for r_ in range(nrow)]
        rows = [{nm: [core.child_values(pa.array(v, type=gen.TYPES[ty]))[q] for q in range(len(v))] for (nm, ty), v in zip(schema, r_.values())} for r_ in rows]
        offered = rows
    no_nan = all(v == v for r in offered if r is not None for vs in r.values() if vs is not None for v in vs)
    import random as _random
    chunk_rng = _random.Random(rng.getrandbits(32))

    def run():
        if entry in ("constructor", "constructor_chunked"):
            if shared is not None:
                return NEA(shared)
            return NEA(struct_from_rows(rng, schema, offered, layout if entry == "constructor" else "split"))
        if entry == "from_sequence":
            return NEA.from_sequence([None if r is None else r for r in offered], dtype=NestedDtype(st))
        if entry == "from_sequence_df":
            seq = [None if r is None else (pd.DataFrame({k: pd.array(v, dtype=pd.ArrowDtype(gen.TYPES[ty])) for (k, ty), v in
                                                          zip(schema, r.values())}) if len({len(v) for v in r.values()}) == 1 else r)
                   for r in offered]
            return NEA.from_sequence(seq, dtype=NestedDtype(st))
        if entry == "pack_seq":
            return pack_seq([None if r is None else r for r in offered], dtype=NestedDtype(st)).array
        if entry == "series_dtype":
            return pd.Series([None if r is None else r for r in offered], dtype=NestedDtype(st)).array
        if entry in ("pack_lists", "from_lists"):
            present = [r if r is not None else {k: [] for k in names} for r in offered]
            n_cuts = chunk_rng.randint(1, 2)         # the same number of chunks in every column, cut at the column's own rows

            def list_col(name, ty):
                whole = pa.array([r[name] for r in present], type=pa.list_(gen.TYPES[ty]))
                if layout == "one" or len(present) < 2:
                    return whole
                # every column chunked on its OWN boundaries (the combine branch of pack_lists), or all alike (the aligned branch)
                cuts = sorted(chunk_rng.sample(range(0, len(present) + 1), n_cuts)) if layout == "split" else [len(present) // 2]
                bounds = [0] + cuts + [len(present)]
                return pa.chunked_array([whole.slice(a, b - a) for a, b in zip(bounds, bounds[1:])], type=whole.type)
            df = pd.DataFrame({name: pd.Series(list_col(name, ty), dtype=pd.ArrowDtype(pa.list_(gen.TYPES[ty]))) for name, ty in schema})
            if entry == "pack_lists":
                return pack_lists(df).array
            df["base"] = range(len(df))
            return NestedFrame.from_lists(NestedFrame(df), base_columns=["base"], name="n")["n"].array
        if entry == "astype":
            ca = struct_from_rows(rng, schema, offered, layout)
            s = pd.Series(ca, dtype=pd.ArrowDtype(st))
            return s.astype(NestedDtype(st)).array
        if entry == "from_arrow":
            # the Arrow -> pandas protocol hook of the dtype (what Table.to_pandas calls for a nested column)
            return NestedDtype(st).__from_arrow__(struct_from_rows(rng, schema, offered, layout))
        if entry == "parquet_partial":
            # a partial load naming EVERY field of the nest (so the whole content is offered): validated like the full read
            path = os.path.join(tmpdir, f"c01p_{i}.parquet")
            ca = struct_from_rows(rng, schema, offered, "one")
            pq.write_table(pa.table({"x": pa.array(range(len(offered))), "n": ca}), path,
                           row_group_size=max(1, rng.randint(1, max(1, len(offered)))))
            try:
                nf = read_parquet(path, columns=["x"] + [f"n.{k}" for k in names])
            finally:
                os.remove(path)
            assert isinstance(nf["n"].dtype, NestedDtype), "not read back as a nested column"
            return nf["n"].array
        if entry == "parquet":
            path = os.path.join(tmpdir, f"c01_{i}.parquet")
            ca = struct_from_rows(rng, schema, offered, "one")
            pq.write_table(pa.table({"x": pa.array(range(len(offered))), "n": ca}), path,
                           row_group_size=max(1, rng.randint(1, max(1, len(offered)))))
            nf = read_parquet(path)
            os.remove(path)
            assert isinstance(nf["n"].dtype, NestedDtype), "not read back as a nested column"
            return nf["n"].array
        raise ValueError(entry)

    with Born() as born:
        res = attempt(run)
    # what the model sees: the struct-of-lists array handed to the constructor / validator
    ph = core.phys(shared) if shared is not None else core.phys(struct_from_rows(rng, schema, offered, "one"))
    if entry in ("pack_lists", "from_lists"):
        want_rows = [r if r is not None else {k: [] for k in names} for r in rows]      # list columns have no missing rows
        ph = core.phys(struct_from_rows(rng, schema, [r if r is not None else {k: [] for k in names} for r in offered], "one"))
    else:
        want_rows = rows
    want = core.logical(pa.chunked_array([pa.array(want_rows, type=st)], type=st))
    if res[0] == "ok":
        impl_term, pq_, lg2, raised = ao.col_result(res)
    else:
        impl_term, pq_, raised = "Err", "None", True
    P = cq_phys(ph)
    spec = "Err" if ragged else f"(Ok {cq_lcol(want)})"
    # element views box NaN as null only in pandas conversions; entry points with python values go through from_pandas=True
    nan_lossy = entry in ("from_sequence", "from_sequence_df", "pack_seq", "series_dtype") and not no_nan
    b_term = f"res_eqb lcol_eqb ({spec} : res lcol) ({impl_term} : res lcol)" if not nan_lossy else f"Bool.eqb (@is_ok lcol ({spec})) (@is_ok lcol ({impl_term}))"
    term = (f"(let P := {P} in [res_eqb lcol_eqb (res_map abs (m_init P true)) ({impl_term} : res lcol) || {cq_bool(nan_lossy)}; {b_term}; "
            f"match {pq_} with Some q => wf_b q | None => true end; "
            f"Bool.eqb (@is_ok chunked (m_init P true)) {cq_bool(not ragged)}])")
    case = {"stream": "entry", "op": "entry_" + entry, "term": term,
            "input": {"schema": schema, "rows": ao.rows_repr(offered), "ragged": ragged, "layout": layout, "entry": entry},
            "impl_repr": "raised " + res[1] if res[0] == "err" else "stored",
            "meta": {"impl_raised": raised, "ragged": ragged, "entry": entry},
            "sig": [entry, ragged, layout, len(rows), len(schema)], "trivial": False,
            "hist": {"op": "entry_" + entry, "ragged": ragged, "raised": raised}}
    return with_monitor(case, born)


def reduce_pack_case(rng, schema, rows, offered, ragged):
    """the dotted outputs of a reduce function are packed into a nested column: lists of different lengths for one row
    are refused like everywhere else (only the LENGTHS of the offered lists matter here; the contents are C10's business)"""
    names = [n for n, _ in schema]
    n = len(rows)
    st = gen.struct_type(schema)
    nf = NestedFrame({"x": list(range(n))}, index=[f"r{j}" for j in range(n)])
    nf["n"] = pd.Series(NEA(pa.chunked_array([pa.array(rows, type=st)], type=st)), index=nf.index)
    shape = [{k: len(r[k] or []) for k in names} if r is not None else {k: 0 for k in names} for r in offered]
    typed = all(any(sh[k] for sh in shape) for k in names)      # Arrow can infer an element type for every output column
    counter = [0]

    def fn(x):
        sh = shape[int(x)]
        counter[0] += 1
        return {f"out.{k}": [float(q) for q in range(sh[k])] for k in names}

    def run():
        out = nf.reduce(fn, "x")
        return out["out"].array
    with Born() as born:
        res = attempt(run)
    really_ragged = any(len(set(sh.values())) > 1 for sh in shape)
    ok = (res[0] == "err") if really_ragged else (res[0] == "ok" or not typed)
    if res[0] == "ok" and not really_ragged:
        got = [int(v) for v in res[1].list_lengths]
        ok = ok and got == [sh[names[0]] for sh in shape]
    case = {"stream": "entry", "op": "entry_reduce_pack", "term": f"[true; {cq_bool(ok)}; true; true]",
            "input": {"schema": schema, "shape": shape, "ragged": really_ragged, "entry": "reduce_pack"},
            "impl_repr": ("raised " + res[1]) if res[0] == "err" else "stored",
            "meta": {"impl_raised": res[0] == "err", "ragged": really_ragged, "entry": "reduce_pack"},
            "sig": ["reduce_pack", really_ragged, n, len(schema)], "trivial": False,
            "hist": {"op": "entry_reduce_pack", "ragged": really_ragged, "raised": res[0] == "err"}}
    return with_monitor(case, born)


def astype_nested_case(rng, schema, rows, layout, i):
    """a cast between nested dtypes (Cast.v): to a dtype announcing a field the column lacks (Arrow fills it with a NULL list in
    every row: every present row holding elements would be ragged - refused), to a re-ordering / selection of the fields,
    to the column's own dtype"""
    st = gen.struct_type(schema)
    names = [n for n, _ in schema]
    holds = any(r is not None and any(len(v) for v in r.values()) for r in rows)
    variant = ["widen", "reorder", "same", "widen_first"][(i // 38) % 4]
    if variant.startswith("widen") and not holds:
        variant = "same"
    extra = ("zz_extra", "double")
    if variant == "widen":
        target = list(schema) + [extra]
    elif variant == "widen_first":
        target = [extra] + list(schema)
    elif variant == "reorder":
        target = list(reversed(schema))[: max(1, len(schema) - (i // 128) % 2)]
    else:
        target = list(schema)
    tst = gen.struct_type(target)
    src_ca = struct_from_rows(rng, schema, rows, layout)
    src = attempt(lambda: pd.Series(NEA(src_ca)))
    if src[0] != "ok":
        return {"stream": "entry", "op": "entry_astype_nested", "term": "[true; false; true; true]", "input": {"rows": ao.rows_repr(rows)},
                "impl_repr": "a well-formed column was refused by the constructor: " + str(src[1]), "meta": {"impl_raised": True},
                "sig": ["astype_nested", "constructor"], "trivial": False, "hist": {"op": "entry_astype_nested", "raised": True}}
    with Born() as born:
        res = attempt(lambda: src[1].astype(NestedDtype(tst)).array)
    ph = core.phys(src[1].array.chunked_array)
    if res[0] == "ok":
        impl_term, pq_, lg2, raised = ao.col_result(res)
    else:
        impl_term, pq_, raised = "Err", "None", True
    if variant.startswith("widen"):
        spec = "Err"
    else:
        want = core.logical(pa.chunked_array([pa.array([None if r is None else {k: r[k] for k, _ in target} for r in rows], type=tst)], type=tst))
        spec = f"(Ok {cq_lcol(want)})"
    term = (f"(match chk_astype {cq_phys(ph)} {core.cq_schema([(n_, core.ety_of(gen.TYPES[t_])) for n_, t_ in target])} ({spec} : res lcol) "
            f"({impl_term} : res lcol) with [a; b; c; s] => [a; b; c && match {pq_} with Some q => wf_b q | None => true end; s] | l => l end)")
    case = {"stream": "entry", "op": "entry_astype_nested", "term": term,
            "input": {"schema": schema, "rows": ao.rows_repr(rows), "target": target, "variant": variant, "layout": layout},
            "impl_repr": "raised " + res[1] if res[0] == "err" else "stored",
            "meta": {"impl_raised": raised, "ragged": variant.startswith("widen"), "entry": "astype_nested"},
            "sig": ["astype_nested", variant, layout, len(rows), len(schema)], "trivial": False,
            "hist": {"op": "entry_astype_nested_" + variant, "ragged": variant.startswith("widen"), "raised": raised}}
    return with_monitor(case, born)


def assign_entry_case(rng, entry, schema, rows, ragged):
    """element assignment and list-field assignment as entry points: a ragged value is refused AND the column is left as it was"""
    multi = [l for l in ("split_fresh", "split_view", "sliced_chunks", "empty_chunks", "concat_slices") if l in LAYOUTS]
    inp = ao.mk_input(rng, content=(schema, rows), recipes=multi if (rng.random() < 0.6 and len(rows) >= 2) else [l for l in LAYOUTS if l != "history"])
    with Born() as born:
        if entry == "setitem":
            c = ao.op_setitem(rng, inp, force_ragged=ragged)
        elif entry == "setitem_raw":
            # the value is a raw Arrow struct array / chunked array (what another column's storage looks like), ragged or not
            c = ao.op_setitem(rng, inp, force_ragged=ragged, force_multi=not ragged, force_vkind="nea")
        else:
            c = ao.op_set_lists(rng, inp, rng.choice(["array", "with_list_field"]), malformed=ragged)
    c["stream"] = "entry"
    c["op"] = "entry_" + entry
    c["meta"].update(ragged=ragged, entry=entry)
    c["hist"] = {"op": "entry_" + entry, "ragged": ragged, "raised": c["meta"].get("impl_raised")}
    c.pop("_result", None)
    return with_monitor(c, born)


def fill_entry_case(rng, entry, schema, rows, ragged):
    """the fill value of take(allow_fill=True) / reindex(fill_value=...) is an entry point too"""
    st = gen.struct_type(schema)
    inp = ao.mk_input(rng, content=(schema, rows), recipes=[l for l in LAYOUTS if l != "history"])
    arr, n = inp["arr"], len(rows)
    t = ao.gen_table(rng, schema, n=rng.randint(1, 3), ragged=ragged)
    fill = ao.table_to_value(rng, schema, t, "dict")
    ix = [rng.randint(-1, n - 1) for _ in range(rng.randint(1, 4))]
    ix[rng.randrange(len(ix))] = -1
    def run():
        if entry == "take_fill":
            return arr.take(np.array(ix, dtype=np.int64), allow_fill=True, fill_value=fill)
        s = pd.Series(arr, index=list(range(n)))
        return s.reindex([i if i >= 0 else n + 5 for i in ix], fill_value=fill).array
    with Born() as born:
        res = attempt(run)
    fl = ao.table_to_lrow(schema, t)
    m_fill = "(Some " + cq_list(core.cq_vals(f) for f in fl) + ")"
    args = f"{core.cq_Zs(ix)} true"
    c = ao.col_case(inp, "entry_" + entry, f"m_take P {args} {m_fill}", f"spec_col_take L {args} {core.cq_lrow(fl)}", res,
                    {"indices": ix, "fill_ragged": ragged})
    c["stream"] = "entry"
    c["meta"].update(ragged=ragged, entry=entry)
    c["hist"] = {"op": "entry_" + entry, "ragged": ragged, "raised": res[0] == "err"}
    c.pop("_result", None)
    return with_monitor(c, born)


# --------------------------------------------------------------------------------------
# part B


def inp_from_result(arr, prev):
    ca = arr.chunked_array
    schema = [(f.name, ao.TNAME[str(f.type.value_type)]) for f in ca.type]
    rows = ca.to_pylist()
    for r in rows:
        if r is not None:
            for (nm, ty) in schema:
                if r[nm] is None:
                    r[nm] = []
                if ty == "timestamp":
                    r[nm] = [None if v is None else pd.Timestamp(v) for v in r[nm]]
    inp = {"schema": schema, "rows": rows, "recipe": "step_of_history", "ca": ca, "built": ("ok", arr), "arr": arr}
    inp["ph"] = core.phys(ca)
    inp["lg"] = core.logical(ca)
    inp["st"] = core.phys_stats(inp["ph"])
    inp["P"] = cq_phys(inp["ph"])
    inp["L"] = cq_lcol(inp["lg"])
    return inp


STEP_OPS = [
    ao.op_getitem_slice, ao.op_getitem_mask, ao.op_getitem_idx, ao.op_take, ao.op_concat, ao.op_simple,
    ao.op_setitem, ao.op_setitem, lambda r, i: ao.op_setitem(r, i, malformed=True),
    lambda r, i: ao.op_set_flat(r, i, "array"), lambda r, i: ao.op_set_flat(r, i, "with_field"),
    lambda r, i: ao.op_set_lists(r, i, "array"), lambda r, i: ao.op_set_lists(r, i, "with_list_field"),
    lambda r, i: ao.op_fill(r, i, "array"), lambda r, i: ao.op_select_fields(r, i, "array"),
    lambda r, i: ao.op_select_fields(r, i, "accessor"),
    lambda r, i: ao.op_set_lists(r, i, "array", malformed=True), lambda r, i: ao.op_set_flat(r, i, "array", malformed=True),
    lambda r, i: ao.op_fill(r, i, "array", malformed=True), lambda r, i: ao.op_select_fields(r, i, "array", malformed=True),
]


def py_lists_valid(ca):
    for ch in ca.chunks:
        sv = ch.is_valid().to_pylist()
        for i in range(ch.type.num_fields):
            lv = ch.field(i).is_valid().to_pylist()
            if any(s and not l for s, l in zip(sv, lv)):
                return False
    return True


def history_cases(rng, n_hist, max_len):
    cases = []
    for h in range(n_hist):
        inp = ao.mk_input(rng, max_rows=6, recipes=LAYOUTS)
        if inp.get("history_failed"):
            cases.append(ao.history_failure_case(inp))
            continue
        if inp["built"][0] != "ok":
            continue
        for step in range(rng.randint(2, max_len)):
            op = rng.choice(STEP_OPS)
            holder = {}
            with Born() as born:
                c = ao.run_op(op, rng, inp)
            c = with_monitor(c, born)
            c["stream"] = "history"
            c["input"]["history"] = {"id": h, "step": step}
            cases.append(c)
            nxt = c.pop("_result", None)
            if nxt is not None and not py_lists_valid(nxt.chunked_array):
                break       # a state that already violates the invariant (reported by this step) is not carried on
            if nxt is not None and core.phys_stats(core.phys(nxt.chunked_array))["hidden_children"]:
                # an out-of-domain argument that the library accepts (a list column offering values for a MISSING row) leaves
                # records hidden under that row (the zone of the former finding KF-hidden-children, repaired): not carried on
                break
            if nxt is None or len(nxt) > 14 or len(nxt.chunked_array.type) > 4:
                if nxt is None:
                    continue
                break
            if any(str(f.type.value_type) not in ao.TNAME for f in nxt.chunked_array.type):
                break       # an element type outside the catalogue of the streams (Arrow's inference on the offered values): not carried on
            inp = inp_from_result(nxt, inp)
    return cases


def generate(ctx):
    rng = ctx.rng
    tmpdir = tempfile.mkdtemp(prefix="verif_c01_")
    cases = []
    try:
        for i in range(ctx.budget(120, 1200)):
            cases.append(entry_case(rng, tmpdir, i))
        cases.extend(history_cases(rng, ctx.budget(40, 300), 6 if ctx.tier == "quick" else 12))
    finally:
        shutil.rmtree(tmpdir, ignore_errors=True)
    for k, c in enumerate(cases):
        c["cid"] = k
    return cases
