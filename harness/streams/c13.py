"""C13 stream: eval computes on the flat view and assigns fields positionally.
Programs from a grammar (arithmetic and comparisons over the fields of one nest and constants; single- and multi-line; assignments to
existing fields, new fields and new nests; inplace or not) are run by NestedFrame.eval and - the property's own oracle - by plain pandas
on a flat table built from the logical content (no nested-pandas code), line by line.  The Coq model m_eval_assign / m_eval_program
(Frame.v) cuts the oracle's values back into rows; the whole result frame is compared."""
from __future__ import annotations

import numpy as np
import pandas as pd
import pyarrow as pa

from harness import arrayops as ao
from harness import core, gen
from harness import frameops as fo
from harness.core import attempt, cq_bool, cq_list, cq_vals
from harness.streams import c07
from nested_pandas import NestedFrame

RULE = ("one case = one NestedFrame (all label kinds incl. repeated, nested column in 15 layouts, missing / empty rows, nulls, NaN) x one "
        "program of 1-3 lines: a value expression, or assignments 'n.f = expr' to an existing field, a new field or (unique labels) a new "
        "nest, later lines reading fields assigned by earlier ones, inplace or not, names with backticks; the value / the final frame is "
        "compared with the same program run by plain pandas on the flat table (values, flat index, record-by-record placement, every other "
        "field / row / label / column unchanged) and with the Coq model; distinct = (shape of program, layout, labels, sizes); "
        "non-trivial = the nest holds at least two records")
ASSUMPTIONS = ["the value of an expression on the flat table is plain pandas' (pointwise-evaluator contract)",
               "an assignment to an unknown nest attaches records by LABEL (add_nested): offered with unique labels only"]
CORRESPONDENCE = "m_eval_assign / m_eval_program (Frame.v) vs NestedFrame.eval"
EXTRA_IMPORTS = "Frame"


def flat_table(schema, names, rows):
    cols = {}
    for j, ((_, ty), nm) in enumerate(zip(schema, names)):
        vals = [rec[j] for r in rows if r for rec in r]
        cols[nm] = pd.array(pa.array(vals, type=gen.TYPES[ty]), dtype=pd.ArrowDtype(gen.TYPES[ty]))
    return pd.DataFrame(cols)


def col_values(series):
    arr = series.array
    pa_arr = arr._pa_array.combine_chunks() if hasattr(arr, "_pa_array") else pa.array(series, from_pandas=True)
    return core.child_values(pa_arr)



def _uninterpretable(i, pid):
    """an exception while a case was being built from what the library returned: a verdict about the library (the stream runs
    on the unchanged tree with many seeds without ever getting here), not a crash of the check"""
    import traceback
    return {"stream": "uninterpretable", "op": "uninterpretable", "term": "[true; false; true; true]",
            "input": {"case_number": i}, "impl_repr": "the case could not be built / interpreted: " + traceback.format_exc()[-700:],
            "meta": {"impl_raised": True}, "sig": ["uninterpretable", pid, i], "trivial": False,
            "hist": {"op": "uninterpretable"}}


def generate(ctx):
    rng = ctx.rng
    cases = []
    for i in range(ctx.budget(150, 1300)):
        try:
            types = ["int64", "double", "int64", "double", "string", "bool"]
            schema = gen.spice_names(rng, gen.gen_schema(rng, 3, types=types))
            if not any(t in ("int64", "double") for _, t in schema):
                schema[0] = (schema[0][0], "int64")
            n = rng.randint(0, 6 if ctx.tier == "quick" else 10)
            rows_g = gen.gen_rows(rng, schema, n, max_len=4, null_p=0.15)
            if i % 8 == 6 and rng.random() < 0.6:
                # a NEW nest from a frame in which every row holds records (as many packed rows as frame rows)
                n = max(n, 2)
                rows_g = gen.gen_rows(rng, schema, n, max_len=4, null_p=0.15, missing_p=0.0, empty_p=0.0)
            corner = None
            if i % 6 == 5:
                # repeated labels arranged so that the FLAT index of the nest equals the frame index although the rows do not all hold one
                # record (labels [5,5,7] with lengths [2,0,1]), or the record count equals the row count: a flat result must stay flat
                lens_c, labels_c = rng.choice([([2, 0, 1], [5, 5, 7]), ([2, 0], [5, 5]), ([1, 2, 0], [3, 4, 4]), ([0, 2], [7, 7]), ([3, 0, 0], [1, 2, 3]),
                                               ([2, 0, 1, 1], [1, 1, 2, 9]), ([0, 3, 0], [4, 5, 6])])
                rows_g = [{nm: [v if not (t == "int64" and v is not None and abs(v) >= 1000) else 7 for v in (gen.gen_value(rng, t) for _ in range(k))]
                           for nm, t in schema} for k in lens_c]
                n = len(lens_c)
                corner = labels_c
            for r in rows_g:          # small integers: products stay far from int64 overflow
                if r is not None:
                    for nm, t in schema:
                        if t == "int64":
                            r[nm] = [None if v is None else (v if abs(v) < 1000 else 7) for v in r[nm]]
            recipe = fo.LAYOUTS[i % len(fo.LAYOUTS)] if i < len(fo.LAYOUTS) else rng.choice(fo.LAYOUTS)
            inp = ao.mk_input(rng, content=(schema, rows_g), recipe=recipe if recipe != "history" else "split_fresh", recipes=fo.LAYOUTS)
            if inp["built"][0] != "ok":
                continue
            names = [nm for nm, _ in schema]
            if rng.random() < 0.25:
                names = c07.rename_fields(rng, inp)
            arr = inp["arr"]
            if names != [nm for nm, _ in schema]:
                st2 = pa.struct([pa.field(nm, f.type) for nm, f in zip(names, inp["ca"].type)])
                arr = type(arr)(pa.chunked_array([pa.StructArray.from_arrays([c.field(j) for j in range(len(names))], names=names, mask=c.is_null())
                                                  for c in arr.chunked_array.chunks], type=st2))
            kind = ["assign", "assign", "assign", "multi", "multi", "value", "new_nest", "multi_inplace_false"][i % 8]
            labels, label_kind = gen.gen_labels(rng, n, rng.choice(["range", "unsorted_unique", "unsorted_unique", "str"]) if kind == "new_nest" else None)
            if corner is not None and len(inp["rows"]) == len(corner):
                if kind == "new_nest":
                    kind = "assign"
                labels, label_kind = corner, "flat_index_equals_index"
            nf = NestedFrame({"x": list(range(n)), "y": [rng.choice(["p", "q"]) for _ in range(n)]}, index=gen.as_index(labels, label_kind))
            NEST = "my n" if i % 5 == 3 else "n"        # a nest whose name needs back-ticks in the program
            nq = NEST if c07.is_ident(NEST) else f"`{NEST}`"
            nf[NEST] = pd.Series(arr, index=nf.index, name=NEST)
            other_rows = gen.gen_rows(rng, [("q", "int64")], n, max_len=2)
            nf["other"] = pd.Series(type(arr)(pa.array(other_rows, type=gen.struct_type([("q", "int64")]))), index=nf.index, name="other")
            rows = fo.rows_rm(inp["ca"])
            numeric = [(nm, t) for nm, (_, t) in zip(names, schema) if t in ("int64", "double")]
            quote = rng.choice(["none", "none", "field"])
            inplace = kind != "multi_inplace_false" and rng.random() < 0.5
            before_other = fo.snapshot(nf, skip=(NEST,))
            whole = fo.snapshot(nf)
            flat = flat_table(schema, names, rows)
            lines, plain_lines, targets = [], [], []
            cur_fields = list(names)
            cur_types = {nm: t for nm, (_, t) in zip(names, schema)}
            nlines = 1 if kind in ("assign", "value", "new_nest") else rng.randint(2, 3)
            ok_oracle = True
            val_lists = []
            for li in range(nlines):
                num_now = [(f, cur_types[f]) for f in cur_fields if cur_types[f] in ("int64", "double")]
                if not num_now:
                    break
                if rng.random() < 0.75:
                    e = c07.gen_arith(rng, [f for f, _ in num_now])
                    if not c07.has_field(e):
                        e = ("+", ("field", rng.choice(num_now)[0]), e)
                else:
                    e = c07.gen_cond(rng, [(f, cur_types[f]) for f in cur_fields])
                if kind == "value":
                    strs = [f for f in cur_fields if cur_types[f] == "string"]
                    r_ = rng.random()
                    if r_ < 0.15 and strs:
                        # a constant whose TEXT holds an "=": no assignment
                        e = (rng.choice(["==", "!="]), ("field", rng.choice(strs)), ("sconst", rng.choice(["a=b", "k = 1"])))
                    if 0.3 <= r_ < 0.5:
                        # a bare comparison written with '<=' / '>=': an '=' that assigns nothing
                        e = (rng.choice(["<=", ">="]), ("field", rng.choice(num_now)[0]), ("const", rng.choice([0, 1, 2, 3, 2.5])))
                    text = c07.render(e, c07.nested_ref(NEST, quote))
                    plain = c07.render(e, c07.plain_ref)
                    if 0.3 <= r_ < 0.5 and text.startswith("(") and text.endswith(")"):
                        text, plain = text[1:-1], plain[1:-1]          # written WITHOUT the outer brackets
                    if 0.15 <= r_ < 0.3:
                        # a method call with a keyword argument: no assignment either
                        f_ = rng.choice(num_now)[0]
                        text = f"{c07.nested_ref(NEST, quote)(f_)}.clip(lower=1)"
                        plain = f"{c07.plain_ref(f_)}.clip(lower=1)"
                    lines.append(text)
                    plain_lines.append(plain)
                    break
                if kind == "new_nest":
                    tgt_nest, tgt = "m", "z"
                else:
                    tgt_nest = nq
                    tgt = rng.choice(cur_fields + ["c1", "c2", "new f"]) if li == 0 or rng.random() < 0.6 else rng.choice(["c1", "c2"])
                tq = tgt if c07.is_ident(tgt) else f"`{tgt}`"
                lines.append(f"{tgt_nest}.{tq} = {c07.render(e, c07.nested_ref(NEST, quote))}")
                plain = c07.render(e, c07.plain_ref)
                plain_lines.append((tgt, plain))
                targets.append((tgt_nest, tgt))
                # oracle: this line on the plain flat table
                try:
                    v = flat.eval(plain)
                    if kind != "new_nest":
                        flat[tgt] = v
                        if tgt not in cur_fields:
                            cur_fields.append(tgt)
                        cur_types[tgt] = "double" if "float" in str(v.dtype) or "double" in str(v.dtype) else ("bool" if "bool" in str(v.dtype) else "int64")
                    val_lists.append((tgt, col_values(v)))
                except Exception:  # noqa: BLE001
                    ok_oracle = False
                    break
            if not lines:
                continue
            program = "\n".join(lines)
            lens = [len(r or []) for r in rows]

            def run():
                target = nf.copy() if inplace else nf
                out = target.eval(program, inplace=inplace) if kind != "value" else target.eval(program)
                return target if (inplace and kind != "value") else out
            res = attempt(run)
            unchanged = inplace or fo.snapshot(nf) == whole
            if not ok_oracle:
                term = f"[true; {cq_bool(res[0] == 'err' and fo.snapshot(nf) == whole)}; true; true]"
                nontrivial = False
            elif kind == "value":
                want_vals = col_values(flat.eval(plain_lines[0]))
                want_index = [repr(l) for l, k in zip(labels, lens) for _ in range(k)]
                ok = (res[0] == "ok" and isinstance(res[1], pd.Series) and cq_vals(col_values(res[1])) == cq_vals(want_vals)
                      and [repr(x) for x in res[1].index] == want_index)
                term = f"[true; {cq_bool(ok and unchanged)}; true; true]"
                nontrivial = len(want_vals) > 1
            elif kind == "new_nest":
                vals = val_lists[0][1]
                want, pos = [], 0
                for k in lens:
                    want.append([[v] for v in vals[pos:pos + k]] if k else None)
                    pos += k
                ok_frame = False
                impl = res
                if res[0] == "ok":
                    out = res[1]
                    ok_frame = (isinstance(out, NestedFrame) and fo.snapshot(out, skip=("m",)) == whole and list(out.columns) == list(nf.columns) + ["m"]
                                and list(out["m"].nest.fields) == ["z"])
                    impl = ("ok", fo.rows_rm(out["m"].array.chunked_array))
                term = (f"(match chk_rows (Ok {fo.cq_nrows(want)}) (Ok {fo.cq_nrows(want)}) {fo.cq_res_nrows(impl)} with [a; b; c; s] => "
                        f"[a; b && {cq_bool(ok_frame and unchanged)}; c; s] | l => l end)")
                nontrivial = sum(lens) > 1
            else:
                # model: fold the oracle's values through m_eval_assign, positions by field order
                fields_now = list(names)
                model = f"(Ok {fo.cq_nrows(rows)})"
                for tgt, vals in val_lists:
                    if tgt not in fields_now:
                        fields_now.append(tgt)
                    k = fields_now.index(tgt)
                    model = f"(res_bind {model} (fun R => m_eval_assign {k} R {cq_vals(vals)}))"
                ok_frame = False
                impl = res
                if res[0] == "ok":
                    out = res[1]
                    ok_frame = (isinstance(out, NestedFrame) and fo.snapshot(out, skip=(NEST,)) == before_other and list(out.columns) == list(nf.columns)
                                and list(out[NEST].nest.fields) == fields_now and [repr(x) for x in out.index] == [repr(x) for x in labels])
                    if ok_frame:
                        # the flat view of the result = the oracle's flat table, column by column
                        for f in fields_now:
                            got = col_values(out[NEST].nest.get_flat_series(f))
                            ok_frame = ok_frame and cq_vals(got) == cq_vals(col_values(flat[f]))
                            # ... and the result is an ordinary frame: the same field read through its back-ticked path
                            via_path = attempt(lambda: col_values(out[f"`{NEST}`.`{f}`"]))
                            ok_frame = ok_frame and via_path[0] == "ok" and cq_vals(via_path[1]) == cq_vals(got)
                    impl = ("ok", fo.rows_rm(out[NEST].array.chunked_array, fields_now))
                term = (f"(match chk_rows {model} {model} {fo.cq_res_nrows(impl)} with [a; b; c; s] => "
                        f"[a; b && {cq_bool(ok_frame and unchanged)}; c; s] | l => l end)")
                nontrivial = sum(lens) > 1
            cases.append({
                "stream": "eval", "op": "eval_" + kind, "term": term,
                "input": dict(ao.input_repr(inp), labels=[repr(x) for x in labels], field_names=names, program=program, inplace=inplace),
                "impl_repr": str(res)[:500],
                "meta": ao.base_meta(inp, impl_raised=res[0] == "err", repeated_labels=len(set(labels)) != len(labels), label_kind=label_kind,
                                     multiline=nlines > 1, inplace=inplace),
                "sig": [kind, nlines, inplace, inp["recipe"], label_kind, len(rows)], "trivial": not nontrivial,
                "hist": {"op": "eval_" + kind, "lines": nlines, "inplace": inplace, "layout": inp["recipe"], "labels": label_kind,
                         "raised": res[0] == "err"}})
        except Exception:  # noqa: BLE001
            cases.append(_uninterpretable(i, 'C13'))
    for k, c in enumerate(cases):
        c["cid"] = k
    return cases
