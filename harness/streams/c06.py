"""C06 stream: editing one nested field changes that field and nothing else.  Array level
(set_flat_field / set_list_field / fill_field_lists / pop_fields / view_fields on a copy), the
accessor's copy-then-edit wrappers, .nest[f] = ..., and NestedFrame['nest.field'] = ..."""
from __future__ import annotations

from harness import arrayops as ao
from harness import gen
from harness.streams import c06_frame

RULE = ("one case = one field edit (add / replace / remove / select; from a scalar, flat array, chunked array, Series, list array "
        "incl. sliced and chunked ones, per-row values; array method on a copy, .nest.with_* / without_field / .nest[[...]], "
        ".nest[f]=..., frame['n.f']=...) on one column in one of 11 layouts with missing and empty rows, malformed variants "
        "(wrong lengths, unknown / duplicate fields, ragged lists) in a separate stream; the WHOLE result column (validity, every "
        "field, types) is compared with model and spec; distinct = (op, layout, sizes, args) signature; non-trivial = not an error "
        "and the column holds at least one record")
ASSUMPTIONS = ["replacing a field with keep_dtype=True is exercised with the same element type or a new field only (casts are Arrow's)"]
CORRESPONDENCE = "m_set_flat_field / m_set_list_field / m_fill_field_lists / m_pop_fields / m_view_fields (ExtArray.v) vs the real methods"
LAYOUTS = list(gen.LAYOUTS) + ["history", "history"]


def generate(ctx):
    rng = ctx.rng
    n = ctx.budget(240, 2400)
    max_rows = 7 if ctx.tier == "quick" else 12
    cases = []
    ops = [
        lambda r, i: ao.op_set_flat(r, i, "array"), lambda r, i: ao.op_set_flat(r, i, "with_flat_field"),
        lambda r, i: ao.op_set_flat(r, i, "with_field"), lambda r, i: ao.op_set_lists(r, i, "array"),
        lambda r, i: ao.op_set_lists(r, i, "with_list_field"), lambda r, i: ao.op_fill(r, i, "array"),
        lambda r, i: ao.op_fill(r, i, "with_filled_field"), lambda r, i: ao.op_select_fields(r, i, "array"),
        lambda r, i: ao.op_select_fields(r, i, "accessor"),
        lambda r, i: ao.op_set_flat(r, i, "array", malformed=True), lambda r, i: ao.op_set_lists(r, i, "array", malformed=True),
        lambda r, i: ao.op_fill(r, i, "array", malformed=True), lambda r, i: ao.op_select_fields(r, i, "array", malformed=True),
    ]
    for i in range(n):
        corner = {0: "zero_rows", 1: "all_missing", 2: "all_empty"}.get(i % 60)
        inp = ao.mk_input(rng, max_rows=max_rows, recipes=LAYOUTS, corner=corner,
                          recipe=LAYOUTS[i % len(LAYOUTS)] if i < 2 * len(LAYOUTS) else None)
        if inp.get("history_failed"):
            cases.append(ao.history_failure_case(inp))
            continue
        if inp["built"][0] != "ok":
            continue
        cases.append(ao.run_op(ops[i % len(ops)], rng, inp))
    cases.extend(c06_frame.generate(ctx))
    for k, c in enumerate(cases):
        c["cid"] = k
    return cases
