"""C19 stream: Arrow interchange in both orientations (struct-of-lists / list-of-structs), the
constructor from a list-struct array, astype to / from the pandas Arrow dtype, pandas-to-Arrow table
conversion, explicit type requests (cast of every field, or refusal)."""
from __future__ import annotations

import numpy as np
import pandas as pd
import pyarrow as pa

from harness import arrayops as ao
from harness import core, gen
from harness.core import attempt, cq_bool, cq_bools, cq_lcol, cq_list, cq_lrows, cq_nats, cq_phys, cq_schema, cq_str, cq_vals
from nested_pandas import NestedDtype, NestedFrame
from nested_pandas.series.ext_array import NestedExtensionArray as NEA
from nested_pandas.series.utils import transpose_struct_list_type

RULE = ("one case = one interchange operation on one generated column in one of 11 layouts: export as list-of-structs "
        "(chunked_list_struct_array, __arrow_array__ with a list type, to_arrow_ext_array(list_struct=True) must agree), import "
        "of a list-of-structs array (result of an export, or built by plain pyarrow, also sliced), double transposition, "
        "astype(ArrowDtype) and back, Table.from_pandas, casts to widened / incompatible element types; distinct = (op, layout, "
        "sizes) signature; non-trivial = the column holds a record")
ASSUMPTIONS = ["Arrow's cast of flat values is the oracle for explicit type requests (plain pyarrow, no library code)"]
CORRESPONDENCE = "m_list_struct_rows / m_init_from_ls (ExtArray.v: m_transpose_sl, m_transpose_ls) vs the real transpositions"
LAYOUTS = list(gen.LAYOUTS) + ["history", "history"]


class _R:
    """NaN-safe equality of to_pylist() results: compared through repr (nan == nan, -0.0 != 0.0)"""
    def __init__(self, v):
        self.v = repr(v)

    def __eq__(self, o):
        return self.v == (o.v if isinstance(o, _R) else repr(o))


def ls_rows_py(ls_ca, names):
    out = []
    for r in ls_ca.to_pylist():
        out.append(None if r is None else [[rec[n] for rec in r] for n in names])
    return out


def ls_rows_typed(ls_ca, st):
    """per row per field values with timestamps normalised like core.child_values"""
    names = [f.name for f in st]
    rows = ls_rows_py(ls_ca, names)
    return rows


def phys_ls(arr: pa.ListArray, st):
    vals = arr.values
    kids = []
    for i, f in enumerate(st):
        kids.append((f.name, core.ety_of(f.type.value_type), core.child_values(vals.field(i))))
    return {"offs": arr.offsets.to_pylist(), "valid": arr.is_valid().to_pylist(),
            "svalid": vals.is_valid().to_pylist(), "children": kids}


def cq_ls(a):
    kids = cq_list(f"({cq_str(n)}, {t}, {cq_vals(v)})" for n, t, v in a["children"])
    return (f"{{| ls_offs := {cq_nats(a['offs'])}; ls_valid := {cq_bools(a['valid'])}; "
            f"ls_svalid := {cq_bools(a['svalid'])}; ls_children := {kids} |}}")


def generate(ctx):
    rng = ctx.rng
    n = ctx.budget(200, 2000)
    max_rows = 7 if ctx.tier == "quick" else 12
    cases = []
    for i in range(n):
        corner = {0: "zero_rows", 1: "all_missing", 2: "all_empty"}.get(i % 40)
        recipe = LAYOUTS[i % len(LAYOUTS)] if i < 2 * len(LAYOUTS) else None
        if i % 7 == 0 and (i // 7) % 3 == 0 and "mixed_bases" in LAYOUTS:
            recipe, corner = "mixed_bases", None        # the export must cut every field by ITS OWN offsets
        inp = ao.mk_input(rng, max_rows=max_rows, recipes=LAYOUTS, corner=corner, recipe=recipe)
        if inp.get("history_failed"):
            cases.append(ao.history_failure_case(inp))
            continue
        if inp["built"][0] != "ok":
            continue
        arr = inp["arr"]
        st = inp["ca"].type
        names = [f.name for f in st]
        which = ["export", "import_export", "import_plain", "roundtrip", "astype", "table", "cast"][i % 7]
        meta = ao.base_meta(inp)
        base = {"stream": "interchange", "input": ao.input_repr(inp), "meta": meta,
                "sig": [which, inp["recipe"], len(inp["rows"]), len(inp["schema"]), inp["st"]["missing"]],
                "trivial": not any(r for r in inp["rows"] if r and any(len(v) for v in r.values())),
                "hist": {"op": which, "layout": inp["recipe"]}}
        if which == "export":
            def run():
                a = arr.chunked_list_struct_array
                b = pa.chunked_array(pa.array(pd.Series(arr), type=transpose_struct_list_type(st))) \
                    if False else arr.__arrow_array__(transpose_struct_list_type(st))
                c = arr.to_arrow_ext_array(list_struct=True)._pa_array
                ra = repr(ls_rows_py(a, names))
                assert ra == repr(ls_rows_py(b, names)) == repr(ls_rows_py(c, names)), "the three exports differ"
                assert a.type == transpose_struct_list_type(st)
                return a
            res = attempt(run)
            impl = f"(Ok {cq_lrows(_norm_ts(ls_rows_py(res[1], names), st))})" if res[0] == "ok" else "Err"
            term = f"(let P := {inp['P']} in let L := {inp['L']} in chk_ls_export P L {impl})"
            cases.append(dict(base, op="export_list_struct", term=term, impl_repr=str(res)[:300]))
            meta["impl_raised"] = res[0] == "err"
        elif which in ("import_export", "import_plain"):
            if which == "import_export":
                ls = arr.chunked_list_struct_array
            else:
                lt = transpose_struct_list_type(st)
                recs = []
                for r in inp["rows"]:
                    if r is None:
                        recs.append(None)
                    else:
                        k = len(r[names[0]])
                        recs.append([{nm: r[nm][j] for nm in names} for j in range(k)])
                pad = [[{nm: gen.gen_value(rng, t) for nm, t in inp["schema"]}]]
                whole = pa.array(pad + recs + pad, type=lt)
                ls = pa.chunked_array([whole.slice(1, len(recs))])
                if len(recs) > 1 and rng.random() < 0.5:
                    cut = rng.randint(0, len(recs))
                    ls = pa.chunked_array([whole.slice(1, cut), whole.slice(1 + cut, len(recs) - cut)])
                elif any(r is None for r in recs) and i % 2 == 0:
                    # null lists that still SPAN records of the child struct (legal Arrow: ListArray.from_arrays(offsets, values,
                    # mask=...)): a missing row holds nothing, whatever the orientation the column came in
                    filled = [r if r is not None else [{nm: gen.gen_value(rng, t) for nm, t in inp["schema"]} for _ in range(rng.randint(1, 2))]
                              for r in recs]
                    wh = pa.array(filled, type=lt)
                    ls = pa.chunked_array([pa.ListArray.from_arrays(wh.offsets, wh.values, mask=pa.array([r is None for r in recs], type=pa.bool_()))])
            A = cq_list(cq_ls(phys_ls(ch, st)) for ch in ls.chunks)
            res = attempt(lambda: NEA(ls))
            impl_term, pq, lg2, raised = ao.col_result(res)
            sch = cq_schema(inp["lg"]["schema"])
            term = f"(chk_ls_import {sch} {A} {inp['L']} {impl_term} {pq})"
            if res[0] == "ok":
                # ... and the offsets-based quantities of what was stored are those of a compact array holding the same rows
                # (a missing row that still spans elements shows up here, not in the masked read-back above)
                compact = attempt(lambda: ao.summary_views(NEA(pa.chunked_array([pa.array(res[1].chunked_array.to_pylist(), type=st)], type=st))))
                mine = attempt(lambda: ao.summary_views(res[1]))
                same = compact[0] == "ok" and mine[0] == "ok" and all(repr(mine[1][k_]) == repr(compact[1][k_]) for k_ in ("isna", "list_lengths", "flat_length", "list_index"))
                same = same and list(np.diff(mine[1]["list_offsets"])) == list(np.diff(compact[1]["list_offsets"]))
                fl = attempt(lambda: [len(pd.Series(res[1]).nest.to_flat()), len(pd.Series(res[1]).nest.get_flat_index())])
                same = same and fl[0] == "ok" and fl[1] == [compact[1]["flat_length"]] * 2
                if not same:
                    term = f"(match {term} with [a; b; c; s] => [a; false; c; s] | l => l end)"
            meta["impl_raised"] = raised
            cases.append(dict(base, op=which, term=term, impl_repr="raised" if raised else "ok"))
        else:
            # python-level oracles (pandas / Arrow conversions are contracts); flag B carries the verdict
            def run():
                s = pd.Series(arr, name="n")
                want = _R(inp["ca"].to_pylist())
                if which == "roundtrip":
                    back = NEA(arr.chunked_list_struct_array)
                    assert back.chunked_array.to_pylist() == want and back.dtype == arr.dtype
                    twice = NEA(back.chunked_list_struct_array)
                    assert twice.chunked_array.to_pylist() == want
                    # a list-of-structs selection that selects NO row has no chunk at all: still the (empty) column of that dtype
                    lst = transpose_struct_list_type(st)
                    for what, empty_ls in (("no chunks", pa.chunked_array([], type=lst)),
                                           ("filter selecting nothing", arr.chunked_list_struct_array.filter(pa.array([False] * len(arr), type=pa.bool_())))):
                        e = NEA(empty_ls)
                        assert len(e) == 0 and e.dtype == arr.dtype, f"import of a list-struct array with {what}: {e.dtype}"
                        e2 = NEA.from_arrow_ext_array(pd.arrays.ArrowExtensionArray(empty_ls))
                        assert len(e2) == 0 and e2.dtype == arr.dtype
                    # a list-of-structs array offered WITH an explicit type request: honoured (the dtype asked for, the values cast)
                    # or refused - never accepted and ignored
                    ints = [f.name for f in st if f.type.value_type == pa.int64()]
                    if ints:
                        wide_struct = pa.struct([pa.field(f.name, pa.list_(pa.float64()) if f.name in ints else f.type) for f in st])
                        wide_list = transpose_struct_list_type(wide_struct)
                        ls_now = arr.chunked_list_struct_array
                        casted = attempt(lambda: inp["ca"].cast(wide_struct).to_pylist())
                        for what, fn in (("from_sequence(list-struct, dtype=list-struct type)", lambda: NEA.from_sequence(ls_now, dtype=wide_list)),
                                         ("from_sequence(list-struct, dtype=ArrowDtype)", lambda: NEA.from_sequence(ls_now, dtype=pd.ArrowDtype(wide_list))),
                                         ("Series(list-struct, dtype=NestedDtype)", lambda: pd.Series(pd.arrays.ArrowExtensionArray(ls_now), dtype=NestedDtype(wide_struct)).array)):
                            r_ = attempt(fn)
                            if r_[0] == "ok":
                                assert r_[1].dtype == NestedDtype(wide_struct), f"{what}: accepted but the column is {r_[1].dtype}"
                                assert casted[0] == "ok" and repr(r_[1].chunked_array.to_pylist()) == repr(casted[1]), f"{what}: values differ from the cast"
                elif which == "astype":
                    s2 = s.astype(pd.ArrowDtype(st))
                    assert s2.array._pa_array.to_pylist() == want and s2.dtype == pd.ArrowDtype(st)
                    s3 = s2.astype(NestedDtype(st))
                    assert s3.array.chunked_array.to_pylist() == want and s3.dtype == s.dtype
                    s4 = pd.Series(s2.array, dtype=NestedDtype(st))
                    assert s4.array.chunked_array.to_pylist() == want
                    assert NEA.from_arrow_ext_array(s2.array).chunked_array.to_pylist() == want
                    assert arr.to_arrow_ext_array()._pa_array.to_pylist() == want
                elif which == "table":
                    nf = NestedFrame({"x": list(range(len(s)))})
                    nf["n"] = s
                    t = pa.Table.from_pandas(nf)
                    assert t["n"].to_pylist() == want and t["n"].type == st
                    # ... and back: pandas finds the extension dtype by the NAME recorded in the table's metadata
                    back = t.to_pandas()
                    assert isinstance(back["n"].dtype, NestedDtype) and back["n"].dtype == s.dtype, f"table -> pandas: dtype {back['n'].dtype}"
                    assert back["n"].array.chunked_array.to_pylist() == want, "table -> pandas: content differs"
                    assert pa.chunked_array(pa.array(s)).to_pylist() == want if not isinstance(pa.array(s), pa.ChunkedArray) \
                        else pa.array(s).to_pylist() == want
                    # a table made with an explicit schema - transposed, or with widened element types - and back to pandas: the
                    # column the table holds is what comes back (the dtype named in the table's metadata does not override it)
                    lst = transpose_struct_list_type(st)
                    t_ls = pa.Table.from_pandas(nf, schema=pa.schema([("x", pa.int64()), ("n", lst)]), preserve_index=False)
                    assert t_ls["n"].type == lst
                    back_ls = t_ls.to_pandas()
                    assert isinstance(back_ls["n"].dtype, NestedDtype) and back_ls["n"].dtype == s.dtype, f"list-struct table -> pandas: {back_ls['n'].dtype}"
                    assert back_ls["n"].array.chunked_array.to_pylist() == want, "list-struct table -> pandas: content differs"
                    ints = [f.name for f in st if f.type.value_type == pa.int64()]
                    wide = pa.struct([pa.field(f.name, pa.list_(pa.float64()) if f.name in ints else f.type) for f in st])
                    t_w = attempt(lambda: pa.Table.from_pandas(nf, schema=pa.schema([("x", pa.int64()), ("n", wide)]), preserve_index=False))
                    if ints and t_w[0] == "ok":
                        back_w = t_w[1].to_pandas()
                        assert back_w["n"].dtype == NestedDtype(wide), f"widened table -> pandas: the column came back as {back_w['n'].dtype}"
                        assert _R(back_w["n"].array.chunked_array.to_pylist()) == _R(t_w[1]["n"].to_pylist()), "widened table -> pandas: content differs"
                else:
                    # explicit type request: every field cast, or refused
                    fld = rng.choice(list(st))
                    target = rng.choice([pa.float64(), pa.string(), pa.int64(), pa.large_string(), pa.int32()])
                    new_st = pa.struct([pa.field(f.name, pa.list_(target) if f.name == fld.name else f.type) for f in st])
                    flat = pa.chunked_array([c.field(fld.name).flatten() for c in arr.chunked_array.chunks], type=fld.type.value_type)
                    expect = attempt(lambda: flat.cast(target).to_pylist())
                    got = attempt(lambda: arr.__arrow_array__(new_st))
                    got2 = attempt(lambda: s.astype(NestedDtype(new_st)))
                    # Arrow casts the whole value buffer of a list array, also the values outside the window of a slice or under a
                    # missing row: the request may be refused because of a value no row shows ("honoured ... or refused")
                    stored = attempt(lambda: [c.field(fld.name).values.cast(target) for c in arr.chunked_array.chunks])
                    if expect[0] == "ok" and inp["st"]["hidden_children"] is False and (got[0] == "ok" or stored[0] == "ok"):
                        assert got[0] == "ok", f"a castable type request was refused: {got[1]!r} (target {target}, field {fld.name})"
                        out = got[1]
                        assert out.type == new_st
                        outflat = [v for r in out.to_pylist() if r is not None for v in r[fld.name]]
                        assert repr(outflat) == repr(expect[1]), "cast values differ"
                        for f in st:
                            if f.name != fld.name:
                                assert repr([None if r is None else r[f.name] for r in out.to_pylist()]) == \
                                       repr([None if r is None else r[f.name] for r in inp["ca"].to_pylist()]), "another field changed in a cast"
                        assert got2[0] == "ok" and repr(got2[1].array.chunked_array.to_pylist()) == repr(out.to_pylist())
                        assert got2[1].dtype == NestedDtype(new_st)
                    elif expect[0] == "err" and len(flat) > 0:
                        # (for a column without any value Arrow's struct cast does not look at the children: nothing to mis-cast)
                        assert got[0] == "err" and got2[0] == "err", "a non-castable type request was not refused"
                return True
            res = attempt(run)
            meta["impl_raised"] = res[0] == "err"
            term = f"[true; {cq_bool(res[0] == 'ok')}; true; true]"
            cases.append(dict(base, op=which, term=term, impl_repr=str(res)[:300]))
    for k, c in enumerate(cases):
        c["cid"] = k
    return cases


def _norm_ts(rows, st):
    """to_pylist gives datetime for timestamps: normalise to pd.Timestamp via the Arrow type"""
    out = []
    for r in rows:
        if r is None:
            out.append(None)
            continue
        fs = []
        for f, vals in zip(st, r):
            if pa.types.is_timestamp(f.type.value_type):
                fs.append(core.child_values(pa.array(vals, type=f.type.value_type)))
            else:
                fs.append(vals)
        out.append(fs)
    return out
