"""Kernel-contract cases: the theorems about library code use only the LOGICAL behaviour of the canonical kernel instances
of Kernels.v (take, filter, slice, if_else, combine_chunks, drop_null, concatenation).  These cases run the REAL pyarrow kernels
on generated physical inputs and compare their logical result with the canonical instance evaluated in Coq; the physical result
of the real kernel must again be well-formed.  A failure here means the theorems no longer speak about this runtime: it is
reported by the properties that rely on the kernels (C05), with the kernel input as the replay."""
from __future__ import annotations

import pyarrow as pa
import pyarrow.compute as pc

from harness import arrayops as ao
from harness import core, gen
from harness.core import attempt, cq_bools, cq_lcol, cq_list, cq_phys


def generate(ctx, n_cases):
    rng = ctx.rng
    cases = []
    layouts = [l for l in gen.LAYOUTS if l != "missing_hidden"]
    for i in range(n_cases):
        inp = ao.mk_input(rng, max_rows=7, recipes=layouts)
        if inp["built"][0] != "ok":
            continue
        ca = inp["ca"]
        n = len(ca)
        which = ["take", "take_null", "filter", "slice", "if_else", "combine_chunks", "drop_null", "concat"][i % 8]
        P = inp["P"]
        if which in ("take", "take_null"):
            ix = [rng.randrange(n) for _ in range(rng.randint(0, 6))] if n else []
            if which == "take_null" and ix:
                ix[rng.randrange(len(ix))] = None
            res = attempt(lambda: ca.take(pa.array(ix, type=pa.int64())))
            model = f"k_take P {cq_list('None' if j is None else f'(Some {j})' for j in ix)}"
        elif which == "filter":
            m = [rng.random() < 0.5 for _ in range(n)]
            res = attempt(lambda: ca.filter(pa.array(m, type=pa.bool_())))
            model = f"k_filter P {cq_bools(m)}"
        elif which == "slice":
            a = rng.randint(0, n)
            b = rng.randint(a, n)
            res = attempt(lambda: ca.slice(a, b - a))
            model = f"k_slice P {a} {b}"
        elif which == "if_else":
            other = ao.mk_input(rng, content=(inp["schema"], gen.gen_rows(rng, inp["schema"], n)), recipes=layouts)
            m = [rng.random() < 0.5 for _ in range(n)]
            res = attempt(lambda: pc.if_else(pa.array(m, type=pa.bool_()), other["ca"].combine_chunks() if other["ca"].num_chunks != 1 else other["ca"].chunk(0),
                                             ca.combine_chunks() if ca.num_chunks != 1 else ca.chunk(0)))
            model = f"k_if_else {cq_bools(m)} {other['P']} P"
        elif which == "combine_chunks":
            res = attempt(lambda: ca.combine_chunks())
            model = "k_combine_chunks P"
        elif which == "drop_null":
            res = attempt(lambda: ca.drop_null())
            model = "k_drop_null P"
        else:
            other = ao.mk_input(rng, content=(inp["schema"], gen.gen_rows(rng, inp["schema"], rng.randint(0, 3))), recipes=layouts)
            res = attempt(lambda: pa.chunked_array(list(ca.chunks) + list(other["ca"].chunks), type=ca.type))
            model = f"k_concat (ctype P) [P; {other['P']}]"
        if res[0] == "ok":
            out = res[1] if isinstance(res[1], pa.ChunkedArray) else pa.chunked_array([res[1]])
            lg = core.logical(out)
            term = (f"(let P := {P} in [lcol_eqb (abs ({model})) {cq_lcol(lg)}; true; "
                    f"wf_chunks_b {cq_phys(core.phys(out))}; lcol_eqb (abs P) {inp['L']}])")
        else:
            term = "[false; true; true; true]"
        cases.append({"stream": "kernels", "op": "kernel_" + which, "term": term, "input": ao.input_repr(inp),
                      "impl_repr": "raised " + res[1] if res[0] == "err" else "ok", "meta": ao.base_meta(inp, impl_raised=res[0] == "err"),
                      "sig": ["kernel", which, inp["recipe"], n], "trivial": n == 0,
                      "hist": {"op": "kernel_" + which, "layout": inp["recipe"]}})
    return cases
