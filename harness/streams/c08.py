"""C08 stream: parquet files round-trip the frame and stay readable by plain Arrow.
Real files in a scratch directory (removed after the run): frames with base columns and TWO nested columns in any layout x writer
configuration (row_group_size, compression, dictionary on/off, path vs file object, default / labelled index) x reader (the library,
plain pyarrow.parquet) x column / dotted-field selections; files written by plain pyarrow (well-formed and ragged).
 - full round trip: same columns in the same order, same rows, equal base values, nested dtype and per-row content incl. missing and
   empty rows and inner nulls; a non-default index comes back as a column;
 - plain Arrow: no extension / pandas metadata, every nested column a struct of equal-length lists with the same content;
 - selections: exactly the requested columns and fields, same values as in the full read; the regrouping of the requested names is
   compared with the Coq model m_regroup (Io.v)."""
from __future__ import annotations

import io
import os
import shutil
import tempfile

import numpy as np
import pandas as pd
import pyarrow as pa
import pyarrow.parquet as pq

from harness import arrayops as ao
from harness import core, gen
from harness import frameops as fo
from harness.core import attempt, cq_bool, cq_list
from nested_pandas import NestedDtype, NestedFrame, read_parquet

RULE = ("one case = one generated frame (2 base columns, nested columns n1 (1-4 fields, one of 15 layouts) and n2 (2 fields), labels default / "
        "int / str) written with one writer configuration (row_group_size 1..n, snappy / gzip / none, dictionary on / off, path or BytesIO) and read "
        "back (a) in full by the library, (b) by plain pyarrow.parquet, (c) with a selection of 1-5 columns / dotted fields in random order (fields "
        "of the two nests interleaved, repeated base columns excluded), (d) full + partial of one nest (refused), or a file written by plain "
        "pyarrow (well-formed, ragged, non-list leaf); values are compared through to_pylist / the record-major read-back, the selection's column "
        "list with the Coq model m_regroup; distinct = (kind, layout, writer config, selection shape); non-trivial = some row holds records")
ASSUMPTIONS = ["the parquet codec is Arrow's: write_table / read_table keep values, nulls at struct and list level and order (contract)",
]
CORRESPONDENCE = "m_regroup (Io.v) vs the column list produced by read_parquet(columns=...)"
EXTRA_IMPORTS = "Dtype Names Io Io2 Glue"


def cq_s(s):
    return "[" + "; ".join(str(ord(c)) for c in s) + "]"


def make_frame(rng, ctx_rows, allow_collisions=True, force_mode=None):
    inp = ao.mk_input(rng, max_rows=ctx_rows, recipes=fo.LAYOUTS)
    if inp.get("history_failed") or inp["built"][0] != "ok":
        return None
    n = len(inp["rows"])
    ik = rng.choice(["default", "default", "int", "str", "named"])
    if ik == "default":
        index = pd.RangeIndex(n)
    elif ik == "int":
        index = pd.Index([rng.randint(-5, 50) for _ in range(n)])
    elif ik == "str":
        index = pd.Index([rng.choice(["a", "b", "c", "dd"]) for _ in range(n)])
    else:
        index = pd.Index(list(range(10, 10 + n)), name="obj_id")
    names1 = [nm for nm, _ in inp["schema"]]
    # names: plain / colliding across layers (a base column and a field of the OTHER nest named like a field of n1) /
    # legal names with spaces and punctuation (no '.', no backtick)
    mode = rng.choice(["plain", "plain", "collide", "punct"]) if allow_collisions else rng.choice(["plain", "punct"])
    if force_mode and allow_collisions:
        mode = force_mode
    nm = {"x": "x", "y": "y", "n1": "n1", "n2": "n2", "s": "s", "k": "k", "mode": mode}
    if mode == "collide":
        nm["y"] = names1[0]
        nm["s"] = names1[-1]
    elif mode == "punct":
        nm.update({"x": "peak flux (mJy)", "y": "k=v", "n1": "light curve", "n2": "n,2;{z}", "s": "s t"})
    # base columns: row ids, doubles with nulls, and identifiers above 2^53 with nulls (an integer column that goes through a
    # double on its way - numpy has no integer null - comes back with other values)
    nf = NestedFrame({nm["x"]: list(range(n)), nm["y"]: pd.array([rng.choice([0.5, None, 2.5]) for _ in range(n)], dtype=pd.ArrowDtype(pa.float64())),
                      "big id": pd.array([rng.choice([None, (1 << 60) + 2 * j + 1, -(1 << 58) - j]) for j in range(n)], dtype=pd.ArrowDtype(pa.int64()))},
                     index=index)
    nf[nm["n1"]] = pd.Series(inp["arr"], index=index, name=nm["n1"])
    sch2 = [(nm["s"], "string"), (nm["k"], "int64")]
    rows2 = gen.gen_rows(rng, sch2, n, max_len=3)
    nf[nm["n2"]] = pd.Series(type(inp["arr"])(pa.array(rows2, type=gen.struct_type(sch2))), index=index, name=nm["n2"])
    return nf, inp, ik, nm


def col_pylist(nf, c):
    col = nf[c]
    if hasattr(col.array, "chunked_array"):
        return repr(col.array.chunked_array.to_pylist())
    return repr([None if (v is pd.NA or v is None or (isinstance(v, float) and v != v)) else v for v in col.tolist()])


def generate(ctx):
    rng = ctx.rng
    tmpdir = tempfile.mkdtemp(prefix="verif_c08_")
    cases = []
    try:
        for i in range(ctx.budget(130, 1100)):
            kind = ["full", "plain_arrow", "select", "select", "select", "full_and_partial", "foreign", "select_reject"][i % 8]
            # every other partial load runs on names that collide across the layers (a leaf found by NAME instead of by position
            # is then the wrong leaf)
            made = make_frame(rng, 6 if ctx.tier == "quick" else 10, allow_collisions=kind != "select_reject",
                              force_mode="collide" if (kind == "select" and (i // 8) % 2 == 0) else None)
            if made is None:
                continue
            nf, inp, ik, nm = made
            N1, N2, BX, BY = nm["n1"], nm["n2"], nm["x"], nm["y"]
            n = len(nf)
            cfg = {"row_group_size": rng.choice([None, 1, 2, max(1, n)]), "compression": rng.choice(["snappy", "gzip", "none"]),
                   "use_dictionary": rng.random() < 0.5}
            cfg = {k: v for k, v in cfg.items() if v is not None}
            via_buffer = rng.random() < 0.3
            path = os.path.join(tmpdir, f"f{i}.parquet")
            before = fo.snapshot(nf)
            names1 = list(nf[N1].nest.fields)

            def write():
                if via_buffer:
                    buf = io.BytesIO()
                    nf.to_parquet(buf, **cfg)
                    open(path, "wb").write(buf.getvalue())
                else:
                    nf.to_parquet(path, **cfg)
            w = attempt(write)
            term, impl_repr, nontrivial = "[true; false; true; true]", "", any(r for r in inp["rows"] if r and any(len(v) for v in r.values()))
            args = {"cfg": cfg, "index": ik, "via_buffer": via_buffer, "names": nm}
            if w[0] == "err":
                impl_repr = f"to_parquet raised {w[1]}"
            elif fo.snapshot(nf) != before:
                impl_repr = "to_parquet changed the frame"
            elif kind == "full":
                def run():
                    back = read_parquet(path if rng.random() < 0.7 else open(path, "rb"))
                    assert isinstance(back, NestedFrame)
                    want_cols = list(nf.columns) + ([nf.index.name or "__index_level_0__"] if ik != "default" else [])
                    assert list(back.columns) == want_cols, f"columns {list(back.columns)} != {want_cols}"
                    assert len(back) == n
                    if ik == "default":
                        assert [repr(v) for v in back.index] == [repr(v) for v in range(n)], f"a default index came back as {list(back.index)[:8]}"
                    for c in nf.columns:
                        assert col_pylist(back, c) == col_pylist(nf, c), f"column {c} differs"
                    for c in (N1, N2):
                        assert isinstance(back.dtypes[c], NestedDtype), f"{c} is not nested after reading"
                        assert [(f.name, str(f.type.value_type)) for f in back.dtypes[c].pyarrow_dtype] == \
                               [(f.name, str(f.type.value_type)) for f in nf.dtypes[c].pyarrow_dtype], f"dtype of {c} differs"
                    if ik != "default":
                        assert [repr(v) for v in back.iloc[:, -1]] == [repr(v) for v in nf.index], "the index did not come back as a column"
                    return True
                r = attempt(run)
                term, impl_repr = f"[true; {cq_bool(r[0] == 'ok')}; true; true]", str(r)
            elif kind == "plain_arrow":
                def run_p():
                    t = pq.read_table(path)
                    md = t.schema.metadata or {}
                    assert b"pandas" not in md, "pandas metadata in the file"
                    for f in t.schema:
                        assert not (f.metadata or {}), f"field metadata on {f.name}"
                        assert not isinstance(f.type, pa.ExtensionType)
                    for c in (N1, N2):
                        ty = t.schema.field(c).type
                        assert pa.types.is_struct(ty) and all(pa.types.is_list(f.type) for f in ty), f"{c} is not a struct of lists"
                        rows = t[c].to_pylist()
                        assert repr(rows) == repr(nf[c].array.chunked_array.to_pylist()), f"content of {c} differs for plain pyarrow"
                        for r_ in rows:
                            assert r_ is None or len({len(v) for v in r_.values()}) == 1, "lists of unequal length"
                    assert t[BX].to_pylist() == list(range(n))
                    return True
                r = attempt(run_p)
                term, impl_repr = f"[true; {cq_bool(r[0] == 'ok')}; true; true]", str(r)
            elif kind in ("select", "full_and_partial", "select_reject"):
                # a selection: each nest either in full or through some of its fields (never both, unless that is the point), order shuffled
                sel = [c for c in [BX, BY, "big id"] if rng.random() < 0.6]
                for nest, fields in ((N1, names1), (N2, [nm["s"], nm["k"]])):
                    mode = rng.choice(["skip", "full", "partial", "partial"])
                    if mode == "full":
                        sel.append(nest)
                    elif mode == "partial":
                        sel += [f"{nest}.{f}" for f in rng.sample(fields, rng.randint(1, len(fields)))]
                if not sel:
                    sel = [f"{N1}.{names1[0]}"]
                rng.shuffle(sel)
                if kind == "full_and_partial":
                    sel = [c for c in sel if c.split(".")[0] != N1] + [N1, f"{N1}.{names1[0]}"]
                    rng.shuffle(sel)
                reject = [N2] if kind == "select_reject" else None
                full = read_parquet(path)

                source_kind = rng.choice(["path", "path", "file", "bytes"])

                def run_s():
                    # the same selection through a path, an open file or an in-memory buffer
                    src = path if source_kind == "path" else (open(path, "rb") if source_kind == "file" else io.BytesIO(open(path, "rb").read()))
                    try:
                        back = read_parquet(src, columns=list(sel), reject_nesting=reject)
                    finally:
                        if source_kind == "file":
                            src.close()
                    assert isinstance(back, NestedFrame)
                    return back
                r = attempt(run_s)
                # the model: pyarrow returns one column per request; a dotted request comes back under the leaf's name
                cols_t = cq_list("{| rq_in := %s; rq_pa := %s; rq_list := %s |}" % (cq_s(c), cq_s(c.split(".")[-1]), cq_bool("." in c))
                                 for c in sel)
                rej_t = cq_list(cq_s(x) for x in (reject or []))
                if r[0] == "ok":
                    back = r[1]
                    outs = []
                    partial_terms = []
                    ok_vals = len(back) == n
                    for c in back.columns:
                        dt = back.dtypes[c]
                        if isinstance(dt, NestedDtype) or (isinstance(dt, pd.ArrowDtype) and pa.types.is_struct(dt.pyarrow_dtype)):
                            fields = [f.name for f in (dt.pyarrow_dtype)]
                            partial = c not in sel
                            outs.append(f"(OStruct {cq_s(str(c))} {cq_list(cq_s(f) for f in fields)})" if partial else f"(OFlat {cq_s(str(c))})")
                            # same values as in the full read, field by field
                            rows_b = back[c].array.chunked_array.to_pylist() if hasattr(back[c].array, "chunked_array") else back[c].array._pa_array.to_pylist()
                            if not hasattr(full[c].array, "chunked_array"):
                                ok_vals = False          # the FULL read did not return a nested column
                                continue
                            rows_f = full[c].array.chunked_array.to_pylist()
                            if partial and isinstance(dt, NestedDtype):
                                # the content, physically: the full read of the file against the partial load (Io2.v)
                                partial_terms.append(f"chk_partial_load {core.cq_phys(core.phys(full[c].array.chunked_array))} "
                                                     f"{core.cq_strs(fields)} {core.cq_phys(core.phys(back[c].array.chunked_array))}")
                            for rb, rf in zip(rows_b, rows_f):
                                if rf is None:
                                    if rb is not None:
                                        ok_vals = False      # a missing row must stay missing in a partial load too
                                else:
                                    if rb is None or any(repr(rb[f]) != repr(rf[f]) for f in fields):
                                        ok_vals = False
                            if partial and kind != "select_reject" and not isinstance(dt, NestedDtype):
                                ok_vals = False
                        else:
                            outs.append(f"(OFlat {cq_s(str(c))})")
                            src = c if c in full.columns else None
                            if src is not None and col_pylist(back, c) != col_pylist(full, src):
                                ok_vals = False
                    # exactly the requested columns and fields
                    want = []
                    for c in sel:
                        if "." in c and (reject is None or c.split(".")[0] not in reject):
                            if c.split(".")[0] not in [w_[0] for w_ in want if isinstance(w_, tuple)]:
                                want.append((c.split(".")[0], [s_.split(".")[1] for s_ in sel if s_.startswith(c.split(".")[0] + ".")]))
                    flat_want = [c.split(".")[-1] for c in sel if "." not in c or (reject is not None and c.split(".")[0] in reject)]
                    got_flat = [str(c) for c in back.columns if str(c) not in [w_[0] for w_ in want]]
                    got_structs = [(str(c), [f.name for f in back.dtypes[c].pyarrow_dtype]) for c in back.columns if str(c) in [w_[0] for w_ in want]]
                    exact = got_flat == flat_want and got_structs == [(a, b) for a, b in want]
                    pl = cq_list(partial_terms)
                    term = (f"(let PL : list (list bool) := {pl} in "
                            f"[match m_regroup {rej_t} {cols_t} with Ok (_, out) => list_eqb outcol_eqb out {cq_list(outs)} | Err => false end "
                            f"&& forallb (fun l => nth 0 l false) PL; "
                            f"{cq_bool(ok_vals and exact and kind != 'full_and_partial')} && forallb (fun l => nth 1 l false) PL; "
                            f"forallb (fun l => nth 2 l false) PL; forallb (fun l => nth 3 l false) PL])")
                    impl_repr = {"columns": [str(c) for c in back.columns], "values_equal_full_read": ok_vals, "exactly_requested": exact}
                else:
                    term = (f"[match m_regroup {rej_t} {cols_t} with Ok _ => false | Err => true end; "
                            f"{cq_bool(kind == 'full_and_partial')}; true; true]")
                    impl_repr = f"raised {r[1]}"
                args["columns"] = sel
                args["reject_nesting"] = reject
                args["source"] = source_kind
            else:
                # a file written by plain pyarrow
                st = gen.struct_type(inp["schema"])
                variant = rng.choice(["wellformed", "ragged", "nonlist"])
                schema = inp["schema"]
                rows = inp["rows"]
                if variant == "ragged" and len(schema) > 1 and any(r for r in rows):
                    from harness.streams.c01 import make_ragged, struct_from_rows
                    rr = make_ragged(rng, schema, rows) or rows
                    col = struct_from_rows(rng, schema, rr, "one")
                    if rr is rows:
                        variant = "wellformed"
                elif variant == "nonlist":
                    col = pa.chunked_array([pa.array([{"a": 1, "b": [1, 2]} for _ in range(n)], type=pa.struct([("a", pa.int64()), ("b", pa.list_(pa.int64()))]))])
                else:
                    variant = "wellformed"
                    col = pa.chunked_array([pa.array(rows, type=st)], type=st)
                # the foreign column carries the SAME name as the frame's own nested column
                with_pandas_meta = variant == "wellformed" and (i // 8) % 2 == 0 and n > 0
                if with_pandas_meta:
                    # written by plain pyarrow FROM A PANDAS FRAME with its own labels (pandas metadata in the file, the index restored
                    # on reading): the nested rows still belong to the rows they were written with
                    lab = rng.choice([rng.sample(range(n), n), [10 * (j + 1) for j in range(n)], [f"s{j}" for j in range(n)][::-1]])
                    pdf = pd.DataFrame({"x": list(range(n)), N1: pd.Series(col, dtype=pd.ArrowDtype(st), index=lab)}, index=lab)
                    pq.write_table(pa.Table.from_pandas(pdf), path, row_group_size=max(1, rng.randint(1, max(1, n))))
                else:
                    pq.write_table(pa.table({"x": pa.array(range(n)), N1: col}), path, row_group_size=max(1, rng.randint(1, max(1, n))))

                def run_f():
                    back = read_parquet(path)
                    if variant == "wellformed":
                        assert isinstance(back.dtypes[N1], NestedDtype)
                        assert repr(back[N1].array.chunked_array.to_pylist()) == repr(col.to_pylist())
                        assert [int(v) for v in back["x"]] == list(range(n)), "base values moved"
                        if with_pandas_meta:
                            assert [repr(v) for v in back.index] == [repr(v) for v in lab], "labels of the file's pandas metadata not restored"
                    elif variant == "nonlist":
                        assert not isinstance(back.dtypes[N1], NestedDtype), "a struct with a non-list field became nested"
                        assert [int(v) for v in back["x"]] == list(range(n))
                        # a partial load naming the non-list member is legal (the column is then not nested) ...
                        part = read_parquet(path, columns=["x", f"{N1}.a"])
                        assert len(part) == n
                        # ... and what was read before does not change what a later read of ANOTHER file returns
                        path2 = path + ".own.parquet"
                        nf.to_parquet(path2)
                        own = read_parquet(path2)
                        os.remove(path2)
                        assert isinstance(own.dtypes[N1], NestedDtype), "after reading a foreign file the frame's own nested column is no longer read as nested"
                        assert col_pylist(own, N1) == col_pylist(nf, N1)
                    return True
                r = attempt(run_f)
                ok = (r[0] == "ok") if variant != "ragged" else (r[0] == "err")
                # which struct columns the reader makes nested (Glue.m_cast_cols): the file's columns by kind against what happened
                kind_t = {"wellformed": "KStructLists true", "ragged": "KStructLists false", "nonlist": "KStructOther"}[variant]
                nested_obs = attempt(lambda: isinstance(read_parquet(path).dtypes[N1], NestedDtype)) if variant != "ragged" else ("ok", False)
                obs_t = ("Err" if r[0] == "err" else
                         f"(Ok [({cq_s('x')}, CUnchanged); ({cq_s(N1)}, {'CNested' if nested_obs == ('ok', True) else 'CUnchanged'})])")
                glue = (f"match m_cast_cols [({cq_s('x')}, KPlain); ({cq_s(N1)}, {kind_t})] [], {obs_t} with "
                        f"| Ok a, Ok b => list_eqb (fun p q => str_eqb (fst p) (fst q) && match snd p, snd q with CNested, CNested => true "
                        f"| CUnchanged, CUnchanged => true | _, _ => false end) a b | Err, Err => true | _, _ => false end")
                term, impl_repr = f"[{glue}; {cq_bool(ok)}; true; true]", f"{variant}: {r}"
                args["variant"] = variant
            if os.path.exists(path):
                os.remove(path)
            cases.append({"stream": "parquet", "op": "parquet_" + kind, "term": term,
                          "input": dict(ao.input_repr(inp), args={k: repr(v) for k, v in args.items()}),
                          "impl_repr": str(impl_repr)[:500],
                          "meta": ao.base_meta(inp, impl_raised=False, index_kind=ik),
                          "sig": [kind, inp["recipe"], ik, str(cfg), str(args.get("columns"))[:40]], "trivial": not nontrivial,
                          "hist": {"op": "parquet_" + kind, "layout": inp["recipe"], "index": ik, "compression": cfg.get("compression"),
                                   "row_group_size": str(cfg.get("row_group_size"))}})
    finally:
        shutil.rmtree(tmpdir, ignore_errors=True)
    for k, c in enumerate(cases):
        c["cid"] = k
    return cases
