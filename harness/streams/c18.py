"""C18 stream: results stay nested - the API is closed under its own operations.
All chains of operations up to a depth (2 quick / 3 thorough, plus random deeper ones) over ~25 operations (query, sort, dropna, eval
assignment, add_nested, field assignment, row / column selection, concat of frames with equal nested dtypes, join / merge, reset / set
index, copy, pickle, parquet round trip, from_flat / from_lists / nest_lists, reduce, count_nested ...) from frames whose nested column
is in any layout.  After EVERY step: the result is a NestedFrame, every column that was nested still has the nested dtype (never object,
struct or list), the listing (nested_columns, all_columns, .nest.fields) equals what the frame actually contains, and a dotted access
and a query work on it.  The typing of every step is compared with the Coq model Closure.v."""
from __future__ import annotations

import io
import itertools
import os
import pickle
import shutil
import tempfile

import numpy as np
import pandas as pd
import pyarrow as pa

from harness import arrayops as ao
from harness import core, gen
from harness import frameops as fo
from harness.core import attempt, cq_bool, cq_list
from nested_pandas import NestedDtype, NestedFrame, read_parquet
from nested_pandas.utils import count_nested

RULE = ("one case = one chain of operations applied to one generated frame (nested column in one of 15 layouts); all chains up to depth 2 "
        "(quick) / 3 (thorough) over 27 operations are enumerated (quick: all of depth 1, ALL pairs starting with an operation that can empty "
        "the nest or re-create the frame, and a seeded sample of the other pairs), deeper ones at random; after every step the class of the "
        "result, the dtype of every column that should be nested, the listings and a dotted access + a nested query are checked, and the "
        "step's typing is compared with the Coq model; distinct = the chain; non-trivial = depth >= 2")
ASSUMPTIONS = ["pandas builds derived frames through _constructor and keeps an extension dtype when concatenating equal dtypes (contract)"]
CORRESPONDENCE = "cstep (Closure.v) vs the class / dtypes of the real results"
EXTRA_IMPORTS = "Dtype Closure"


def cq_s(s):
    return "[" + "; ".join(str(ord(c)) for c in s) + "]"


def base_frame(rng, layout=None):
    schema = [("t", "int64"), ("flux", "double")]
    n = rng.randint(2, 5)
    rows = gen.gen_rows(rng, schema, n, max_len=3, null_p=0.1)
    if not any(r for r in rows if r and r["t"]):
        rows[0] = {"t": [1, 2], "flux": [0.5, 1.5]}
    inp = ao.mk_input(rng, content=(schema, rows), recipe=layout, recipes=[l for l in fo.LAYOUTS if l != "history"])
    labels = rng.choice([list(range(n)), [10 * (n - i) for i in range(n)], [f"r{i}" for i in range(n)]])
    nf = NestedFrame({"a": [float(i) for i in range(n)], "b": [rng.choice([1, 2]) for _ in range(n)]}, index=labels)
    nf["lc"] = pd.Series(inp["arr"], index=labels, name="lc")
    return nf, inp


def op_table(rng, tmpdir):
    """name -> (function frame -> frame, coq op)"""
    def parquet_rt(nf):
        path = os.path.join(tmpdir, f"c18_{rng.getrandbits(40)}.parquet")
        nf.to_parquet(path, row_group_size=2)
        out = read_parquet(path)
        os.remove(path)
        return out

    def add_nested(nf):
        flat = pd.DataFrame({"z": [1.0, 2.0, 3.0]}, index=[nf.index[0], nf.index[0], nf.index[-1]])
        name = "extra" if "extra" not in nf.columns else f"extra{len(nf.columns)}"
        return nf.add_nested(flat, name)

    def add_nested_how(how):
        def f(nf):
            flat = pd.DataFrame({"z": [1.0, 2.0, 3.0]}, index=[nf.index[0], nf.index[0], nf.index[-1]])
            name = "extra" if "extra" not in nf.columns else f"extra{len(nf.columns)}"
            return nf.add_nested(flat, name, how=how)
        return f

    def concat_same(nf):
        return pd.concat([nf, nf.copy()])

    def concat_query(nf):
        return pd.concat([nf, nf.query("lc.t > 0")])

    def join_other(nf):
        other = pd.DataFrame({f"j{len(nf.columns)}": range(len(nf))}, index=nf.index)
        return nf.join(other) if nf.index.is_unique else nf

    def merge_other(nf):
        if nf.index.has_duplicates:
            return nf
        other = pd.DataFrame({"b": [1, 2], f"m{len(nf.columns)}": ["x", "y"]})
        return nf.merge(other, on="b", how="left") if "b" in nf.columns else nf

    def set_index(nf):
        return nf.set_index("b") if "b" in nf.columns else nf

    def from_flat_rt(nf):
        flat = nf["lc"].nest.to_flat()
        if len(flat) == 0 or nf.index.has_duplicates:
            return nf
        flat = flat.copy()
        flat["base_c"] = 1
        return NestedFrame.from_flat(NestedFrame(flat), base_columns=["base_c"], name="lc")

    def nest_lists_rt(nf):
        lists = nf["lc"].nest.to_lists()
        df = NestedFrame(lists)
        df["keep"] = range(len(df))
        return df.nest_lists("lc", list(lists.columns))

    def from_lists_plain(nf):
        lists = nf["lc"].nest.to_lists()
        df = pd.DataFrame(lists)
        df["keep"] = range(len(df))
        return NestedFrame.from_lists(df, base_columns=["keep"], name="lc")

    def reduce_dotted(nf):
        out = nf.reduce(lambda t: {"k": len(t), "lc.t": np.asarray([0.0 if v is None else v for v in np.asarray(t).tolist()], dtype=float)}, "lc.t")
        return out

    return {
        "query_nested": lambda nf: nf.query("lc.t > 1"),
        "query_all_out": lambda nf: nf.query("lc.t > 100000"),
        "query_base": lambda nf: nf.query("a >= 1") if "a" in nf.columns else nf,
        "sort_nested": lambda nf: nf.sort_values("lc.flux", ascending=False),
        "sort_base": lambda nf: nf.sort_values("a") if "a" in nf.columns else nf,
        "dropna_nested": lambda nf: nf.dropna(subset=["lc.flux"]),
        "dropna_base": lambda nf: nf.dropna(subset=["lc"]),
        "eval_assign": lambda nf: nf.eval("lc.u = lc.t * 2"),
        "eval_new_nest": lambda nf: nf.eval("fresh.v = lc.t + 1") if nf.index.is_unique and "fresh" not in nf.columns else nf,
        "field_assign": lambda nf: (lambda c: (c.__setitem__("lc.w", np.arange(c["lc"].nest.flat_length, dtype=float)), c)[1])(nf.copy()),
        "add_nested": add_nested,
        "add_nested_right": add_nested_how("right"),
        "add_nested_outer": add_nested_how("outer"),
        "iloc_rows": lambda nf: nf.iloc[::-1],
        "iloc_empty": lambda nf: nf.iloc[:0],
        "mask_rows": lambda nf: nf[np.arange(len(nf)) % 2 == 0],
        "select_cols": lambda nf: nf[[c for c in nf.columns if c != "b"]],
        "concat_same": concat_same,
        "concat_query": concat_query,
        "join": join_other,
        "merge": merge_other,
        "reset_index": lambda nf: nf.reset_index(drop=True),
        "set_index": set_index,
        "copy": lambda nf: nf.copy(),
        "pickle": lambda nf: pickle.loads(pickle.dumps(nf)),
        "parquet": parquet_rt,
        "from_flat": from_flat_rt,
        "nest_lists": nest_lists_rt,
        "from_lists_plain": from_lists_plain,
        "reduce_dotted": reduce_dotted,
        "count_nested": lambda nf: count_nested(nf, "lc"),
        "count_nested_by": lambda nf: count_nested(nf, "lc", by="t", join=False),
        "head": lambda nf: nf.head(2),
        "drop_duplicates": lambda nf: nf.drop_duplicates(subset=["b"]) if "b" in nf.columns else nf,
    }


def typed(nf):
    """the typed frame the Coq model works on"""
    cols = []
    for c in nf.columns:
        dt = nf.dtypes[c]
        if isinstance(dt, NestedDtype):
            cols.append(f"({cq_s(str(c))}, TgNested {cq_list(cq_s(f) for f in dt.field_names)})")
        elif (dt == object and len(nf) and isinstance(nf[c].iloc[0], pd.DataFrame)) or (
                isinstance(dt, pd.ArrowDtype) and (pa.types.is_struct(dt.pyarrow_dtype) or pa.types.is_list(dt.pyarrow_dtype))):
            cols.append(f"({cq_s(str(c))}, TgObject)")
        else:
            cols.append(f"({cq_s(str(c))}, TgBase)")
    return f"{{| tk := {'KNested' if isinstance(nf, NestedFrame) else 'KPlain'}; tcols := {cq_list(cols)} |}}"


TOTAL_OPS = {"concat_same", "concat_query", "iloc_rows", "iloc_empty", "mask_rows", "select_cols"}


EFFECTS = {
    "select_cols": lambda cur, out: "(EKeepCols (fun c => negb (str_eqb c %s)))" % cq_s("b"),
    "add_nested": lambda cur, out: "(EAddNested %s %s)" % (cq_s([c for c in out.columns if c not in cur.columns][0]), cq_list([cq_s("z")])),
    "add_nested_right": lambda cur, out: "(EAddNested %s %s)" % (cq_s([c for c in out.columns if c not in cur.columns][0]), cq_list([cq_s("z")])),
    "add_nested_outer": lambda cur, out: "(EAddNested %s %s)" % (cq_s([c for c in out.columns if c not in cur.columns][0]), cq_list([cq_s("z")])),
    "eval_new_nest": lambda cur, out: ("(EAddNested %s %s)" % (cq_s("fresh"), cq_list([cq_s("v")]))) if "fresh" in out.columns and "fresh" not in cur.columns else "EKeep",
    "eval_assign": lambda cur, out: "(ESetField %s %s)" % (cq_s("lc"), cq_s("u")),
    "field_assign": lambda cur, out: "(ESetField %s %s)" % (cq_s("lc"), cq_s("w")),
    "concat_same": lambda cur, out: "(EConcat %s)" % typed(cur),
    "concat_query": lambda cur, out: "(EConcat %s)" % typed(cur),
}
REBUILD = {"parquet", "from_flat", "nest_lists", "from_lists_plain", "reduce_dotted", "count_nested", "count_nested_by", "join", "merge",
           "set_index", "drop_duplicates"}


def effect_term(name, cur, out):
    if name in EFFECTS:
        return EFFECTS[name](cur, out)
    if name in REBUILD and isinstance(out, pd.DataFrame) and list(out.columns) != list(cur.columns):
        # the library (or a pandas join / index change) assembles a new set of columns: the model is told WHICH columns, and predicts
        # class and closure
        t = typed(out)
        return "(ERebuild %s)" % t[t.index("tcols := ") + len("tcols := "):-3]
    return "EKeep"


def observe(nf):
    """typing facts of a result"""
    problems = []
    if not isinstance(nf, NestedFrame):
        problems.append(f"result is {type(nf).__name__}, not a NestedFrame")
        return problems, None
    nested_now = []
    for c in nf.columns:
        dt = nf.dtypes[c]
        if isinstance(dt, NestedDtype):
            nested_now.append(c)
        elif c in ("lc", "extra", "fresh") or str(c).startswith("extra"):
            problems.append(f"column {c!r} should be nested but has dtype {dt}")
        elif dt == object and len(nf) and isinstance(nf[c].iloc[0], pd.DataFrame):
            problems.append(f"column {c!r} degraded to object holding DataFrames")
        elif isinstance(dt, pd.ArrowDtype) and (pa.types.is_struct(dt.pyarrow_dtype) or pa.types.is_list(dt.pyarrow_dtype)):
            problems.append(f"column {c!r} degraded to {dt}")
    if list(nf.nested_columns) != nested_now:
        problems.append(f"nested_columns {list(nf.nested_columns)} != columns with nested dtype {nested_now}")
    ac = nf.all_columns
    if list(ac.get("base", [])) != list(nf.columns):
        problems.append("all_columns['base'] differs from columns")
    for c in nested_now:
        want = [f.name for f in nf[c].array.chunked_array.type]
        if list(ac.get(c, [])) != want or list(nf[c].nest.fields) != want or list(nf.dtypes[c].field_names) != want:
            problems.append(f"field listing of {c!r} differs from the stored fields")
    return problems, nested_now


def usable(nf):
    """dotted access and a nested query keep working on the result"""
    if "lc" not in nf.columns:
        return []
    problems = []
    f = list(nf["lc"].nest.fields)[0]
    r = attempt(lambda: (nf[f"lc.{f}"], nf.query(f"lc.{f} == lc.{f}"), nf["lc"].nest.to_flat()))
    if r[0] == "err":
        problems.append(f"dotted access / query on the result raises {r[1]}")
    elif not isinstance(r[1][1], NestedFrame):
        problems.append("a query on the result does not return a NestedFrame")
    return problems


def generate(ctx):
    rng = ctx.rng
    tmpdir = tempfile.mkdtemp(prefix="verif_c18_")
    cases = []
    try:
        ops = op_table(rng, tmpdir)
        names = list(ops)
        chains = [(n_,) for n_ in names]
        pairs = list(itertools.product(names, repeat=2))
        risky = {"query_all_out", "iloc_empty", "parquet", "pickle", "concat_same", "concat_query", "from_flat", "nest_lists", "from_lists_plain",
                 "reduce_dotted", "eval_new_nest", "add_nested", "add_nested_right", "add_nested_outer", "reset_index", "set_index", "merge", "join", "count_nested_by"}
        if ctx.tier == "quick":
            first = [p for p in pairs if p[0] in risky]
            rest = [p for p in pairs if p[0] not in risky]
            rng.shuffle(first)
            rng.shuffle(rest)
            chains += first + rest[: 150 * ctx.scale]
            # frames WITHOUT rows through every operation that combines frames (always: the pieces being empty is a corner of its own)
            chains += [c_ for c_ in [("iloc_empty", "concat_same"), ("query_all_out", "concat_same"), ("iloc_empty", "concat_query"),
                                     ("iloc_empty", "join"), ("iloc_empty", "merge")] if all(n_ in ops for n_ in c_) and c_ not in chains]
        else:
            chains += pairs
            triples = list(itertools.product(names, repeat=3))
            rng.shuffle(triples)
            chains += triples[:1500]
            chains += [tuple(rng.choice(names) for _ in range(rng.randint(4, 8))) for _ in range(200)]
        for chain in chains:
            nf, inp = base_frame(rng)
            step_problems = []
            stopped = None
            steps_t = []
            cur = nf
            for depth, name in enumerate(chain):
                if "lc" not in cur.columns:
                    break              # the nested column was deliberately left behind (count_nested(join=False)): the chain ends
                res = attempt(lambda: ops[name](cur))
                if res[0] == "err" and name in TOTAL_OPS:
                    # row / column selections and concatenations of a frame with itself ask nothing of their argument beyond being a
                    # usable NestedFrame (which the previous step established): a raise here means the result is not obtained at all
                    step_problems.append(f"step {depth} {name}: raises {res[1]} on a closed, usable frame")
                    break
                if res[0] == "err":
                    # whether an operation accepts its argument is the business of the other properties; here: what it RETURNS
                    stopped = f"step {depth} {name}: raises {res[1]} (chain ends; not a closure verdict)"
                    break
                out = res[1]
                problems, nested_now = observe(out)
                if not problems:
                    problems += usable(out)
                steps_t.append((effect_term(name, cur, out) if isinstance(out, pd.DataFrame) else "EKeep", typed(out) if isinstance(out, pd.DataFrame)
                                else "{| tk := KPlain; tcols := [] |}"))
                if problems:
                    step_problems.append(f"step {depth} {name}: " + "; ".join(problems))
                    break
                cur = out
            ok = not step_problems
            # Coq: the typed model says every step from a closed frame gives a closed frame
            steps_coq = cq_list(f"({e}, {t})" for e, t in steps_t)
            term = f"[chk_chain {typed(nf)} {steps_coq} || {cq_bool(not ok)}; {cq_bool(ok)}; true; true]"
            cases.append({"stream": "chains", "op": "chain", "term": term,
                          "input": {"chain": list(chain), "layout": inp["recipe"], "index": [repr(x) for x in nf.index]},
                          "impl_repr": step_problems or stopped or "closed at every step",
                          "meta": {"impl_raised": any("raises" in p for p in step_problems), "layout": inp["recipe"]},
                          "sig": list(chain), "trivial": len(chain) < 2,
                          "hist": {"op": "chain", "depth": len(chain), "first": chain[0], "layout": inp["recipe"]}})
    finally:
        shutil.rmtree(tmpdir, ignore_errors=True)
    for k, c in enumerate(cases):
        c["cid"] = k
    return cases
