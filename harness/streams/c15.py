"""C15 stream: operations do not mutate their inputs; copies are isolated.
A FAMILY of related objects is built around one frame: the original, a deep copy, a row slice, a column selection, an extracted
nested series, a deep copy of that series, the underlying extension array, and the argument tables / series of the operations.
Interleavings of operations (exhaustive to length 2 quick / 3 thorough over the alphabet, random longer) are applied; before and
after EVERY step the full observable state (data, index, names, dtypes) of EVERY live object is snapshotted.
 - an operation that returns a new object must leave every existing object (receiver and arguments included) unchanged, and its result
   must be isolated: an in-place write into the result (probe) must not show in any other object;
 - an in-place operation may change its target and the objects that pandas itself defines as views of the target (the model Heap.v
   says which: they share the array cell), and nothing else; after a deep copy nothing leaks either way."""
from __future__ import annotations

import itertools
import os
import shutil
import tempfile

import numpy as np
import pandas as pd
import pyarrow as pa

from harness import core
from harness import frameops as fo
from harness.core import attempt, cq_bool, cq_list
from nested_pandas import NestedFrame
from nested_pandas.series.packer import pack, pack_flat, pack_lists, pack_seq
from nested_pandas.utils import count_nested

RULE = ("one case = one interleaving of operations on a family of 8 related objects (original frame, deep copy, row slice, column "
        "selection, extracted nested series, its deep copy, argument flat table, argument series): all sequences up to length 2 (quick) / 3 "
        "(thorough) over 26 operations (pure: query, eval, sort_values, dropna, add_nested, reduce, from_flat, from_lists, with_* / "
        "without_field, packing, to_parquet, count_nested; in place: field assignment, element assignment through loc / iloc / the array, "
        "inplace query / sort / dropna / eval, nest[f] = ...), random to length 7; every live object is snapshotted around every step and "
        "the result of every pure operation is probed with an in-place write; distinct = the sequence; non-trivial = length >= 2 or an "
        "in-place operation")
ASSUMPTIONS = ["pandas 2.2 without copy-on-write: which pandas objects are views of one another is pandas' object model; the expectation is the "
               "sharing relation of Heap.v: a Series extracted from a frame, and the frame, share the nested array cell; deep copies share nothing"]
CORRESPONDENCE = "h_step (Heap.v) predicts which objects an in-place write may show in; the real snapshots must agree"
EXTRA_IMPORTS = "Heap"


def snap(o):
    if isinstance(o, pd.DataFrame):
        return fo.snapshot(o)
    if isinstance(o, pd.Series):
        if hasattr(o.array, "chunked_array"):
            return ("nested", repr(o.array.chunked_array.to_pylist()), [repr(x) for x in o.index], o.name, str(o.dtype))
        return ("series", [repr(x) for x in o.tolist()], [repr(x) for x in o.index], o.name, str(o.dtype))
    if hasattr(o, "chunked_array"):
        return ("array", repr(o.chunked_array.to_pylist()), str(o.dtype))
    return ("value", repr(o))


def family(dense=False):
    """dense: every row holds records and passes the stream's queries (the 'nothing to do' paths of the operations)"""
    labels = ["a", "b", "c", "d"]
    nf = NestedFrame({"x": [1.0, 2.0, 3.0, 4.0], "k": [1, 2, 1, 2]}, index=labels)
    st = pa.struct([("t", pa.list_(pa.int64())), ("f", pa.list_(pa.float64()))])
    if dense:
        nf["n"] = pack_seq([{"t": [2, 3], "f": [0.5, 1.5]}, {"t": [4], "f": [2.5]}, {"t": [5, 6], "f": [3.5, 4.5]}, {"t": [7], "f": [9.5]}],
                           index=labels, dtype=st)
    else:
        nf["n"] = pack_seq([{"t": [1, 2, 3], "f": [0.5, 1.5, 2.5]}, None, {"t": [], "f": []}, {"t": [7], "f": [9.5]}], index=labels, dtype=st)
    fam = {"orig": nf}
    fam["deep"] = nf.copy()
    fam["rows"] = nf.iloc[1:]
    fam["all_rows"] = nf.iloc[0:len(nf)]          # a row slice that happens to select every row: still its own object
    fam["cols"] = nf[["x", "n"]]
    fam["ser"] = nf["n"]                 # a view by pandas' definition: shares the array with orig
    fam["ser_deep"] = nf["n"].copy()
    fam["flat_arg"] = pd.DataFrame({"z": [1.0, 2.0, 3.0]}, index=["a", "a", "d"])
    fam["series_arg"] = pd.Series([10.0, 20.0, 30.0, 40.0], index=["a", "a", "a", "d"], name="given_name")
    fam["asc_arg"] = [False]                     # a caller-owned list of sort directions
    fam["key_arg"] = np.array([-1, 0])          # a caller-owned array of positions (negative ones included) used as an assignment key
    fam["np_arg"] = np.arange(float(nf["n"].nest.flat_length)) + 200.0      # a caller-owned numpy array offered as flat values
    fam["cols_arg"] = ["b", "z"]                  # a caller-owned list of column names (the join column among them)
    fam["npser_arg"] = pd.Series(np.arange(float(nf["n"].nest.flat_length)) + 300.0)   # a caller-owned numpy-BACKED series offered as flat values
    fam["lists_arg"] = pd.DataFrame({"u": pd.Series(pa.array([[1], [2, 3], [], [4]], type=pa.list_(pa.int64())), dtype=pd.ArrowDtype(pa.list_(pa.int64())),
                                                     index=labels), "keep": [0, 1, 2, 3]}, index=labels)
    return fam


# name -> (kind, target object name, function(fam) -> result or None)
def ops(tmpdir):
    def to_parquet(f):
        p = os.path.join(tmpdir, "c15.parquet")
        f["orig"].to_parquet(p)
        os.remove(p)
        return None
    return {
        # ---- pure: return a new object
        "query": ("pure", "orig", lambda f: f["orig"].query("n.t > 1")),
        "query_base": ("pure", "orig", lambda f: f["orig"].query("x > 1")),
        "eval_assign": ("pure", "orig", lambda f: f["orig"].eval("n.g = n.t * 2")),
        "sort_values": ("pure", "orig", lambda f: f["orig"].sort_values("n.f", ascending=False)),
        "sort_values_list": ("pure", "orig", lambda f: f["orig"].sort_values(["n.f"], ascending=f["asc_arg"])),
        "dropna": ("pure", "orig", lambda f: f["orig"].dropna(subset=["n.f"])),
        "add_nested": ("pure", "orig", lambda f: f["orig"].add_nested(f["flat_arg"], "extra")),
        "reduce": ("pure", "orig", lambda f: f["orig"].reduce(lambda t: {"s": int(np.sum(t)), "o.t2": np.asarray(t) * 2}, "n.t")),
        "from_flat": ("pure", "flat_arg", lambda f: NestedFrame.from_flat(NestedFrame(f["flat_arg"].assign(b=1)), base_columns=["b"], name="m")),
        "from_flat_on_colsarg": ("pure", "flat_arg", lambda f: NestedFrame.from_flat(NestedFrame(f["flat_arg"].assign(b=[1, 1, 2], c=[5.0, 6.0, 7.0])),
                                                                                   base_columns=f["cols_arg"], nested_columns=["c"], on="b", name="m")),
        "from_lists": ("pure", "lists_arg", lambda f: NestedFrame.from_lists(f["lists_arg"], base_columns=["keep"], name="m")),
        "pack_flat": ("pure", "flat_arg", lambda f: pack_flat(f["flat_arg"], name="p")),
        "pack_flat_sorted_arg": ("pure", "flat_arg", lambda f: pack_flat(f["flat_arg"].sort_index(), name="p")),
        "pack_lists": ("pure", "lists_arg", lambda f: pack_lists(f["lists_arg"][["u"]], name="p")),
        "with_flat_field": ("pure", "ser", lambda f: f["ser"].nest.with_flat_field("w", np.arange(float(f["ser"].nest.flat_length)))),
        "pack_seq_ser": ("pure", "ser", lambda f: pack_seq(f["ser"])),
        "pack_ser": ("pure", "ser", lambda f: pack(f["ser"], name="again")),
        "add_nested_ser": ("pure", "orig", lambda f: f["orig"].add_nested(f["ser_deep"], "extra2")),
        "with_flat_field_arg": ("pure", "ser", lambda f: f["ser"].nest.with_flat_field("w", f["np_arg"])),
        "with_flat_field_serarg": ("pure", "ser", lambda f: f["ser"].nest.with_flat_field("w", f["npser_arg"])),
        "with_list_field": ("pure", "ser", lambda f: f["ser"].nest.with_list_field(
            "t", pa.array([[9] * k for k in f["ser"].nest.list_lengths], type=pa.list_(pa.int64())))),
        "with_filled_field": ("pure", "ser", lambda f: f["ser"].nest.with_filled_field("c", [1, 2, 3, 4])),
        "nest_getitem_all": ("pure", "ser", lambda f: f["ser"].nest[list(f["ser"].nest.fields)]),
        "nest_getitem_one": ("pure", "ser", lambda f: f["ser"].nest[[list(f["ser"].nest.fields)[0]]]),
        "without_field": ("pure", "ser", lambda f: f["ser"].nest.without_field("f")),
        "count_nested": ("pure", "orig", lambda f: count_nested(f["orig"], "n")),
        "to_parquet": ("pure", "orig", to_parquet),
        "concat": ("pure", "orig", lambda f: pd.concat([f["orig"].iloc[:0], f["orig"]])),
        # ---- in place: change the target (and what pandas defines as its views)
        "setfield_orig": ("inplace", "orig", lambda f: f["orig"].__setitem__("n.t", np.arange(100, 100 + f["orig"]["n"].nest.flat_length))),
        "iloc_ser_deep_keyarg": ("inplace", "ser_deep", lambda f: f["ser_deep"].iloc.__setitem__(f["key_arg"], pack_seq(
            [{"t": [5], "f": [5.5]}, {"t": [6, 6], "f": [6.5, 6.5]}], dtype=f["ser_deep"].dtype).array)),
        "array_setitem_ser_deep_keyarg": ("inplace", "ser_deep", lambda f: f["ser_deep"].array.__setitem__(f["key_arg"], pack_seq(
            [{"t": [8], "f": [8.5]}, None], dtype=f["ser_deep"].dtype).array)),
        "setfield_orig_arg": ("inplace", "orig", lambda f: f["orig"].__setitem__("n.f", f["np_arg"])),
        "nest_setitem_ser_deep_arg": ("inplace", "ser_deep", lambda f: f["ser_deep"].nest.__setitem__("f", f["np_arg"])),
        "array_setitem_all_rows": ("inplace", "all_rows", lambda f: f["all_rows"]["n"].array.__setitem__(0, {"t": [4, 4], "f": [4.5, 4.5]})),
        "nest_setitem_all_rows": ("inplace", "all_rows", lambda f: f["all_rows"]["n"].nest.__setitem__(
            "f", np.arange(float(f["all_rows"]["n"].nest.flat_length)) + 80)),
        "array_set_flat_serarg": ("inplace", "ser_deep", lambda f: f["ser_deep"].array.set_flat_field("f", f["npser_arg"])),
        "setfield_new_nest": ("inplace", "orig", lambda f: f["orig"].__setitem__("m.z", f["series_arg"])),
        "loc_row_orig": ("inplace", "orig", lambda f: f["orig"].loc.__setitem__(("a", "n"), None)),
        "iloc_ser_deep": ("inplace", "ser_deep", lambda f: f["ser_deep"].iloc.__setitem__([0], pack_seq([{"t": [5], "f": [5.5]}],
                                                                                           dtype=f["ser_deep"].dtype).array)),
        "array_setitem_ser": ("inplace", "ser", lambda f: f["ser"].array.__setitem__(3, {"t": [1, 1], "f": [2.0, 2.0]})),
        "nest_setitem_ser_deep": ("inplace", "ser_deep", lambda f: f["ser_deep"].nest.__setitem__(
            "f", np.arange(float(f["ser_deep"].nest.flat_length)) + 50)),
        "inplace_query_deep": ("inplace", "deep", lambda f: f["deep"].query("n.t > 1", inplace=True)),
        "inplace_sort_deep": ("inplace", "deep", lambda f: f["deep"].sort_values("n.f", ascending=False, inplace=True)),
        "inplace_dropna_rows": ("inplace", "rows", lambda f: f["rows"].dropna(subset=["n.f"], inplace=True)),
        "inplace_eval_deep": ("inplace", "deep", lambda f: f["deep"].eval("n.h = n.t + 1", inplace=True)),
        "base_assign_deep": ("inplace", "deep", lambda f: f["deep"].__setitem__("x", [9.0, 9.0, 9.0, 9.0])),
        "setfield_cols": ("inplace", "cols", lambda f: f["cols"].__setitem__("n.f", np.arange(float(f["cols"]["n"].nest.flat_length)) + 70)),
    }


# which objects may show an in-place change of the target (pandas' object model without copy-on-write, sampled not verified):
# ser is extracted from orig without a copy: they share the nested array OBJECT, so an element write through either shows in both;
# a whole-column (re)assignment on a frame rebinds the frame's column only.
MAY_SHOW = {
    "setfield_orig": {"orig"}, "setfield_orig_arg": {"orig"}, "nest_setitem_ser_deep_arg": {"ser_deep"}, "setfield_new_nest": {"orig"},
    "iloc_ser_deep_keyarg": {"ser_deep"}, "array_setitem_ser_deep_keyarg": {"ser_deep"}, "loc_row_orig": {"orig", "ser", "cols", "rows"},
    "iloc_ser_deep": {"ser_deep"}, "array_setitem_ser": {"ser", "orig", "cols", "rows"}, "nest_setitem_ser_deep": {"ser_deep"},
    "inplace_query_deep": {"deep"}, "inplace_sort_deep": {"deep"}, "inplace_dropna_rows": {"rows"}, "inplace_eval_deep": {"deep"},
    "base_assign_deep": {"deep"}, "setfield_cols": {"cols"}, "array_set_flat_serarg": {"ser_deep"},
    "array_setitem_all_rows": {"all_rows"}, "nest_setitem_all_rows": {"all_rows"},
}
# element writes go through the shared array object only where pandas hands out the SAME array object: orig / ser share it; row slices and
# column selections of a frame get their own array object (take / copy), so they must NOT show it
STRICT = {"loc_row_orig": {"orig", "ser"}, "array_setitem_ser": {"ser", "orig"}}


def probe_isolated(res, fam):
    """(1) an in-place write into an ARGUMENT / the receiver after the call must not show in the result;
    (2) a write into the result of a pure operation must not show in any other object"""
    if res is None:
        return True, ""
    res_before = snap(res)
    try:
        fam["flat_arg"].iloc[0, 0] = 999.0
        fam["series_arg"].iloc[0] = 999.0
        fam["orig"].iloc[0, 0] = 999.0
        fam["lists_arg"].iloc[0, 1] = 999
        fam["np_arg"][0] = 999.0
        fam["npser_arg"].iloc[0] = 999.0
    except Exception as e:  # noqa: BLE001
        return True, f"argument probe not applicable: {type(e).__name__}"
    if snap(res) != res_before:
        return False, "a later in-place write into an argument / the receiver shows in the result"
    before = {k: snap(v) for k, v in fam.items()}
    try:
        if isinstance(res, pd.DataFrame) and len(res):
            nested = [c for c in res.columns if hasattr(res[c].array, "chunked_array")]
            base = [c for c in res.columns if c not in nested]
            if nested:
                res.loc[res.index[0], nested[0]] = None
                res[nested[0]].array[len(res) - 1] = None
            if base:
                col = res[base[0]]
                if col.dtype.kind in "fi":
                    res.iloc[0, list(res.columns).index(base[0])] = 12345
        elif isinstance(res, pd.Series) and len(res) and hasattr(res.array, "chunked_array"):
            res.array[0] = None
            res.iloc[[len(res) - 1]] = pack_seq([None], dtype=res.dtype).array
    except Exception as e:  # noqa: BLE001
        return True, f"probe not applicable: {type(e).__name__}"
    changed = [k for k, v in fam.items() if snap(v) != before[k]]
    if changed:
        return False, f"a write into the result changed {changed}"
    return True, ""


def run_sequence(seq, table, dense=False):
    fam = family(dense)
    problems = []
    for step, name in enumerate(seq):
        kind, target, fn = table[name]
        before = {k: snap(v) for k, v in fam.items()}
        res = attempt(lambda: fn(fam))
        after = {k: snap(v) for k, v in fam.items()}
        changed = {k for k in fam if after[k] != before[k]}
        if res[0] == "err":
            if changed:
                problems.append(f"step {step} {name}: raised {res[1]} AND changed {sorted(changed)}")
            continue
        if kind == "pure":
            if changed:
                problems.append(f"step {step} {name}: a pure operation changed {sorted(changed)}")
            if step == len(seq) - 1:
                # the probes write into the family, so only the LAST result is probed
                ok, why = probe_isolated(res[1], fam)
                if not ok:
                    problems.append(f"step {step} {name}: {why}")
        else:
            allowed = STRICT.get(name, MAY_SHOW[name])
            extra = changed - MAY_SHOW[name]
            if extra:
                problems.append(f"step {step} {name}: an in-place operation on {target} changed {sorted(extra)}")
            if name in STRICT and (changed - STRICT[name]):
                problems.append(f"step {step} {name}: the write also shows in {sorted(changed - STRICT[name])}")
            if target not in changed and name not in ("inplace_dropna_rows",):
                pass   # a no-op in this state (e.g. nothing to drop) is fine
    # whatever ran: the caller's later in-place writes into ITS OWN argument objects must not show in any frame / series
    # of the family (an operation that keeps the caller's memory instead of copying it)
    args = ("flat_arg", "series_arg", "lists_arg", "np_arg", "npser_arg", "key_arg", "asc_arg", "cols_arg")
    before = {k: snap(v) for k, v in fam.items() if k not in args}
    try:
        fam["flat_arg"].iloc[0, 0] = 998.0
        fam["series_arg"].iloc[0] = 998.0
        fam["lists_arg"].iloc[0, 1] = 998
        fam["np_arg"][0] = 998.0
        fam["npser_arg"].iloc[0] = 998.0
    except Exception:  # noqa: BLE001
        return problems
    shows = sorted(k for k in before if snap(fam[k]) != before[k])
    if shows:
        problems.append(f"after {list(seq)}: a write of the caller into its own argument objects shows in {shows}")
    return problems


def generate(ctx):
    rng = ctx.rng
    tmpdir = tempfile.mkdtemp(prefix="verif_c15_")
    cases = []
    try:
        table = ops(tmpdir)
        names = list(table)
        seqs = [(n,) for n in names]
        pairs = list(itertools.product(names, repeat=2))
        if ctx.tier == "quick":
            inplace = [n for n in names if table[n][0] == "inplace"]
            first = [p for p in pairs if p[0] in inplace or p[1] in inplace]
            rng.shuffle(first)
            rest = [p for p in pairs if p not in set(first)]
            rng.shuffle(rest)
            seqs += first[: 330 * ctx.scale] + rest[: 60 * ctx.scale]
        else:
            seqs += pairs
            triples = list(itertools.product(names, repeat=3))
            rng.shuffle(triples)
            seqs += triples[:2500]
            seqs += [tuple(rng.choice(names) for _ in range(rng.randint(4, 7))) for _ in range(300)]
        for si, seq in enumerate(seqs):
            dense = si % 3 == 1
            res = attempt(lambda: run_sequence(seq, table, dense))
            problems = res[1] if res[0] == "ok" else [f"harness: {res[1]}"]
            # Coq: the heap model's prediction for the in-place steps of this sequence
            term = f"[heap_seq_ok {cq_list(heap_op(n) for n in seq)}; {cq_bool(not problems)}; true; true]"
            cases.append({"stream": "isolation", "op": "sequence", "term": term, "input": {"sequence": list(seq), "dense_family": dense},
                          "impl_repr": problems or "every object unchanged except where expected",
                          "meta": {"impl_raised": False}, "sig": list(seq),
                          "trivial": len(seq) < 2 and table[seq[0]][0] == "pure",
                          "hist": {"op": "sequence", "length": len(seq), "first": seq[0], "kinds": "".join(table[n][0][0] for n in seq)}})
    finally:
        shutil.rmtree(tmpdir, ignore_errors=True)
    for k, c in enumerate(cases):
        c["cid"] = k
    return cases


# objects of the family as heap object ids (Heap.v: family_heap)
OBJ = {"orig": 0, "deep": 1, "rows": 2, "cols": 3, "ser": 4, "ser_deep": 5}


def heap_op(name):
    table = {"setfield_orig": "HRebind 0", "setfield_orig_arg": "HRebind 0", "nest_setitem_ser_deep_arg": "HRebind 5", "iloc_ser_deep_keyarg": "HWriteCell 5", "array_setitem_ser_deep_keyarg": "HWriteCell 5", "setfield_new_nest": "HRebind 0", "loc_row_orig": "HWriteCell 0", "iloc_ser_deep": "HWriteCell 5",
             "array_setitem_ser": "HWriteCell 4", "nest_setitem_ser_deep": "HRebind 5", "inplace_query_deep": "HRebind 1",
             "inplace_sort_deep": "HRebind 1", "inplace_dropna_rows": "HRebind 2", "inplace_eval_deep": "HRebind 1",
             "base_assign_deep": "HRebind 1", "setfield_cols": "HRebind 3", "array_set_flat_serarg": "HWriteCell 5"}
    return f"({table[name]})" if name in table else "HPure"
