"""Frame-level part of C05: every row selection / reordering moves the nested table with its row.
Each row carries a unique id both in a base column and inside every record of its nested table."""
from __future__ import annotations

import numpy as np
import pandas as pd
import pyarrow as pa

from harness import core, gen
from harness.core import attempt, cq_bool
from nested_pandas import NestedFrame
from nested_pandas.series.ext_array import NestedExtensionArray as NEA


def make_frame(rng, n, recipe):
    schema = [("id", "int64"), ("v", rng.choice(["double", "string", "int64"]))]
    rows = []
    for i in range(n):
        r = rng.random()
        if r < 0.15:
            rows.append(None)
        else:
            k = 0 if r < 0.3 else rng.randint(1, 4)
            rows.append({"id": [1000 + i] * k, "v": [gen.gen_value(rng, schema[1][1]) for _ in range(k)]})
    ca = gen.make_layout(rng, schema, rows, recipe)
    labels, kind = gen.gen_labels(rng, n)
    nf = NestedFrame({"rid": [1000 + i for i in range(n)], "w": [rng.choice([1, 2, 2, 3]) for _ in range(n)]}, index=gen.as_index(labels, kind))
    nf["n"] = pd.Series(NEA(ca), index=nf.index, name="n")
    return nf, rows, labels, kind


def cq_frame(nf):
    """the frame as FrameRows.fframe: base columns by value, the nested column by its physical read-back"""
    cols = []
    for name in nf.columns:
        col = nf[name]
        if name == "n":
            cols.append(f"({core.cq_str(name)}, FNested {core.cq_phys(core.phys(col.array.chunked_array))})")
        else:
            cols.append(f"({core.cq_str(name)}, FBase {core.cq_vals(list(col))})")
    return core.cq_list(cols)


def paired(res_nf, rows):
    """every surviving row still pairs its base id with its own nested table"""
    if not isinstance(res_nf, NestedFrame):
        return False, "not a NestedFrame"
    rid = list(res_nf["rid"])
    nested = res_nf["n"].array.chunked_array.to_pylist()
    for r, t in zip(rid, nested):
        if r is None or (isinstance(r, float) and r != r):
            if t is not None:
                return False, "row without base id has a table"
            continue
        want = rows[int(r) - 1000]
        if want is None:
            if t is not None:
                return False, f"row {r}: expected missing"
        else:
            if t is None:
                return False, f"row {r}: table lost"
            if core.cq_vals(t["id"]) != core.cq_vals(want["id"]) or core.cq_vals(t["v"]) != core.cq_vals(want["v"]):
                return False, f"row {r}: wrong table"
    return True, ""


def generate(ctx):
    rng = ctx.rng
    n_cases = ctx.budget(60, 500)
    layouts = list(gen.LAYOUTS)
    cases = []
    for i in range(n_cases):
        n = rng.randint(0, 7)
        recipe = rng.choice(layouts)
        nf, rows, labels, kind = make_frame(rng, n, recipe)
        opname = rng.choice(["iloc_list", "iloc_slice", "mask", "sort_values_base", "sort_index", "head", "tail",
                             "reindex", "concat", "loc_list", "sample", "drop_duplicates_w", "query_base", "take"])
        uniq = len(set(labels)) == len(labels)

        mask_used = [None]

        def run():
            if opname == "iloc_list":
                ix = [rng.randint(-n, n - 1) for _ in range(rng.randint(0, 5))] if n else []
                return nf.iloc[ix], [r % n if n else r for r in ix]
            if opname == "iloc_slice":
                a, b, s = (rng.randint(-n - 1, n + 1), rng.randint(-n - 1, n + 1), rng.choice([1, 2, -1, -2]))
                return nf.iloc[a:b:s], list(range(n))[a:b:s]
            if opname == "mask":
                m = [rng.random() < 0.5 for _ in range(n)]
                mask_used[0] = m
                return nf[np.array(m, dtype=bool)], [j for j in range(n) if m[j]]
            if opname == "sort_values_base":
                asc = rng.random() < 0.5
                out = nf.sort_values("w", ascending=asc, kind="stable")
                return out, None
            if opname == "sort_index":
                return nf.sort_index(ascending=rng.random() < 0.5, kind="stable"), None
            if opname == "head":
                k = rng.randint(0, n + 1)
                return nf.head(k), list(range(n))[:k]
            if opname == "tail":
                k = rng.randint(0, n + 1)
                return nf.tail(k), list(range(n))[max(0, n - k):] if k else []
            if opname == "reindex":
                if not uniq:
                    return nf.iloc[::-1], list(range(n))[::-1]
                new = list(labels)
                rng.shuffle(new)
                new = new[: rng.randint(0, n)] + ([("zz" if kind.startswith("str") else 9999)] if rng.random() < 0.5 else [])
                return nf.reindex(new), None
            if opname == "concat":
                a = nf.iloc[: n // 2]
                b = nf.iloc[n // 2:]
                return pd.concat([b, a]), list(range(n // 2, n)) + list(range(n // 2))
            if opname == "loc_list":
                if not uniq or n == 0:
                    return nf.loc[labels[:1]] if n else nf.iloc[[]], None
                sel = rng.sample(labels, rng.randint(0, n))
                return nf.loc[sel], [labels.index(x) for x in sel]
            if opname == "sample":
                return nf.sample(frac=1.0, random_state=rng.randint(0, 1000)), None
            if opname == "drop_duplicates_w":
                return nf.drop_duplicates(subset="w"), None
            if opname == "query_base":
                return nf.query("w >= 2"), [j for j in range(n) if nf["w"].iloc[j] >= 2]
            ix = [rng.randint(0, n - 1) for _ in range(rng.randint(0, 5))] if n else []
            return nf.take(ix), ix

        res = attempt(run)
        ok = True
        why = ""
        if res[0] == "err":
            ok, why = False, "raised " + res[1]
        else:
            out, positions = res[1]
            ok, why = paired(out, rows)
            if ok and positions is not None:
                got = [int(x) - 1000 for x in out["rid"]]
                if got != list(positions):
                    ok, why = False, f"rows {got} != expected positions {positions}"
        # Python-side verdict (flag B) joined with the model: the real frame before and after, read back physically,
        # against FrameRows.f_take / f_filter with the positions the operation must have used
        term = f"[true; {cq_bool(ok)}; true; true]"
        modelled = False
        if res[0] == "ok" and isinstance(res[1][0], NestedFrame) and list(res[1][0].columns) == list(nf.columns):
            out, positions = res[1]
            rid = list(out["rid"])
            if all(isinstance(r, (int, np.integer)) for r in rid):
                pos = [int(r) - 1000 for r in rid]
                if all(0 <= q < n for q in pos):
                    if opname == "mask" and mask_used[0] is not None:
                        chk = f"chk_frame_filter {n} {cq_frame(nf)} {core.cq_bools(mask_used[0])} {cq_frame(out)}"
                    else:
                        chk = f"chk_frame_take {n} {cq_frame(nf)} {core.cq_nats(pos)} {cq_frame(out)}"
                    term = (f"(let r := {chk} in [nth 0 r false; {cq_bool(ok)} && nth 1 r false; "
                            "nth 2 r false; nth 3 r false])")
                    modelled = True
        cases.append({"stream": "frame_rows", "op": "frame_" + opname,
                      "term": term,
                      "input": {"n": n, "layout": recipe, "labels": [repr(x) for x in labels], "rows": [None if r is None else len(r["id"]) for r in rows]},
                      "impl_repr": why or "paired", "meta": {"layout": recipe, "impl_raised": res[0] == "err", "label_kind": kind, "modelled": modelled},
                      "sig": ["frame_" + opname, recipe, n, kind], "trivial": n == 0,
                      "hist": {"op": "frame_" + opname, "layout": recipe}})
    return cases
