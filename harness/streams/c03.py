"""C03 stream: every view of one real nested column, on every layout, against the Coq model
(flag A) and the Coq spec evaluated on the independent logical read-back (flag B)."""
from __future__ import annotations

import shutil
import tempfile

import numpy as np
import pandas as pd
import pyarrow as pa

from harness import arrayops as ao
from harness import core, gen
from harness.core import attempt, cq_bools, cq_list, cq_lrows, cq_nats, cq_res, cq_strs, cq_vals
from nested_pandas import NestedFrame
from nested_pandas.series.ext_array import NestedExtensionArray as NEA

RULE = ("one case = one generated nested column (content x layout recipe) on which ALL views of the real object are "
        "taken (len, isna, list_lengths, flat_length, diff(list_offsets), get_list_index, field_names, iteration/"
        "indexing/to_numpy, to_flat/get_flat_series/get_flat_index/frame['n.f'], to_lists/get_list_series) and "
        "compared with the Coq model on the physical read-back and with the Coq spec on the independent logical "
        "read-back; distinct = (layout recipe, #rows, #fields, #missing, #chunks, zero-based) signature; "
        "non-trivial = at least one non-empty present row")
ASSUMPTIONS = ["pyarrow to_pylist() is the independent logical read-back",
               "boxing a row into a pandas DataFrame cannot tell NaN from null: the element view is compared modulo that"]
CORRESPONDENCE = "model_views_detail (ExtArray.v m_* functions) and m_iter_field_lists (NumpyView.v) vs the real views"
EXTRA_IMPORTS = "NumpyView"


def collect_views(ca: pa.ChunkedArray, arr: NEA):
    """all views of the real object; returns (coq term of type views, python-side agreement, repr)"""
    n = len(arr)
    # labels that are not positions: a genuine RangeIndex with an offset and a step (what a row slice of a default-indexed
    # frame carries), or the same labels as a plain integer index
    idx = pd.RangeIndex(100, 100 + 3 * n, 3)
    labels = list(idx)
    s = pd.Series(arr, index=idx if n % 2 else labels, name="n")
    ordinal = {lab: i for i, lab in enumerate(labels)}
    names = [f.name for f in ca.type]
    st = ca.type
    agree = True
    notes = []

    v_len = len(s)
    v_isna = [bool(x) for x in arr.isna()]
    if [bool(x) for x in s.isna().to_numpy()] != v_isna:
        agree = False
        notes.append("series.isna != array.isna")
    v_lengths = attempt(lambda: [int(x) for x in arr.list_lengths])
    v_flat_length = attempt(lambda: int(arr.flat_length))
    v_offdiffs = attempt(lambda: [int(x) for x in np.diff(np.asarray(arr.list_offsets))])
    v_list_index = attempt(lambda: [int(x) for x in arr.get_list_index()])
    v_names = attempt(lambda: list(arr.field_names))
    acc_lengths = attempt(lambda: [int(x) for x in s.nest.list_lengths])
    if acc_lengths != v_lengths:
        agree = False
        notes.append("accessor list_lengths differs")
    if attempt(lambda: list(s.nest.fields)) != v_names or attempt(lambda: int(s.nest.flat_length)) != v_flat_length:
        agree = False
        notes.append("accessor fields/flat_length differ")

    # element views: iteration, indexing, to_numpy must give the same boxed rows
    it_rows = [core.df_to_lrow(x, st) for x in arr]
    ix_rows = [core.df_to_lrow(arr[i], st) for i in range(n)]
    np_rows = [core.df_to_lrow(x, st) for x in arr.to_numpy()]
    ser_rows = [core.df_to_lrow(s.iloc[i], st) for i in range(n)]

    def same_rows(a, b):
        return core.cq_lrows(a) == core.cq_lrows(b)

    if not (same_rows(it_rows, ix_rows) and same_rows(it_rows, np_rows) and same_rows(it_rows, ser_rows)):
        agree = False
        notes.append("element views differ from each other")

    def flat_view():
        df = s.nest.to_flat()
        idx = [ordinal[x] for x in df.index]
        cols = [core.child_values(df[c].array._pa_array.combine_chunks()) for c in names]
        assert list(df.columns) == names
        return (idx, cols)

    v_flat = attempt(flat_view)

    def flat_series_view():
        cols = []
        idxs = []
        for c in names:
            fs = s.nest.get_flat_series(c)
            cols.append(core.child_values(fs.array._pa_array.combine_chunks()))
            idxs.append([ordinal[x] for x in fs.index])
            assert fs.name == c
        gi = [ordinal[x] for x in s.nest.get_flat_index()]
        for i in idxs:
            assert i == gi, "flat series index differs from get_flat_index"
        return (gi, cols)

    v_flat2 = attempt(flat_series_view)

    def mapping_view():
        acc = s.nest
        assert list(acc) == names and len(acc) == len(names) and list(acc.keys()) == names, "iteration / len / keys of the accessor"
        assert all(nm in acc for nm in names) and "no_such_field" not in acc and acc.get("no_such_field") is None, "membership / get"
        cols, idxs = [], []
        for nm, fs in acc.items():
            assert fs.name == nm
            cols.append(core.child_values(fs.array._pa_array.combine_chunks()))
            idxs.append([ordinal[x] for x in fs.index])
        vals = [core.child_values(fs.array._pa_array.combine_chunks()) for fs in acc.values()]
        assert cq_list(cq_vals(c) for c in vals) == cq_list(cq_vals(c) for c in cols), "values() differs from items()"
        assert all(i == idxs[0] for i in idxs)
        return (idxs[0], cols)

    v_map = attempt(mapping_view)
    if v_flat2[0] == "ok" and (v_map[0] != "ok" or repr_flat(v_map) != repr_flat(v_flat2)):
        agree = False
        notes.append(f"the accessor read as a mapping (keys / items / values / in / get) differs from the flat series: {str(v_map)[:200]}")

    # the accessor object is cached by pandas on the series: after a pandas in-place operation that gives the series another
    # array (sort_index / drop with inplace=True) the views through .nest must be those of the series as it is NOW
    def lived_series_view():
        s2 = pd.Series(arr, index=idx if n % 2 else labels, name="n")
        s2.nest.list_lengths
        s2.nest.to_flat()
        s2.sort_index(ascending=False, inplace=True)
        if n > 1:
            s2.drop(s2.index[0], inplace=True)
        fresh = pd.Series(s2.array, index=s2.index, name="n")

        def summary(x):
            fl = x.nest.to_flat()
            return repr(([int(v) for v in x.nest.list_lengths], int(x.nest.flat_length), list(x.nest.get_flat_index()), list(fl.index),
                         {c: fl[c].array._pa_array.to_pylist() for c in fl.columns},
                         {c: v.array._pa_array.to_pylist() for c, v in x.nest.to_lists().items()}))
        a, b = summary(s2), summary(fresh)
        assert a == b, f"through the accessor of the lived series: {a[:150]} but the series now holds {b[:150]}"
        return True
    v_lived = attempt(lived_series_view)
    if v_lived[0] != "ok" and v_flat[0] == "ok":
        agree = False
        notes.append(f"views through the accessor after pandas in-place operations on the series: {v_lived[1][:300]}")

    def frame_view():
        nf = NestedFrame({"base": list(range(n))}, index=s.index)
        nf["n"] = s
        cols = []
        for c in names:
            fs = nf[f"n.{c}"]
            cols.append(core.child_values(fs.array._pa_array.combine_chunks()))
        return cols

    v_flat3 = attempt(frame_view)
    if v_flat[0] == "ok":
        if v_flat2 != v_flat and repr_flat(v_flat2) != repr_flat(v_flat):
            agree = False
            notes.append("get_flat_series/get_flat_index differ from to_flat")
        if v_flat3[0] != "ok" or cq_list(cq_vals(c) for c in v_flat3[1]) != cq_list(cq_vals(c) for c in v_flat[1][1]):
            agree = False
            notes.append("frame['n.f'] differs from to_flat")

    def lists_view():
        df = s.nest.to_lists()
        assert list(df.columns) == names and list(df.index) == labels
        out = []
        for c in names:
            pl = df[c].array._pa_array.combine_chunks()
            out.append(list(lists_py(pl)))
        return out

    def lists_series_view():
        out = []
        for c in names:
            ls = s.nest.get_list_series(c)
            assert list(ls.index) == labels and ls.name == c
            out.append(list(lists_py(ls.array._pa_array.combine_chunks())))
        return out

    v_lists = attempt(lists_view)
    v_lists2 = attempt(lists_series_view)
    if v_lists[0] == "ok" and (v_lists2[0] != "ok" or repr_lists(v_lists2[1]) != repr_lists(v_lists[1])):
        agree = False
        notes.append("get_list_series differs from to_lists")

    # the per-row numpy view (what NestedFrame.reduce hands to user functions): row i of field f is the numpy form of
    # row i of the list view TAKEN ALONE - dtype, shape and values; in particular it does not depend on what other rows
    # of the same Arrow chunk hold (a null elsewhere must not turn this row's integers into rounded doubles)
    def np_form(x):
        x = np.asarray(x)
        return (str(x.dtype), tuple(x.shape), repr(x.tolist()))

    def iter_lists_view():
        df = s.nest.to_lists()
        bad = []
        for c in names:
            pl = df[c].array._pa_array.combine_chunks()
            got = list(arr.iter_field_lists(c))
            if len(got) != n:
                return [f"iter_field_lists({c!r}) yields {len(got)} arrays for {n} rows"]
            for i in range(n):
                want = np_form(np.asarray(pl[i].values))
                if np_form(got[i]) != want:
                    bad.append(f"iter_field_lists({c!r}) row {i}: {np_form(got[i])} but the row alone is {want}")
        return bad
    v_iter = attempt(iter_lists_view)

    # ... and the same arrays against the Coq model (NumpyView.v): dtype and values of every row
    ROUNDED = 1 << 67

    def np_obs(x, ety):
        x = np.asarray(x)
        if x.ndim == 0:
            assert x.dtype == object and x.item() is None, f"0-d array {x!r}"
            return None
        d = str(x.dtype)
        kind = {"int64": "DInt64", "float64": "DFloat64", "bool": "DBool", "object": "DObject"}.get(
            d, "DDatetime" if d.startswith("datetime64") else "DOtherT")
        vals = []
        for v in x:
            if isinstance(v, np.datetime64) and np.isnat(v):
                vals.append(("null",))
            elif kind == "DFloat64" and ety == "TI64":
                f = float(v)
                if f != f:
                    vals.append(("null",))
                elif abs(f) < 2.0 ** 53 and f == int(f):
                    vals.append(("int", int(f)))
                else:
                    vals.append(("tok", ROUNDED))
            else:
                t = core.tok(v)
                vals.append(("null",) if t == ("tok", core.NAN_TOKEN) else t)
        return (kind, vals)

    def cq_nprow(r):
        return "None" if r is None else f"(Some ({r[0]}, {cq_vals_tok(r[1])}))"

    def cq_vals_tok(ts):
        return cq_list(core.cq_val(t) for t in ts)

    iter_items = []
    for f_ in st:
        ety = core.ety_of(f_.type.value_type)
        got = attempt(lambda: [np_obs(x, ety) for x in arr.iter_field_lists(f_.name)])
        iter_items.append(f"({core.cq_str(f_.name)}, {cq_res(got, lambda rs: cq_list(cq_nprow(r) for r in rs))})")
    unknown = attempt(lambda: list(arr.iter_field_lists("no_such_field")))
    iter_items.append(f"({core.cq_str('no_such_field')}, {cq_res(unknown, lambda rs: '[]')})")
    iter_term = cq_list(iter_items)
    if v_lists[0] == "ok" and (v_iter[0] != "ok" or v_iter[1]):
        agree = False
        notes.append(f"iter_field_lists differs from the list view row by row: {str(v_iter[1])[:300]}")

    # the same views restricted to a selection of fields that is NOT a prefix of the struct order: the requested fields,
    # in the requested order, each holding what the all-fields view holds for it
    sel = names[::-1][: max(1, len(names) - 1)]

    def selected_views():
        dl = s.nest.to_lists(fields=sel)
        assert list(dl.columns) == sel and list(dl.index) == labels, "to_lists(fields): columns / index"
        df_ = s.nest.to_flat(fields=sel)
        assert list(df_.columns) == sel, "to_flat(fields): columns"
        out_l = [list(lists_py(dl[c].array._pa_array.combine_chunks())) for c in sel]
        out_f = ([ordinal[x] for x in df_.index], [core.child_values(df_[c].array._pa_array.combine_chunks()) for c in sel])
        return out_l, out_f
    v_sel = attempt(selected_views)
    if v_sel[0] != "ok":
        if v_lists[0] == "ok" and v_flat[0] == "ok":
            agree = False
            notes.append(f"views with a field selection raised {v_sel[1]!r}")
    else:
        if v_lists[0] == "ok" and repr_lists(v_sel[1][0]) != repr_lists([v_lists[1][names.index(c)] for c in sel]):
            agree = False
            notes.append("to_lists(fields=selection) differs from the all-fields list view")
        if v_flat[0] == "ok" and repr_flat(("ok", v_sel[1][1])) != repr_flat(("ok", (v_flat[1][0], [v_flat[1][1][names.index(c)] for c in sel]))):
            agree = False
            notes.append("to_flat(fields=selection) differs from the all-fields flat view")

    def cq_flat(x):
        return f"({cq_nats(x[0])}, {cq_list(cq_vals(c) for c in x[1])})"

    term = ("{| v_len := %d; v_isna := %s; v_lengths := %s; v_flat_length := %s; v_offdiffs := %s; "
            "v_list_index := %s; v_names := %s; v_rows := %s; v_flat := %s; v_lists := %s |}") % (
        v_len, cq_bools(v_isna), cq_res(v_lengths, cq_nats), cq_res(v_flat_length, str),
        cq_res(v_offdiffs, cq_nats), cq_res(v_list_index, cq_nats), cq_res(v_names, cq_strs),
        cq_lrows(it_rows), cq_res(v_flat, cq_flat),
        cq_res(v_lists, lambda ls: cq_list(cq_list(core.cq_opt(l, cq_vals) for l in col) for col in ls)))
    raised = [k for k, v in [("list_lengths", v_lengths), ("flat_length", v_flat_length), ("list_offsets", v_offdiffs),
                             ("get_list_index", v_list_index), ("field_names", v_names), ("to_flat", v_flat),
                             ("to_lists", v_lists)] if v[0] == "err"]
    impl_repr = {"len": v_len, "isna": v_isna, "list_lengths": v_lengths, "flat_length": v_flat_length,
                 "raised": raised, "python_side_notes": notes}
    return term, agree, impl_repr, bool(raised), iter_term


def repr_flat(v):
    if v[0] != "ok":
        return str(v)
    return cq_nats(v[1][0]) + cq_list(cq_vals(c) for c in v[1][1])


def repr_lists(ls):
    return cq_list(cq_list(core.cq_opt(l, cq_vals) for l in col) for col in ls)


def lists_py(pl: pa.Array):
    """list array -> python lists with timestamp children converted consistently"""
    out = []
    vals = core.child_values(pl.values)
    offs = pl.offsets.to_pylist()
    valid = pl.is_valid().to_pylist()
    for i, v in enumerate(valid):
        out.append(vals[offs[i]:offs[i + 1]] if v else None)
    return out


def make_case(rng, recipe, corner, tmpdir, max_rows, max_len):
    schema, rows = gen.gen_content(rng, max_rows=max_rows, max_len=max_len, corner=corner)
    if recipe == "parquet":
        ca = gen.parquet_layout(rng, schema, rows, tmpdir)
    else:
        ca = gen.make_layout(rng, schema, rows, recipe)
    return schema, rows, ca


def generate(ctx):
    rng = ctx.rng
    n_cases = ctx.budget(160, 1500)
    max_rows = 8 if ctx.tier == "quick" else 14
    tmpdir = tempfile.mkdtemp(prefix="verif_c03_")
    recipes = gen.LAYOUTS + ["parquet", "history", "history"]
    cases = []
    try:
        for i in range(n_cases):
            corner = {0: "zero_rows", 1: "all_missing", 2: "all_empty"}.get(i % 40)
            recipe = recipes[i % len(recipes)] if i < 3 * len(recipes) else rng.choice(recipes)
            if recipe == "history":
                # ONE object that has lived: reads (which may cache) interleaved with valid in-place writes
                hinp = ao.mk_input(rng, max_rows=max_rows, recipe="history", corner=corner)
                schema, rows, ca, built = hinp["schema"], hinp["rows"], hinp["ca"], hinp["built"]
                if hinp.get("history_failed"):
                    c = ao.history_failure_case(hinp)
                    c["op"] = "views"
                    cases.append(dict(c, cid=i))
                    continue
            else:
                schema, rows, ca = make_case(rng, recipe, corner, tmpdir, max_rows, 5 if i % 7 else 12)
                built = attempt(lambda: NEA(ca))
            # the views are views of the array AS STORED (the constructor may normalise chunking)
            stored = built[1].chunked_array if built[0] == "ok" else ca
            ph = core.phys(stored)
            lg = core.logical(ca)
            st = core.phys_stats(ph)
            if built[0] == "err":
                # a valid column refused by the constructor: reported through flag B
                term = f"(let P := {core.cq_phys(ph)} in [negb (is_ok (m_init P true)); false; wf_b P; lcol_eqb (abs P) {core.cq_lcol(lg)}])"
                impl_repr, raised = {"constructor": built}, True
            else:
                vterm, agree, impl_repr, raised, iterm = collect_views(ca, built[1])
                term = (f"(let P := {core.cq_phys(ph)} in let L := {core.cq_lcol(lg)} in let V := {vterm} in "
                        f"match chk_views P L V, chk_iter_all P L {iterm} with [a; b; c; s], [a2; b2; c2; s2] => "
                        f"[a && a2; b && {core.cq_bool(agree)} && b2; c && c2; s && s2] | l, _ => l end)")
            nonempty = any(r is not None and any(len(v) for v in r.values()) for r in rows)
            cases.append({
                "cid": i, "stream": "views", "op": "views", "term": term,
                "input": {"schema": schema, "rows": _rows_repr(rows), "layout": recipe},
                "impl_repr": impl_repr,
                "meta": dict(st, layout=recipe, impl_raised=raised),
                "sig": [recipe, len(rows), len(schema), st["missing"], st["num_chunks"], st["zero_based"]],
                "trivial": not nonempty,
                "hist": {"layout": recipe, "rows": len(rows), "fields": len(schema), "chunks": st["num_chunks"],
                         "hidden_children": st["hidden_children"], "raised": raised},
                "_views_term": None,
            })
        # ---- beyond the model's invariant: PRESENT rows whose lists are null (pa.array([{'a': None, 'b': None}]): the
        # constructor accepts them; the library's views read a null list as an empty one).  No Coq term: wf_b excludes the
        # layout; the views are compared with one another here.
        for j in range(ctx.budget(12, 80)):
            schema, rows = gen.gen_content(rng, max_rows=6, max_len=4)
            ca = gen.make_layout(rng, schema, rows, "empty_as_null")
            verdict = attempt(lambda: null_list_views(ca, rows))
            ok = verdict[0] == "ok" and verdict[1] == []
            cases.append({"cid": len(cases), "stream": "views", "op": "views_null_lists", "term": f"[true; {core.cq_bool(ok)}; true; true]",
                          "input": {"schema": schema, "rows": _rows_repr(rows), "layout": "empty_as_null"},
                          "impl_repr": str(verdict)[:400], "meta": {"layout": "empty_as_null", "impl_raised": verdict[0] == "err"},
                          "sig": ["empty_as_null", len(rows), len(schema), j], "trivial": not any(r is not None and not any(len(v) for v in r.values()) for r in rows),
                          "hist": {"layout": "empty_as_null", "rows": len(rows), "fields": len(schema), "chunks": 1, "hidden_children": False,
                                   "raised": verdict[0] == "err"}, "_views_term": None})
    finally:
        shutil.rmtree(tmpdir, ignore_errors=True)
    return cases


def null_list_views(ca, rows):
    """the views of a column whose empty rows are stored as present rows of null lists agree with one another"""
    arr = NEA(ca)
    s = pd.Series(arr, name="n")
    want = [0 if r is None else len(next(iter(r.values()))) for r in rows]
    problems = []
    if [int(x) for x in arr.list_lengths] != want:
        problems.append(f"list_lengths {list(arr.list_lengths)} != {want}")
    if arr.flat_length != sum(want):
        problems.append("flat_length")
    if [bool(x) for x in arr.isna()] != [r is None for r in rows]:
        problems.append("isna")
    boxed = [(None if (t is None or t is pd.NA) else len(t)) for t in arr]
    if boxed != [None if r is None else len(next(iter(r.values()))) for r in rows]:
        problems.append(f"per-row tables have {boxed} rows")
    flat = s.nest.to_flat()
    if len(flat) != sum(want):
        problems.append("to_flat length")
    idx = [int(x) for x in arr.get_list_index()]
    if idx != [i for i, k in enumerate(want) for _ in range(k)]:
        problems.append("get_list_index")
    for t, r in zip(arr, rows):
        if r is not None and list(t.columns) != list(r.keys()):
            problems.append("columns of a per-row table")
            break
    return problems


def _rows_repr(rows):
    return [None if r is None else {k: [repr(x) for x in v] for k, v in r.items()} for r in rows]


def detail_term(c):
    t = c["term"]
    return t.replace("match chk_views P L V with [a; b; c; s] =>", "match chk_views_detail P L V with [a; b; c; s] =>") \
        if False else t.split(" in match chk_views")[0] + " in chk_views_detail P L V)" if "chk_views P L V" in t else t
