"""C16 stream: results depend only on data and arguments, not on what ran before.
Exhaustive prefixes (length <= 2 quick / <= 3 thorough) over failing or read-only operations - evals and queries that raise
(undefined name, unknown field, mixed layers, bad syntax), failing assignments (wrong length, wrong type, ragged lists through the
array), failing inplace query / sort_values / dropna / eval, failing reduce, and successful read-only calls - applied to ONE frame,
followed by a probe battery; the same battery on a FRESH equal frame is the oracle.  The frame's data must be untouched by every
failing call (whole-frame snapshot), and its alias state must be what the Coq state machine (Names.v: frun) says."""
from __future__ import annotations

import itertools

import numpy as np
import pandas as pd
import pyarrow as pa

from harness import core
from harness import frameops as fo
from harness.core import attempt, cq_bool, cq_list
from nested_pandas import NestedFrame
from nested_pandas.series.packer import pack_seq
from nested_pandas.utils import count_nested

RULE = ("one case = one prefix of 0-3 failing / read-only operations (all sequences over 16 operations up to the tier's length; beyond "
        "that, random) applied to one frame, followed by a battery of 12 probes (back-ticked and plain item access, reduce, query, eval, "
        "sort_values, dropna, assignment on a copy, the listings, the alias attribute); every probe result is compared with the same probe "
        "on a fresh equal frame, the frame's data with its snapshot before the prefix; the observed alias state is compared with the Coq "
        "state machine; distinct = the prefix; non-trivial = the prefix contains a failing call")
ASSUMPTIONS = ["pandas' own multi-line eval applies the lines one by one: a failing later line is offered only with inplace=False"]
CORRESPONDENCE = "frun (Names.v, repaired = true) vs NestedFrame._aliases after the real calls"
EXTRA_IMPORTS = "Dtype Names"


def make():
    nf = NestedFrame({"x": [0, 1, 2], "w": [5.0, None, 7.0]}, index=["r0", "r1", "r1"])
    st = pa.struct([("my f", pa.list_(pa.int64())), ("a", pa.list_(pa.float64()))])
    nf["n"] = pack_seq([{"my f": [3, 1, 2], "a": [0.5, None, 1.5]}, None, {"my f": [9], "a": [2.5]}], index=["r0", "r1", "r1"], dtype=st)
    nf["m"] = pack_seq([{"q": [1]}, {"q": []}, {"q": [2, 3]}], index=["r0", "r1", "r1"], dtype=pa.struct([("q", pa.list_(pa.int64()))]))
    return nf


def boom(*a, **k):
    raise RuntimeError("user function fails")


OPS = {
    "eval_undefined": lambda nf: nf.eval("n.`my f` + undefined_name"),
    "eval_unknown_field": lambda nf: nf.eval("n.nope + 1"),
    "eval_bad_syntax": lambda nf: nf.eval("n.`my f` +* 2"),
    "query_undefined": lambda nf: nf.query("n.`my f` > undefined_name"),
    "query_mixed": lambda nf: nf.query("n.a > 1 & x > 0"),
    "query_unknown_inplace": lambda nf: nf.query("n.nope > 1", inplace=True),
    "eval_assign_fails_inplace": lambda nf: nf.eval("n.c = n.nope * 2", inplace=True),
    "setitem_wrong_length": lambda nf: nf.__setitem__("n.a", [1.0, 2.0]),
    "setitem_new_nest_bad": lambda nf: nf.__setitem__("zz.a", object()),
    "array_set_list_ragged": lambda nf: nf["n"].array.set_list_field("a", pa.array([[1.0], None, [1.0, 2.0, 3.0]], type=pa.list_(pa.float64()))),
    "array_setitem_ragged": lambda nf: nf["n"].array.__setitem__(0, {"my f": [1, 2, 3], "a": [1.0]}),
    "sort_unknown_inplace": lambda nf: nf.sort_values("n.zz", inplace=True),
    "dropna_unknown_layer_inplace": lambda nf: nf.dropna(subset=["zz.a"], inplace=True),
    "reduce_fails": lambda nf: nf.reduce(boom, "n.`my f`"),
    "repr_frame": lambda nf: repr(nf),
    "str_series": lambda nf: str(nf["n"]),
    "html_frame": lambda nf: nf._repr_html_(),
    "to_numpy_rows": lambda nf: nf["n"].to_numpy(),
    "ok_query": lambda nf: nf.query("n.`my f` > 1"),
    "ok_eval": lambda nf: nf.eval("n.`my f` * 2"),
}
EVALS = {"eval_undefined": "n.`my f` + undefined_name", "eval_unknown_field": "n.nope + 1", "eval_bad_syntax": "n.`my f` +* 2",
         "query_undefined": "n.`my f` > undefined_name", "query_mixed": "n.a > 1 & x > 0", "query_unknown_inplace": "n.nope > 1",
         "eval_assign_fails_inplace": "n.c = n.nope * 2", "ok_query": "n.`my f` > 1", "ok_eval": "n.`my f` * 2"}


def canon(v):
    if isinstance(v, pd.DataFrame):
        return ("frame", fo.snapshot(v))
    if isinstance(v, pd.Series):
        if hasattr(v.array, "chunked_array"):
            return ("nested", repr(v.array.chunked_array.to_pylist()), [repr(x) for x in v.index])
        return ("series", [repr(x) for x in v.tolist()], [repr(x) for x in v.index], str(v.dtype))
    return ("value", repr(v))


def probes(nf):
    out = {}
    def p(name, f):
        r = attempt(f)
        out[name] = ("err", r[1]) if r[0] == "err" else canon(r[1])
    p("getitem_bt", lambda: nf["n.`my f`"])
    p("getitem_bt_both", lambda: nf["`n`.`my f`"])
    p("getitem_plain", lambda: nf["n.a"])
    p("reduce_bt", lambda: nf.reduce(lambda v: int(np.sum(v)), "n.`my f`"))
    p("query_bt", lambda: nf.query("n.`my f` > 1"))
    p("eval_bt", lambda: nf.eval("n.`my f` + 1"))
    p("sort_bt", lambda: nf.sort_values("`n`.`my f`"))
    p("dropna_bt", lambda: nf.dropna(subset=["n.`a`"]))
    def assign():
        c = nf.copy()
        c["n.`my f`"] = np.arange(4)
        return c
    p("setitem_bt_on_copy", assign)
    p("listing", lambda: (list(nf.nested_columns), {k: list(v) for k, v in nf.all_columns.items()}))
    p("query_base", lambda: nf.query("x > 0"))
    p("count_by", lambda: count_nested(nf, "n", by="my f", join=False))
    p("apply_rows", lambda: nf["n"].apply(lambda d: None if d is None or d is pd.NA else float(d["a"].sum())))
    p("boxed_types", lambda: [type(x).__name__ for x in nf["n"].to_numpy()])
    p("aliases", lambda: getattr(nf, "_aliases", None))
    return out


def cq_s(s):
    return "[" + "; ".join(str(ord(c)) for c in s) + "]"


def generate(ctx):
    rng = ctx.rng
    names = list(OPS)
    max_len = 2 if ctx.tier == "quick" else 3
    prefixes = [()]
    for k in range(1, max_len + 1):
        prefixes += list(itertools.product(names, repeat=k))
    if ctx.tier == "quick":
        # all of length <= 1, every ordered pair in which the first call is an evaluation (the one stateful site) or a failing write,
        # and a seeded sample of the rest
        firsts = [p for p in prefixes if len(p) <= 1 or p[0] in EVALS or p[0].startswith("array_") or p[0].startswith("setitem")]
        rest = [p for p in prefixes if p not in set(firsts)]
        rng.shuffle(rest)
        prefixes = firsts + rest[: 40 * ctx.scale]
    else:
        extra = [tuple(rng.choice(names) for _ in range(rng.randint(4, 8))) for _ in range(200)]
        prefixes += extra
    fresh = probes(make())
    cases = []
    from pandas.core.computation.parsing import clean_column_name
    table = cq_list(f"({cq_s(n_)}, {cq_s(clean_column_name(n_))})" for n_ in ["my f", "n", "a", "m", "q", "x", "w"])
    for pref in prefixes:
        nf = make()
        before = fo.snapshot(nf)
        oks = []
        for name in pref:
            r = attempt(lambda: OPS[name](nf))
            oks.append(r[0] == "ok")
        data_same = fo.snapshot(nf) == before
        got = probes(nf)
        diff = [k for k in fresh if got[k] != fresh[k]]
        ops_t = cq_list((f"(FEval {cq_s(EVALS[name])} {cq_bool(ok)})" if name in EVALS else "FOther") for name, ok in zip(pref, oks))
        observed_none = getattr(nf, "_aliases", None) is None
        term = (f"(let CL := (fun s : str => match find (fun kv : str * str => str_eqb (fst kv) s) {table} with Some kv => snd kv | None => s end) in "
                f"[Bool.eqb (match frun CL true None {ops_t} with None => true | Some _ => false end) {cq_bool(observed_none)}; "
                f"{cq_bool(not diff and data_same)}; true; true])")
        failing = [n for n, ok in zip(pref, oks) if not ok]
        unexpected_ok = [n for n, ok in zip(pref, oks) if ok and not n.startswith("ok_")]
        cases.append({"stream": "history", "op": "prefix", "term": term,
                      "input": {"prefix": list(pref), "succeeded": oks},
                      "impl_repr": {"probes_that_differ_from_a_fresh_frame": diff, "data_unchanged": data_same,
                                    "differences": {k: (str(got[k])[:200], str(fresh[k])[:200]) for k in diff[:3]},
                                    "calls_expected_to_fail_that_succeeded": unexpected_ok},
                      "meta": {"impl_raised": False}, "sig": list(pref), "trivial": not failing,
                      "hist": {"op": "prefix", "length": len(pref), "first": pref[0] if pref else "-"}})
    # ---- histories WITH successful writes, and results of operations that return a new frame.
    # Two frames holding equal data answer every probe alike, whatever else happened to them:
    #   A = fresh frame, noise (read-only or failing calls) interleaved with effects (successful in-place writes)
    #   B = fresh frame, the effects only
    # and for an operation that returns a frame: R = op(A) against B' = the same operation done in place on a fresh frame.
    st = pa.struct([("my f", pa.list_(pa.int64())), ("a", pa.list_(pa.float64()))])
    effects = {
        "E_array_setitem": lambda nf: nf["n"].array.__setitem__(np.array([0, 2]), pack_seq(
            [{"my f": [7, 7], "a": [1.0, 2.0]}, {"my f": [], "a": []}], dtype=st).array),
        "E_iloc_setitem": lambda nf: nf["n"].iloc.__setitem__([1], pack_seq([{"my f": [4, 5], "a": [None, 8.5]}], dtype=st).array),
        "E_setfield": lambda nf: nf.__setitem__("n.a", np.arange(float(nf["n"].nest.flat_length)) * 1.5),
        "E_eval_inplace": lambda nf: nf.eval("n.c = n.`my f` * 2", inplace=True),
        "E_query_inplace": lambda nf: nf.query("n.`my f` > 1", inplace=True),
    }
    derived = {
        "D_eval_assign": (lambda nf: nf.eval("n.c = n.`my f` + 1"), lambda nf: nf.eval("n.c = n.`my f` + 1", inplace=True), "n.c = n.`my f` + 1"),
        "D_eval_assign_base": (lambda nf: nf.eval("c = x + 1"), lambda nf: nf.eval("c = x + 1", inplace=True), "c = x + 1"),
        "D_query": (lambda nf: nf.query("n.`my f` > 1"), lambda nf: nf.query("n.`my f` > 1", inplace=True), "n.`my f` > 1"),
        "D_sort": (lambda nf: nf.sort_values("n.`my f`"), lambda nf: nf.sort_values("n.`my f`", inplace=True), None),
        "D_dropna": (lambda nf: nf.dropna(subset=["n.`a`"]), lambda nf: nf.dropna(subset=["n.`a`"], inplace=True), None),
        "D_copy": (lambda nf: nf.copy(), lambda nf: None, None),
    }
    noise = [n_ for n_ in names]
    plans = []
    for e in effects:
        plans.append(((), e, None))
        for nz in noise:
            plans.append(((nz,), e, None))
    for d in derived:
        plans.append(((), None, d))
        for nz in (noise if ctx.tier != "quick" else rng.sample(noise, 6)):
            plans.append(((nz,), None, d))
        for e in effects:
            plans.append(((rng.choice(noise),), e, d))
    # a read that may fill a cache, THEN a write that changes row lengths, then an operation that needs the fresh lengths
    for nz in ("ok_query", "ok_eval", "query_undefined", "reduce_fails"):
        for e in ("E_array_setitem", "E_iloc_setitem"):
            for d in ("D_query", "D_sort", "D_dropna", "D_eval_assign"):
                plans.append(((nz,), e, d))
    if ctx.tier != "quick":
        for _ in range(300):
            plans.append((tuple(rng.choice(noise) for _ in range(rng.randint(1, 3))), rng.choice(list(effects)), rng.choice([None] + list(derived))))
    for noise_pref, eff, der in plans:
        a_frame, b_frame = make(), make()
        steps = list(noise_pref) + ([eff] if eff else [])
        if eff and len(noise_pref) and rng.random() < 0.3:
            steps = [eff] + list(noise_pref)          # noise after the write as well as before it
        problems = []
        for name in steps:
            r = attempt(lambda: (effects[name] if name in effects else OPS[name])(a_frame))
            if name in effects and r[0] == "err":
                problems.append(f"harness: effect {name} raised {r[1]}")
        if eff:
            r = attempt(lambda: effects[eff](b_frame))
        if fo.snapshot(a_frame) != fo.snapshot(b_frame):
            problems.append("the noise changed the data")
        target_a, target_b = a_frame, b_frame
        observed_none = getattr(a_frame, "_aliases", None) is None
        if der:
            ra = attempt(lambda: derived[der][0](a_frame))
            rb = attempt(lambda: derived[der][1](b_frame))
            if ra[0] == "err" or rb[0] == "err":
                problems.append(f"derived operation raised: {ra[1] if ra[0] == 'err' else rb[1]}")
            else:
                target_a = ra[1]
                if not isinstance(target_a, NestedFrame):
                    problems.append("the result is not a NestedFrame")
                    target_a = a_frame
                elif fo.snapshot(target_a) != fo.snapshot(target_b):
                    problems.append("the returned frame differs from the same operation done in place on an equal frame")
                observed_none = getattr(target_a, "_aliases", None) is None
        got_a, got_b = probes(target_a), probes(target_b)
        diff = [k for k in got_b if got_a[k] != got_b[k]]
        if diff:
            problems.append(f"probes differ between two frames holding equal data: {diff}")
        term = f"[{cq_bool(observed_none)}; {cq_bool(not problems)}; true; true]"
        cases.append({"stream": "history", "op": "equal_data", "term": term,
                      "input": {"steps": steps, "derived": der},
                      "impl_repr": {"problems": problems, "differences": {k: (str(got_a[k])[:200], str(got_b[k])[:200]) for k in diff[:3]}},
                      "meta": {"impl_raised": False}, "sig": ["equal_data"] + steps + [der], "trivial": False,
                      "hist": {"op": "equal_data", "effect": eff or "-", "derived": der or "-"}})
    for k, c in enumerate(cases):
        c["cid"] = k
    return cases
