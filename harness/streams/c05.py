"""C05 stream: a nested column behaves like a sequence of rows (three-way: real library, Coq
model/spec, plain Python list) + frame-level row moves carry the nested table with the row."""
from __future__ import annotations

from harness import arrayops as ao
from harness import gen
from harness.streams import c05_frame, kernels

RULE = ("one case = one operation (int/slice/mask/int-array selection, take with negatives and fill, concat, copy, dropna, "
        "pickle, element assignment with int/slice/mask/int-array keys and table/dict/NA/array-of-rows values, directly and "
        "through Series.iloc) on one generated column in one of 12 layouts, compared with the Coq model, the Coq spec and a "
        "plain Python list; plus frame-level row selections/reorderings with a unique id in the base column and inside every "
        "nested table; distinct = (op, layout, sizes, args) signature; non-trivial = not an error and not the identity")
ASSUMPTIONS = ["NaN in an offered value is a value or 'missing' according to the input convention of the route it takes (ExtArray.from_pandas; the flag is derived by the harness from the form of the value)",
               "integer-array assignment keys address distinct positions (the property's quantifier)"]
CORRESPONDENCE = "m_getitem_*/m_take/m_concat/m_dropna/m_pickle/m_setitem (ExtArray.v) vs NestedExtensionArray"
EXTRA_IMPORTS = "FrameRows"
LAYOUTS = list(gen.LAYOUTS) + ["history", "history"]


def generate(ctx):
    rng = ctx.rng
    n = ctx.budget(260, 2600)
    max_rows = 7 if ctx.tier == "quick" else 12
    cases = []
    ops = [ao.op_getitem_int, ao.op_getitem_slice, ao.op_getitem_slice, ao.op_getitem_mask, ao.op_getitem_idx, ao.op_take,
           ao.op_take, ao.op_concat, ao.op_simple, ao.op_iterate, ao.op_setitem, ao.op_setitem, ao.op_setitem,
           lambda r, i: ao.op_setitem(r, i, malformed=True), lambda r, i: ao.op_setitem(r, i, via_series=True),
           lambda r, i: ao.op_setitem(r, i, force_multi=True), lambda r, i: ao.op_getitem_idx(r, i, force="zeros")]
    for i in range(n):
        corner = {0: "zero_rows", 1: "all_missing", 2: "all_empty"}.get(i % 50)
        recipe = LAYOUTS[i % len(LAYOUTS)] if i < 2 * len(LAYOUTS) else None
        if ops[i % len(ops)] is ao.op_iterate and i % 3:
            # iteration reads every field through its own offsets: the layouts where the fields do not share them
            recipe, corner = ("mixed_bases" if i % 3 == 1 else "history"), None
        inp = ao.mk_input(rng, max_rows=max_rows, recipes=LAYOUTS, corner=corner, recipe=recipe)
        if inp.get("history_failed"):
            cases.append(ao.history_failure_case(inp))
            continue
        if inp["built"][0] != "ok":
            continue
        op = ops[i % len(ops)]
        cases.append(ao.run_op(op, rng, inp))
    cases.extend(c05_frame.generate(ctx))
    cases.extend(kernels.generate(ctx, ctx.budget(64, 640)))
    for k, c in enumerate(cases):
        c["cid"] = k
    return cases
