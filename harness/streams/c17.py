"""C17 stream: the nested dtype is a faithful, stable description of the column.
Name rendering and string parser against the Coq model (Dtype.v) over the WHOLE alias catalogue of the live pyarrow
(gen/AliasTable.v, regenerated on every run); parametric element types by instantiation (refused with TypeError, never
mis-parsed); strings valid / truncated / permuted / upper-cased; equality and hash; Arrow dtype conversions; pickling;
fields / field_names; declared dtype = type of the stored data after edits through the accessor and the frame."""
from __future__ import annotations

import os
import pickle

import numpy as np

import pandas as pd
import pyarrow as pa

from harness import arrayops as ao
from harness import core, gen
from harness.core import attempt, cq_bool, cq_list
from nested_pandas import NestedDtype, NestedFrame
from nested_pandas.series.ext_array import NestedExtensionArray as NEA

RULE = ("one case = one field list (1-4 fields; element types drawn so that EVERY alias of the catalogue is used at least once per run, "
        "plus parametric instantiations: timestamp with tz, decimal128, list<...>, struct<...>, dictionary, fixed_size_binary, map, large_list; "
        "field names: identifiers, spaces, punctuation, brackets, unicode, upper case, without the separators) checked for: name rendering (Coq "
        "render_name), parse of the name (Coq parse_name on the alias table) = the same dtype or TypeError, equality / hash against permuted and "
        "modified field lists, Arrow dtype round trip, pickle, fields / field_names; or one mangled string (truncated, permuted, re-cased, "
        "extra text) fed to the parser and compared with the Coq parser; or one column edited through accessor / frame whose declared dtype is "
        "compared with its storage type; distinct = (kind, #fields, types); non-trivial = always")
ASSUMPTIONS = ["str() of a pyarrow type is its canonical rendering; type strings are ASCII (str.lower = ASCII lower)"]
CORRESPONDENCE = "render_name / parse_name (Dtype.v) on gen/AliasTable.v vs NestedDtype.name / construct_from_string"
EXTRA_IMPORTS = "Dtype"
EXTRA_HEADER = "From NPgen Require Import AliasTable."

NAMES = ["a", "b", "flux", "t", "my field", "x-y", "a:b", "a,b", "[k]", "UPPER", "class", "été", "n.a", "f1", " lead", "trail ", "a]", "<x>"]


def cq_s(s: str) -> str:
    return "[" + "; ".join(str(ord(c)) for c in s) + "]"


def cq_fields(fs) -> str:
    return cq_list(f"({cq_s(n)}, {cq_s(t)})" for n, t in fs)


def parametric(rng):
    return rng.choice([pa.timestamp("ns", tz="UTC"), pa.decimal128(10, 2), pa.list_(pa.int64()), pa.struct([("a", pa.int64()), ("b", pa.float64())]),
                       pa.dictionary(pa.int32(), pa.string()), pa.binary(4), pa.map_(pa.string(), pa.int64()), pa.large_list(pa.int64()),
                       pa.timestamp("us", tz="Europe/Paris"), pa.decimal256(40, 3), pa.struct([("a", pa.int64())]), pa.list_(pa.list_(pa.int8()))])


def generate(ctx):
    rng = ctx.rng
    cases = []
    import re, os
    pxi = open(os.path.join(os.path.dirname(pa.__file__), "types.pxi")).read()
    keys = re.findall(r"^\s*'([^']+)'\s*:", re.search(r"cdef dict _type_aliases = \{(.*?)\n\}", pxi, re.S).group(1), re.M)
    alias_types = [pa.type_for_alias(k) for k in keys]
    n_cases = ctx.budget(170, 1500)
    for i in range(n_cases):
        kind = ["dtype", "dtype", "parametric", "string", "string", "edit", "edit"][i % 7]
        if kind in ("dtype", "parametric"):
            k = rng.randint(1, 4)
            names = rng.sample(NAMES, k)
            types = [alias_types[(i * 3 + j) % len(alias_types)] if j == 0 and kind == "dtype" else rng.choice(alias_types) for j in range(k)]
            if kind == "parametric":
                types[rng.randrange(k)] = parametric(rng)
            fields = dict(zip(names, types))

            def run():
                d = NestedDtype.from_fields(fields)
                out = {"name": d.name}
                assert d.fields == fields and list(d.fields) == names, "fields does not report what was given"
                assert d.field_names == names
                assert d == NestedDtype.from_fields(dict(fields)) and hash(d) == hash(NestedDtype.from_fields(dict(fields)))
                assert d == NestedDtype(pa.struct([pa.field(n, pa.list_(t)) for n, t in fields.items()]))
                if k > 1:
                    perm = dict(reversed(list(fields.items())))
                    assert d != NestedDtype.from_fields(perm), "equal to a dtype with the fields in another order"
                other = dict(fields)
                other[names[0]] = pa.int8() if types[0] != pa.int8() else pa.int16()
                assert d != NestedDtype.from_fields(other), "equal to a dtype with another element type"
                ren = {("zz" + n if j == 0 else n): t for j, (n, t) in enumerate(fields.items())}
                assert d != NestedDtype.from_fields(ren), "equal to a dtype with another field name"
                assert d != pd.ArrowDtype(d.pyarrow_dtype) and d != "something"
                # one field more / one field less (the field list of one is the beginning of the other's), in both directions,
                # also against the name string
                longer = NestedDtype.from_fields(dict(fields, zz_more=pa.float64()))
                assert d != longer and longer != d and d != longer.name and longer != d.name, "equal to a dtype with one more field"
                if k > 1:
                    shorter = NestedDtype.from_fields(dict(list(fields.items())[:-1]))
                    assert d != shorter and shorter != d and d != shorter.name, "equal to a dtype with one field less"
                ad = d.to_pandas_arrow_dtype()
                assert isinstance(ad, pd.ArrowDtype) and ad.pyarrow_dtype == d.pyarrow_dtype
                assert NestedDtype.from_pandas_arrow_dtype(ad) == d
                p = pickle.loads(pickle.dumps(d))
                assert p == d and hash(p) == hash(d) and p.name == d.name and p.fields == d.fields
                try:
                    back = NestedDtype.construct_from_string(d.name)
                    out["parsed"] = [(n, str(t)) for n, t in back.fields.items()]
                    out["same"] = back == d
                except TypeError:
                    out["parsed"] = None
                return out
            res = attempt(run)
            fs = [(n, str(t)) for n, t in fields.items()]
            if res[0] == "ok":
                impl_parse = "Err" if res[1]["parsed"] is None else f"(Ok {cq_fields(res[1]['parsed'])})"
                # the property: parsing the name succeeds only with an EQUAL dtype; for alias element types and names free of the
                # separators it must succeed
                free = all(", " not in n and ": " not in n for n in names)
                must = kind == "dtype" and free
                spec_ok = (res[1]["parsed"] is None and not must) or (res[1]["parsed"] is not None and res[1]["same"])
                term = (f"(let D := {cq_fields(fs)} in [str_eqb (render_name D) {cq_s(res[1]['name'])} && "
                        f"res_eqb (list_eqb (fun a b => str_eqb (fst a) (fst b) && str_eqb (snd a) (snd b))) (parse_name alias_table {cq_s(res[1]['name'])}) {impl_parse}; "
                        f"{cq_bool(spec_ok)} && (negb {cq_bool(must)} || dtype_ok alias_table D); true; true])")
            else:
                term = "[false; false; true; true]"
            inp = {"fields": fs}
        elif kind == "string":
            k = rng.randint(1, 3)
            names = rng.sample(NAMES[:9], k)
            fs = [(n, str(rng.choice(alias_types))) for n in names]
            s = "nested<" + ", ".join(f"{n}: [{t}]" for n, t in fs) + ">"
            m = rng.choice(["valid", "truncate", "drop_char", "upper", "swap_sep", "extra", "no_bracket", "empty_type", "dup_name", "double_sep", "garbage", "tail", "tail"])
            if m == "truncate":
                s = s[: rng.randint(0, len(s) - 1)]
            elif m == "drop_char":
                j = rng.randrange(len(s))
                s = s[:j] + s[j + 1:]
            elif m == "upper":
                s = "nested<" + ", ".join(f"{n}: [{t.upper()}]" for n, t in fs) + ">"
            elif m == "swap_sep":
                s = s.replace(", ", ",", 1) if rng.random() < 0.5 else s.replace(": ", ":", 1)
            elif m == "extra":
                s = rng.choice([" " + s, s + " ", "x" + s, s + ">"])
            elif m == "tail":
                # a well-formed name FOLLOWED by something: never the name of that dtype
                s = s + rng.choice([", b: [double]", "x", "[pyarrow]", ">x", " nested<a: [int64]>", ", zz: [int64]>", ">>"])
            elif m == "no_bracket":
                s = s.replace("[", "", 1) if rng.random() < 0.5 else s.replace("]", "", 1)
            elif m == "empty_type":
                s = "nested<a: []>"
            elif m == "dup_name":
                s = "nested<a: [int64], b: [double], a: [string]>"
            elif m == "double_sep":
                s = s.replace(": ", ": : ", 1)
            elif m == "garbage":
                s = rng.choice(["", "nested", "nested<>", "nested<a>", "int64", "nested<a: [int64]", "Nested<a: [int64]>", "nested<: [int64]>"])

            def run_s():
                try:
                    d = NestedDtype.construct_from_string(s)
                except TypeError:
                    return None
                # whenever parsing succeeds the result is a dtype, and a dtype whose name round-trips
                assert isinstance(d, NestedDtype)
                return [(n, str(t)) for n, t in d.fields.items()]
            res = attempt(run_s)     # any exception other than TypeError is a violation
            if res[0] == "ok":
                impl = "Err" if res[1] is None else f"(Ok {cq_fields(res[1])})"
                term = (f"[res_eqb (list_eqb (fun a b => str_eqb (fst a) (fst b) && str_eqb (snd a) (snd b))) (parse_name alias_table {cq_s(s)}) {impl}; "
                        f"true; true; true]")
            else:
                term = "[true; false; true; true]"
            inp = {"string": s, "mangle": m}
        elif i % 14 == 6:
            # replacing a field by one of the SAME kind of type with other parameters (timestamp unit / timezone, decimal precision,
            # duration unit, fixed-size width): the declared dtype must follow the storage
            pairs = [(pa.timestamp("ns"), pa.timestamp("s")), (pa.timestamp("ns"), pa.timestamp("ns", tz="UTC")),
                     (pa.decimal128(10, 2), pa.decimal128(12, 3)), (pa.duration("s"), pa.duration("ms")), (pa.time32("s"), pa.time32("ms")),
                     (pa.binary(2), pa.binary(3)), (pa.timestamp("us", tz="UTC"), pa.timestamp("us", tz="Europe/Paris"))]
            t_old, t_new = rng.choice(pairs)
            lens = [rng.randint(0, 3) for _ in range(rng.randint(1, 4))]

            def vals(t, k):
                if pa.types.is_decimal(t):
                    import decimal
                    return [decimal.Decimal("1.25")] * k
                if pa.types.is_fixed_size_binary(t):
                    return [b"x" * t.byte_width] * k
                return [1] * k
            st = pa.struct([("a", pa.list_(pa.int64())), ("p", pa.list_(t_old))])
            arr0 = NEA(pa.StructArray.from_arrays([pa.array([[0] * k for k in lens], type=pa.list_(pa.int64())),
                                                   pa.array([vals(t_old, k) for k in lens], type=pa.list_(t_old))], names=["a", "p"]))
            via = rng.choice(["with_flat_field", "with_list_field", "with_field", "array_set_flat", "frame_setitem"])

            def run_p():
                s0 = pd.Series(arr0, name="n")
                if via == "with_flat_field":
                    out = s0.nest.with_flat_field("p", pa.array(vals(t_new, sum(lens)), type=t_new))
                elif via == "with_field":
                    out = s0.nest.with_field("p", pa.array(vals(t_new, sum(lens)), type=t_new))
                elif via == "with_list_field":
                    out = s0.nest.with_list_field("p", pa.array([vals(t_new, k) for k in lens], type=pa.list_(t_new)))
                elif via == "array_set_flat":
                    a2 = arr0.copy()
                    a2.set_flat_field("p", pa.array(vals(t_new, sum(lens)), type=t_new))
                    out = pd.Series(a2, name="n")
                else:
                    nf = NestedFrame({"x": list(range(len(lens)))})
                    nf["n"] = s0
                    nf["n.p"] = pa.array(vals(t_new, sum(lens)), type=t_new)
                    out = nf["n"]
                assert out.array.chunked_array.type.field("p").type.value_type == t_new, "the new values were not stored with their type"
                assert out.dtype == out.array.dtype, "series dtype differs from array dtype"
                assert out.dtype.pyarrow_dtype == out.array.chunked_array.type, "declared dtype differs from the type of the stored data"
                assert out.dtype.fields["p"] == t_new
                return True
            res = attempt(run_p)
            term = f"[true; {cq_bool(res[0] == 'ok')}; true; true]"
            inp = {"replace": [str(t_old), str(t_new)], "via": via, "lens": lens}
            kind = "edit_parametric"
        else:
            inpc = ao.mk_input(rng, max_rows=5, recipes=list(gen.LAYOUTS) + ["history"])
            if inpc.get("history_failed") or inpc["built"][0] != "ok":
                continue
            arr = inpc["arr"]

            def run_e():
                s = pd.Series(arr, name="n", index=range(len(arr)))
                nf = NestedFrame({"x": list(range(len(arr)))})
                nf["n"] = s
                steps = []
                lens = ao.row_lengths(inpc)
                for _ in range(rng.randint(1, 4)):
                    ty = rng.choice(list(gen.TYPES))
                    nm = rng.choice(["new1", "new2"] + [n for n, _ in inpc["schema"]])
                    how = rng.choice(["with_flat_field", "with_list_field", "without_field", "frame_setitem", "frame_retype", "frame_retype", "assign_all_rows", "assign_all_rows", "nest_getitem", "query", "setitem_el", "query", "setitem_el", "query", "setitem_el"])
                    cur = nf["n"]
                    names_now = list(cur.nest.fields)
                    if how == "with_flat_field":
                        cur = cur.nest.with_flat_field(nm, pa.array(ao.values_of_type(rng, ty, sum(lens)), type=gen.TYPES[ty]))
                    elif how == "with_list_field":
                        cur = cur.nest.with_list_field(nm, pa.array([ao.values_of_type(rng, ty, k_) for k_ in lens], type=pa.list_(gen.TYPES[ty])))
                    elif how == "without_field" and len(names_now) > 1:
                        cur = cur.nest.without_field(rng.choice(names_now))
                    elif how == "frame_setitem":
                        nf[f"n.{nm}"] = pa.array(ao.values_of_type(rng, ty, sum(lens)), type=gen.TYPES[ty])
                        cur = nf["n"]
                    elif how == "frame_retype":
                        # an EXISTING field replaced through the frame by values of another element type
                        nm = rng.choice(names_now)
                        now_t = str(cur.array.chunked_array.type.field(nm).type.value_type)
                        ty = rng.choice([t_ for t_ in gen.TYPES if str(gen.TYPES[t_]) != now_t])
                        nf[f"n.{nm}"] = pa.array(ao.values_of_type(rng, ty, sum(lens)), type=gen.TYPES[ty])
                        cur = nf["n"]
                        assert str(cur.array.chunked_array.type.field(nm).type.value_type) == str(gen.TYPES[ty]), "the new element type was not stored"
                    elif how == "assign_all_rows":
                        # every row assigned at once from a nested array whose element types differ (castable ints into a double field):
                        # the column keeps ITS types, and what it declares is what it stores
                        dbl = [f.name for f in cur.array.chunked_array.type if str(f.type.value_type) == "double"]
                        if dbl and len(cur) > 0:
                            other_t = pa.struct([pa.field(f.name, pa.list_(pa.int64()) if f.name == dbl[0] else f.type) for f in cur.array.chunked_array.type])
                            other_rows = [None if r is None else {k_: ([1] * len(v_) if k_ == dbl[0] else v_) for k_, v_ in r.items()}
                                          for r in cur.array.chunked_array.to_pylist()]
                            other = NEA(pa.array(other_rows, type=other_t))
                            key_ = rng.choice(["slice", "mask"])
                            if key_ == "slice":
                                cur.array[:] = other
                            else:
                                cur.array[np.ones(len(cur), dtype=bool)] = other
                            assert str(cur.array.chunked_array.type.field(dbl[0]).type.value_type) == "double", \
                                "assigning every row from an array with other element types changed the column's element type"
                    elif how == "nest_getitem":
                        cur = cur.nest[[rng.choice(names_now)]]
                    elif how in ("query", "setitem_el"):
                        # in place through the accessor: a constant / an array whose natural Arrow type is NOT the field's
                        # (an int for a double field): the field keeps its type, and what the series, its array and the storage declare agree
                        dbl = [f.name for f in cur.array.chunked_array.type if str(f.type.value_type) == "double"]
                        if not dbl and len(cur.array.chunked_array.type) < 4:
                            cur = cur.nest.with_flat_field("zdbl", pa.array([0.5] * sum(lens), type=pa.float64()))
                            dbl = ["zdbl"]
                        if dbl:
                            fld = rng.choice(dbl)
                            cur.nest[fld] = 1 if how == "query" else np.arange(sum(lens), dtype=np.int64)
                            how = "nest_setitem_scalar" if how == "query" else "nest_setitem_array"
                            assert str(cur.array.chunked_array.type.field(fld).type.value_type) == "double", \
                                f"the element type of {fld} changed under an in-place assignment through the accessor"
                    steps.append(how)
                    assert cur.dtype == cur.array.dtype, f"series dtype differs from array dtype after {how}"
                    assert cur.dtype.pyarrow_dtype == cur.array.chunked_array.type, f"declared dtype differs from the storage type after {how}"
                    assert list(cur.dtype.field_names) == [f.name for f in cur.array.chunked_array.type]
                    if how in ("nest_getitem", "without_field"):
                        break
                    nf["n"] = cur
                    assert nf.dtypes["n"] == cur.dtype
                return steps
            res = attempt(run_e)
            term = f"[true; {cq_bool(res[0] == 'ok')}; true; true]"
            inp = dict(ao.input_repr(inpc))
        cases.append({"stream": "dtype", "op": kind, "term": term, "input": inp, "impl_repr": str(res)[:500],
                      "meta": {"impl_raised": res[0] == "err"}, "sig": [kind, str(inp)[:60]], "trivial": False,
                      "hist": {"op": kind, "raised": res[0] == "err", "mangle": inp.get("mangle", "-") if isinstance(inp, dict) else "-"}})
    cases.append(other_process_case(rng, alias_types))
    for k, c in enumerate(cases):
        c["cid"] = k
    return cases


def other_process_case(rng, alias_types):
    """a dtype pickled HERE and read in ANOTHER interpreter (other hash seed) equals and hashes like a dtype built there"""
    import json
    import subprocess
    import sys
    import tempfile
    dts = []
    for _ in range(12):
        k = rng.randint(1, 3)
        fields = dict(zip(rng.sample(NAMES, k), [rng.choice(alias_types) for _ in range(k)]))
        dts.append(NestedDtype.from_fields(fields))
    ser = pd.Series(pack_seq_for(dts[0]), name="n")
    script = (
        "import pickle, sys, json\n"
        "from nested_pandas.series.dtype import NestedDtype\n"
        "dts, ser = pickle.load(open(sys.argv[1], 'rb'))\n"
        "bad = []\n"
        "for i, d in enumerate(dts + [ser.dtype]):\n"
        "    fresh = NestedDtype.from_fields(dict(d.fields))\n"
        "    if not (d == fresh and hash(d) == hash(fresh) and {fresh: 1}.get(d) == 1 and len({d, fresh}) == 1 and d.name == fresh.name):\n"
        "        bad.append(i)\n"
        "print(json.dumps(bad))\n")
    with tempfile.TemporaryDirectory(prefix="verif_c17_") as td:
        pth = os.path.join(td, "d.pkl")
        with open(pth, "wb") as fh:
            pickle.dump((dts, ser), fh)
        env = dict(os.environ, PYTHONHASHSEED="4242")
        r = attempt(lambda: subprocess.run([sys.executable, "-c", script, pth], env=env, capture_output=True, text=True, timeout=120))
    ok = r[0] == "ok" and r[1].returncode == 0 and r[1].stdout.strip().splitlines()[-1:] == ["[]"]
    rep = r[1] if r[0] == "err" else (r[1].stdout[-300:] + r[1].stderr[-300:])
    return {"stream": "dtype", "op": "pickle_other_process", "term": f"[true; {cq_bool(ok)}; true; true]",
            "input": {"dtypes": [d.name for d in dts]}, "impl_repr": str(rep)[:500], "meta": {"impl_raised": False},
            "sig": ["pickle_other_process"], "trivial": False, "hist": {"op": "pickle_other_process", "raised": False, "mangle": "-"}}


def pack_seq_for(dtype):
    from nested_pandas.series.packer import pack_seq
    return pack_seq([None, None], dtype=dtype).array
