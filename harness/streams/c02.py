"""C02 stream: packing and unpacking are lossless inverses.
(a) pack_flat / pack of a flat table then to_flat: same records, grouped by label ascending, original order inside a label;
(b) to_flat of a nested column with distinct ascending labels then pack_flat: same column minus rows without elements;
(c) to_lists then pack_lists: same column, missing rows come back as rows without elements;
(d) list of per-row tables then pack_seq / pack: same column;  element types are preserved in all four."""
from __future__ import annotations

import pandas as pd
import pyarrow as pa

from harness import arrayops as ao
from harness import core, gen
from harness import frameops as fo
from harness.core import attempt, cq_bool, cq_list
from nested_pandas import NestedDtype
from nested_pandas.series.packer import pack, pack_flat, pack_lists, pack_seq

RULE = ("one case = (a) one flat table (0-300 records, labels int or str: sorted, unsorted, heavy repeats, descending blocks, single-row "
        "groups; nulls, NaN, duplicates) packed by pack_flat / pack / pack(on=column) and flattened again, compared in Coq with the model m_pack_flat "
        "and with the spec stable_sort_key; or (b) (c) (d) one nested column in one of 15 layouts round-tripped through the flat, list or "
        "element view; dtypes compared; distinct = (direction, label kind, layout, sizes); non-trivial = more than one label / some record")
ASSUMPTIONS = ["label order = pandas' index order (ints by value, strings lexicographically), labels are mapped to order-preserving integers",
               "element view: inputs without NaN (boxing a row into pandas cannot tell NaN from null)"]
CORRESPONDENCE = "m_pack_flat / m_pack_sorted (Frame.v) vs packer.pack_flat; flatten_packed vs nest.to_flat"
EXTRA_IMPORTS = "Frame Bridge"


def gen_flat(rng, heavy):
    schema = gen.gen_schema(rng, 3)
    m = rng.choice([0, 1, 2, 5, 9, 14]) if not heavy else rng.randint(17, 300)
    kind = rng.choice(["int_unsorted", "int_repeats", "int_sorted", "str", "desc_blocks", "unique_unsorted", "const", "looks_dense"])
    if kind == "looks_dense" and m >= 3:
        # labels that LOOK like a default index to a counting test (first label 0, last label m-1) but repeat and have gaps
        inner = sorted(rng.choice([0, 0, m - 1, rng.randint(0, m - 1)]) for _ in range(m - 2))
        labels = [0] + inner + [m - 1]
        if rng.random() < 0.4:
            rng.shuffle(labels)
    elif kind == "looks_dense":
        kind, labels = "const", [4] * m
    elif kind == "int_unsorted":
        labels = [rng.randint(-5, 12) for _ in range(m)]
    elif kind == "int_repeats":
        labels = [rng.choice([3, 7, 7, 1]) for _ in range(m)]
    elif kind == "int_sorted":
        labels = sorted(rng.randint(0, 6) for _ in range(m))
    elif kind == "str":
        labels = [rng.choice(["b", "a", "ab", "c", "B", ""]) for _ in range(m)]
    elif kind == "desc_blocks":
        labels = sorted((rng.randint(0, 5) for _ in range(m)), reverse=True)
    elif kind == "unique_unsorted":
        labels = rng.sample(range(-50, 400), m)
    else:
        labels = [4] * m
    cols = {name: [gen.gen_value(rng, t) for _ in range(m)] for name, t in schema}
    return schema, labels, cols, kind


def generate(ctx):
    rng = ctx.rng
    cases = []
    n_cases = ctx.budget(150, 1300)
    for i in range(n_cases):
        direction = ["pack_flatten", "pack_flatten", "pack_flatten", "flatten_pack", "lists", "elements"][i % 6]
        if direction == "pack_flatten":
            schema, labels, cols, lkind = gen_flat(rng, heavy=(i % 12 == 0))
            names = [n for n, _ in schema]
            codes = fo.label_codes(labels)
            df = pd.DataFrame({name: pd.array(pa.array(cols[name], type=gen.TYPES[t]), dtype=pd.ArrowDtype(gen.TYPES[t])) for name, t in schema},
                              index=pd.Index(labels, dtype="int64" if all(isinstance(x, int) for x in labels) else object))
            how = rng.choice(["pack_flat", "pack", "on"])

            def run():
                if how == "pack_flat":
                    s = pack_flat(df, name="n")
                elif how == "pack":
                    s = pack(df, name="n")
                else:
                    d2 = df.reset_index(names="lab")
                    d2.index = range(100, 100 + len(d2))
                    s = pack_flat(d2, name="n", on="lab")
                assert s.name == "n"
                assert isinstance(s.dtype, NestedDtype)
                assert [str(f.type.value_type) for f in s.dtype.pyarrow_dtype] == [str(gen.TYPES[t]) for _, t in schema], "element types changed"
                assert [f.name for f in s.dtype.pyarrow_dtype] == names
                flat = s.nest.to_flat()
                flat_t = [(codes[l], [core.child_values(flat[nm].array._pa_array.combine_chunks())[k] for nm in names])
                          for k, l in enumerate(flat.index)]
                return [codes[l] for l in s.index], fo.rows_rm(s.array.chunked_array), flat_t
            res = attempt(run)
            T = [(codes[l], [cols[nm][k] for nm in names]) for k, l in enumerate(labels)]
            if res[0] == "ok":
                packed = cq_list(f"({core.cq_Z(l)}, {cq_list(fo.cq_record(r) for r in (rows or []))})" for l, rows in zip(res[1][0], res[1][1]))
                no_missing = all(r for r in res[1][1])
                term = (f"(let T := {fo.cq_ftable(T)} in let G := {packed} in "
                        f"[res_eqb packed_eqb (m_pack_flat T) (Ok G); "
                        f"ftable_eqb (flatten_packed G) (stable_sort_key T) && ftable_eqb {fo.cq_ftable(res[1][2])} (stable_sort_key T) && {cq_bool(no_missing)}; "
                        f"true; true])")
            else:
                term = "[false; false; true; true]"
            cases.append(mk(i, "pack_flatten_" + how, term, {"labels": [repr(x) for x in labels][:60], "n": len(labels), "schema": schema,
                                                               "label_kind": lkind}, res, [direction, how, lkind, len(labels) // 5],
                            len(set(labels)) > 1, {"op": "pack_flatten", "how": how, "labels": lkind, "records": min(len(labels), 50) // 10 * 10}))
            continue
        clean = direction == "elements" and rng.random() < 0.45
        if clean:
            # content the element view boxes without loss (numpy-typed columns, no null, no NaN): packing the boxed tables
            # WITHOUT a dtype must then give the column back, element types included; empty tables come first on purpose
            sch = gen.gen_schema(rng, 3, types=["int64", "double", "bool"])
            nr = rng.randint(1, 6)
            rws = []
            for j in range(nr):
                k = 0 if (j < 2 and rng.random() < 0.6) else rng.randint(0, 3)
                rws.append(None if rng.random() < 0.15 else
                           {nm: [v for v in (gen.gen_value(rng, t, 0) for _ in range(40)) if v == v][:k] for nm, t in sch})
            if not any(r and any(len(v) for v in r.values()) for r in rws):
                rws.append({nm: [v for v in (gen.gen_value(rng, t, 0) for _ in range(40)) if v == v][:2] for nm, t in sch})
            inp = ao.mk_input(rng, content=(sch, rws), recipes=[l for l in fo.LAYOUTS if l != "history"])
        elif direction == "elements" and rng.random() < 0.4:
            # element types that inference WOULD get wrong: an int64 field whose first table holds a null (inferred double), a
            # bool field with a null (inferred object): packing the boxed tables WITH the dtype must keep them
            sch = [("a", "int64"), ("b", rng.choice(["bool", "string", "double"]))]
            nr = rng.randint(1, 5)
            rws = [{"a": [None, 7][: rng.randint(1, 2)] + [gen.gen_value(rng, "int64", 0.2) for _ in range(rng.randint(0, 2))],
                    "b": []}]
            rws[0]["b"] = [gen.gen_value(rng, sch[1][1], 0.3) for _ in rws[0]["a"]]
            for _ in range(nr - 1):
                k = rng.randint(0, 3)
                rws.append(None if rng.random() < 0.2 else {nm: [gen.gen_value(rng, t, 0.2) for _ in range(k)] for nm, t in sch})
            inp = ao.mk_input(rng, content=(sch, rws), recipes=[l for l in fo.LAYOUTS if l != "history"])
        elif direction == "flatten_pack" and (i // 6) % 3 == 0:
            # as many elements as rows, but NOT one per row: empty / missing rows balanced by longer ones
            sch = gen.gen_schema(rng, 3)
            lens = rng.choice([[2, 0, 1], [0, 2, 1], [3, 0, 0, 1], [2, None, 1], [0, 0, 3], [1, 2, 0], [2, 0, 2, 0], [None, 3, 0]])
            rws = [None if k is None else {nm: [gen.gen_value(rng, t) for _ in range(k)] for nm, t in sch} for k in lens]
            inp = ao.mk_input(rng, content=(sch, rws), recipes=[l for l in fo.LAYOUTS if l != "history"])
        else:
            inp = ao.mk_input(rng, max_rows=7 if ctx.tier == "quick" else 12, recipes=fo.LAYOUTS)
        if inp.get("history_failed"):
            cases.append(ao.history_failure_case(inp))
            continue
        if inp["built"][0] != "ok":
            continue
        schema = inp["schema"]
        names = [n for n, _ in schema]
        rows = fo.rows_rm(inp["ca"])
        n = len(rows)
        st = inp["ca"].type
        if direction == "flatten_pack":
            labels, lkind = gen.gen_labels(rng, n, rng.choice(["range", "sorted_unique", "str", "range_offset", "range_offset"]))
            if lkind == "str":
                labels = sorted(labels)
            codes = fo.label_codes(labels)
            s = pd.Series(inp["arr"], index=gen.as_index(labels, lkind), name="n")       # a genuine RangeIndex where the labels are a range

            def run2():
                back = pack_flat(s.nest.to_flat(), name="n")
                assert back.dtype == s.dtype, "dtype changed"
                return [codes[l] for l in back.index], fo.rows_rm(back.array.chunked_array)
            res = attempt(run2)
            lab_t = cq_list(core.cq_Z(codes[l]) for l in labels)
            if res[0] == "ok":
                packed = cq_list(f"({core.cq_Z(l)}, {cq_list(fo.cq_record(r) for r in (rr or []))})" for l, rr in zip(res[1][0], res[1][1]))
                term = (f"(let R := {fo.cq_nrows(rows)} in let G := {packed} in "
                        f"[res_eqb packed_eqb (m_pack_flat (m_labelled_flat {lab_t} R)) (Ok G); "
                        f"packed_eqb G (filter (fun kg : Z * list record => negb (length (snd kg) =? 0)) (combine {lab_t} (map recs R))); true; true])")
            else:
                term = "[false; false; true; true]"
            cases.append(mk(i, "flatten_pack", term, dict(ao.input_repr(inp), labels=[repr(x) for x in labels]), res,
                            [direction, inp["recipe"], lkind, n], any(rows), {"op": "flatten_pack", "layout": inp["recipe"]}, inp))
        elif direction == "lists":
            labels, lkind = gen.gen_labels(rng, n)
            s = pd.Series(inp["arr"], index=labels, name="n")

            lists_df = s.nest.to_lists()
            # the physical list columns pack_lists is handed (chunking as the list view produces it, or re-chunked unevenly so that
            # the chunk-alignment branch and the combine branch are both taken)
            rechunk = rng.random() < 0.4 and n > 1
            if rechunk:
                if rng.random() < 0.6:
                    # the SAME number of chunks in every column, cut at the column's own rows
                    k_ = rng.randint(1, 2)
                    cut_per_col = [sorted(rng.sample(range(0, n + 1), k_)) for _ in names]
                else:
                    cut_per_col = [sorted(rng.sample(range(0, n + 1), rng.randint(0, 2))) for _ in names]
                cols_pa = []
                for nm, cuts in zip(names, cut_per_col):
                    whole = lists_df[nm].array._pa_array.combine_chunks()
                    bounds = [0] + cuts + [n]
                    cols_pa.append(pa.chunked_array([whole.slice(a, b - a) for a, b in zip(bounds, bounds[1:])], type=whole.type))
                lists_df = pd.DataFrame({nm: pd.Series(c, dtype=pd.ArrowDtype(c.type), index=lists_df.index) for nm, c in zip(names, cols_pa)},
                                        index=lists_df.index)
            cols_t = []
            for (nm, ty) in schema:
                carr = lists_df[nm].array._pa_array
                chunks_t = core.cq_list(core.cq_larr(ch.offsets.to_pylist(), ch.is_valid().to_pylist(), core.child_values(ch.values)) for ch in carr.chunks)
                cols_t.append(f"({core.cq_str(nm)}, {core.ETY[str(gen.TYPES[ty])]}, {chunks_t})")

            def run3():
                back = pack_lists(lists_df, name="n")
                assert back.dtype == s.dtype, "dtype changed"
                assert [repr(x) for x in back.index] == [repr(x) for x in labels]
                return back.array.chunked_array
            res = attempt(run3)
            want = [r if r is not None else [] for r in rows]
            impl_rows = ("ok", fo.rows_rm(res[1])) if res[0] == "ok" else res
            impl_lcol = f"(Ok {core.cq_lcol(core.logical(res[1]))})" if res[0] == "ok" else "Err"
            term = (f"(match chk_rows (Ok {fo.cq_nrows(want)}) (Ok {fo.cq_nrows(want)}) {fo.cq_res_nrows(impl_rows)} with [a; b; c; s0] => "
                    f"[res_eqb lcol_eqb (res_map abs (m_pack_lists {cq_list(cols_t)} true)) {impl_lcol}; b; c; s0] | l => l end)")
            cases.append(mk(i, "lists_roundtrip", term, dict(ao.input_repr(inp), labels=[repr(x) for x in labels]), res,
                            [direction, inp["recipe"], lkind, n], any(rows), {"op": "lists_roundtrip", "layout": inp["recipe"]}, inp))
        else:
            has_nan = any(isinstance(v, float) and v != v for r in rows if r for rec in r for v in rec)
            labels, lkind = gen.gen_labels(rng, n)
            s = pd.Series(inp["arr"], index=labels, name="n")
            how = rng.choice(["pack_seq_nodtype", "pack_nodtype"]) if clean else rng.choice(["pack_seq", "pack", "series_ctor"])

            def run4():
                elems = list(s)
                if how == "pack_seq":
                    back = pack_seq(elems, name="n", index=labels, dtype=s.dtype)
                elif how == "pack":
                    back = pack(elems, name="n", index=labels, dtype=s.dtype)
                elif how == "pack_seq_nodtype":
                    back = pack_seq(elems, name="n", index=labels)
                elif how == "pack_nodtype":
                    back = pack(elems, name="n", index=labels)
                else:
                    back = pd.Series(elems, index=labels, name="n", dtype=s.dtype)
                assert back.dtype == s.dtype, "dtype changed"
                return fo.rows_rm(back.array.chunked_array)
            res = attempt(run4)
            want = rows
            if has_nan:
                want = [None if r is None else [[None if (isinstance(v, float) and v != v) else v for v in rec] for rec in r] for r in rows]
                if res[0] == "ok":
                    res = ("ok", [None if r is None else [[None if (isinstance(v, float) and v != v) else v for v in rec] for rec in r] for r in res[1]])
            term = f"(chk_rows (Ok {fo.cq_nrows(want)}) (Ok {fo.cq_nrows(want)}) {fo.cq_res_nrows(res)})"
            cases.append(mk(i, "elements_roundtrip_" + how, term, dict(ao.input_repr(inp), labels=[repr(x) for x in labels]), res,
                            [direction, how, inp["recipe"], lkind, n], any(rows), {"op": "elements_roundtrip", "layout": inp["recipe"]}, inp))
    for k, c in enumerate(cases):
        c["cid"] = k
    return cases


def mk(i, op, term, input_, res, sig, nontrivial, hist, inp=None):
    meta = ao.base_meta(inp, impl_raised=res[0] == "err") if inp else {"impl_raised": res[0] == "err"}
    return {"stream": "pack", "op": op, "term": term, "input": input_, "impl_repr": str(res)[:400], "meta": meta, "sig": sig,
            "trivial": not nontrivial, "hist": dict(hist, raised=res[0] == "err")}
