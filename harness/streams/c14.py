"""C14 stream: the dotted name 'nest.field' means the same thing everywhere.
One FRESH frame per (name pattern, spelling, operation): item access, item assignment, query, eval, reduce, sort_values, dropna.
Every candidate target holds distinguishable values, so WHAT an operation touched is observed from data, not from messages:
a base column 'a', a field n.a, (pattern-dependent) a base column literally named 'n.a'.  The observed target is compared in
Coq with the resolver of Names.v (model; clean_column_name is supplied per case as a table computed by pandas itself) and with
the specification: an existing field is that field in every operation, a literal dotted base column takes precedence in item
access, an unknown path is an error.  Field listings (all_columns, nested_columns, .nest.fields) are compared with what the
operations accept."""
from __future__ import annotations

import keyword

import numpy as np
import pandas as pd
import pyarrow as pa
from pandas.core.computation.parsing import clean_column_name

from harness import core
from harness.core import attempt, cq_bool, cq_list
from nested_pandas import NestedFrame
from nested_pandas.series.packer import pack_seq

RULE = ("one case = one fresh frame x (nest name, field name) from identifiers / names with spaces / punctuation / Python keywords / "
        "cross-layer collisions (base column 'a' and field 'a') / a base column literally named 'n.a' / unknown nest or field x spelling "
        "(plain, backticks around both parts, around one part, around the whole path) x one of 7 operations; the observed target (which "
        "column's values were read / changed / used, or an error) is compared with the Coq resolver and with the specified meaning; "
        "distinct = (pattern, spelling, operation); non-trivial = the operation resolves to a column or field")
ASSUMPTIONS = ["clean_column_name is pandas' own (supplied per case as a table)", "plain spellings that are not valid Python are not fed to query / eval"]
CORRESPONDENCE = "resolve_getitem / setitem / reduce / sort / dropna / eval (Names.v) vs the real operations"
EXTRA_IMPORTS = "Dtype Names"

OPS = ["getitem", "setitem", "query", "eval", "reduce", "sort_values", "dropna"]
PATTERNS = [
    ("n", "a", {}), ("n", "b", {}), ("nest", "flux", {}), ("n", "my f", {}), ("my n", "a", {}), ("my n", "my f", {}),
    ("n", "class", {}), ("for", "a", {}), ("n", "a-b", {}), ("n", "x/y", {}), ("N", "A", {}),
    ("n", "a", {"literal": True}), ("n", "a", {"unknown_field": True}), ("n", "a", {"unknown_nest": True}),
    ("n", "a", {"base_same_as_field": True}), ("n", "n", {}),
    ("n", "a.b", {"sibling": "b"}), ("my n", "x.y", {"sibling": "y"}),
    ("n", "a b-c", {"sibling": "a_b-c"}),       # two fields of one nest whose cleaned identifiers coincide      # a field name holding a dot next to a field named like its last part
]
SPELLINGS = ["plain", "bt_both", "bt_field", "bt_nest", "bt_whole"]


def is_ident(s):
    return s.isidentifier() and not keyword.iskeyword(s)


def cq_s(s):
    return "[" + "; ".join(str(ord(c)) for c in s) + "]"


def build(nest, field, opts):
    """fresh frame; returns (frame, markers)"""
    n = 3
    nf = NestedFrame({"x": [0, 1, 2], "a": [100, 2, 300]}, index=[10, 11, 12])
    fields = {field: [[3, None, 1], [5, 4], [2]], "other": [[30, 10, 20], [50, 40], [60]]}
    if opts.get("sibling"):
        fields[opts["sibling"]] = [[31, 11, 21], [51, 41], [61]]
    if opts.get("unknown_field"):
        fields = {"zz": fields[field], "other": fields["other"]}
    st = pa.struct([pa.field(k, pa.list_(pa.int64())) for k in fields])
    col = pack_seq([{k: v[i] for k, v in fields.items()} for i in range(n)], index=[10, 11, 12], dtype=st)
    nest_col = "m" if opts.get("unknown_nest") else nest
    nf[nest_col] = col
    if opts.get("literal"):
        nf[f"`{nest}.{field}`"] = [9003.0, None, 3.0]       # a base column literally named 'n.a' (with a missing value)
    return nf


def spell(nest, field, how):
    if how == "plain":
        return f"{nest}.{field}"
    if how == "bt_both":
        return f"`{nest}`.`{field}`"
    if how == "bt_field":
        return f"{nest}.`{field}`"
    if how == "bt_nest":
        return f"`{nest}`.{field}"
    return f"`{nest}.{field}`"


def python_valid(nest, field, how):
    if how == "plain":
        return is_ident(nest) and is_ident(field)
    if how == "bt_field":
        return is_ident(nest)
    if how == "bt_nest":
        return is_ident(field)
    return True


def classify_values(vals, nf0, nest_col, field_name, literal_name):
    """which column do these values come from"""
    vals = [None if (v is None or v is pd.NA or (isinstance(v, float) and v != v)) else int(v) for v in vals]
    flat = {f: [v for r in nf0[nest_col].array.chunked_array.to_pylist() for v in r[f]] for f in nf0[nest_col].nest.fields}
    for f, fv in flat.items():
        if vals == fv:
            return ("field", nest_col, f)
    for c in nf0.columns:
        if c != nest_col and not hasattr(nf0[c].array, "chunked_array") and \
                [None if (v is None or v != v) else int(v) for v in nf0[c].tolist()] == vals:
            return ("column", c)
    return ("other", repr(vals)[:60])


def observe(op, nf, path, nest_col):
    """run the operation on the fresh frame nf, return the observed target"""
    before_cols = list(nf.columns)
    before_fields = list(nf[nest_col].nest.fields)
    nf0 = nf.copy()
    if op == "getitem":
        r = nf[path]
        if hasattr(r.array, "chunked_array"):
            return ("column", r.name)
        return classify_values(list(r), nf0, nest_col, None, None)
    if op == "setitem":
        try:
            # a flat value with the flat index: right for a field and for a new nest
            nf[path] = pd.Series(np.arange(7000, 7006), index=[10, 10, 10, 11, 11, 12])
        except ValueError as e:
            if "duplicate" in str(e) or "Length of values" in str(e) or "does not match" in str(e):
                nf = nf0.copy()
                nf[path] = [7000, 7001, 7002]          # the path denotes a base column
            else:
                raise
        new_cols = [c for c in nf.columns if c not in before_cols]
        if new_cols:
            c = new_cols[0]
            if hasattr(nf[c].array, "chunked_array"):
                return ("newnest", c, list(nf[c].nest.fields)[0])
            return ("newcol", c)
        fields_now = list(nf[nest_col].nest.fields)
        newf = [f for f in fields_now if f not in before_fields]
        if newf:
            return ("newfield", nest_col, newf[0])
        for f in fields_now:
            fv = [v for r in nf[nest_col].array.chunked_array.to_pylist() for v in r[f]]
            if fv and fv[0] == 7000:
                return ("field", nest_col, f)
        for c in before_cols:
            if c != nest_col and not hasattr(nf[c].array, "chunked_array") and nf[c].iloc[0] == 7000:
                return ("column", c)
        return ("other", "nothing changed")
    if op == "query":
        r = nf.query(f"{path} > 15")
        # which values were compared with 15?
        for f in before_fields:
            rows = nf0[nest_col].array.chunked_array.to_pylist()
            want = [[v for v in row[f] if v is not None and v > 15] for row in rows]
            got = [([] if g is None else [v for v in g[f]]) for g in r[nest_col].array.chunked_array.to_pylist()] if len(r) == len(nf0) else None
            if got is not None and got == want and any(len(w) != len(row[f]) for w, row in zip(want, rows)):
                return ("field", nest_col, f)
        for c in before_cols:
            if c != nest_col and not hasattr(nf0[c].array, "chunked_array"):
                keep = [i for i, v in enumerate(nf0[c].tolist()) if v is not None and v == v and v > 15]
                if [int(v) for v in r["x"]] == keep and len(keep) != len(nf0):
                    return ("column", c)
                if [int(v) for v in r["x"]] == keep:
                    return ("column?", c)
        return ("other", "unrecognised filter")
    if op == "eval":
        r = nf.eval(f"{path} + 0")
        return classify_values(list(r), nf0, nest_col, None, None)
    if op == "reduce":
        got = []
        nf.reduce(lambda v: got.append(v) or 0, path)
        if got and np.ndim(got[0]) == 0:
            return classify_values(got, nf0, nest_col, None, None)
        return classify_values([x for g in got for x in np.asarray(g).tolist()], nf0, nest_col, None, None)
    if op == "sort_values":
        r = nf.sort_values(path)
        rows0 = nf0[nest_col].array.chunked_array.to_pylist()
        rows1 = r[nest_col].array.chunked_array.to_pylist()
        if [int(v) for v in r["x"]] == [0, 1, 2]:
            for f in before_fields:
                def srt(vs):
                    return sorted([v for v in vs if v is not None]) + [v for v in vs if v is None]
                if all(g is not None and list(g[f]) == srt(row[f]) for g, row in zip(rows1, rows0)) and any(list(g[f]) != list(row[f]) for g, row in zip(rows1, rows0)):
                    return ("field", nest_col, f)
        for c in before_cols:
            if c != nest_col and not hasattr(nf0[c].array, "chunked_array"):
                colv = nf0[c].tolist()
                order = sorted([i for i in range(3) if colv[i] is not None and colv[i] == colv[i]], key=lambda i: colv[i]) + \
                    [i for i in range(3) if colv[i] is None or colv[i] != colv[i]]
                if [int(v) for v in r["x"]] == order and order != [0, 1, 2]:
                    return ("column", c)
                if [int(v) for v in r["x"]] == order:
                    return ("column?", c)
        return ("other", "unrecognised order")
    if op == "dropna":
        r = nf.dropna(subset=[path])
        rows0 = nf0[nest_col].array.chunked_array.to_pylist()
        rows1 = r[nest_col].array.chunked_array.to_pylist()
        if len(r) == 3:
            for f in before_fields:
                want = [[v for v in row[f] if v is not None] for row in rows0]
                if [list(g[f]) if g is not None else [] for g in rows1] == want and any(None in row[f] for row in rows0):
                    return ("field", nest_col, f)
            return ("field?", nest_col)
        dropped = [i for i in range(3) if i not in [int(v) for v in r["x"]]]
        for c in before_cols:
            if c != nest_col and not hasattr(nf0[c].array, "chunked_array"):
                if [i for i, v in enumerate(nf0[c].tolist()) if v is None or v != v] == dropped:
                    return ("column", c)
        return ("column?", "rows dropped")
    raise ValueError(op)


def cq_target(t, op=None):
    k = t[0]
    if k == "field":
        return f"(TField {cq_s(t[1])} {cq_s(t[2])})"
    if k == "newfield":
        return f"(TField {cq_s(t[1])} {cq_s(t[2])})"
    if k == "column":
        return f"({'TNewColumn' if op == 'setitem' else 'TColumn'} {cq_s(t[1])})"
    if k == "newnest":
        return f"(TNewNest {cq_s(t[1])} {cq_s(t[2])})"
    if k == "newcol":
        return f"(TNewColumn {cq_s(t[1])})"
    if k == "raise":
        return "TRaise"
    return None


def generate(ctx):
    rng = ctx.rng
    cases = []
    combos = [(p, s, o) for p in range(len(PATTERNS)) for s in SPELLINGS for o in OPS]
    rng.shuffle(combos)
    budget = ctx.budget(len(combos), len(combos))      # the whole space is small: every tier runs all of it
    # make sure every (pattern, op) and every (spelling, op) pair appears in the quick tier
    combos.sort(key=lambda c: 0)
    for (pi, how, op) in combos[:budget]:
        nest, field, opts = PATTERNS[pi]
        if (op in ("query", "eval")) and not python_valid(nest, field, how):
            continue
        path = spell(nest, field, how)
        nest_col = "m" if opts.get("unknown_nest") else nest
        res = attempt(lambda: observe(op, build(nest, field, opts), path, nest_col))
        obs = res[1] if res[0] == "ok" else ("raise", res[1])
        nf = build(nest, field, opts)
        columns = [str(c) for c in nf.columns]
        nests = {c: list(nf[c].nest.fields) for c in nf.nested_columns}
        # listings agree with each other
        listing_ok = (set(nf.nested_columns) == {c for c in nf.all_columns if c != "base"} and list(nf.all_columns["base"]) == list(nf.columns)
                      and all(list(nf.all_columns[c]) == nests[c] for c in nests))
        names_used = set(columns) | {f for fs in nests.values() for f in fs} | {nest, field, f"{nest}.{field}"}
        # the clean function as a table (pandas' own), default identity
        table = cq_list(f"({cq_s(n_)}, {cq_s(clean_column_name(n_))})" for n_ in sorted(names_used))
        F = (f"{{| f_columns := {cq_list(cq_s(c) for c in columns)}; "
             f"f_nests := {cq_list('(' + cq_s(k) + ', ' + cq_list(cq_s(f) for f in v) + ')' for k, v in nests.items())} |}}")
        resolver = {"getitem": "resolve_getitem CL None", "setitem": "resolve_setitem CL None", "reduce": "resolve_reduce CL None",
                    "sort_values": "resolve_sort CL None", "dropna": "resolve_dropna CL None", "query": "resolve_eval CL", "eval": "resolve_eval CL"}[op]
        # specified meaning
        exists = (nest_col == nest) and (field in nests.get(nest, []))
        literal = f"{nest}.{field}" in columns
        parts_quoted = how in ("plain", "bt_both", "bt_field", "bt_nest")
        if how == "bt_whole":
            want = ("column", f"{nest}.{field}") if literal else None      # the text as ONE name: the literal base column, else unknown
        elif exists and literal and op == "getitem":
            want = ("column", f"{nest}.{field}")                         # precedence in item access
        elif exists:
            want = ("field", nest, field)
        else:
            want = None
        ot = cq_target(obs, op)
        if want is not None and "." in field and how in ("plain", "bt_nest"):
            # the dot of the field name is not protected by backticks: the field (pandas' own reading of the dotted text) or an error,
            # never another target
            spec_ok = tuple(obs[:3]) == tuple(want[:3]) or obs[0] == "raise"
        elif want is None:
            if op == "setitem":
                spec_ok = obs[0] in ("newnest", "newfield", "newcol", "raise")     # assignment may create; it must not hit another existing target
            else:
                spec_ok = obs[0] == "raise"
        elif literal and exists and not (op == "getitem"):
            spec_ok = obs[0] in ("field", "column") and (obs[0] != "column" or obs[1] == f"{nest}.{field}") and (obs[0] != "field" or obs[1:] == (nest, field))
        else:
            spec_ok = tuple(obs[:3]) == tuple(want[:3]) or (obs[0] == "newfield" and want[0] == "field" and obs[1:] == want[1:])
        if ot is None:
            term = f"[false; {cq_bool(spec_ok)}; true; true]"
        else:
            term = (f"(let CL := (fun s : str => match find (fun kv : str * str => str_eqb (fst kv) s) {table} with Some kv => snd kv | None => s end) in "
                    f"let F := {F} in [target_eqb ({resolver} F {cq_s(path)}) {ot}; {cq_bool(spec_ok and listing_ok)}; true; true])")
        cases.append({"stream": "names", "op": op, "term": term,
                      "input": {"nest": nest, "field": field, "pattern": opts, "spelling": how, "path": path, "columns": columns, "nests": nests},
                      "impl_repr": repr(obs), "meta": {"impl_raised": obs[0] == "raise", "pattern": str(opts), "spelling": how,
                                                        "literal": literal},
                      "sig": [pi, how, op], "trivial": obs[0] == "raise",
                      "hist": {"op": op, "spelling": how, "pattern": f"{nest}.{field}{'+' + ','.join(opts) if opts else ''}", "observed": obs[0]}})
    for k, c in enumerate(cases):
        c["cid"] = k
    return cases
