"""C10 stream: reduce calls the user function once per top-level row, in row order, with the row's base values as scalars and
its nested field values as arrays in stored order, followed by the extra arguments; the result has one row per input row with the
input's index and holds what the function returned; dotted outputs are packed into nested columns; count_nested reports the
number of records of every row (per value of a grouping field when asked), one output row per input row."""
from __future__ import annotations

import numpy as np
import pandas as pd
import pyarrow as pa

from harness import arrayops as ao
from harness import core, gen
from harness import frameops as fo
from harness.core import attempt, cq_bool, cq_list, cq_val, cq_vals, tok
from nested_pandas import NestedFrame
from nested_pandas.utils import count_nested

RULE = ("one case = one NestedFrame (all label kinds incl. repeated, nested column in 15 layouts, missing and empty rows) x one reduce call "
        "with a RECORDING function: a selection of 1-5 base and nested columns in any order and multiplicity (dotted paths), 0-2 extra "
        "positional arguments, 0-2 keyword arguments, return shape scalar / tuple / dict of scalars / dict with dotted keys holding arrays; or "
        "one count_nested call (by=None or a field, join or not); the recorded call list is compared in Coq with m_reduce_calls (model) "
        "and spec_reduce_calls (spec); result rows, index and packed outputs are compared with what the function returned; distinct = "
        "(shape, #columns, layout, labels, sizes); non-trivial = at least one row with records")
ASSUMPTIONS = ["what the function receives for a MISSING row's nested fields is not specified by the property: compared as 'no values'",
               "NaN and null are told apart through the numpy arrays handed to the function (object/float arrays)"]
CORRESPONDENCE = "m_reduce_calls / m_count_nested (Frame.v) vs NestedFrame.reduce / count_nested"
EXTRA_IMPORTS = "Frame Dtype Names Reduce2 CountBy"


def arr_tokens(a):
    """numpy array handed to the function -> python values (None for null)"""
    if a is None:
        return []
    a = np.asarray(a)
    if a.ndim == 0:
        return []
    out = []
    for v in a.tolist():
        if v is None or v is pd.NaT:
            out.append(None)
        elif isinstance(v, float) and v != v:
            out.append(None)        # a numpy float array cannot tell a null from NaN: compared modulo that (denan in Coq)
        else:
            out.append(v)
    if a.dtype.kind == "M":
        out = [None if pd.isna(x) else pd.Timestamp(x) for x in a]
    return out



def _uninterpretable(i, pid):
    """an exception while a case was being built from what the library returned: a verdict about the library (the stream runs
    on the unchanged tree with many seeds without ever getting here), not a crash of the check"""
    import traceback
    return {"stream": "uninterpretable", "op": "uninterpretable", "term": "[true; false; true; true]",
            "input": {"case_number": i}, "impl_repr": "the case could not be built / interpreted: " + traceback.format_exc()[-700:],
            "meta": {"impl_raised": True}, "sig": ["uninterpretable", pid, i], "trivial": False,
            "hist": {"op": "uninterpretable"}}


def generate(ctx):
    rng = ctx.rng
    cases = []
    for i in range(ctx.budget(140, 1200)):
        try:
            types = ["int64", "double", "string", "bool"]
            schema = gen.spice_names(rng, gen.gen_schema(rng, 3, types=types))
            n = rng.randint(0, 6 if ctx.tier == "quick" else 10)
            # numpy hands ints with nulls over as floats: keep int fields null-free so that values compare exactly
            rows_g = gen.gen_rows(rng, schema, n, max_len=4, null_p=0.0)
            for r in rows_g:
                if r is not None:
                    for nm, t in schema:
                        if t in ("double", "string") and r[nm] and rng.random() < 0.3:
                            r[nm][rng.randrange(len(r[nm]))] = None
            recipe = fo.LAYOUTS[i % len(fo.LAYOUTS)] if i < len(fo.LAYOUTS) else rng.choice(fo.LAYOUTS)
            inp = ao.mk_input(rng, content=(schema, rows_g), recipe=recipe if recipe != "history" else "fresh", recipes=fo.LAYOUTS)
            if inp["built"][0] != "ok":
                continue
            names = [nm for nm, _ in schema]
            kind = ["reduce"] * 7 + ["count", "count_by", "reduce_dotted"]
            kind = kind[i % len(kind)]
            # every other counting / dotted-output case runs on REPEATED labels (anything that goes through the labels instead
            # of the positions - a groupby, a join - merges or multiplies rows there)
            forced = None
            if kind != "reduce" and (i // 10) % 2 == 0:
                forced = ["repeats", "str_repeats"][(i // 20) % 2]
            nf, labels, label_kind = fo.make_frame(rng, inp, label_kind=forced)
            rows = fo.rows_rm(inp["ca"])
            repeated = len(set(labels)) != len(labels)
            # the second nest 'other': its field is 'q', or - every third reduce case - named like the FIRST field of 'n' (one field
            # name in two nests, both asked for in one call: each request must get the values of ITS nest)
            OQF = "q"
            if kind.startswith("reduce") and i % 3 == 1 and names[0] not in ("x", "y", "w", "n", "other"):
                OQF = names[0]
                o_arr = nf["other"].array.chunked_array
                nf["other"] = pd.Series(type(nf["other"].array)(pa.chunked_array(
                    [pa.StructArray.from_arrays(c_.flatten(), names=[OQF], mask=c_.is_null()) for c_ in o_arr.chunks],
                    type=pa.struct([pa.field(OQF, o_arr.type.field(0).type)]))), index=nf.index, name="other")
            OQ = f"other.{OQF}"
            before = fo.snapshot(nf)
            if kind.startswith("reduce"):
                # now and then a base column named like a field of the nest (the same name in two layers, asked for in one call)
                dup = names[0] if (rng.random() < 0.3 and names[0] not in ("x", "y", "w", "n", "other")) else None
                if dup:
                    nf[dup] = [1000 + j for j in range(len(nf))]
                    before = fo.snapshot(nf)
                sel = []
                for _ in range(rng.randint(1, 5)):
                    sel.append(rng.choice(["x", "y", f"n.{rng.choice(names)}", f"n.{rng.choice(names)}", OQ, OQ] + ([dup, dup] if dup else [])))
                extra = [rng.choice([7, 2.5, "not_a_column", None]) for _ in range(rng.randint(0, 2))]
                if extra and isinstance(extra[0], str) and extra[0] in nf.columns:
                    extra = []
                if extra and rng.random() < 0.4:
                    # after the first non-column argument everything is an extra argument, also a string that spells a column
                    extra += [rng.choice(["x", f"n.{names[0]}", OQ])]
                kwargs = {k: rng.choice([1, "z"]) for k in rng.sample(["alpha", "beta"], rng.randint(0, 2))}
                shape = rng.choice(["scalar", "tuple", "dict", "dotted"]) if kind == "reduce" else "dotted"
                calls = []
                counter = [0]
                dotted_variant = rng.randint(0, 2)

                def func(*a, **kw):
                    calls.append((a, dict(kw)))
                    k = counter[0]
                    counter[0] += 1
                    if shape == "scalar":
                        return k * 10
                    if shape == "tuple":
                        return (k, k + 0.5)
                    if shape == "dict":
                        # the same keys, built in another order for every other row: outputs are matched to columns by NAME
                        return {"u": k, "v": f"s{k}"} if k % 2 == 0 else {"v": f"s{k}", "u": k}
                    if dotted_variant == 0:
                        return {"u": k, "out.a": np.arange(k % 3), "out.b": np.arange(k % 3) * 2.0}
                    if dotted_variant == 2:
                        # two output nests, the name of one the beginning of the other's: each gets ITS fields only
                        return {"u": k, "out.a": np.arange(k % 3), "out_b.c": np.arange(k % 3) * 2.0}
                    # plain outputs whose names START like the nested output's name, interleaved with the dotted ones
                    return {"out_n": k + 1, "out.a": np.arange(k % 3), "u": k, "outmax": 2 * k, "out.b": np.arange(k % 3) * 2.0}

                def run():
                    out = nf.reduce(func, *sel, *extra, **kwargs)
                    assert isinstance(out, NestedFrame), "not a NestedFrame"
                    assert len(calls) == len(nf), f"{len(calls)} calls for {len(nf)} rows"
                    assert [repr(v) for v in out.index] == [repr(v) for v in labels], "result index differs from the input's (or rows multiplied)"
                    m = len(nf)
                    if shape == "scalar":
                        assert [int(v) for v in out.iloc[:, 0]] == [k * 10 for k in range(m)] if m else True
                    elif shape == "tuple":
                        assert m == 0 or ([int(v) for v in out.iloc[:, 0]] == list(range(m)) and [float(v) for v in out.iloc[:, 1]] == [k + 0.5 for k in range(m)])
                    elif shape == "dict":
                        assert m == 0 or ([int(v) for v in out["u"]] == list(range(m)) and list(out["v"]) == [f"s{k}" for k in range(m)])
                    elif m:
                        assert [int(v) for v in out["u"]] == list(range(m))
                        if dotted_variant == 1:
                            assert [int(v) for v in out["out_n"]] == [k + 1 for k in range(m)] and [int(v) for v in out["outmax"]] == [2 * k for k in range(m)], \
                                "plain outputs lost or changed"
                        if dotted_variant == 2:
                            assert sorted(map(str, out.columns)) == ["out", "out_b", "u"], f"result columns {list(out.columns)}"
                            assert list(out["out"].nest.fields) == ["a"] and list(out["out_b"].nest.fields) == ["c"], \
                                f"fields of the two output nests: {list(out['out'].nest.fields)} / {list(out['out_b'].nest.fields)}"
                            ga, gc = out["out"].array.chunked_array.to_pylist(), out["out_b"].array.chunked_array.to_pylist()
                            assert [None if g is None else list(g["a"]) for g in ga] == [list(range(k % 3)) for k in range(m)]
                            assert [None if g is None else list(g["c"]) for g in gc] == [[x * 2.0 for x in range(k % 3)] for k in range(m)]
                            return True
                        assert sorted(map(str, out.columns)) == sorted(["u", "out"] + (["out_n", "outmax"] if dotted_variant else [])), \
                            f"result columns {list(out.columns)}: not exactly what the function returned"
                        assert "out" in out.nested_columns and list(out["out"].nest.fields) == ["a", "b"], "dotted outputs not packed into a nested column"
                        got = out["out"].array.chunked_array.to_pylist()
                        assert [None if g is None else (list(g["a"]), list(g["b"])) for g in got] == \
                            [(list(range(k % 3)), [x * 2.0 for x in range(k % 3)]) for k in range(m)], "packed outputs differ from what the function returned"
                    return True
                res = attempt(run)
                unchanged = fo.snapshot(nf) == before
                # the recorded calls -> coq
                otherv = nf["other"].array.chunked_array.to_pylist()
                ok_extra = True
                impl_calls = []
                for j, (a, kw) in enumerate(calls):
                    ncol = len(sel)
                    ok_extra = ok_extra and len(a) == ncol + len(extra) and [repr(x_) for x_ in a[ncol:]] == [repr(x_) for x_ in extra] and kw == kwargs
                    # base values arrive as what ITERATING the column gives (python scalars for a numpy-backed column), not as
                    # fixed-width numpy scalars (whose arithmetic wraps around in the user function)
                    ok_extra = ok_extra and all(type(v_).__module__ != "numpy" for c_, v_ in zip(sel, a[:ncol]) if c_ in ("x", "y") or c_ == dup)
                    rowt = []
                    for c, v in zip(sel, a[:ncol]):
                        if c in ("x", "y") or c == dup:
                            rowt.append("(RBase (%s))" % cq_val(tok(v if not isinstance(v, np.generic) else v.item())))
                        elif c == OQ:
                            rowt.append("(RNested %s)" % cq_vals(arr_tokens(v) if (j < len(otherv) and otherv[j] is not None) else []))
                        else:
                            rowt.append("(RNested %s)" % cq_vals(arr_tokens(v) if (j < len(rows) and rows[j] is not None) else []))
                    impl_calls.append(cq_list(rowt))
                # model columns: the nested column 'n' is rows; 'other' is a second nested column: handled as its own rows
                # (one nested column per Coq call list: columns of `other` are checked python-side)
                cols_t = []
                for c in sel:
                    if dup and c == dup:
                        cols_t.append("(CBaseCol %s)" % cq_vals([1000 + j for j in range(len(rows))]))
                    elif c == "x":
                        cols_t.append("(CBaseCol %s)" % cq_vals(list(range(len(rows)))))
                    elif c == "y":
                        cols_t.append("(CBaseCol %s)" % cq_vals(list(nf["y"])))
                    elif c == OQ:
                        cols_t.append("(CBaseCol %s)" % cq_list("VNull" for _ in rows))     # placeholder, compared python-side
                    else:
                        cols_t.append(f"(CNestField {names.index(c.split('.')[1])})")
                # replace placeholder positions in impl by RBase VNull and verify those python-side
                py_other_ok = True
                fixed_calls = []
                for j, (a, kw) in enumerate(calls):
                    parts = []
                    for c, v in zip(sel, a[:len(sel)]):
                        if c == OQ:
                            want = [] if (j >= len(otherv) or otherv[j] is None) else list(otherv[j][OQF])
                            got = arr_tokens(v) if (j < len(otherv) and otherv[j] is not None) else []
                            py_other_ok = py_other_ok and [None if (isinstance(g, float) and g != g) else g for g in got] == want
                            parts.append("(RBase VNull)")
                        else:
                            parts.append(None)
                    fixed_calls.append(parts)
                impl_rows = []
                for j, (a, kw) in enumerate(calls):
                    rowt = []
                    for idx, (c, v) in enumerate(zip(sel, a[:len(sel)])):
                        if fixed_calls[j][idx] is not None:
                            rowt.append(fixed_calls[j][idx])
                        elif c in ("x", "y") or c == dup:
                            rowt.append("(RBase (%s))" % cq_val(tok(v.item() if isinstance(v, np.generic) else v)))
                        else:
                            rowt.append("(RNested %s)" % cq_vals(arr_tokens(v) if (j < len(rows) and rows[j] is not None) else []))
                    impl_rows.append(cq_list(rowt))
                impl_t = cq_list(impl_rows)
                # the glue around the calls (Reduce2.v): which arguments were taken for columns, how the outputs were packed
                all_args = list(sel) + list(extra)

                def cq_s(x):
                    return "[" + "; ".join(str(ord(ch)) for ch in x) + "]"

                def cq_parg(j, a_):
                    return f"(AStr {cq_s(a_)})" if isinstance(a_, str) else f"(AOther {j})"
                known_strs = sorted({a_ for a_ in all_args if isinstance(a_, str) and (a_ in ("x", "y", "w", OQ) or a_ == dup or (a_.startswith("n.") and a_[2:] in names))})
                args_t = cq_list(cq_parg(j, a_) for j, a_ in enumerate(all_args))
                if calls:
                    a0 = calls[0][0]
                    k_obs = next((k_ for k_ in range(len(a0) + 1) if len(a0) == len(all_args) and [repr(x_) for x_ in a0[k_:]] == [repr(x_) for x_ in all_args[k_:]]), None)
                    if k_obs is None or not all(isinstance(x_, str) for x_ in all_args[:k_obs]):
                        split_t = "(Some Err)"          # the function did not receive the arguments it was given
                    else:
                        split_t = (f"(Some (Ok ({cq_list(cq_s(x_) for x_ in all_args[:k_obs])}, "
                                   f"{cq_list(cq_parg(j, a_) for j, a_ in enumerate(all_args) if j >= k_obs)})))")
                else:
                    split_t = "None"
                outs = {"dict": ["u", "v"], "dotted": (["u", "out.a", "out.b"] if dotted_variant == 0 else ["u", "out.a", "out_b.c"] if dotted_variant == 2 else ["out_n", "out.a", "u", "outmax", "out.b"])}.get(shape)
                obs_cols_t = "None"
                if outs is not None and res[0] == "ok" and len(nf):
                    out_fr = attempt(lambda: nf.reduce(func, *sel, *extra, **kwargs))
                    if out_fr[0] == "ok":
                        oc = []
                        for c_ in out_fr[1].columns:
                            col_ = out_fr[1][c_]
                            if hasattr(col_.array, "chunked_array"):
                                oc.append(f"(ONest {cq_s(str(c_))} {cq_list(cq_s(f_) for f_ in col_.nest.fields)})")
                            else:
                                oc.append(f"(OBase {cq_s(str(c_))})")
                        if shape == "dict":
                            oc.sort()       # plain outputs whose dicts were built in varying key order: the ORDER of the columns is pandas' business
                        obs_cols_t = f"(Some {cq_list(oc)})"
                glue_t = (f"chk_reduce_glue {cq_list(cq_s(x_) for x_ in known_strs)} {args_t} {split_t} "
                          f"{cq_list(cq_s(x_) for x_ in (outs or []))} {obs_cols_t}")
                term = (f"(let R := {fo.cq_nrows(rows)} in let C := {cq_list(cols_t)} in let I : list (list rarg) := {impl_t} in "
                        f"[calls_eqb (denan_calls (m_reduce_calls R C)) I && {glue_t}; "
                        f"calls_eqb (denan_calls (spec_reduce_calls R C)) I && {cq_bool(res[0] == 'ok' and unchanged and ok_extra and py_other_ok)}; true; true])")
                args = {"columns": sel, "extra": extra, "kwargs": kwargs, "shape": shape}
                nontrivial = any(rows)
            else:
                by = rng.choice([nm for nm, t in schema if t in ("string", "int64", "bool")] or [None]) if kind == "count_by" else None
                join = rng.random() < 0.5
                if by is None:
                    kind = "count"

                def run_c():
                    out = count_nested(nf, "n", by=by, join=join)
                    assert isinstance(out, pd.DataFrame)        # that every table is a NestedFrame is C18's business
                    assert [repr(v) for v in out.index] == [repr(v) for v in labels], "not one output row per input row"
                    if join:
                        assert [int(v) for v in out["x"]] == list(range(len(rows)))
                    if by is None:
                        return [int(v) for v in out["n_n"]]
                    j = names.index(by)
                    for col in [c for c in out.columns if str(c).startswith("n_n_")]:
                        val = str(col)[len("n_n_"):]
                        for r, v in zip(rows, out[col].tolist()):
                            want = sum(1 for rec in (r or []) if str(rec[j]) == val)
                            got = 0 if (v is None or v != v) else int(v)
                            assert got == want, f"count of {val!r} differs"
                    # the count table as (value heading the column, cells): for the Coq model CountBy.m_count_by
                    distinct = []
                    for r in rows:
                        for rec in (r or []):
                            if rec[j] is not None and not any(repr(rec[j]) == repr(d) for d in distinct):
                                distinct.append(rec[j])
                    obs = []
                    for col in [c for c in out.columns if str(c).startswith("n_n_")]:
                        val = str(col)[len("n_n_"):]
                        match = [d for d in distinct if str(d) == val]
                        assert len(match) == 1, f"count column {col!r} does not belong to exactly one value"
                        cells = ["None" if (v is None or v != v) else f"(Some {int(v)})" for v in out[col].tolist()]
                        obs.append(f"({cq_val(tok(match[0]))}, {cq_list(cells)})")
                    count_obs[0] = (j, cq_list(obs))
                    return [len(r or []) for r in rows]
                count_obs = [None]
                res = attempt(run_c)
                unchanged = fo.snapshot(nf) == before
                impl = f"(Some {core.cq_nats(res[1])})" if res[0] == "ok" else "None"
                cb = f"chk_count_by R {count_obs[0][0]} {count_obs[0][1]}" if (by is not None and count_obs[0] is not None) else "[true; true; true; true]"
                term = (f"(let R := {fo.cq_nrows(rows)} in let CB := {cb} in "
                        f"[match {impl} with Some l => list_eqb Nat.eqb (m_count_nested R) l | None => false end && nth 0 CB false; "
                        f"match {impl} with Some l => list_eqb Nat.eqb (map (fun r => length (recs r)) R) l | None => false end && {cq_bool(unchanged)} && nth 1 CB false; true; true])")
                args = {"by": by, "join": join}
                nontrivial = any(rows)
            cases.append({
                "stream": "reduce", "op": kind, "term": term,
                "input": dict(ao.input_repr(inp), labels=[repr(x) for x in labels], args={k: repr(v) for k, v in args.items()}),
                "impl_repr": str(res)[:400],
                "meta": ao.base_meta(inp, impl_raised=res[0] == "err", repeated_labels=repeated, label_kind=label_kind,
                                     has_missing=any(r is None for r in rows), join=bool(args.get("join")), by=args.get("by") is not None,
                                     dotted=args.get("shape") == "dotted"),
                "sig": [kind, args.get("shape"), len(args.get("columns", [])), inp["recipe"], label_kind, len(rows)],
                "trivial": not nontrivial,
                "hist": {"op": kind, "shape": str(args.get("shape")), "layout": inp["recipe"], "labels": label_kind, "raised": res[0] == "err"}})
        except Exception:  # noqa: BLE001
            cases.append(_uninterpretable(i, 'C10'))
    for k, c in enumerate(cases):
        c["cid"] = k
    return cases
