"""Frame / accessor-setitem part of C06: NestedFrame['nest.field'] = value and series.nest[f] = value,
with a before/after logical snapshot of the WHOLE frame (other columns must be untouched)."""
from __future__ import annotations

import numpy as np
import pandas as pd
import pyarrow as pa

from harness import arrayops as ao
from harness import core, gen
from harness.core import attempt, cq_bool, cq_str, cq_vals
from nested_pandas import NestedFrame
from nested_pandas.series.ext_array import NestedExtensionArray as NEA

LAYOUTS = list(gen.LAYOUTS) + ["history", "history"]


def snapshot_other(nf, skip):
    out = {}
    for c in nf.columns:
        if c == skip:
            continue
        col = nf[c]
        if hasattr(col.array, "chunked_array"):
            out[c] = ("nested", str(col.dtype), col.array.chunked_array.to_pylist())
        else:
            out[c] = ("base", str(col.dtype), [repr(x) for x in col.tolist()])
    return out, [repr(x) for x in nf.index], nf.index.name


def generate(ctx):
    rng = ctx.rng
    n_cases = ctx.budget(90, 900)
    cases = []
    for i in range(n_cases):
        ambiguous_corner = i % 15 == 7
        count_corner = i % 15 == 3
        if count_corner:
            # as many records as rows, unevenly spread, UNIQUE labels: a flat value has the frame's length but not its index
            schema = gen.gen_schema(rng, 2)
            lens = rng.choice([[2, 0, 1], [3, 0, 0], [0, 2, 1, 1], [0, 0, 3], [2, 0]])
            rows = [{name: [gen.gen_value(rng, t) for _ in range(k)] for name, t in schema} for k in lens]
            inp = ao.mk_input(rng, content=(schema, rows), recipes=[l for l in LAYOUTS if l != "history"])
        elif ambiguous_corner:
            # repeated labels arranged so that the flat index of a genuinely flat value EQUALS the frame index
            # (row lengths [1,2,0] under labels [a,b,b], or [2,0] under [a,a]): the dispatch of frame['n.f'] = series
            schema = gen.gen_schema(rng, 2)
            lens, labels = rng.choice([([2, 0], [5, 5]), ([1, 2, 0], [3, 4, 4]), ([0, 2], [7, 7]), ([1, 1, 2, 0], [1, 2, 9, 9])])
            rows = [{name: [gen.gen_value(rng, t) for _ in range(k)] for name, t in schema} for k in lens]
            inp = ao.mk_input(rng, content=(schema, rows), recipes=LAYOUTS)
            kind = "repeats"
        else:
            inp = ao.mk_input(rng, max_rows=6, recipes=LAYOUTS)
        if inp.get("history_failed"):
            cases.append(ao.history_failure_case(inp))
            continue
        if inp["built"][0] != "ok":
            continue
        arr, n = inp["arr"], len(inp["rows"])
        if count_corner:
            labels, kind = gen.gen_labels(rng, n, rng.choice(["range", "unsorted_unique", "str"]))
        elif not ambiguous_corner:
            labels, kind = gen.gen_labels(rng, n, rng.choice(["range", "unsorted_unique", "str", "repeats", "repeats"]))
        repeated = len(set(labels)) != len(labels)
        other_schema = [("q", "int64")]
        other_rows = gen.gen_rows(rng, other_schema, n, max_len=2)
        nf = NestedFrame({"x": list(range(n)), "y": [rng.choice(["p", "q"]) for _ in range(n)]}, index=labels)
        nf["n"] = pd.Series(arr, index=labels, name="n")
        nf["other"] = pd.Series(NEA(pa.array(other_rows, type=gen.struct_type(other_schema))), index=labels, name="other")
        nf.index.name = rng.choice([None, "idx"])
        before = snapshot_other(nf, "n")
        name, ty, existing = ao.new_field(rng, inp)
        form = rng.choice(["flat_array", "flat_series", "scalar", "base_aligned", "accessor_setitem", "accessor_scalar"])
        if ambiguous_corner or count_corner:
            form = "flat_series"
        fl = sum(ao.row_lengths(inp))
        ety = core.ETY[str(gen.TYPES[ty])]
        lens = ao.row_lengths(inp)
        if form in ("accessor_setitem", "accessor_scalar"):
            # .nest[f] = value replaces an EXISTING field keeping its dtype
            name, ty = rng.choice(inp["schema"])
            ety = core.ETY[str(gen.TYPES[ty])]
            existing = True
        if form in ("scalar", "accessor_scalar") and ty == "timestamp":
            form = "flat_array" if form == "scalar" else "accessor_setitem"
        if form in ("scalar", "accessor_scalar"):
            v = gen.gen_value(rng, ty, 0)
            while v != v:
                v = gen.gen_value(rng, ty, 0)
            value = v
            mterm = f"m_set_flat_field P {cq_str(name)} {ety} (FScalar ({core.cq_val(core.tok(v))})) {cq_bool(form == 'accessor_scalar')}"
            sterm = f"spec_col_set_flat L {cq_str(name)} {ety} (FVScalar ({core.cq_val(core.tok(v))})) {cq_bool(form == 'accessor_scalar')}"
            vdesc = repr(v)
        elif form == "base_aligned":
            vals = ao.values_of_type(rng, ty, n, null_p=0.1)
            value = pd.Series(pa.array(vals, type=gen.TYPES[ty]), dtype=pd.ArrowDtype(gen.TYPES[ty]), index=labels)
            mterm = f"m_fill_field_lists P {cq_str(name)} {ety} {cq_vals(vals)} false"
            sterm = f"spec_col_fill L {cq_str(name)} {ety} {cq_vals(vals)} false"
            vdesc = [repr(x) for x in vals]
        else:
            vals = ao.values_of_type(rng, ty, fl)
            pa_arr = pa.array(vals, type=gen.TYPES[ty])
            if form == "flat_series":
                flat_index = [lab for lab, k in zip(labels, lens) for _ in range(k)]
                value = pd.Series(pa_arr, dtype=pd.ArrowDtype(gen.TYPES[ty]), index=flat_index)
            elif form == "accessor_setitem":
                flat_index = [lab for lab, k in zip(labels, lens) for _ in range(k)]
                value = pd.Series(pa_arr, dtype=pd.ArrowDtype(gen.TYPES[ty]), index=flat_index) if rng.random() < 0.5 else pa_arr
            else:
                value = pa_arr
            keep = form == "accessor_setitem"
            mterm = f"m_set_flat_field P {cq_str(name)} {ety} (FArray {cq_vals(vals)}) {cq_bool(keep)}"
            if form == "flat_series" and value.index.equals(pd.Index(labels)) and any(k != 1 for k in lens):
                # NestedFrame.__setitem__ dispatches on `self.index.equals(value.index)`: the model follows the
                # code's dispatch (repeat one value per row); the spec keeps the meaning "flat values"
                mterm = f"m_fill_field_lists P {cq_str(name)} {ety} {cq_vals(vals)} false"
            sterm = f"spec_col_set_flat L {cq_str(name)} {ety} (FVFlat {cq_vals(vals)}) {cq_bool(keep)}"
            vdesc = [repr(x) for x in vals]

        def run():
            if form.startswith("accessor"):
                ser = nf["n"].copy()
                ser.nest[name] = value
                nf2 = nf
                out = ser
            else:
                nf2 = nf.copy()
                nf2[f"n.{name}"] = value
                out = nf2["n"]
                assert isinstance(nf2, NestedFrame)
                assert list(nf2.columns) == list(nf.columns), "column set/order changed"
            after = snapshot_other(nf2, "n")
            assert after == before, "another column, the index or its name changed"
            assert out.name == "n"
            assert [repr(x) for x in out.index] == before[1]
            if not form.startswith("accessor"):
                assert out.dtype == out.array.dtype, "series dtype differs from array dtype"
            return out.array

        res = attempt(run)
        frame_violation = res[0] == "err" and res[1] == "other"   # AssertionError of the frame condition
        # a flat value whose index equals the frame index is, by the code's own dispatch, a per-row value
        ambiguous = form == "flat_series" and value.index.equals(nf.index) and any(k != 1 for k in lens)
        c = ao.col_case(inp, "frame_setitem_" + form if not form.startswith("accessor") else "nest_setitem_" + form,
                        mterm, sterm, res, {"field": name, "type": ty, "existing": existing, "form": form, "value": vdesc,
                                            "labels": [repr(x) for x in labels]},
                        py_agree=not frame_violation, trivial=fl == 0,
                        extra_meta={"repeated_labels": repeated, "label_kind": kind, "flat_index_equals_index": bool(ambiguous)})
        cases.append(c)
    return cases
