"""C09 stream: nesting attaches to each row exactly the records carrying its label.
add_nested (left / right / inner / outer, on index or on a column, dtype given or inferred), from_flat (first occurrence per
label as base row), from_lists / nest_lists (positional), frame['new_nest.field'] = flat series.
The row set and order of the non-left joins is pandas' own (contract): a PLAN is computed with plain pandas (base row ids joined
with the distinct flat labels) and the Coq model m_join_plan / the spec spec_join_plan say which records every result row holds."""
from __future__ import annotations

import numpy as np
import pandas as pd
import pyarrow as pa

from harness import arrayops as ao
from harness import core, gen
from harness import frameops as fo
from harness.core import attempt, cq_bool, cq_list, cq_Z
from nested_pandas import NestedDtype, NestedFrame

RULE = ("one case = one base frame (labels int or str: unsorted, repeated, unique) x one flat table (labels partly / not / fully "
        "overlapping the base labels, unsorted, repeated; 0-60 records; nulls, NaN) x one of add_nested(how=left/right/inner/outer, "
        "on=None or a column, dtype given or inferred) / from_flat (index or on=) / from_lists / nest_lists / frame['new.f'] = series; "
        "the result's labels, base values and nested rows are compared: row set and order against the plain-pandas join plan, the nested "
        "rows in Coq against m_join_plan (model) and spec_join_plan (spec); distinct = (op, how, label kinds, sizes); non-trivial = some "
        "row gets records and some label of the flat table is repeated or absent")
ASSUMPTIONS = ["row set and order of right/inner/outer joins = pandas DataFrame.join of the base frame with a frame indexed by the distinct flat labels"]
CORRESPONDENCE = "m_join_plan / m_add_nested_left / m_from_flat (Frame.v) vs NestedFrame.add_nested / from_flat"
EXTRA_IMPORTS = "Frame Dtype Names Glue"


def gen_labels_pair(rng, nb, nflat):
    kind = rng.choice(["int", "int", "str"])
    pool = list(range(-3, 9)) if kind == "int" else ["a", "b", "c", "d", "e", "f", "B", ""]
    bstyle = rng.choice(["unique", "unique", "repeats"])
    base = rng.sample(pool, min(nb, len(pool))) if bstyle == "unique" else [rng.choice(pool[:4]) for _ in range(nb)]
    fstyle = rng.choice(["subset", "overlap", "disjoint", "same"])
    if fstyle == "subset" and base:
        fpool = list(dict.fromkeys(base))[: max(1, len(set(base)) - 1)]
    elif fstyle == "overlap":
        fpool = pool[2:]
    elif fstyle == "disjoint":
        fpool = [x for x in pool if x not in base] or pool
    else:
        fpool = list(dict.fromkeys(base)) or pool
    flat = [rng.choice(fpool) for _ in range(nflat)]
    return base, flat, kind, bstyle, fstyle



def _uninterpretable(i, pid):
    """an exception while a case was being built from what the library returned: a verdict about the library (the stream runs
    on the unchanged tree with many seeds without ever getting here), not a crash of the check"""
    import traceback
    return {"stream": "uninterpretable", "op": "uninterpretable", "term": "[true; false; true; true]",
            "input": {"case_number": i}, "impl_repr": "the case could not be built / interpreted: " + traceback.format_exc()[-700:],
            "meta": {"impl_raised": True}, "sig": ["uninterpretable", pid, i], "trivial": False,
            "hist": {"op": "uninterpretable"}}


def generate(ctx):
    rng = ctx.rng
    cases = []
    for i in range(ctx.budget(150, 1300)):
        try:
            op = ["add_nested", "add_nested", "add_nested", "add_nested_on", "from_flat", "from_flat_on", "from_lists", "nest_lists",
                  "setitem_new_nest", "add_nested_dtype"][i % 10]
            schema = gen.spice_names(rng, gen.gen_schema(rng, 3))
            names = [n for n, _ in schema]
            nb = rng.randint(0, 6)
            nflat = rng.choice([0, 1, 3, 6, 10]) if i % 11 else rng.randint(17, 60)
            base_labels, flat_labels, lkind, bstyle, fstyle = gen_labels_pair(rng, nb, nflat)
            if op == "setitem_new_nest" and (i // 10) % 2 == 0:
                # the flat series carries EXACTLY the frame's index, labels repeated: still a join by label (every row of a label
                # gets all records of that label), never a positional assignment
                pool = [1, 2, 3] if lkind == "int" else ["a", "b", "c"]
                base_labels = [rng.choice(pool) for _ in range(rng.randint(2, 6))]
                flat_labels = list(base_labels)
                nflat, bstyle, fstyle = len(flat_labels), "repeats", "identical"
            nb = len(base_labels)
            codes = fo.label_codes(base_labels + flat_labels)
            cols = {name: [gen.gen_value(rng, t) for _ in range(nflat)] for name, t in schema}
            T = [(codes[l], [cols[nm][k] for nm in names]) for k, l in enumerate(flat_labels)]
            idx_dtype = "int64" if lkind == "int" else object
            flat_df = pd.DataFrame({name: pd.array(pa.array(cols[name], type=gen.TYPES[t]), dtype=pd.ArrowDtype(gen.TYPES[t])) for name, t in schema},
                                   index=pd.Index(flat_labels, dtype=idx_dtype))
            base = NestedFrame({"x": list(range(nb)), "y": [rng.choice(["p", "q"]) for _ in range(nb)]}, index=pd.Index(base_labels, dtype=idx_dtype))
            args = {"op": op}
            nontrivial = nflat > 0 and nb > 0
            if op in ("add_nested", "add_nested_on", "add_nested_dtype", "setitem_new_nest"):
                how = rng.choice(["left", "left", "right", "inner", "outer"]) if op in ("add_nested", "add_nested_dtype") else "left"
                args["how"] = how
                uniq = list(dict.fromkeys(sorted(flat_labels, key=lambda l: codes[l])))
                # plan: plain pandas join of the base row ids with the distinct flat labels
                left = pd.DataFrame({"_rid": list(range(nb))}, index=pd.Index(base_labels, dtype=idx_dtype))
                right = pd.DataFrame({"_g": pd.array([codes[u] for u in uniq], dtype="Int64")}, index=pd.Index(uniq, dtype=idx_dtype))
                if op == "add_nested_on":
                    # join on a base column holding the labels; the frame's own index is a plain range
                    base2 = NestedFrame({"x": list(range(nb)), "key": pd.Series(base_labels, dtype=idx_dtype).to_numpy()}, index=range(10, 10 + nb))
                    leftp = pd.DataFrame({"_rid": list(range(nb)), "key": pd.Series(base_labels, dtype=idx_dtype).to_numpy()}, index=range(10, 10 + nb))
                    plan_df = leftp.join(right, on="key", how="left")
                else:
                    plan_df = left.join(right, how=how)
                plan = [None if pd.isna(g) else int(g) for g in plan_df["_g"]]
                rids = [None if pd.isna(r) else int(r) for r in plan_df["_rid"]]
                want_index = [repr(x) for x in plan_df.index]
                before = fo.snapshot(base)

                def run():
                    if op == "add_nested_on":
                        flat2 = flat_df.reset_index(names="key")
                        flat2.index = range(500, 500 + len(flat2))
                        out = base2.add_nested(flat2, "n", on="key")
                    elif op == "setitem_new_nest":
                        out = base.copy()
                        f0 = names[0]
                        out[f"n.{f0}"] = flat_df[f0]
                        assert fo.snapshot(base) == before
                    elif op == "add_nested_dtype":
                        out = base.add_nested(flat_df, "n", how=how, dtype=NestedDtype(pa.struct([pa.field(nm, pa.list_(gen.TYPES[t])) for nm, t in schema])))
                    else:
                        out = base.add_nested(flat_df, "n", how=how)
                    assert isinstance(out, NestedFrame), "not a NestedFrame"
                    assert isinstance(out["n"].dtype, NestedDtype)
                    assert [repr(x) for x in out.index] == want_index, "row labels / order differ from the pandas join"
                    xs = [None if pd.isna(v) else int(v) for v in out["x"]]
                    assert xs == rids, "base values do not follow their rows"
                    if op != "setitem_new_nest":
                        assert [str(f.type.value_type) for f in out["n"].dtype.pyarrow_dtype] == [str(gen.TYPES[t]) for _, t in schema], "element types changed"
                    if op not in ("add_nested_on",):
                        assert fo.snapshot(base) == before, "the base frame was modified"
                    return fo.rows_rm(out["n"].array.chunked_array)
                res = attempt(run)
                Tm = T if op != "setitem_new_nest" else [(k, rec[:1]) for k, rec in T]
                plan_t = cq_list("None" if g is None else f"(Some {cq_Z(g)})" for g in plan)
                term = (f"(let T : ftable := {fo.cq_ftable(Tm)} in chk_rows (m_join_plan {plan_t} T) (Ok (spec_join_plan {plan_t} T)) {fo.cq_res_nrows(res)})")
                args.update(plan=plan)
            elif op in ("from_flat", "from_flat_on"):
                bvals = [rng.choice([1, 2, 3, None]) for _ in range(nflat)]
                df = flat_df.copy()
                df["base_a"] = pd.array(bvals, dtype="Int64")
                df["base_b"] = [f"s{k % 3}" for k in range(nflat)]
                firsts = {}
                for k, l in enumerate(flat_labels):
                    firsts.setdefault(l, k)
                want_labels = list(firsts)

                def run_ff():
                    if op == "from_flat_on":
                        d2 = df.reset_index(names="lab")
                        d2.index = range(700, 700 + len(d2))
                        out = NestedFrame.from_flat(NestedFrame(d2), base_columns=["base_a", "base_b"], nested_columns=names, on="lab", name="n")
                    else:
                        out = NestedFrame.from_flat(NestedFrame(df), base_columns=["base_a", "base_b"], nested_columns=names, name="n")
                    assert isinstance(out, NestedFrame)
                    assert [repr(x) for x in out.index] == [repr(x) for x in want_labels], "base rows are not the distinct labels in first-occurrence order"
                    assert [None if pd.isna(v) else int(v) for v in out["base_a"]] == [bvals[firsts[l]] for l in want_labels], "base value is not the first occurrence's"
                    assert list(out["base_b"]) == [f"s{firsts[l] % 3}" for l in want_labels]
                    return fo.rows_rm(out["n"].array.chunked_array)
                res = attempt(run_ff)
                base_recs = cq_list(fo.cq_record([b]) for b in bvals)
                term = (f"(let T : ftable := {fo.cq_ftable(T)} in let B : list record := {base_recs} in "
                        f"chk_rows (res_map (map (fun x : Z * record * nrow => snd x)) (m_from_flat T B)) "
                        f"(Ok (spec_add_nested_left (map (fun kb : Z * record => fst kb) (first_occurrences (map (fun kr : Z * record => fst kr) T) B)) T)) "
                        f"{fo.cq_res_nrows(res)})")
                nontrivial = nflat > 0
            else:
                # positional nesting of list-valued columns: one output row per input row, its own lists
                lens = [rng.randint(0, 3) for _ in range(nb)]
                lists = {name: [[gen.gen_value(rng, t) for _ in range(k)] for k in lens] for name, t in schema}
                df = NestedFrame({"x": list(range(nb)),
                                  **{name: pd.Series(pa.array(lists[name], type=pa.list_(gen.TYPES[t])), dtype=pd.ArrowDtype(pa.list_(gen.TYPES[t])),
                                                     index=base.index).array for name, t in schema}}, index=base.index)
                repeated = len(set(base_labels)) != len(base_labels)

                # which columns are packed and which stay (Glue.m_from_lists_columns): the four ways of naming them
                mode = rng.choice(["both", "both", "base_only", "lists_only", "neither"]) if op == "from_lists" else "both"
                fl_kw = {"both": dict(base_columns=["x"], list_columns=names), "base_only": dict(base_columns=["x"]),
                         "lists_only": dict(list_columns=names), "neither": {}}[mode]
                df_in = df if mode != "neither" else df[names]

                def run_l():
                    if op == "from_lists":
                        out = NestedFrame.from_lists(df_in, name="n", **fl_kw)
                    else:
                        out = df.nest_lists("n", names)
                    assert isinstance(out, NestedFrame), "not a NestedFrame"
                    assert [repr(v) for v in out.index] == [repr(v) for v in base_labels], "not one output row per input row"
                    if mode != "neither":
                        assert [int(v) for v in out["x"]] == list(range(nb))
                    out_cols[0] = [str(c) for c in out.columns]
                    assert list(out["n"].nest.fields) == names, "the packed fields are not the list columns in their order"
                    return fo.rows_rm(out["n"].array.chunked_array)
                out_cols = [None]
                res = attempt(run_l)
                want = [[[lists[nm][j][k] for nm in names] for k in range(lens[j])] for j in range(nb)]
                def cq_s(x):
                    return "[" + "; ".join(str(ord(ch)) for ch in x) + "]"

                def cq_sl(xs):
                    return "None" if xs is None else f"(Some {cq_list(cq_s(x_) for x_ in xs)})"
                glue = "true"
                if op == "from_lists" and out_cols[0] is not None:
                    glue = (f"match m_from_lists_columns {cq_list(cq_s(str(c)) for c in df_in.columns)} {cq_sl(fl_kw.get('base_columns'))} "
                            f"{cq_sl(fl_kw.get('list_columns'))} with Ok (b, l) => list_eqb str_eqb (m_from_lists_result b {cq_s('n')}) "
                            f"{cq_list(cq_s(c) for c in out_cols[0])} && list_eqb str_eqb l {cq_list(cq_s(c) for c in names)} | Err => false end")
                term = (f"(match chk_rows (Ok {fo.cq_nrows(want)}) (Ok {fo.cq_nrows(want)}) {fo.cq_res_nrows(res)} with "
                        f"[a; b; c; s] => [a && {glue}; b; c; s] | l => l end)")
                args.update(columns_named=mode)
                nontrivial = nb > 0
                args.update(repeated_labels=repeated)
            cases.append({
                "stream": "nest", "op": op, "term": term,
                "input": {"schema": schema, "base_labels": [repr(x) for x in base_labels], "flat_labels": [repr(x) for x in flat_labels][:80],
                          "args": {k: repr(v)[:200] for k, v in args.items()}},
                "impl_repr": str(res)[:500],
                "meta": {"impl_raised": res[0] == "err", "repeated_labels": len(set(base_labels)) != len(base_labels), "label_kind": lkind,
                         "base_style": bstyle, "flat_style": fstyle},
                "sig": [op, args.get("how"), lkind, bstyle, fstyle, nb, nflat // 4], "trivial": not nontrivial,
                "hist": {"op": op, "how": str(args.get("how")), "labels": lkind, "base": bstyle, "flat": fstyle, "raised": res[0] == "err"}})
        except Exception:  # noqa: BLE001
            cases.append(_uninterpretable(i, 'C09'))
    for k, c in enumerate(cases):
        c["cid"] = k
    return cases
