"""C07 stream: a query on a nested field filters inside every row, and only there; a condition on base columns keeps
exactly the satisfying rows with their tables intact; a condition mixing layers is refused.

Conditions are generated from a grammar (comparisons, + - *, & | ~, constants, fields of ONE nest or base columns), printed
to pandas syntax with and without backticks.  Oracle for the truth value of a record: the same condition evaluated by plain
pandas on a flat table built from the logical content of ONE row at a time (no nested-pandas code, no other row in sight),
which is the property's own reading; the regrouping (ordinal re-index, first-occurrence offsets, aligned write-back) is
what the Coq model m_query_nested computes and what the theorem query_nested_spec proves equal to the per-row filter."""
from __future__ import annotations

import numpy as np
import pandas as pd
import pyarrow as pa

from harness import arrayops as ao
from harness import core, gen
from harness import frameops as fo
from harness.core import attempt, cq_bool, cq_bools, cq_list
from nested_pandas import NestedFrame

RULE = ("one case = one NestedFrame (labels sorted / unsorted / repeated / strings; nested column in one of 15 layouts incl. objects that "
        "have lived; missing and empty rows; inner nulls / NaN) x one generated condition (nested layer, base layer, or mixed) x "
        "inplace or not x query / nest.query_flat; the whole result frame is compared: labels, order, base and other nested columns must be "
        "unchanged (python snapshot) and the target column's rows are compared in Coq with the model m_query_nested and the spec "
        "spec_filter_mask; distinct = (kind, layout, label kind, sizes, expression shape); non-trivial = some record is removed and some is kept")
ASSUMPTIONS = ["the truth value of one record under a condition is what plain pandas computes on a flat table of that record's row "
               "(pointwise-evaluator contract; NA counts as false)"]
CORRESPONDENCE = "m_query_nested (Frame.v) vs NestedFrame.query"
EXTRA_IMPORTS = "Frame Preflight"

FIELD_NAMES_WEIRD = ["my f", "a-b", "x1", "class", "flux"]


def gen_arith(rng, numeric, depth=0):
    r = rng.random()
    if depth >= 2 or r < 0.45:
        return ("field", rng.choice(numeric))
    if r < 0.65:
        return ("const", rng.choice([0, 1, 2, 3, 7, -1, 2.5, 0.1]))
    return (rng.choice(["+", "-", "*"]), gen_arith(rng, numeric, depth + 1), gen_arith(rng, numeric, depth + 1))


def gen_cond(rng, fields, depth=0):
    """fields: list of (name, type)"""
    numeric = [n for n, t in fields if t in ("int64", "double")]
    strings = [n for n, t in fields if t == "string"]
    bools = [n for n, t in fields if t == "bool"]
    kinds = (["num"] * 3 if numeric else []) + (["str"] if strings else []) + (["bool"] if bools else [])
    if not kinds:
        return None
    r = rng.random()
    if depth < 2 and r < 0.3:
        return (rng.choice(["&", "|"]), gen_cond(rng, fields, depth + 1), gen_cond(rng, fields, depth + 1))
    if depth < 2 and r < 0.38:
        return ("~", gen_cond(rng, fields, depth + 1))
    k = rng.choice(kinds)
    if k == "num":
        left = gen_arith(rng, numeric)
        if not has_field(left):      # every comparison refers to a column: a constant condition belongs to no layer
            left = ("field", rng.choice(numeric))
        return (rng.choice(["<", "<=", ">", ">=", "==", "!="]), left, gen_arith(rng, numeric)
                if rng.random() < 0.4 else ("const", rng.choice([0, 1, 2, 3, 7, 2.5])))
    if k == "str":
        return (rng.choice(["==", "!="]), ("field", rng.choice(strings)), ("sconst", rng.choice(["r", "g", "", "abc", "a=b"])))
    return ("==", ("field", rng.choice(bools)), ("const", rng.choice([True, False])))


def to_qx(e, layer):
    """the expression tree as Preflight.qx; every field of this sub-expression belongs to `layer` (0 = base)"""
    k = e[0]
    if k == "field":
        return f"(QField {layer})"
    if k in ("const", "sconst"):
        return "QConst"
    if k == "~":
        return f"(QOp KUnary [{to_qx(e[1], layer)}])"
    return f"(QOp KBinary [{to_qx(e[1], layer)}; {to_qx(e[2], layer)}])"


def has_field(e):
    return e[0] == "field" or any(has_field(x) for x in e[1:] if isinstance(x, tuple))


def render(e, ref):
    """ref: field name -> text"""
    k = e[0]
    if k == "field":
        return ref(e[1])
    if k == "const":
        return repr(e[1])
    if k == "sconst":
        return repr(e[1])
    if k == "~":
        return f"~({render(e[1], ref)})"
    return f"({render(e[1], ref)} {k} {render(e[2], ref)})"


def is_ident(s):
    import keyword
    return s.isidentifier() and not keyword.iskeyword(s)


def plain_ref(name):
    return name if is_ident(name) else f"`{name}`"


def nested_ref(nest, quote):
    def f(name):
        if quote == "none" and is_ident(name) and is_ident(nest):
            return f"{nest}.{name}"
        if quote == "field" or not is_ident(name):
            fld = f"`{name}`"
        else:
            fld = name
        nst = nest if (is_ident(nest) and quote != "both") else f"`{nest}`"
        return f"{nst}.{fld}"
    return f


def row_table(schema, names, row):
    """plain pandas flat table of ONE row's records (Arrow-backed columns, NaN and null kept apart)"""
    cols = {}
    for j, ((_, ty), nm) in enumerate(zip(schema, names)):
        vals = [rec[j] for rec in (row or [])]
        cols[nm] = pd.array(pa.array(vals, type=gen.TYPES[ty]), dtype=pd.ArrowDtype(gen.TYPES[ty]))
    return pd.DataFrame(cols)


def eval_mask(df, text):
    m = df.eval(text)
    if not isinstance(m, pd.Series):
        raise TypeError("not a column")
    return [bool(x) if x is not pd.NA and x is not None and x == x else False for x in m.tolist()]


def rename_fields(rng, inp, collisions=False):
    """rename some fields to names that are not identifiers (the condition then needs backticks)"""
    names = [n for n, _ in inp["schema"]]
    types_ = [t for _, t in inp["schema"]]
    if collisions and len(names) >= 2 and types_[0] == types_[1] and types_[0] in ("int64", "double") and rng.random() < 0.35:
        # two field names that pandas' name cleaning maps to ONE identifier: a condition naming the first must be evaluated on
        # the first (conditions naming both are pandas' own limitation - plain DataFrame.query gets them wrong; with a sibling of
        # another type even a condition naming one can fail inside pandas - and are not generated: same-typed numeric siblings, one
        # comparison of the first field with a constant)
        return ["mag err%", "mag_err%"] + names[2:]
    if rng.random() < 0.3:
        pool = [x for x in FIELD_NAMES_WEIRD if x not in names]
        rng.shuffle(pool)
        new = list(names)
        for i in range(len(new)):
            if pool and rng.random() < 0.5:
                new[i] = pool.pop()
        return new
    return names



def _uninterpretable(i, pid):
    """an exception while a case was being built from what the library returned: a verdict about the library (the stream runs
    on the unchanged tree with many seeds without ever getting here), not a crash of the check"""
    import traceback
    return {"stream": "uninterpretable", "op": "uninterpretable", "term": "[true; false; true; true]",
            "input": {"case_number": i}, "impl_repr": "the case could not be built / interpreted: " + traceback.format_exc()[-700:],
            "meta": {"impl_raised": True}, "sig": ["uninterpretable", pid, i], "trivial": False,
            "hist": {"op": "uninterpretable"}}


def generate(ctx):
    rng = ctx.rng
    cases = []
    n_cases = ctx.budget(150, 1400)
    for i in range(n_cases):
        try:
            corner = {0: "zero_rows", 1: "all_missing", 2: "all_empty"}.get(i % 50)
            inp = ao.mk_input(rng, max_rows=7 if ctx.tier == "quick" else 12, recipes=fo.LAYOUTS, corner=corner,
                              recipe=fo.LAYOUTS[i % len(fo.LAYOUTS)] if i < len(fo.LAYOUTS) else None)
            if inp.get("history_failed"):
                cases.append(ao.history_failure_case(inp))
                continue
            if inp["built"][0] != "ok":
                continue
            schema = inp["schema"]
            names = rename_fields(rng, inp, collisions=True)
            nest = rng.choice(["n", "n", "n", "my nest"])
            arr = inp["arr"]
            if names != [n for n, _ in schema]:
                st2 = pa.struct([pa.field(nm, f.type) for nm, f in zip(names, inp["ca"].type)])
                arr = type(arr)(pa.chunked_array([pa.StructArray.from_arrays([c.field(j) for j in range(len(names))], names=names,
                                                                               mask=c.is_null()) for c in arr.chunked_array.chunks], type=st2))
            n = len(inp["rows"])
            labels, label_kind = gen.gen_labels(rng, n, rng.choice(["repeats", "str_repeats"]) if i % 10 == 6 else None)
            nf = NestedFrame({"x": list(range(n)), "y": [rng.choice(["p", "q", "r"]) for _ in range(n)],
                              "w": pd.array([rng.choice([1, 2, 2, 3, None]) for _ in range(n)], dtype=pd.ArrowDtype(pa.int64()))},
                             index=gen.as_index(labels, label_kind))
            nf[nest] = pd.Series(arr, index=nf.index, name=nest)
            other_rows = gen.gen_rows(rng, [("q", "int64")], n, max_len=2)
            nf["other"] = pd.Series(type(arr)(pa.array(other_rows, type=gen.struct_type([("q", "int64")]))), index=nf.index, name="other")
            rows = fo.rows_rm(inp["ca"])
            # (.nest.query_flat is NOT part of this property: the accessor knows rows only by label, re-packs by label with
            # pack_sorted_df_into_struct and therefore needs sorted, distinct labels; it is exercised only in that domain)
            kind = ["nested"] * 6 + ["base", "base", "mixed", "query_flat"]
            kind = kind[i % len(kind)]
            if kind == "query_flat" and (len(set(labels)) != len(labels) or list(labels) != sorted(labels)):
                kind = "nested"      # query_flat re-packs by label: sorted, distinct labels only (outside this property otherwise)
            fields = list(zip(names, [t for _, t in schema]))
            names_oracle = list(names)
            if names[:2] == ["mag err%", "mag_err%"]:
                fields = [f for f in fields if f[0] != "mag_err%"]
                names_oracle[1] = "zz_collides"          # the per-row oracle is plain pandas: keep the colliding name out of its table
            quote = rng.choice(["none", "none", "field", "both"])
            inplace = rng.random() < 0.3
            colliding = names[:2] == ["mag err%", "mag_err%"]
            if colliding:
                kind = "nested"
            if kind in ("nested", "query_flat"):
                e = gen_cond(rng, fields)
                if colliding:
                    e = (rng.choice(["<", ">", ">=", "!=", "<="]), ("field", "mag err%"), ("const", rng.choice([0, 1, 2, 3, 7, 2.5])))
                if e is None:
                    continue
                text_plain = render(e, plain_ref)
                text = render(e, nested_ref(nest, quote)) if kind == "nested" else text_plain
                # oracle: one row at a time
                def oracle():
                    return [eval_mask(row_table(schema, names_oracle, r), text_plain) for r in rows]
                masks = attempt(oracle)

                def run():
                    before = fo.snapshot(nf, skip=(nest,))
                    if kind == "nested":
                        target = nf.copy() if inplace else nf
                        out = target.query(text, inplace=inplace)
                        out = target if inplace else out
                        assert isinstance(out, NestedFrame), "result is not a NestedFrame"
                        assert fo.snapshot(out, skip=(nest,)) == before, "labels, order, base or other nested columns changed"
                        assert list(out.columns) == list(nf.columns)
                        return fo.rows_rm(out[nest].array.chunked_array)
                    s = nf[nest].nest.query_flat(text)
                    # query_flat drops the rows left without records (documented): compare the surviving rows by label position
                    return ("flat", [repr(x) for x in s.index], fo.rows_rm(s.array.chunked_array))
                res = attempt(run)
                if masks[0] == "err":
                    # the condition itself is not evaluable (e.g. integer overflow): the query must be refused too
                    term = f"[true; {cq_bool(res[0] == 'err')}; true; true]"
                    nontrivial = False
                elif kind == "nested":
                    flat_mask = [b for m in masks[1] for b in m]
                    term = (f"(match chk_rows (m_query_nested {fo.cq_nrows(rows)} {cq_bools(flat_mask)}) "
                            f"(Ok (spec_filter_mask {fo.cq_nrows(rows)} {cq_list(cq_bools(m) for m in masks[1])})) {fo.cq_res_nrows(res)} with "
                            f"[a; b; c; s] => [a && qroute_eqb (m_query_route {to_qx(e, 1)}) (QNest 1); b; c; s] | l => l end)")
                    nontrivial = any(flat_mask) and not all(flat_mask)
                else:
                    want = [[rec for rec, b in zip(r or [], m) if b] for r, m in zip(rows, masks[1])]
                    keep = [(repr(l), w) for l, w in zip(labels, want) if w]
                    ok = res[0] == "ok" and res[1][1] == [k for k, _ in keep] and fo.cq_nrows(res[1][2]) == fo.cq_nrows([w for _, w in keep])
                    term = f"[true; {cq_bool(ok)}; true; true]"
                    nontrivial = bool(keep)
            elif kind == "base":
                e = gen_cond(rng, [("x", "int64"), ("w", "int64"), ("y", "string")])
                text = render(e, plain_ref)
                def oracle_b():
                    base = pd.DataFrame({"x": nf["x"].to_numpy(), "y": nf["y"].to_numpy(), "w": nf["w"].array}, index=nf.index)
                    return eval_mask(base, text)
                mask = attempt(oracle_b)

                def run_b():
                    target = nf.copy() if inplace else nf
                    out = target.query(text, inplace=inplace)
                    out = target if inplace else out
                    assert isinstance(out, NestedFrame)
                    keep = [j for j, b in enumerate(mask[1]) if b]
                    assert [int(v) for v in out["x"]] == keep, "not exactly the satisfying rows"
                    assert [repr(v) for v in out.index] == [repr(labels[j]) for j in keep]
                    assert repr(out["other"].array.chunked_array.to_pylist()) == repr([nf["other"].array.chunked_array.to_pylist()[j] for j in keep])
                    return fo.rows_rm(out[nest].array.chunked_array)
                res = attempt(run_b)
                if mask[0] == "err":
                    term = f"[true; {cq_bool(res[0] == 'err')}; true; true]"
                    nontrivial = False
                else:
                    term = (f"(match chk_rows (Ok (spec_select_rows {fo.cq_nrows(rows)} {cq_bools(mask[1])})) "
                            f"(Ok (spec_select_rows {fo.cq_nrows(rows)} {cq_bools(mask[1])})) {fo.cq_res_nrows(res)} with "
                            f"[a; b; c; s] => [a && qroute_eqb (m_query_route {to_qx(e, 0)}) QBase; b; c; s] | l => l end)")
                    nontrivial = any(mask[1]) and not all(mask[1])
            else:
                e1 = gen_cond(rng, fields)
                if e1 is None:
                    continue
                e2 = gen_cond(rng, [("x", "int64"), ("w", "int64")])
                # one side or the other under a unary operator, at the top or one level down
                if rng.random() < 0.5:
                    e1 = ("~", e1)
                if rng.random() < 0.3:
                    e2 = ("~", e2)
                if rng.random() < 0.5:
                    text = f"({render(e1, nested_ref(nest, quote))}) & ({render(e2, plain_ref)})"
                    qx = f"(QOp KBinary [{to_qx(e1, 1)}; {to_qx(e2, 0)}])"
                else:
                    e3 = ('==', ('field', 'q'), ('const', 1))
                    if rng.random() < 0.5:
                        e3 = ("~", e3)
                    text = f"({render(e1, nested_ref(nest, quote))}) | ({render(e3, nested_ref('other', 'none'))})"
                    qx = f"(QOp KBinary [{to_qx(e1, 1)}; {to_qx(e3, 2)}])"
                if rng.random() < 0.3:
                    text, qx = f"~({text})", f"(QOp KUnary [{qx}])"
                snap = fo.snapshot(nf)
                res = attempt(lambda: nf.query(text))
                same = fo.snapshot(nf) == snap
                refused = res[0] == "err" and "multiple" in str(res[1]).lower() or res[0] == "err"
                term = (f"[qroute_eqb (m_query_route {qx}) (if {cq_bool(res[0] == 'err')} then QRefuse else QBase); "
                        f"{cq_bool(res[0] == 'err' and same)}; true; true]")
                nontrivial = True
            cases.append({
                "stream": "query", "op": "query_" + kind, "term": term,
                "input": dict(ao.input_repr(inp), labels=[repr(x) for x in labels], field_names=names, nest=nest, expr=text, inplace=inplace),
                "impl_repr": str(res)[:600],
                "meta": ao.base_meta(inp, impl_raised=res[0] == "err", repeated_labels=len(set(labels)) != len(labels), label_kind=label_kind),
                "sig": [kind, inp["recipe"], label_kind, n, len(text) // 10, quote], "trivial": not nontrivial,
                "hist": {"op": "query_" + kind, "layout": inp["recipe"], "labels": label_kind, "quote": quote, "raised": res[0] == "err"}})
        except Exception:  # noqa: BLE001
            cases.append(_uninterpretable(i, 'C07'))
    for k, c in enumerate(cases):
        c["cid"] = k
    return cases
