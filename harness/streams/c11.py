"""C11 stream: sort_values by nested fields permutes records inside each row only, ordered by the requested keys,
directions and null placement; by base columns it reorders whole rows with their tables; keys from two layers are refused.
Because ties make the result under-determined, the oracle is the verified checker check_sorted_rows (row-wise permutation
+ sortedness under the per-case order + empty rows missing), evaluated in Coq; flag A compares the implementation with the
canonical model sorter up to ties (same key sequence in every row)."""
from __future__ import annotations

import math

import pandas as pd
import pyarrow as pa

from harness import arrayops as ao
from harness import core, gen
from harness import frameops as fo
from harness.core import attempt, cq_bool, cq_list, cq_val, tok
from nested_pandas import NestedFrame

RULE = ("one case = one NestedFrame (all label kinds incl. repeated, nested column in 15 layouts, ties p~.4, nulls, NaN, -0.0/0.0, a heavy-tail "
        "stream with rows up to 40 records) x one sort_values call: 1-3 keys of one nest, ascending scalar or per key, na_position first/last, "
        "inplace or not; base-layer keys; keys of two layers; whole-frame snapshot of everything but the target + Coq checker on the target's rows; "
        "distinct = (kind, #keys, directions, na_position, layout, labels, sizes); non-trivial = some row's record order changes")
ASSUMPTIONS = ["the order of inner values (rank per value) is supplied per case from Python's own comparison: NaN is the greatest double and is "
               "not a null, -0.0 and 0.0 tie, strings by code point, nulls go where na_position says whatever the direction"]
CORRESPONDENCE = "m_sort_nested_with (sort_flat (rec_le_keys ...)) (Frame.v) vs NestedFrame.sort_values, up to ties"
EXTRA_IMPORTS = "Frame"


def rank_table(values):
    """order-preserving integer per distinct non-null value"""
    def key(v):
        if isinstance(v, float):
            return (1, 0.0) if math.isnan(v) else (0, v + 0.0)
        if isinstance(v, pd.Timestamp):
            return (0, v.value)
        return (0, v)
    vals = [v for v in values if v is not None]
    ks = sorted({key(v) for v in vals})
    rk = {k: i for i, k in enumerate(ks)}
    out, seen = [], set()
    for v in vals:
        t = tok(v)
        if t in seen:
            continue
        seen.add(t)
        out.append((t, rk[key(v)]))
    return out



def _uninterpretable(i, pid):
    """an exception while a case was being built from what the library returned: a verdict about the library (the stream runs
    on the unchanged tree with many seeds without ever getting here), not a crash of the check"""
    import traceback
    return {"stream": "uninterpretable", "op": "uninterpretable", "term": "[true; false; true; true]",
            "input": {"case_number": i}, "impl_repr": "the case could not be built / interpreted: " + traceback.format_exc()[-700:],
            "meta": {"impl_raised": True}, "sig": ["uninterpretable", pid, i], "trivial": False,
            "hist": {"op": "uninterpretable"}}


def generate(ctx):
    rng = ctx.rng
    cases = []
    for i in range(ctx.budget(140, 1300)):
        try:
            schema = gen.spice_names(rng, gen.gen_schema(rng, 4, types=["int64", "double", "string", "bool", "int64", "double"]))
            heavy = i % 9 == 8
            n = rng.randint(0, 7 if ctx.tier == "quick" else 12)
            rows_g = gen.gen_rows(rng, schema, n, max_len=30 if heavy else 6, null_p=0.2)
            # pandas 2.2.3 cannot lexsort an Arrow-backed double column that holds BOTH -0.0 and 0.0 ("Categorical categories
            # must be unique", raised inside DataFrame.sort_values itself): a limitation of the engine, not generated
            for r in rows_g:
                if r is not None:
                    for nm, t in schema:
                        if t == "double":
                            r[nm] = [0.0 if (v is not None and v == 0.0) else v for v in r[nm]]
            recipe = fo.LAYOUTS[i % len(fo.LAYOUTS)] if i < len(fo.LAYOUTS) else rng.choice(fo.LAYOUTS)
            inp = ao.mk_input(rng, content=(schema, rows_g), recipe=recipe, recipes=fo.LAYOUTS)
            if inp.get("history_failed"):
                cases.append(ao.history_failure_case(inp))
                continue
            if inp["built"][0] != "ok":
                continue
            schema = inp["schema"]
            names = [nm for nm, _ in schema]
            nf, labels, label_kind = fo.make_frame(rng, inp)
            rows = fo.rows_rm(inp["ca"])
            if i % 9 == 4 and len(rows) >= 2:
                # a frame that has been sorted before and whose rows were then replaced in place by tables of other lengths
                # (the content below is the content AFTER that): what an earlier sort may have remembered must not matter
                attempt(lambda: nf.sort_values(f"n.{names[0]}"))
                arr_live = nf["n"].array
                j0, j1 = 0, len(rows) - 1
                t0 = {nm: [gen.gen_value(rng, t, 0.0) for _ in range(len(rows[j1] or []) + 1)] for nm, t in schema}
                t0 = {nm: [v if not (isinstance(v, float) and v != v) else 1.5 for v in vs] for nm, vs in t0.items()}
                arr_live[j0] = t0
                arr_live[j1] = None
                rows = fo.rows_rm(nf["n"].array.chunked_array)
            import math as _m
            zs = [{_m.copysign(1.0, rec[j]) for r in rows if r for rec in r if isinstance(rec[j], float) and rec[j] == 0.0}
                  for j in range(len(names))]
            if any(len(z) > 1 for z in zs):
                continue          # both zero signs in one column (a lived object may bring -0.0 back): pandas' own lexsort limitation
            kind = ["nested"] * 7 + ["base", "two_layers", "nested_list1"]
            kind = kind[i % len(kind)]
            inplace = rng.random() < 0.3
            na_position = rng.choice(["last", "first"])
            sortable = [nm for nm, t in schema if t != "timestamp"] or names
            before = fo.snapshot(nf, skip=("n",))
            whole = fo.snapshot(nf)
            if kind.startswith("nested"):
                keys = rng.sample(sortable, rng.randint(1, min(3, len(sortable))))
                if kind == "nested_list1":
                    keys = keys[:1]
                asc = [rng.random() < 0.5 for _ in keys]
                if len(set(asc)) == 1 and rng.random() < 0.6:
                    ascending = asc[0]
                else:
                    ascending = list(asc)
                by = [f"n.{k}" for k in keys]
                if len(by) == 1 and kind != "nested_list1" and rng.random() < 0.5:
                    by = by[0]

                def run():
                    target = nf.copy() if inplace else nf
                    out = target.sort_values(by, ascending=ascending, na_position=na_position, inplace=inplace)
                    out = target if inplace else out
                    assert isinstance(out, NestedFrame)
                    assert fo.snapshot(out, skip=("n",)) == before, "labels, order, base or other nested columns changed"
                    assert list(out.columns) == list(nf.columns)
                    return fo.rows_rm(out["n"].array.chunked_array)
                res = attempt(run)
                # one rank table per element type over the union of the key columns of that type (tokens of different
                # types are disjoint, a value must have ONE rank wherever it occurs)
                by_type = {}
                for k in keys:
                    j = names.index(k)
                    by_type.setdefault(dict(schema)[k], []).extend(rec[j] for r in rows if r for rec in r)
                tbl = []
                for vals in by_type.values():
                    tbl += rank_table(vals)
                tbl_t = cq_list(f"({cq_val(t)}, {core.cq_Z(rk)})" for t, rk in dict(tbl).items())
                keys_t = cq_list(f"({names.index(k)}, {cq_bool(a)})" for k, a in zip(keys, asc))
                nal = cq_bool(na_position == "last")
                le = f"(rec_le_keys {tbl_t} {nal} {keys_t})"
                if res[0] == "ok":
                    term = (f"(let rows := {fo.cq_nrows(rows)} in let impl := {fo.cq_nrows(res[1])} in "
                            f"[match m_sort_nested_with (sort_flat {le}) rows with Ok m => keys_agree {tbl_t} {nal} {keys_t} m impl | Err => false end; "
                            f"check_sorted_rows {le} rows impl && {cq_bool(fo.snapshot(nf) == whole)}; true; true])")
                    nontrivial = fo.cq_nrows(res[1]) != fo.cq_nrows(rows)
                else:
                    term = "[false; false; true; true]"
                    nontrivial = False
                args = {"by": by, "ascending": ascending, "na_position": na_position, "inplace": inplace}
            elif kind == "base":
                asc = rng.random() < 0.5
                if len(rows) >= 4 and i % 20 < 10:
                    # the row with the smallest key already first, the one with the largest already last, the middle to be moved
                    mid = list(range(1, len(rows) - 1))
                    while mid == sorted(mid):
                        rng.shuffle(mid)
                    wv_ = [0] + mid + [len(rows) - 1]
                    nf["w"] = pd.array(wv_ if asc else [len(rows) - 1 - v for v in wv_], dtype=pd.ArrowDtype(pa.int64()))
                    before = fo.snapshot(nf, skip=("n",))
                    whole = fo.snapshot(nf)
                def run_b():
                    out = nf.sort_values("w", ascending=asc, na_position=na_position, kind="stable")
                    assert isinstance(out, NestedFrame)
                    wv = nf["w"].tolist()
                    idx = list(range(len(rows)))
                    nn = [j for j in idx if wv[j] is not None and wv[j] is not pd.NA]
                    na = [j for j in idx if j not in nn]
                    nn.sort(key=lambda j: wv[j], reverse=not asc)   # python's sort is stable also with reverse=True
                    if not asc:
                        # pandas' stable descending sort keeps ties in original order
                        nn = sorted([j for j in idx if j not in na], key=lambda j: -wv[j])
                    order = (nn + na) if na_position == "last" else (na + nn)
                    assert [int(v) for v in out["x"]] == order, "row order differs from a stable sort of the base column"
                    got = fo.rows_rm(out["n"].array.chunked_array)
                    assert fo.cq_nrows(got) == fo.cq_nrows([rows[j] for j in order]), "a nested table did not travel with its row"
                    assert repr(out["other"].array.chunked_array.to_pylist()) == repr([nf["other"].array.chunked_array.to_pylist()[j] for j in order])
                    return True
                res = attempt(run_b)
                term = f"[true; {cq_bool(res[0] == 'ok')}; true; true]"
                nontrivial = len(rows) > 1
                args = {"by": "w", "ascending": asc, "na_position": na_position}
            else:
                by = [f"n.{rng.choice(sortable)}", rng.choice(["w", "other.q"])]
                if i % 20 >= 10:
                    # two nests holding the SAME field names: the keys still name two layers
                    nf["m"] = pd.Series(nf["n"].array.copy(), index=nf.index, name="m")
                    whole = fo.snapshot(nf)
                    k1 = rng.choice(sortable)
                    by = [f"n.{k1}", f"m.{rng.choice([k1] + sortable)}"]
                rng.shuffle(by)
                if i % 40 == 8:
                    # an argument error on a nested target, IN PLACE: refused, and the target is exactly as before (labels included)
                    tgt = nf.copy()
                    k1 = rng.choice(sortable)
                    by = [f"n.{k1}"]
                    bad = rng.choice([{"ascending": [True, False]}, {"na_position": "middle"}, {"key": lambda col: col.no_such_attribute}])
                    res = attempt(lambda: tgt.sort_values(by, inplace=True, **bad))
                    term = f"[true; {cq_bool(res[0] == 'err' and fo.snapshot(nf) == whole and fo.snapshot(tgt) == whole)}; true; true]"
                else:
                    res = attempt(lambda: nf.sort_values(by))
                    term = f"[true; {cq_bool(res[0] == 'err' and fo.snapshot(nf) == whole)}; true; true]"
                nontrivial = True
                args = {"by": by}
            cases.append({
                "stream": "sort", "op": "sort_" + kind, "term": term,
                "input": dict(ao.input_repr(inp), labels=[repr(x) for x in labels], args={k: repr(v) for k, v in args.items()}),
                "impl_repr": str(res)[:500],
                "meta": ao.base_meta(inp, impl_raised=res[0] == "err", repeated_labels=len(set(labels)) != len(labels), label_kind=label_kind),
                "sig": [kind, str(args.get("ascending")), na_position, inp["recipe"], label_kind, len(rows), heavy],
                "trivial": not nontrivial,
                "hist": {"op": "sort_" + kind, "layout": inp["recipe"], "labels": label_kind, "na_position": na_position,
                         "raised": res[0] == "err", "heavy": heavy}})
        except Exception:  # noqa: BLE001
            cases.append(_uninterpretable(i, 'C11'))
    for k, c in enumerate(cases):
        c["cid"] = k
    return cases
