"""C04 stream: behaviour does not depend on physical layout or construction history.
For each generated logical content, the SAME operation with the SAME arguments (the argument generator is re-seeded
identically) is run on several physical layouts of that content (fresh, chunked, sliced, take/filter results,
concatenated slices, missing rows over null / empty children, pickled, empty chunks, an object that has lived through
reads and in-place writes); every result is compared with the Coq model on the real layout (flag A), with the ONE spec
result on the logical content (flag B), and the implementation results are compared with each other across the layouts."""
from __future__ import annotations

import random

from harness import arrayops as ao
from harness import gen
from harness.streams import c03 as c03mod

RULE = ("one case = one (content, operation+arguments, layout) triple; every content is laid out in 4 (quick) / 8 (thorough) "
        "ways and the same operation with identical arguments runs on each; operations: all views (C03), selection / take / concat / "
        "dropna / pickle / element assignment (C05), field edits through array, accessor (C06), list-struct interchange; frame-level "
        "operations run across layouts in the streams of C07/C09-C13; distinct = (op, layout, sizes); non-trivial = result neither "
        "error nor identity; a difference between layouts is reported on the layout that deviates from the spec")
ASSUMPTIONS = ["layouts are those reachable with the library and standard Arrow kernels; a missing row over hidden non-empty children "
               "(only constructible with StructArray.from_arrays(mask=...), also with NULL child lists that span elements) is normalised by the "
               "constructor since the repair of the former finding KF-hidden-children and gets its own cases"]
CORRESPONDENCE = "m_step (Steps.v) on the physical read-back of every layout vs the real operation"
LAYOUTS = list(gen.LAYOUTS)
EXTRA_IMPORTS = "NumpyView"

OPS = [
    ("getitem_int", ao.op_getitem_int), ("getitem_slice", ao.op_getitem_slice), ("getitem_mask", ao.op_getitem_mask),
    ("getitem_idx", ao.op_getitem_idx), ("take", ao.op_take), ("concat", ao.op_concat), ("simple", ao.op_simple), ("iterate", ao.op_iterate),
    ("setitem", ao.op_setitem), ("setitem_series", lambda r, i: ao.op_setitem(r, i, via_series=True)),
    ("set_flat", lambda r, i: ao.op_set_flat(r, i, "array")), ("with_flat", lambda r, i: ao.op_set_flat(r, i, "with_flat_field")),
    ("set_lists", lambda r, i: ao.op_set_lists(r, i, "array")), ("with_list", lambda r, i: ao.op_set_lists(r, i, "with_list_field")),
    ("fill", lambda r, i: ao.op_fill(r, i, "with_filled_field")), ("select", lambda r, i: ao.op_select_fields(r, i, "array")),
    ("select_acc", lambda r, i: ao.op_select_fields(r, i, "accessor")),
    ("set_lists_bad", lambda r, i: ao.op_set_lists(r, i, "array", malformed=True)),
    ("set_flat_bad", lambda r, i: ao.op_set_flat(r, i, "array", malformed=True)),
    ("setitem_multi", lambda r, i: ao.op_setitem(r, i, force_multi=True)),
    ("setitem_multi2", lambda r, i: ao.op_setitem(r, i, force_multi=True)), ("export_ls", None),
]


def views_case(inp):
    vterm, agree, impl_repr, raised, iterm = c03mod.collect_views(inp["ca"], inp["arr"])
    term = (f"(let P := {inp['P']} in let L := {inp['L']} in let V := {vterm} in "
            f"match chk_views P L V, chk_iter_all P L {iterm} with [a; b; c; s], [a2; b2; c2; s2] => "
            f"[a && a2; b && {ao.cq_bool(agree)} && b2; c && c2; s && s2] | l, _ => l end)")
    return {"stream": "views", "op": "views", "term": term, "input": ao.input_repr(inp), "impl_repr": impl_repr,
            "meta": ao.base_meta(inp, impl_raised=raised), "sig": ["views", inp["recipe"], len(inp["rows"])], "trivial": False,
            "hist": {"op": "views", "layout": inp["recipe"]}}


def export_case(inp):
    """list-of-structs export of one layout (C19's mechanism, here across layouts)"""
    from harness.streams import c19 as c19mod
    from harness.core import attempt, cq_lrows
    arr, st = inp["arr"], inp["ca"].type
    names = [f.name for f in st]
    res = attempt(lambda: arr.chunked_list_struct_array)
    impl = f"(Ok {cq_lrows(c19mod._norm_ts(c19mod.ls_rows_py(res[1], names), st))})" if res[0] == "ok" else "Err"
    term = f"(let P := {inp['P']} in let L := {inp['L']} in chk_ls_export P L {impl})"
    return {"stream": "interchange", "op": "export_list_struct", "term": term, "input": ao.input_repr(inp),
            "impl_repr": str(res[0]) + " " + (repr(res[1].to_pylist()) if res[0] == "ok" else res[1]),
            "meta": ao.base_meta(inp, impl_raised=res[0] == "err"), "sig": ["export", inp["recipe"], len(inp["rows"])],
            "trivial": False, "hist": {"op": "export_list_struct", "layout": inp["recipe"]}}


def generate(ctx):
    rng = ctx.rng
    n_contents = ctx.budget(110, 600)
    k = 4 if ctx.tier == "quick" else 8
    cases = []
    for ci in range(n_contents):
        corner = {0: "zero_rows", 1: "all_missing", 2: "all_empty"}.get(ci % 30)
        from_history = ci % 5 == 4
        if from_history:
            h = ao.mk_input(rng, max_rows=6, recipe="history", recipes=LAYOUTS)
            if h.get("history_failed"):
                cases.append(ao.history_failure_case(h))
                continue
            content = (h["schema"], h["rows"])
        else:
            content = gen.gen_content(rng, max_rows=7 if ctx.tier == "quick" else 11, corner=corner)
            h = None
        layouts = rng.sample(LAYOUTS, k - 1 if h else k)
        inps = ([h] if h else []) + [ao.mk_input(rng, content=content, recipe=l) for l in layouts]
        inps = [i for i in inps if i["built"][0] == "ok"]
        name, op = OPS[ci % (len(OPS) + 2)] if ci % (len(OPS) + 2) < len(OPS) else ("views", None)
        if name == "export_ls":
            op = export_case
        opseed = rng.getrandbits(48)
        group = []
        for inp in inps:
            if op is None:
                c = ao.run_op(lambda r_, i_: views_case(i_), None, inp)
            elif op is export_case:
                c = ao.run_op(lambda r_, i_: export_case(i_), None, inp)
            else:
                c = ao.run_op(op, random.Random(opseed), inp)
            c.pop("_result", None)
            c.setdefault("input", {})["content_id"] = ci
            group.append(c)
        # across layouts: the implementation's own results must coincide
        reprs = {str(c["impl_repr"]) for c in group}
        if len(reprs) > 1 and op is not None:
            for c in group:
                c["term"] = f"(match {c['term']} with [a; b; c0; s] => [a; b && false; c0; s] | l => l end)"
                c["input"]["cross_layout"] = "results differ between layouts of the same content"
        cases.extend(group)
    # the one layout class the library cannot produce itself: known finding, exercised so that it stays visible
    for j in range(ctx.budget(12, 40)):
        schema_h, rows_h = gen.gen_content(rng, max_rows=6)
        if rows_h and not any(r is None for r in rows_h):
            rows_h[rng.randrange(len(rows_h))] = None          # at least one missing row (which will hide elements)
        inp = ao.mk_input(rng, content=(schema_h, rows_h), recipe=["missing_hidden", "missing_hidden_null"][j % 2])
        if inp["built"][0] == "ok":
            cases.append(views_case(inp))
            if j % 3 == 0:
                cases.append(ao.run_op(ao.op_iterate, rng, inp))
    for i, c in enumerate(cases):
        c["cid"] = i
    return cases
