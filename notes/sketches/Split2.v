(* Feasibility sketch (not framework code): Python's str.split(sep) for a 2-char separator
   c1 c2 with c1 <> c2 (", " and ": " in NestedDtype.name), and split (join pieces) = pieces. *)
From Coq Require Import List Bool Arith Lia.
Import ListNotations.

Section Split2.
Variable A : Type.
Variable eqb : A -> A -> bool.
Hypothesis eqb_spec : forall x y, reflect (x = y) (eqb x y).
Variables c1 c2 : A.
Hypothesis c12 : c1 <> c2.

(* leftmost, non-overlapping occurrences, like CPython *)
Fixpoint split2 (s acc : list A) : list (list A) :=
  match s with
  | [] => [rev acc]
  | x :: t =>
      match t with
      | y :: t' => if eqb x c1 && eqb y c2 then rev acc :: split2 t' [] else split2 t (x :: acc)
      | [] => [rev (x :: acc)]
      end
  end.

Fixpoint no_sep (p : list A) : Prop :=
  match p with
  | x :: ((y :: _) as t) => ~ (x = c1 /\ y = c2) /\ no_sep t
  | _ => True
  end.

Fixpoint join (ps : list (list A)) : list A :=
  match ps with
  | [] => []
  | [p] => p
  | p :: ps' => p ++ c1 :: c2 :: join ps'
  end.

Lemma split2_cons2 x y t acc :
  split2 (x :: y :: t) acc = if eqb x c1 && eqb y c2 then rev acc :: split2 t [] else split2 (y :: t) (x :: acc).
Proof. reflexivity. Qed.
Lemma split2_one x acc : split2 [x] acc = [rev (x :: acc)].
Proof. reflexivity. Qed.
Lemma split2_nil acc : split2 [] acc = [rev acc].
Proof. reflexivity. Qed.

Lemma sep_hit : eqb c1 c1 && eqb c2 c2 = true.
Proof. destruct (eqb_spec c1 c1), (eqb_spec c2 c2); simpl; congruence. Qed.

Lemma no_hit x y : ~ (x = c1 /\ y = c2) -> eqb x c1 && eqb y c2 = false.
Proof. intro H. destruct (eqb_spec x c1), (eqb_spec y c2); simpl; try reflexivity. exfalso; apply H; split; assumption. Qed.

Lemma split2_piece_end : forall p acc, no_sep p -> split2 p acc = [rev acc ++ p].
Proof.
  induction p as [|x p IH]; intros acc H.
  - rewrite split2_nil, app_nil_r; reflexivity.
  - destruct p as [|y p'].
    + rewrite split2_one. simpl. reflexivity.
    + destruct H as [Hxy H]. rewrite split2_cons2, (no_hit _ _ Hxy), (IH (x :: acc) H).
      simpl. rewrite <- app_assoc. reflexivity.
Qed.

Lemma split2_piece_sep : forall p acc more, no_sep p ->
  split2 (p ++ c1 :: c2 :: more) acc = (rev acc ++ p) :: split2 more [].
Proof.
  induction p as [|x p IH]; intros acc more H.
  - cbn [app]. rewrite split2_cons2, sep_hit, app_nil_r. reflexivity.
  - destruct p as [|y p'].
    + cbn [app]. rewrite split2_cons2.
      assert (Hx : eqb x c1 && eqb c1 c2 = false).
      { destruct (eqb_spec c1 c2); [congruence|]. apply andb_false_r. }
      rewrite Hx, split2_cons2, sep_hit. simpl. reflexivity.
    + destruct H as [Hxy H]. cbn [app]. rewrite split2_cons2, (no_hit _ _ Hxy).
      change (y :: p' ++ c1 :: c2 :: more) with ((y :: p') ++ c1 :: c2 :: more).
      rewrite (IH (x :: acc) more H). simpl. rewrite <- app_assoc. reflexivity.
Qed.

Theorem split2_join : forall ps, ps <> [] -> Forall no_sep ps -> split2 (join ps) [] = ps.
Proof.
  induction ps as [|p ps IH]; intros Hne Hall; [congruence|].
  inversion Hall as [|? ? Hp Hps]; subst.
  destruct ps as [|q ps'].
  - simpl. rewrite split2_piece_end by exact Hp. reflexivity.
  - change (join (p :: q :: ps')) with (p ++ c1 :: c2 :: join (q :: ps')).
    rewrite split2_piece_sep by exact Hp. simpl rev. cbn [app]. f_equal.
    apply IH; [discriminate|exact Hps].
Qed.
End Split2.
Print Assumptions split2_join.
