From Coq Require Import List Arith Lia Bool.
Import ListNotations.

Section Regroup.
Variable R : Type.                       (* record *)
Definition row := option (list R).
Definition recs (r : row) : list R := match r with Some l => l | None => [] end.
Definition nonempty (l : list R) : row := match l with [] => None | _ => Some l end.

(* flat view tagged with ordinal row numbers, starting at ordinal k *)
Fixpoint tag_from (k : nat) (rows : list row) : list (nat * R) :=
  match rows with
  | [] => []
  | r :: rs => map (pair k) (recs r) ++ tag_from (S k) rs
  end.

(* pack_sorted_df_into_struct on the logical level: consecutive runs of equal ordinals.
   (calculate_sorted_index_offsets = first occurrences; runs = slices between them) *)
Fixpoint runs (l : list (nat * R)) : list (nat * list R) :=
  match l with
  | [] => []
  | (i, x) :: t =>
      match runs t with
      | (j, xs) :: g => if Nat.eqb i j then (i, x :: xs) :: g else (i, [x]) :: (j, xs) :: g
      | [] => [(i, [x])]
      end
  end.

Fixpoint lookup (i : nat) (g : list (nat * list R)) : row :=
  match g with
  | [] => None
  | (j, xs) :: t => if Nat.eqb i j then Some xs else lookup i t
  end.

(* aligned write-back: new_df[nest] = packed  (reindex to 0..n-1, absent -> missing) *)
Definition align_from (k n : nat) (g : list (nat * list R)) : list row :=
  map (fun i => lookup i g) (seq k n).

Variable keep : R -> bool.
Definition keepp (p : nat * R) := keep (snd p).

Lemma filter_tag_cons k r rs :
  filter keepp (tag_from k (r :: rs)) = map (pair k) (filter keep (recs r)) ++ filter keepp (tag_from (S k) rs).
Proof.
  simpl. rewrite filter_app. f_equal.
  induction (recs r) as [|x xs IH]; simpl; auto.
  unfold keepp at 1; simpl. destruct (keep x); simpl; rewrite IH; auto.
Qed.

(* all ordinals in a tagged list are >= k *)
Lemma tag_ge k rs : Forall (fun p => k <= fst p) (tag_from k rs).
Proof.
  revert k; induction rs as [|r rs IH]; intro k; simpl; [constructor|].
  apply Forall_app; split.
  - apply Forall_forall; intros p Hp. apply in_map_iff in Hp as [x [<- _]]. simpl; lia.
  - eapply Forall_impl; [|apply (IH (S k))]. simpl; intros a Ha; lia.
Qed.

Lemma filter_ge k l : Forall (fun p : nat * R => k <= fst p) l -> Forall (fun p => k <= fst p) (filter keepp l).
Proof. intro H. apply Forall_forall; intros p Hp. apply filter_In in Hp as [Hp _]. rewrite Forall_forall in H; auto. Qed.

Lemma runs_ge k l : Forall (fun p : nat * R => k <= fst p) l -> Forall (fun g => k <= fst g) (runs l).
Proof.
  induction l as [|[i x] t IH]; intro H; simpl; [constructor|].
  inversion H; subst. specialize (IH H3). simpl in *.
  destruct (runs t) as [|[j xs] g].
  - constructor; auto.
  - inversion IH; subst. destruct (Nat.eqb i j); repeat constructor; simpl; auto.
Qed.

Lemma lookup_lt i g : Forall (fun p : nat * list R => i < fst p) g -> lookup i g = None.
Proof.
  induction g as [|[j xs] t IH]; intro H; simpl; auto.
  inversion H; subst; simpl in *. destruct (Nat.eqb_spec i j); [lia|auto].
Qed.

(* runs of (k-tagged block ++ rest with ordinals > k) *)
Lemma runs_block k xs rest :
  Forall (fun p => S k <= fst p) rest ->
  runs (map (pair k) xs ++ rest) =
  match xs with [] => runs rest | _ => (k, xs) :: runs rest end.
Proof.
  intro H. induction xs as [|x xs IH]; simpl; auto.
  rewrite IH. destruct xs as [|y ys].
  - pose proof (runs_ge _ _ H) as G. destruct (runs rest) as [|[j zs] g]; auto.
    inversion G; subst; simpl in *. destruct (Nat.eqb_spec k j); [lia|auto].
  - rewrite Nat.eqb_refl. auto.
Qed.

Lemma align_skip k n j xs g : j < k -> align_from k n ((j, xs) :: g) = align_from k n g.
Proof.
  intro H. unfold align_from. apply map_ext_in. intros i Hi. apply in_seq in Hi. simpl.
  destruct (Nat.eqb_spec i j); [lia|auto].
Qed.

Theorem regroup_filter : forall rows k,
  align_from k (length rows) (runs (filter keepp (tag_from k rows)))
  = map (fun r => nonempty (filter keep (recs r))) rows.
Proof.
  induction rows as [|r rs IH]; intro k; [reflexivity|].
  rewrite filter_tag_cons.
  assert (G : Forall (fun p => S k <= fst p) (filter keepp (tag_from (S k) rs))) by (apply filter_ge, tag_ge).
  rewrite runs_block by exact G.
  pose proof (runs_ge _ _ G) as G'.
  change (length (r :: rs)) with (S (length rs)).
  unfold align_from in *. cbn [seq map]. f_equal.
  - destruct (filter keep (recs r)) as [|x xs]; simpl.
    + apply lookup_lt. eapply Forall_impl; [|exact G']. simpl; intros a Ha; lia.
    + rewrite Nat.eqb_refl; auto.
  - rewrite <- (IH (S k)). destruct (filter keep (recs r)) as [|x xs]; auto.
    apply (align_skip (S k) (length rs) k (x::xs)); lia.
Qed.
End Regroup.
Print Assumptions regroup_filter.
