(* Feasibility sketch (not framework code): offset windows over a whole child buffer. *)
From Coq Require Import List Arith Lia Bool.
Import ListNotations.

Section Windows.
Variable V : Type.

Definition slice (l : list V) (a b : nat) : list V := firstn (b - a) (skipn a l).

Fixpoint adj (o : list nat) : list (nat * nat) :=
  match o with
  | a :: ((b :: _) as t) => (a, b) :: adj t
  | _ => []
  end.

Fixpoint mono (o : list nat) : Prop :=
  match o with
  | a :: ((b :: _) as t) => a <= b /\ mono t
  | _ => True
  end.

(* ListArray -> python lists, ignoring list validity (what .field(i) + iteration sees) *)
Definition lists_of (offs : list nat) (child : list V) : list (list V) :=
  map (fun ab => slice child (fst ab) (snd ab)) (adj offs).

Lemma firstn_add : forall n k (m : list V), firstn (n + k) m = firstn n m ++ firstn k (skipn n m).
Proof. induction n as [|n IH]; intros k m; simpl; [reflexivity|]. destruct m as [|x m]; simpl.
  - rewrite firstn_nil. reflexivity.
  - rewrite IH. reflexivity. Qed.

Lemma skipn_skipn' : forall y x (l : list V), skipn x (skipn y l) = skipn (y + x) l.
Proof. induction y as [|y IH]; intros x l; simpl; [reflexivity|]. destruct l as [|v l]; simpl.
  - apply skipn_nil.
  - apply IH. Qed.

Lemma slice_app l a b c : a <= b -> b <= c -> slice l a b ++ slice l b c = slice l a c.
Proof.
  intros Hab Hbc. unfold slice.
  replace (c - a) with ((b - a) + (c - b)) by lia.
  rewrite firstn_add. f_equal. rewrite skipn_skipn'. replace (a + (b - a)) with b by lia. reflexivity.
Qed.

Lemma slice_same l a : slice l a a = [].
Proof. unfold slice. rewrite Nat.sub_diag. reflexivity. Qed.

Lemma last_cons_default : forall (t : list nat) c b, last (c :: t) b = last t c.
Proof. induction t as [|d t IH]; intros c b; [reflexivity|].
  change (last (c :: d :: t) b) with (last (d :: t) b). rewrite (IH d b), (IH d c). reflexivity. Qed.

Lemma mono_le_last : forall t b, mono (b :: t) -> b <= last t b.
Proof. induction t as [|c t IH]; intros b Hm; [simpl; lia|].
  destruct Hm as [Hbc Hm]. rewrite last_cons_default. specialize (IH c Hm). lia. Qed.

(* the lemma behind to_flat / flat_length / list_offsets: the concatenation of the per-row
   lists is the child buffer between the first and the last offset of the window *)
Lemma concat_lists_of : forall offs child a,
  mono (a :: offs) ->
  concat (lists_of (a :: offs) child) = slice child a (last offs a).
Proof.
  induction offs as [|b t IH]; intros child a Hm.
  - simpl. symmetry. apply slice_same.
  - destruct Hm as [Hab Hm].
    change (lists_of (a :: b :: t) child) with (slice child a b :: lists_of (b :: t) child).
    cbn [concat]. rewrite IH by exact Hm.
    pose proof (mono_le_last t b Hm) as Hb.
    rewrite slice_app by (auto; exact Hb).
    f_equal. symmetry. apply last_cons_default.
Qed.

Lemma length_lists_of offs child : length (lists_of offs child) = length offs - 1.
Proof.
  unfold lists_of. rewrite map_length.
  induction offs as [|a [|b t] IH]; simpl in *; try lia.
Qed.

(* lengths are offset differences, provided the window stays inside the buffer *)
Lemma length_slice l a b : a <= b -> b <= length l -> length (slice l a b) = b - a.
Proof. intros. unfold slice. rewrite firstn_length, skipn_length. lia. Qed.

End Windows.
Print Assumptions concat_lists_of.
