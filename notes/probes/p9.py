import numpy as np, pandas as pd, pyarrow as pa, pickle
import nested_pandas as npd
from nested_pandas import NestedFrame, NestedDtype
from nested_pandas.series.ext_array import NestedExtensionArray as NEA
def tryit(tag, f):
    try:
        r = f(); print(tag, 'OK', r if r is not None else '')
    except Exception as e:
        print(tag, 'ERR', type(e).__name__, str(e)[:200])
def dump(nf):
    out = {}
    for c in nf.columns:
        out[c] = nf[c].array.chunked_array.to_pylist() if isinstance(nf[c].dtype, NestedDtype) else nf[c].tolist()
    return list(nf.index), out
print("=== filled-vs-flat ambiguity with duplicate labels")
sa = pa.StructArray.from_arrays([pa.array([[1,2],[]])], names=['a'])
nf = NestedFrame({'x':[1,2]}, index=['a','a']); nf['n'] = NEA(sa)
v = nf['n.a'] * 10; print(v.index.tolist(), v.tolist())
nf['n.b'] = v; print(dump(nf))
tryit('eval', lambda: dump(nf.eval('n.c = n.a * 10')))
print("=== C14 backticks in sort/dropna/reduce")
sa = pa.StructArray.from_arrays([pa.array([[2,1],[3]]), pa.array([[5.,None],[6.]])], names=['a','my f'])
nf = NestedFrame({'x':[1,2]}, index=[0,1]); nf['n'] = NEA(sa)
for p in ['n.my f', 'n.`my f`', '`n`.`my f`']:
    tryit('getitem '+p, lambda: nf[p].tolist())
    tryit('sort '+p, lambda: dump(nf.sort_values(p))[1]['n'])
    tryit('dropna '+p, lambda: dump(nf.dropna(subset=[p]))[1]['n'])
    tryit('reduce '+p, lambda: nf.reduce(lambda v: {'s': len(v)}, p)['s'].tolist())
    tryit('setitem '+p, lambda: (lambda c: (c.__setitem__(p, 0), dump(c)[1]['n'])[1])(nf.copy()))
    tryit('query '+p, lambda: dump(nf.query(p + ' > 5'))[1]['n'])
    tryit('eval '+p, lambda: nf.eval(p + ' + 1').tolist())
print("=== arrow semantics")
sa = pa.StructArray.from_arrays([pa.array([[1,2],[3],[],[4,5,6]])], names=['a'], mask=pa.array([False,True,False,False]))
print('field', sa.field(0).to_pylist(), 'flatten', sa.flatten()[0].to_pylist())
print('field.flatten', sa.field(0).flatten().to_pylist(), 'flatten.flatten', sa.flatten()[0].flatten().to_pylist(), 'flatten.values', sa.flatten()[0].values.to_pylist())
print('flatten offs', sa.flatten()[0].offsets.to_pylist())
ca = pa.chunked_array([sa])
for tag, r in [('take[]', ca.take(pa.array([], type=pa.int64()))), ('filter none', ca.filter(pa.array([False]*4))), ('slice0', ca[0:0]), ('take', ca.take([3,1])), ('filter', ca.filter(pa.array([True,True,False,True])))]:
    print(tag, r.num_chunks, [ (c.field(0).offsets.to_pylist(), c.field(0).is_valid().to_pylist(), c.is_valid().to_pylist(), c.field(0).values.to_pylist()) for c in r.chunks])
ca2 = pa.chunked_array([sa.slice(0,2), sa.slice(2,2)])
for tag, r in [('mc take', ca2.take([3,0,1])), ('mc filter', ca2.filter(pa.array([True,False,True,True]))), ('mc slice', ca2[1:3]), ('mc drop_null', pa.compute.drop_null(ca2)), ('mc combine', ca2.combine_chunks())]:
    r = r if isinstance(r, pa.ChunkedArray) else pa.chunked_array([r])
    print(tag, r.num_chunks, [ (c.field(0).offsets.to_pylist(), c.field(0).is_valid().to_pylist(), c.is_valid().to_pylist(), c.field(0).values.to_pylist()) for c in r.chunks])
print(hasattr(pa.lib, '_type_aliases'), len(getattr(pa.lib, '_type_aliases', {})))
s = pd.Series(NEA(ca2), name='n')
print('iloc[[]] chunks', s.iloc[[]].array.num_chunks, 'mask none', s[np.array([False]*4)].array.num_chunks, 'iloc[0:0]', s.iloc[0:0].array.num_chunks)
nf = NestedFrame({'x':[1,2,3,4]}); nf['n'] = NEA(ca2)
e = nf[nf.x > 10]; print(type(e).__name__, e['n'].array.num_chunks); tryit('empty frame to_flat', lambda: e['n'].nest.to_flat().shape); tryit('empty query', lambda: e.query('n.a > 1').shape)
e = nf.query('x > 10'); tryit('query-empty then n.a', lambda: e['n.a'].tolist())
