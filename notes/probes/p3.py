import numpy as np, pandas as pd, pyarrow as pa, traceback, pickle
import nested_pandas as npd
from nested_pandas import NestedFrame
from nested_pandas.series.ext_array import NestedExtensionArray as NEA
from nested_pandas.series.packer import pack_flat, pack_lists, pack_seq, pack

def tryit(tag, f):
    try:
        r = f(); print(tag, 'OK', r if r is not None else '')
    except Exception as e:
        print(tag, 'ERR', type(e).__name__, str(e)[:300])

print("=== C02 pack_flat unsorted labels w/ nulls")
flat = pd.DataFrame({'x':[1,2,None,4,5,6], 'y':list('abcdef')}, index=[3,1,3,2,1,3])
p = pack_flat(flat, name='n')
print(p.array.chunked_array.to_pylist(), list(p.index))
print(p.nest.to_flat())
print(p.nest.to_flat().dtypes)
print("=== pack_flat str labels, arrow dtypes")
flat = pd.DataFrame({'x':pd.array([1,2,None,4], dtype=pd.ArrowDtype(pa.int64())), 'y':pd.array(['a',None,'c','d'],dtype=pd.ArrowDtype(pa.string()))}, index=['b','a','b','a'])
p = pack_flat(flat, name='n'); print(p.array.chunked_array.to_pylist(), list(p.index), p.dtype)
print("=== empty flat")
tryit('empty', lambda: pack_flat(pd.DataFrame({'x':pd.array([],dtype='int64')}, index=pd.Index([],dtype='int64'))).array.chunked_array.to_pylist())
print("=== pack_seq / dfs / None")
p = pack_seq([pd.DataFrame({'a':[1,2],'b':['x','y']}), None, pd.DataFrame({'a':[],'b':[]}), pd.NA, {'a':[3],'b':['z']}])
print(p.array.chunked_array.to_pylist(), p.dtype)
tryit('pack_seq first None', lambda: pack_seq([None, pd.DataFrame({'a':[1,2],'b':['x','y']})]).array.chunked_array.to_pylist())
tryit('pack_seq ragged dict', lambda: pack_seq([{'a':[1,2],'b':['x']}]).array.chunked_array.to_pylist())
tryit('pack_seq all None', lambda: pack_seq([None, None]))
print("=== to_lists -> pack_lists with missing")
sa = pa.StructArray.from_arrays(
    [pa.array([[1,2],[],[],[4,5,6]]), pa.array([[1.,2.],[],[],[4.,5.,6.]])],
    names=['a','b'], mask=pa.array([False,True,False,False]))
s = pd.Series(NEA(sa), index=[10,11,12,13], name='n')
l = s.nest.to_lists(); print(l, l.dtypes)
r = pack_lists(l); print(r.array.chunked_array.to_pylist(), r.isna().values)
print("=== list(series) -> pack")
els = list(s); print(els)
r = pack(els, index=s.index); print(r.array.chunked_array.to_pylist())
print("=== pickle")
mc = NEA(pa.chunked_array([sa.slice(0,2), sa.slice(2,2)]))
r = pickle.loads(pickle.dumps(mc)); print(r.chunked_array.to_pylist(), r.num_chunks, r.dtype)
tryit('pickle empty', lambda: pickle.loads(pickle.dumps(mc[:0])).chunked_array.to_pylist())
tryit('pickle 0 chunks', lambda: pickle.loads(pickle.dumps(mc[np.array([],dtype=int)])).chunked_array)
e = mc[np.array([],dtype=int)]
tryit('0-chunk field_names', lambda: e.field_names)
tryit('0-chunk list_offsets', lambda: e.list_offsets)
tryit('0-chunk list_lengths', lambda: e.list_lengths)
tryit('0-chunk flat_length', lambda: e.flat_length)
se = pd.Series(e, name='n')
tryit('0-chunk to_flat', lambda: se.nest.to_flat())
tryit('0-chunk to_lists', lambda: se.nest.to_lists())
tryit('0-chunk with_flat', lambda: se.nest.with_flat_field('c', []))
tryit('0-chunk without', lambda: se.nest.without_field('a').dtype)
tryit('0-chunk view', lambda: se.nest[['a']].dtype)
tryit('concat [] ', lambda: NEA._concat_same_type([e, e]).dtype)
