import numpy as np, pandas as pd, pyarrow as pa, pyarrow.parquet as pq, traceback, pickle, io
import nested_pandas as npd
from nested_pandas import NestedFrame, NestedDtype, read_parquet
from nested_pandas.series.ext_array import NestedExtensionArray as NEA

def tryit(tag, f):
    try:
        r = f(); print(tag, 'OK', r if r is not None else '')
    except Exception as e:
        print(tag, 'ERR', type(e).__name__, str(e)[:300])
def dump(nf):
    out = {}
    for c in nf.columns:
        if isinstance(nf[c].dtype, npd.NestedDtype):
            out[c] = nf[c].array.chunked_array.to_pylist()
        else:
            out[c] = nf[c].tolist()
    return list(nf.index), out, type(nf).__name__
print("=== C09 add_nested joins")
base = NestedFrame({'x':[1,2,3,4]}, index=['b','a','b','c'])
flat = pd.DataFrame({'v':[1,2,3,4,5]}, index=['b','d','a','b','d'])
for how in ['left','right','inner','outer']:
    tryit(how, lambda: dump(base.add_nested(flat, 'n', how=how)))
    tryit(how+' pandas', lambda: (lambda j: (list(j.index), j['x'].tolist()))(pd.DataFrame(base).join(pd.Series([0,1,2],index=['a','b','d'],name='n'), how=how)))
base2 = NestedFrame({'x':[1,2,3,4], 'k':['b','a','b','c']})
tryit('on=k', lambda: dump(base2.add_nested(flat, 'n', on='k')))
flat2 = pd.DataFrame({'v':[1,2,3,4,5], 'k':['b','d','a','b','d']})
tryit('on=k both', lambda: dump(base2.add_nested(flat2, 'n', on='k')))
print("=== from_flat")
ff = pd.DataFrame({'a':[1,2,1,3], 'b':[10,20,11,30], 'c':[.1,.2,.3,.4]}, index=[5,3,5,1])
tryit('from_flat', lambda: dump(NestedFrame.from_flat(ff, base_columns=['a'])))
tryit('from_flat on', lambda: dump(NestedFrame.from_flat(ff, base_columns=['b'], on='a')))
print("=== from_lists")
fl = pd.DataFrame({'a':[1,2,3], 'l':[[1,2],[3],[]], 'm':[['x','y'],['z'],[]]}, index=[2,2,1])
tryit('from_lists', lambda: dump(NestedFrame.from_lists(fl, base_columns=['a'])))
tryit('nest_lists', lambda: dump(NestedFrame(fl).nest_lists('n', ['l','m'])))
fl2 = pd.DataFrame({'a':[1,2], 'l':[[1,2],[3]], 'm':[['x'],['z']]})
tryit('from_lists ragged', lambda: dump(NestedFrame.from_lists(fl2, base_columns=['a'])))
print("=== C18 closure")
nf = base.add_nested(flat, 'n')
for tag, f in [('iloc', lambda: nf.iloc[1:3]), ('loc mask', lambda: nf[nf.x>1]), ('concat', lambda: pd.concat([nf, nf])), ('reset_index', lambda: nf.reset_index()),
    ('set_index', lambda: nf.set_index('x')), ('merge', lambda: nf.merge(pd.DataFrame({'x':[1,2],'y':[7,8]}), on='x')), ('join', lambda: nf.join(pd.DataFrame({'y':[7,8]}, index=['a','b']))),
    ('head', lambda: nf.head(2)), ('reindex', lambda: nf.reindex(['a','c','zz'])), ('sort_index', lambda: nf.sort_index()), ('copy', lambda: nf.copy()), ('pickle', lambda: pickle.loads(pickle.dumps(nf))),
    ('drop', lambda: nf.drop(columns=['x'])), ('assign', lambda: nf.assign(y=1)), ('T.T', lambda: nf.T.T), ('groupby first', lambda: nf.groupby('x').first()), ('fillna', lambda: nf.fillna(0)),
    ('concat axis1', lambda: pd.concat([nf, nf.rename(columns={'n':'n2','x':'x2'})], axis=1)), ('drop_duplicates x', lambda: nf.drop_duplicates('x')), ('explode', lambda: nf.explode('x')), ('where', lambda: nf.where(nf.x>1)),
    ('shift', lambda: nf.shift(1)), ('sample', lambda: nf.sample(2, random_state=0)), ('astype', lambda: nf.astype({'x':'float'})), ('dropna', lambda: nf.dropna()), ('loc label', lambda: nf.loc[['a','b']]),
    ('query concat', lambda: pd.concat([nf,nf]).query('n.v > 1')), ('setitem concat', lambda: (lambda c: (c.__setitem__('n.w', c['n.v']*2), c)[1])(pd.concat([nf,nf]))),
    ('setitem iloc', lambda: (lambda c: (c.__setitem__('n.w', c['n.v']*2), c)[1])(nf.iloc[1:].copy())),
    ]:
    tryit(tag, lambda: (lambda r: (type(r).__name__, r.dtypes.astype(str).to_dict(), dump(r)[:2]))(f()))
