import numpy as np, pandas as pd, pyarrow as pa, pyarrow.parquet as pq, traceback, pickle, io
import nested_pandas as npd
from nested_pandas import NestedFrame, NestedDtype, read_parquet
from nested_pandas.series.ext_array import NestedExtensionArray as NEA

def tryit(tag, f):
    try:
        r = f(); print(tag, 'OK', r if r is not None else '')
    except Exception as e:
        print(tag, 'ERR', type(e).__name__, str(e)[:300])
def dump(nf):
    out = {}
    for c in nf.columns:
        if isinstance(nf[c].dtype, npd.NestedDtype):
            out[c] = nf[c].array.chunked_array.to_pylist()
        else:
            out[c] = nf[c].tolist()
    return list(nf.index), out
sa = pa.StructArray.from_arrays(
    [pa.array([[1,2,3],[],[],[4,None,6],[7]]), pa.array([['a','b','c'],[],[],['d',None,'f'],['g']])],
    names=['a','b'], mask=pa.array([False,True,False,False,False]))
nf = NestedFrame({'x':[5,4,3,2,1]}, index=[0,1,2,3,4]); nf['n'] = NEA(sa); nf['m'] = NEA(pa.chunked_array([sa.slice(0,2), sa.slice(2,3)]))
print("=== parquet roundtrip")
buf = io.BytesIO(); nf.to_parquet(buf); buf.seek(0)
r = read_parquet(buf); print(dump(r)); print(r.dtypes)
buf.seek(0); t = pq.read_table(buf); print(t.schema); print(t.schema.metadata)
buf = io.BytesIO(); nf.to_parquet(buf, row_group_size=2); buf.seek(0)
r = read_parquet(buf); print(dump(r)); print('chunks', r['n'].array.num_chunks)
buf.seek(0); tryit('partial', lambda: dump(read_parquet(buf, columns=['x','n.a'])))
buf.seek(0); tryit('partial2', lambda: dump(read_parquet(buf, columns=['n.b','x','m.a','n.a'])))
buf.seek(0); tryit('partial n only', lambda: dump(read_parquet(buf, columns=['n'])))
print("=== non default index")
nf2 = nf.set_index(pd.Index(['a','b','c','d','e'], name='lab'))
buf = io.BytesIO(); nf2.to_parquet(buf); buf.seek(0); r = read_parquet(buf); print(dump(r))
nf3 = nf.set_index(pd.Index([3,1,2,5,4]))
buf = io.BytesIO(); nf3.to_parquet(buf); buf.seek(0); r = read_parquet(buf); print(dump(r))
print("=== sliced frame to parquet")
nf4 = nf.iloc[1:4]
buf = io.BytesIO(); tryit('write slice', lambda: nf4.to_parquet(buf)); buf.seek(0); tryit('read', lambda: dump(read_parquet(buf)))
print("=== foreign ragged")
tbl = pa.table({'s': pa.StructArray.from_arrays([pa.array([[1,2],[3]]), pa.array([[1.],[3.]])], names=['a','b'])})
buf = io.BytesIO(); pq.write_table(tbl, buf); buf.seek(0); tryit('ragged read', lambda: dump(read_parquet(buf)))
buf.seek(0); tryit('ragged reject', lambda: read_parquet(buf, reject_nesting='s').dtypes)
buf.seek(0); tryit('ragged partial', lambda: dump(read_parquet(buf, columns=['s.a','s.b'])))
