import numpy as np, pandas as pd, pyarrow as pa, traceback, pickle, io
import nested_pandas as npd
from nested_pandas import NestedFrame
from nested_pandas.series.ext_array import NestedExtensionArray as NEA

def tryit(tag, f):
    try:
        r = f(); print(tag, 'OK', r if r is not None else '')
    except Exception as e:
        print(tag, 'ERR', type(e).__name__, str(e)[:300])
def dump(nf):
    out = {}
    for c in nf.columns:
        if isinstance(nf[c].dtype, npd.NestedDtype):
            out[c] = nf[c].array.chunked_array.to_pylist()
        else:
            out[c] = nf[c].tolist()
    return list(nf.index), out
def mk():
    sa = pa.StructArray.from_arrays(
        [pa.array([[1,2,3],[4],[5,6]]), pa.array([[3.,1.,2.],[6.],[7.,8.]])], names=['a','b'])
    nf = NestedFrame({'x':[5,4,3], 'a':[1,2,3]}, index=[0,1,2]); nf['n'] = NEA(sa); return nf
nf = mk()
print("=== eval multiline")
tryit('multi noninplace', lambda: dump(nf.eval('n.c = n.a * 2\nn.d = n.c + 1')))
nf2 = mk(); tryit('multi inplace', lambda: (nf2.eval('n.c = n.a * 2\nn.d = n.c + 1', inplace=True), dump(nf2))[1])
nf2 = mk(); tryit('multi base', lambda: dump(nf2.eval('c = x * 2\nd = c + 1')))
print("=== C16 alias leak")
nf3 = mk()
nf3['n.my f'] = nf3['n.a'] * 10
print(nf3.all_columns)
tryit('getitem `my f` before', lambda: nf3['n.`my f`'].tolist())
tryit('failing eval', lambda: nf3.eval('n.`my f` + undefined_name'))
print('aliases after fail:', getattr(nf3, '_aliases', 'absent'))
tryit('getitem n.`my f` after', lambda: nf3['n.`my f`'].tolist())
tryit('getitem n.a after', lambda: nf3['n.a'].tolist())
tryit('query after', lambda: dump(nf3.query('n.a > 1')))
tryit('query `my f` after', lambda: dump(nf3.query('n.`my f` > 10')))
nf3c = nf3.copy(); print('copy aliases', getattr(nf3c, '_aliases', 'absent'))
nf4 = mk(); nf4['n.my f'] = nf4['n.a'] * 10; nf4['other col'] = [1,2,3]
tryit('fail2', lambda: nf4.eval('`other col` + undefined_name'))
print('aliases', nf4._aliases)
tryit('n.`my f` after fail2', lambda: nf4['n.`my f`'].tolist())
tryit('query `my f` after fail2', lambda: dump(nf4.query('n.`my f` > 10')))
tryit('reduce after', lambda: dump(nf4.reduce(lambda v: {'s': v.sum()}, 'n.`my f`')))
print("=== C15 arg mutation in __setitem__")
nf5 = mk(); ser = nf5['n.a'] * 2; print('name before', ser.name)
nf5['m.z'] = ser; print('name after', ser.name)
print("=== C14 names")
nf6 = mk(); nf6['n.a'] = nf6['n.a']  # ok
nf6b = NestedFrame({'x':[5,4,3], 'n.a':[1,2,3]}, index=[0,1,2]); nf6b['n'] = mk()['n']
tryit("getitem n.a w/ base 'n.a'", lambda: nf6b['n.a'].tolist())
tryit("query n.a>1 w/ base 'n.a'", lambda: dump(nf6b.query('n.a > 1')))
tryit("sort n.a w/ base 'n.a'", lambda: dump(nf6b.sort_values('n.a', ascending=False)))
tryit("dropna subset n.a w/ base", lambda: dump(nf6b.dropna(subset=['n.a'])))
tryit("reduce n.a w/ base", lambda: dump(nf6b.reduce(lambda v: {'v': v}, 'n.a', infer_nesting=False)))
tryit("setitem n.a w/ base", lambda: (nf6b.__setitem__('n.a', 0), dump(nf6b))[1])
nf7 = mk(); nf7['n.f.g'] = nf7['n.a'] if False else None
