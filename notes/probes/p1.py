import numpy as np, pandas as pd, pyarrow as pa
import nested_pandas as npd
from nested_pandas.series.ext_array import NestedExtensionArray as NEA
from nested_pandas.series.packer import pack_flat, pack_lists, pack_seq, pack

def show(tag, arr):
    ca = arr.chunked_array if isinstance(arr, NEA) else arr
    print(tag, ca.to_pylist(), 'chunks', ca.num_chunks)

# base array with a missing row
sa = pa.StructArray.from_arrays(
    [pa.array([[1,2],[3],[],[4,5,6]]), pa.array([[1.,2.],[3.],[],[4.,5.,6.]])],
    names=['a','b'], mask=pa.array([False,True,False,False]))
arr = NEA(sa)
show('orig', arr)
print('isna', arr.isna(), 'lens', arr.list_lengths, 'flat_len', arr.flat_length, 'offsets', arr.list_offsets)
s = pd.Series(arr, index=[10,11,12,13], name='n')
print(s.nest.to_flat())
print('--- view_fields')
v = s.nest[['a']]
show('view', v.array); print('isna', v.isna().values)
print('--- without_field')
w = s.nest.without_field('b')
show('without', w.array); print('isna', w.isna().values)
print('--- with_flat_field')
try:
    w = s.nest.with_flat_field('c', np.arange(s.nest.flat_length))
    show('with_flat', w.array); print('isna', w.isna().values)
except Exception as e:
    print('ERR', type(e), e)
print('--- with_list_field')
try:
    w = s.nest.with_list_field('c', pa.array([[1,2],[9],[],[4,5,6]]))
    show('with_list', w.array); print('isna', w.isna().values)
except Exception as e:
    print('ERR', type(e), e)
