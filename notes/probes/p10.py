import numpy as np, pandas as pd, pyarrow as pa
from nested_pandas import NestedFrame, NestedDtype
from nested_pandas.series.ext_array import NestedExtensionArray as NEA
def tryit(tag, f):
    try:
        r = f(); print(tag, 'OK', r if r is not None else '')
    except Exception as e:
        print(tag, 'ERR', type(e).__name__, str(e)[:120])
def dump(nf):
    out = {}
    for c in nf.columns:
        out[c] = nf[c].array.chunked_array.to_pylist() if isinstance(nf[c].dtype, NestedDtype) else nf[c].tolist()
    return list(nf.index), out
def mk(nest='n', field='my f'):
    sa = pa.StructArray.from_arrays([pa.array([[2,1],[3]]), pa.array([[5.,None],[6.]])], names=['a',field])
    nf = NestedFrame({'x':[1,2]}, index=[0,1]); nf[nest] = NEA(sa); return nf
for nest, field, paths in [('n','my f',['n.my f', 'n.`my f`', '`n`.`my f`', '`n.my f`']), ('my n','f',['my n.f','`my n`.f','`my n`.`f`']), ('n','class',['n.class','n.`class`']), ('n','f',['n.f','`n`.f','n.`f`','`n.f`', 'n.g', 'm.f'])]:
  print('######', nest, field)
  for p in paths:
    tryit('getitem '+p, lambda: mk(nest,field)[p].tolist())
    tryit('sort '+p, lambda: dump(mk(nest,field).sort_values(p))[1][nest])
    tryit('dropna '+p, lambda: dump(mk(nest,field).dropna(subset=[p]))[1][nest])
    tryit('reduce '+p, lambda: mk(nest,field).reduce(lambda v: {'s': len(v)}, p)['s'].tolist())
    tryit('setitem '+p, lambda: (lambda c: (c.__setitem__(p, 0), dump(c)[1])[1])(mk(nest,field)))
    tryit('query '+p, lambda: dump(mk(nest,field).query(p + ' > 5'))[1][nest])
    tryit('eval '+p, lambda: mk(nest,field).eval(p + ' + 1').tolist())
