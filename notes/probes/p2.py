import numpy as np, pandas as pd, pyarrow as pa, traceback
import nested_pandas as npd
from nested_pandas.series.ext_array import NestedExtensionArray as NEA

def show(tag, arr):
    ca = arr.chunked_array if isinstance(arr, NEA) else arr
    print(tag, ca.to_pylist(), 'chunks', ca.num_chunks)
def tryit(tag, f):
    try:
        r = f(); print(tag, 'OK', r if r is not None else '')
    except Exception as e:
        print(tag, 'ERR', type(e).__name__, str(e)[:200])

sa = pa.StructArray.from_arrays(
    [pa.array([[1,2],[3],[],[4,5,6]]), pa.array([[1.,2.],[3.],[],[4.,5.,6.]])],
    names=['a','b'])
arr = NEA(sa)
print("=== sliced array: offsets & set_flat_field")
sl = arr[1:]
show('slice', sl)
print('offsets', sl.list_offsets.to_pylist(), 'lens', sl.list_lengths, 'flat', sl.flat_length)
s = pd.Series(sl, index=[11,12,13], name='n')
print(s.nest.to_flat())
tryit('with_flat on slice', lambda: show('r', s.nest.with_flat_field('c', [10,20,30,40]).array))
tryit('with_filled on slice', lambda: show('r', s.nest.with_filled_field('c', [7,8,9]).array))
tryit('get_flat_index', lambda: list(s.nest.get_flat_index()))
print("=== multi chunk")
mc = NEA(pa.chunked_array([sa.slice(0,2), sa.slice(2,2)]))
s2 = pd.Series(mc, index=[10,11,12,13], name='n')
print('offsets', mc.list_offsets.to_pylist(), 'lens', mc.list_lengths)
tryit('with_flat on mc', lambda: show('r', s2.nest.with_flat_field('c', [10,20,30,40,50,60]).array))
tryit('with_list on mc', lambda: show('r', s2.nest.with_list_field('c', pa.array([[1,2],[3],[],[4,5,6]])).array))
tryit('to_flat mc', lambda: s2.nest.to_flat().to_dict('list'))
print("=== setitem ragged")
a3 = NEA(sa)
tryit('setitem ragged dict', lambda: a3.__setitem__(0, {'a':[1,2,3],'b':[1.0]}))
show('after', a3)
tryit('validate after', lambda: NEA._validate(a3.chunked_array))
tryit('list_lengths', lambda: a3.list_lengths)
a4 = NEA(sa)
tryit('setitem None', lambda: a4.__setitem__(0, None))
show('after None', a4); print(a4.isna(), a4.list_lengths, a4.flat_length)
s4 = pd.Series(a4, index=[10,11,12,13]); print(s4.nest.to_flat().to_dict('list'))
# physical layout after setting None
ch = a4.chunked_array.chunk(0)
print('child a', ch.field(0).to_pylist(), 'offs', ch.field(0).offsets.to_pylist(), 'validity', ch.is_valid().to_pylist())
a5 = NEA(sa)
tryit('setitem df', lambda: a5.__setitem__(1, pd.DataFrame({'a':[7,8],'b':[7.,8.]})))
show('after df', a5)
a6 = NEA(sa)
tryit('setitem df wrong col order', lambda: a6.__setitem__(1, pd.DataFrame({'b':[7.,8.],'a':[7,8]})))
show('after', a6)
a7 = NEA(sa)
tryit('setitem mask all false', lambda: a7.__setitem__(np.array([False]*4), pd.DataFrame({'a':[7,8],'b':[7.,8.]})))
a8 = NEA(sa)
tryit('setitem int array w/ list of dfs', lambda: a8.__setitem__(np.array([3,0]), [pd.DataFrame({'a':[7],'b':[7.]}), pd.DataFrame({'a':[8,8],'b':[8.,8.]})]))
show('after', a8)
a9 = NEA(pa.chunked_array([sa.slice(0,2), sa.slice(2,2)]))
tryit('setitem mc', lambda: a9.__setitem__(2, pd.DataFrame({'a':[7],'b':[7.]})))
show('after mc', a9)
print("=== take w/ fill")
t = arr.take([0,-1,2], allow_fill=True)
show('take fill', t); print(t.isna(), t.list_lengths)
ch = t.chunked_array.chunk(0); print('child a', ch.field(0).to_pylist(), ch.field(0).offsets.to_pylist())
t = arr.take([0,-1,2], allow_fill=True, fill_value=pd.DataFrame({'a':[9],'b':[9.]}))
show('take fill df', t)
