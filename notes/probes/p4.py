import numpy as np, pandas as pd, pyarrow as pa, traceback, pickle, io
import nested_pandas as npd
from nested_pandas import NestedFrame
from nested_pandas.series.ext_array import NestedExtensionArray as NEA
from nested_pandas.series.packer import pack_flat, pack_lists, pack_seq, pack

def tryit(tag, f):
    try:
        r = f(); print(tag, 'OK', r if r is not None else '')
    except Exception as e:
        print(tag, 'ERR', type(e).__name__, str(e)[:300])
def dump(nf):
    out = {}
    for c in nf.columns:
        if isinstance(nf[c].dtype, npd.NestedDtype):
            out[c] = nf[c].array.chunked_array.to_pylist()
        else:
            out[c] = nf[c].tolist()
    return list(nf.index), out

sa = pa.StructArray.from_arrays(
    [pa.array([[1,2,3],[],[],[4,5,6],[7]]), pa.array([[3.,1.,2.],[],[],[6.,None,4.],[float('nan')]])],
    names=['a','b'], mask=pa.array([False,True,False,False,False]))
nf = NestedFrame({'x':[5,4,3,2,1]}, index=['r','q','r','p','o'])
nf['n'] = NEA(sa)
print(dump(nf))
print("=== query nested")
tryit('q a>1', lambda: dump(nf.query('n.a > 1')))
tryit('q b>1.5', lambda: dump(nf.query('n.b > 1.5')))
tryit('q base', lambda: dump(nf.query('x > 2')))
tryit('q mixed', lambda: dump(nf.query('x > 2 and n.a > 1')))
tryit('q a>100', lambda: dump(nf.query('n.a > 100')))
print("=== sort nested")
tryit('sort n.b', lambda: dump(nf.sort_values('n.b')))
tryit('sort n.b desc nafirst', lambda: dump(nf.sort_values('n.b', ascending=False, na_position='first')))
tryit('sort base', lambda: dump(nf.sort_values('x')))
print("=== dropna nested")
tryit('dropna on_nested', lambda: dump(nf.dropna(on_nested='n')))
tryit('dropna subset n.b', lambda: dump(nf.dropna(subset='n.b')))
tryit('dropna subset [n.b]', lambda: dump(nf.dropna(subset=['n.b'])))
tryit('dropna base subset n', lambda: dump(nf.dropna(subset='n')))
tryit('dropna base', lambda: dump(nf.dropna()))
print("=== eval")
tryit('eval n.a+1', lambda: nf.eval('n.a + 1').to_dict())
tryit('eval assign', lambda: dump(nf.eval('n.c = n.a * 2')))
tryit('eval new nest', lambda: dump(nf.eval('m.c = n.a * 2')))
tryit('eval multi', lambda: dump(nf.eval('n.c = n.a * 2\nn.d = n.c + 1')))
print("=== reduce")
calls=[]
def f(x, a, b, *extra, **kw):
    calls.append((x, a.tolist(), b.tolist(), extra, kw)); return {'s': len(a), 'o.v': a*2}
tryit('reduce', lambda: dump(nf.reduce(f, 'x', 'n.a', 'n.b', 7, k=1)))
print(calls)
from nested_pandas.utils import count_nested
tryit('count_nested', lambda: dump(count_nested(nf, 'n')))
tryit('count_nested by', lambda: dump(count_nested(nf, 'n', by='a', join=False)))
