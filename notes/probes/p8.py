import numpy as np, pandas as pd, pyarrow as pa, pickle
import nested_pandas as npd
from nested_pandas import NestedFrame, NestedDtype
from nested_pandas.series.ext_array import NestedExtensionArray as NEA
from nested_pandas.series.utils import *
def tryit(tag, f):
    try:
        r = f(); print(tag, 'OK', r if r is not None else '')
    except Exception as e:
        print(tag, 'ERR', type(e).__name__, str(e)[:200])
print("=== C17 dtype")
import pyarrow.lib as pl
aliases = ['null','bool','boolean','i1','int8','i2','int16','i4','int32','i8','int64','u1','uint8','u2','uint16','u4','uint32','u8','uint64','f2','halffloat','float16','f4','float','float32','f8','double','float64','string','str','utf8','binary','large_string','large_str','large_utf8','large_binary','binary_view','string_view','date32','date64','date32[day]','date64[ms]','time32[s]','time32[ms]','time64[us]','time64[ns]','timestamp[s]','timestamp[ms]','timestamp[us]','timestamp[ns]','duration[s]','duration[ms]','duration[us]','duration[ns]','month_day_nano_interval']
ok=[];bad=[]
for a in aliases:
    try:
        t = pa.type_for_alias(a)
    except Exception as e:
        bad.append(a); continue
    d = NestedDtype.from_fields({'x': t})
    try:
        d2 = NestedDtype.construct_from_string(d.name)
        ok.append((a, str(t), d2 == d, hash(d2)==hash(d)))
    except TypeError as e:
        ok.append((a, str(t), 'TypeError'))
print(ok); print('bad aliases', bad)
for t in [pa.timestamp('ns', tz='UTC'), pa.decimal128(10,2), pa.list_(pa.int64()), pa.dictionary(pa.int32(), pa.string()), pa.struct({'q':pa.int8()}), pa.binary(4)]:
    d = NestedDtype.from_fields({'x': t, 'y': pa.int8()})
    tryit(d.name, lambda: NestedDtype.construct_from_string(d.name))
d = NestedDtype.from_fields({'a': pa.int64(), 'b': pa.string()})
print(d == NestedDtype.from_fields({'b': pa.string(), 'a': pa.int64()}), pickle.loads(pickle.dumps(d)) == d, d.to_pandas_arrow_dtype(), NestedDtype.from_pandas_arrow_dtype(d.to_pandas_arrow_dtype()) == d)
print(d == 'nested<a: [int64], b: [string]>', pd.api.types.pandas_dtype('nested<a: [int64], b: [string]>') == d)
tryit('weird name', lambda: NestedDtype.construct_from_string(NestedDtype.from_fields({'a: [x], b': pa.int64()}).name))
tryit('trunc', lambda: NestedDtype.construct_from_string('nested<a: [int64]'))
tryit('empty', lambda: NestedDtype.construct_from_string('nested<>'))
tryit('dup', lambda: NestedDtype.construct_from_string('nested<a: [int64], a: [double]>'))
tryit('large_list name', lambda: (NestedDtype(pa.struct({'a': pa.large_list(pa.int64())})).name))
print("=== C19 interchange")
sa = pa.StructArray.from_arrays([pa.array([[1,2,3],[],[],[4,None,6],[7]]), pa.array([['a','b','c'],[],[],['d',None,'f'],['g']])], names=['a','b'], mask=pa.array([False,True,False,False,False]))
arr = NEA(sa)
ls = arr.chunked_list_struct_array; print(ls.to_pylist()); print(ls.type)
back = NEA(ls); print(back.chunked_array.to_pylist())
sl = arr[1:]; ls = sl.chunked_list_struct_array; print('slice', ls.to_pylist()); print(NEA(ls).chunked_array.to_pylist())
tk = arr.take([4,3,0,1]); print('take', tk.chunked_list_struct_array.to_pylist())
# fields w/ different offsets (same lengths): one field sliced from a larger buffer
f1 = pa.array([[9],[1,2],[3]]).slice(1); f2 = pa.array([['a','b'],['c']])
tryit('diff offsets construct', lambda: NEA(pa.StructArray.from_arrays([f1,f2], names=['a','b'])).chunked_array.to_pylist())
s = pd.Series(arr, index=range(5), name='n')
tryit('astype arrow', lambda: s.astype(pd.ArrowDtype(arr.dtype.pyarrow_dtype)).tolist())
tryit('astype arrow back', lambda: s.astype(pd.ArrowDtype(arr.dtype.pyarrow_dtype)).astype(arr.dtype).array.chunked_array.to_pylist())
tryit('astype liststruct', lambda: s.astype(pd.ArrowDtype(arr._pyarrow_list_struct_dtype)).tolist())
tryit('astype liststruct back', lambda: s.astype(pd.ArrowDtype(arr._pyarrow_list_struct_dtype)).astype(arr.dtype).array.chunked_array.to_pylist())
tryit('pa.array(s)', lambda: pa.array(s).to_pylist())
tryit('pa.array(s, liststruct)', lambda: pa.array(s, type=arr._pyarrow_list_struct_dtype).to_pylist())
tryit('widen', lambda: s.astype(NestedDtype.from_fields({'a': pa.float64(), 'b': pa.large_string()})).array.chunked_array.to_pylist())
tryit('Table.from_pandas', lambda: pa.Table.from_pandas(s.to_frame()).column('n').to_pylist())
