#!/bin/bash
# applies every kept seeded change in turn, runs the check(s) recorded in its meta.json (quick tier), reverts; prints one line per change
cd /verif
for d in seeded/*/; do
  name=$(basename "$d")
  ids=$(python3 -c "import json;print(' '.join(json.load(open('$d/meta.json'))['caught_by'].split(',')))")
  res=""
  for id in $ids; do
    out=$(tools/try_mutant.sh "/verif/$d/patch.diff" "$id" 2>&1 | grep -c "^VIOLATION")
    res="$res $id:$([ "$out" -gt 0 ] && echo CAUGHT || echo missed)"
  done
  echo "$name ->$res"
done
