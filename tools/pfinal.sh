#!/bin/bash
# the registered checks themselves, in parallel, WITH evidence: tools/pfinal.sh <tier> [parallel=6] [IDs...]
tier="$1"; par="${2:-6}"; shift 2 2>/dev/null
ids="${@:-C01 C02 C03 C04 C05 C06 C07 C08 C09 C10 C11 C12 C13 C14 C15 C16 C17 C18 C19}"
cd /verif
for id in $ids; do echo "$id $tier"; done | xargs -P "$par" -L1 bash -c '
  out=$(timeout 14000 ./check "$0" --tier "$1" 2>&1 | grep -v "^note:\|Warning\|WARNING\|^  " | tail -4 | tr "\n" " " | cut -c1-700)
  echo "$0 :: $out"'
