#!/usr/bin/env python3
"""rewrite the table of DESIGN.md section 13.8 from seeded/*/meta.json (rows between the table header and '### 13.9')"""
import glob, json, os, re
D = '/verif/DESIGN.md'
s = open(D).read()
head = "| seeded change | written against | caught by | needs |\n|---|---|---|---|\n"
a = s.index(head) + len(head)
b = s.index("### 13.9")
def key(n):
    m = re.match(r'^(R(\d+)-|REG-)?(C\d+)', n)
    grp = 0 if not m.group(1) else (100 if m.group(1) == 'REG-' else int(m.group(2)))
    return (grp, n)
rows = []
for d in sorted(glob.glob('/verif/seeded/*/'), key=lambda p: key(os.path.basename(p.rstrip('/')))):
    n = os.path.basename(d.rstrip('/'))
    m = json.load(open(d + 'meta.json'))
    needs = m['needs_to_manifest'].replace('|', '/').replace('\n', ' ')
    rows.append(f"| {n} | {m['breaks_property']} | {m['caught_by']} | {needs} |")
s = s[:a] + "\n".join(rows) + "\n\n" + s[b:]
open(D, 'w').write(s)
print(len(rows), "rows")
