#!/bin/bash
# usage: confirm_mutant.sh <dir with patch.diff demo.py> — confirms in a scratch worktree: demo passes without,
# fails with the patch, existing suite passes with the patch. Prints one summary line. Removes the worktree.
d="$1"; w=$(mktemp -d /tmp/confirm.XXXXXX); rmdir "$w"
git -C /repo worktree add -q --detach "$w" HEAD || exit 2
printf '__version__ = "0.0.0"\nversion = __version__\n' > "$w/src/nested_pandas/_version.py"
run() { (cd "$w" && PYTHONPATH="$w/src" PYTHONDONTWRITEBYTECODE=1 timeout 600 /venv/bin/python "$d/demo.py" >/dev/null 2>&1); echo $?; }
before=$(run)
git -C "$w" apply "$d/patch.diff"; applied=$?
after=$(run)
suite=$(cd "$w" && PYTHONPATH="$w/src" PYTHONDONTWRITEBYTECODE=1 timeout 1500 /venv/bin/python -m pytest tests -q -p no:cacheprovider --deselect tests/nested_pandas/e2e_tests/test_issue89.py 2>&1 | tail -1)
git -C /repo worktree remove --force "$w"
echo "$d: applies=$applied demo_without=$before demo_with=$after suite=[$suite]"
