#!/usr/bin/env python3
"""debug helper: evaluate an expression in the context (P, L) of a replay's coq term.
usage: evalcase.py <replay.json> '<coq expr using P and L>'   (expr 'MODEL' / 'SPEC' / 'IMPL' pick the chk_col args)"""
import json, sys, subprocess, tempfile, os, re
r = json.load(open(sys.argv[1]))
t = r["coq_term"]
i = t.index(" in match chk_")
prefix = t[:i]
m = re.search(r"match (chk_\w+) P L ", t)
expr = sys.argv[2]
hdr = """From Coq Require Import String List Arith Bool ZArith.
Import ListNotations.
From NP Require Import Base Values Arrow Abs Kernels ExtArray Logical Checks.
Open Scope string_scope.
Open Scope list_scope.
Open Scope nat_scope.
"""
with tempfile.TemporaryDirectory() as d:
    fn = os.path.join(d, "t.v")
    open(fn, "w").write(hdr + f"Eval vm_compute in {prefix} in ({expr})).\n")
    p = subprocess.run(["coqc", "-Q", "/verif/coq/theories", "NP", fn], capture_output=True, text=True)
    print(" ".join(p.stdout.split())[:6000], p.stderr[-1500:])
