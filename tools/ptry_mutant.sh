#!/bin/bash
# usage: ptry_mutant.sh <patch.diff> <ID> [<ID>...] - like try_mutant.sh but in a scratch worktree of /repo HEAD (VERIF_REPO_SRC):
# /repo's working tree is not touched, so it may run next to other checks
patch="$1"; shift
w=$(mktemp -d /tmp/ptry.XXXXXX); rmdir "$w"
git -C /repo worktree add -q --detach "$w" HEAD || exit 2
printf '__version__ = "0.0.0"\nversion = __version__\n' > "$w/src/nested_pandas/_version.py"
trap 'git -C /repo worktree remove --force "$w"' EXIT
git -C "$w" apply "$patch" || { echo "patch does not apply"; exit 2; }
cd /verif
for id in "$@"; do
  echo "== $id"
  VERIF_REPO_SRC="$w/src" VERIF_NO_EVIDENCE=1 ./check "$id" --tier "${TIER:-quick}" 2>&1 | grep -v "^KNOWN-FINDING\|^note:" | cut -c1-300 | tail -4
done
