#!/bin/bash
# every kept seeded change against the check(s) recorded for it, in parallel: each worker applies the patches in its OWN scratch
# worktree of /repo HEAD (VERIF_REPO_SRC points the harness there; evidence and replays go to /tmp: VERIF_NO_EVIDENCE).
# usage: tools/prun_seeded.sh [workers=6] > log
par="${1:-6}"
cd /verif
make -C coq >/dev/null 2>&1
mapfile -t all < <(ls -d seeded/*/ | xargs -n1 basename)
for k in $(seq 0 $((par - 1))); do
  (
    w=/tmp/rs/w$k
    rm -rf "$w"; git -C /repo worktree prune
    git -C /repo worktree add -q --detach "$w" HEAD || exit 2
    printf '__version__ = "0.0.0"\nversion = __version__\n' > "$w/src/nested_pandas/_version.py"
    for idx in $(seq $k $par $((${#all[@]} - 1))); do
      name=${all[$idx]}
      ids=$(python3 -c "import json;print(' '.join(json.load(open('seeded/$name/meta.json'))['caught_by'].split(',')))")
      res=""
      if git -C "$w" apply "/verif/seeded/$name/patch.diff" 2>/dev/null; then
        for id in $ids; do
          out=$(VERIF_REPO_SRC="$w/src" VERIF_NO_EVIDENCE=1 ./check "$id" --tier quick 2>&1 | grep -c "^VIOLATION")
          res="$res $id:$([ "$out" -gt 0 ] && echo CAUGHT || echo missed)"
        done
      else
        res=" PATCH-DOES-NOT-APPLY"
      fi
      git -C "$w" checkout -q -- . ; git -C "$w" clean -fdq -e src/nested_pandas/_version.py
      echo "$name ->$res"
    done
    git -C /repo worktree remove --force "$w"
  ) &
done
wait
