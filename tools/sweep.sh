#!/bin/bash
# seed sweep on the unchanged tree: tools/sweep.sh <tier> <seed-from> <seed-to> [IDs...]   (evidence and replays go to /tmp: VERIF_NO_EVIDENCE)
tier="$1"; a="$2"; b="$3"; shift 3
ids="${@:-C01 C02 C03 C04 C05 C06 C07 C08 C09 C10 C11 C12 C13 C14 C15 C16 C17 C18 C19}"
cd /verif
for s in $(seq "$a" "$b"); do
  for id in $ids; do
    out=$(VERIF_NO_EVIDENCE=1 VERIF_SEED=$s timeout 3000 ./check "$id" --tier "$tier" 2>&1 | grep -v "^KNOWN-FINDING\|^note:\|Warning\|^  " | tail -3 | tr '\n' ' ' | cut -c1-400)
    echo "seed=$s $id :: $out"
  done
done
