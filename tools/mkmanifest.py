#!/usr/bin/env python3
"""Regenerates /verif/MANIFEST.json from the table below (keeps it schema-valid at all times)."""
import json, os, subprocess

ALL = [f"C{i:02d}" for i in range(1, 20)]

# property -> (level text, level note, technique, design ref)
CLAIMED = {}

def claim(pid, text, note, technique, ref):
    CLAIMED[pid] = (text, note, technique, ref)

exec(open(os.path.join(os.path.dirname(__file__), "claims.py")).read())

hook_commits = subprocess.run(["git", "-C", "/repo", "log", "--format=%H %s"], capture_output=True, text=True).stdout.splitlines()
hook = [l.split()[0] for l in hook_commits if "verif hook" in l]

manifest = {
    "version": 1,
    "setup_cmd": "cd /verif && /venv/bin/python tools/gen_alias_table.py && cd coq && coq_makefile -f _CoqProject -o Makefile && timeout 3000 make -j16",
    "hooks": {
        "guard": "NESTED_PANDAS_VERIF",
        "enable": "environment variable NESTED_PANDAS_VERIF=1 (set by /verif/check); pure Python, nothing to build: checks import /repo/src as it is",
        "baseline_off_cmd": "cd /repo && env -u NESTED_PANDAS_VERIF /venv/bin/python -m pytest -ra -q -p no:cacheprovider --timeout=900 --continue-on-collection-errors",
        "source_commits": hook,
        "add_only": True,
    },
    "engines": [
        {"name": "coq-model", "path": "/verif/coq", "serves_properties": sorted(CLAIMED),
         "kind_free_text": "Coq 8.16.1 development: hand-written Gallina model of nested-pandas (physical Arrow model, logical specs), theorems in theories/Props/Cxx.v"},
        {"name": "correspondence-harness", "path": "/verif/harness", "serves_properties": sorted(CLAIMED),
         "kind_free_text": "Python: runs the real library on generated inputs, reads the physical layout back out of pyarrow, writes cases_*.v, coqc evaluates model=impl / spec=impl / monitors with vm_compute"},
    ],
    "checks": [],
    "notes": "Technique: machine-checked proof in Coq + correspondence check; see DESIGN.md. known_findings.json lists unrepaired genuine defects; fix: commits in /repo are listed there as fixed.",
    "not_applicable": [],
}
for pid in ALL:
    if pid in CLAIMED:
        text, note, technique, ref = CLAIMED[pid]
        manifest["checks"].append({
            "property_id": pid,
            "quick_cmd": f"./check {pid} --tier quick",
            "thorough_cmd": f"./check {pid} --tier thorough",
            "evidence_file": f"/verif/evidence/{pid}.json",
            "replay_cmd_template": f"./check {pid} --replay {{path}}",
            "engine": "coq-model",
            "level_claimed": {"category": "proof", "text": text, "design_ref": ref},
            "level_note": note,
            "technique": technique,
        })
    else:
        manifest["not_applicable"].append({"property_id": pid, "reason": "check under construction in this session (model, theorems and stream not yet complete); not claimed yet"})
json.dump(manifest, open("/verif/MANIFEST.json", "w"), indent=1)
print("claimed:", sorted(CLAIMED))
