#!/bin/bash
# usage: try_mutant.sh <patch.diff> <ID> [<ID>...]   — applies the patch to /repo, runs the quick checks, reverts
patch="$1"; shift
cd /repo || exit 2
git diff --quiet || { echo "repo dirty"; exit 2; }
git apply "$patch" || { echo "patch does not apply"; exit 2; }
trap 'git -C /repo checkout -- . ' EXIT
cd /verif
for id in "$@"; do
  echo "== $id"
  VERIF_NO_EVIDENCE=1 ./check "$id" --tier "${TIER:-quick}" 2>&1 | grep -v "^KNOWN-FINDING\|^note:" | cut -c1-300 | tail -4
done
