#!/bin/bash
# parallel seed sweep on the unchanged tree: tools/psweep.sh <tier> <seed-from> <seed-to> [parallel=5] [IDs...]
# (evidence and replays go to /tmp: VERIF_NO_EVIDENCE; the build step is serialised by the checks' own lock, every check
# writes only its own run directory and its own Props/<ID>.vo)
tier="$1"; a="$2"; b="$3"; par="${4:-5}"; shift 4 2>/dev/null
ids="${@:-C01 C02 C03 C04 C05 C06 C07 C08 C09 C10 C11 C12 C13 C14 C15 C16 C17 C18 C19}"
cd /verif
for s in $(seq "$a" "$b"); do for id in $ids; do echo "$s $id $tier"; done; done | xargs -P "$par" -L1 bash -c '
  out=$(VERIF_NO_EVIDENCE=1 VERIF_SEED=$0 timeout 6000 ./check "$1" --tier "$2" 2>&1 | grep -v "^KNOWN-FINDING\|^note:\|Warning\|WARNING\|^  " | tail -3 | tr "\n" " " | cut -c1-400)
  echo "seed=$0 $1 :: $out"'
