#!/usr/bin/env python3
"""keep_mutant.py <srcdir> <name> <property> <caught_by> <needs...>: copy a confirmed seeded change into /verif/seeded/<name>/"""
import json, os, shutil, sys, subprocess
src, name, prop, caught = sys.argv[1:5]
needs = " ".join(sys.argv[5:])
dst = f"/verif/seeded/{name}"
os.makedirs(dst, exist_ok=True)
for f in ("patch.diff", "demo.py", "notes.md"):
    if os.path.exists(os.path.join(src, f)):
        shutil.copy(os.path.join(src, f), os.path.join(dst, f))
head = subprocess.run(["git", "-C", "/repo", "rev-parse", "HEAD"], capture_output=True, text=True).stdout.strip()
meta = {"breaks_property": prop, "needs_to_manifest": needs, "author": "independent sub-agent given only the property text and a scratch worktree",
        "confirmed": {"how": "tools/confirm_mutant.sh (scratch worktree of /repo HEAD): demo.py exits 0 without the patch, non-zero with it; existing suite passes with the patch (311 passed, 1 network test deselected)",
                      "repo_head": head},
        "checked_with": f"tools/try_mutant.sh seeded/{name}/patch.diff {caught.split(',')[0] if caught != 'MISSED' else prop}",
        "caught_by": caught}
json.dump(meta, open(os.path.join(dst, "meta.json"), "w"), indent=1)
print("kept", dst)
