# executed by mkmanifest.py
NOTE = ("Trusted: Coq 8.16.1 kernel + vm_compute (case evaluation, _refuted witnesses); no axioms (every theorem of the Props file: "
        "Print Assumptions = Closed under the global context, re-checked on every run); the hand-written Gallina model (coq/theories) "
        "is tied to /repo by the correspondence check of every run (generated inputs, real physical layouts read back through "
        "pyarrow accessors, evaluated against model and spec inside coqc); Arrow kernels (take/filter/if_else/combine_chunks) and "
        "pandas operations enter through canonical executable instances whose logical behaviour is what the theorems use; "
        "harness generators / tokenisation / verdict reader; see DESIGN.md section 8.")
claim("C01",
      "Theorems (Props/C01.v): the invariant inv_b (well-formed offsets, identical offsets windows, storage schema = dtype, present rows hold lists, "
      "missing rows hide nothing) is preserved by EVERY step of the array-level operation alphabet (Steps.v) and hence holds of every array born "
      "along a history of ANY length (trace_inv, induction over the op list); it implies rectangular rows and schema = dtype; the validating "
      "constructor accepts only rectangular input and refuses every ragged one. Correspondence: every entry point (constructor, from_sequence, "
      "pack_seq, Series(dtype), pack_lists, from_lists, take/reindex fill value, astype, read_parquet) offered well-formed and ragged content, "
      "plus random histories; EVERY array born during a step (guarded hook) is read back and checked by the Coq monitor wf_rect_b.",
      NOTE, "Coq proof (inductive invariant over operation histories) + correspondence check with born-array monitor", "DESIGN.md 6/C01")
claim("C03",
      "Theorems (Props/C03.v) prove for EVERY well-formed physical layout (any chunking, any offsets base, any size) that each "
      "modelled view equals the corresponding function of the one logical column abs p; the correspondence check runs all views "
      "of the real object on ~15 layout recipes (incl. objects that have lived through reads and in-place writes) and compares them with model and spec inside coqc.",
      NOTE, "Coq proof (refinement physical model -> logical spec) + correspondence check", "DESIGN.md 6/C03")
claim("C04",
      "Theorem (Props/C04.v): two physical columns satisfying the invariant that denote the same logical column give the same logical results "
      "(or both fail) under ANY history of the operation alphabet, and all read-only views coincide; corollary of the all-layout refinement "
      "theorems; the single layout hypothesis (missing rows hide no children) is shown necessary by a refuted witness = known finding. "
      "Correspondence: the same operation with identical arguments on 4-8 layouts of each content, each compared with model, spec and each other.",
      NOTE, "Coq proof (layout independence as corollary of refinement) + cross-layout correspondence check", "DESIGN.md 6/C04")
claim("C05",
      "Theorems (Props/C05.v): for EVERY column satisfying the invariant and every indexer / value in the property's domain, int / slice / mask / "
      "int-array selection, take (negatives, fill), concat, copy, dropna, pickle and element assignment (cumulative-sum masked replace, argsort "
      "of distinct targets) denote exactly Python sequence semantics on the list of rows, errors included, and so do histories of any length. "
      "Correspondence: three-way (real library, Coq model/spec, plain Python list) on 15 layouts, isolation probe on every result, frame-level row moves.",
      NOTE, "Coq proof (refinement to Python sequence semantics) + three-way correspondence check", "DESIGN.md 6/C05")
claim("C06",
      "Theorems (Props/C06.v): view_fields / pop_fields / set_list_field / set_flat_field / fill_field_lists on EVERY column satisfying the invariant "
      "denote spec_set_field / spec_select_fields, whose frame condition (same missing rows, other fields and types identical, same row lengths, "
      "edited field = supplied values in flat order) is proved separately; results satisfy the invariant again. Correspondence: every edit form "
      "through array, accessor and NestedFrame['n.f']=... on 15 layouts with whole-frame before/after snapshots.",
      NOTE, "Coq proof (refinement + frame condition) + correspondence check", "DESIGN.md 6/C06")
claim("C19",
      "Theorems (Props/C19.v): on EVERY column satisfying the invariant the list-of-structs export holds the same records per row (missing rows stay "
      "missing), import of the export denotes the same column and keeps the invariant, transposing twice is the identity, import of any well-formed "
      "list-of-structs chunk keeps its rows. Correspondence: export/import/double transposition/astype/Table.from_pandas/casts on 15 layouts.",
      NOTE, "Coq proof (transposition refinement) + correspondence check", "DESIGN.md 6/C19")
claim("C02",
      "Theorems (Props/C02.v): for EVERY flat table (any length, any multiset of labels in any order) flatten(pack_flat t) is exactly the stable sort of t "
      "by label (permutation, sorted, original order inside each label - proved, which pins it uniquely), the packed labels are distinct and ascending, no "
      "empty row is invented; for EVERY column with distinct ascending labels pack(flatten) gives it back minus the rows without elements; an unsorted index "
      "is refused by pack_sorted. Correspondence: tables up to 300 records and all label shapes, the list and element views on 15 layouts, dtypes compared.",
      NOTE, "Coq proof (packer offsets/grouping and stable sort) + correspondence check", "DESIGN.md 6/C02")
claim("C07",
      "Theorems (Props/C07.v): for EVERY list of rows and EVERY per-record predicate, the nested query mechanism (ordinal re-index, boolean selection, "
      "re-pack by first occurrences of the surviving ordinals, aligned write-back) gives row by row exactly the satisfying records in order, a row left "
      "without records is missing, row count unchanged; wrong mask length refused. Correspondence: generated conditions (comparisons, arithmetic, & | ~, "
      "backticks) on frames with all label kinds and 15 layouts; per-record truth values from plain pandas on one row at a time; whole-frame snapshots; "
      "base-layer and mixed-layer conditions.",
      NOTE, "Coq proof (regroup-filter theorem by induction over rows) + correspondence check", "DESIGN.md 6/C07")
claim("C09",
      "Theorems (Props/C09.v): for EVERY flat table and base labels the left join gives row i exactly the records carrying its label in original relative "
      "order (missing when none); the same for every row of any join plan; from_flat keeps the first occurrence per label in first-occurrence order. "
      "Correspondence: four join kinds, on=column, dtype, from_flat, from_lists, nest_lists, new nest by setitem; row set/order vs plain pandas join.",
      NOTE, "Coq proof (label lookup in the packed column) + correspondence check", "DESIGN.md 6/C09")
claim("C11",
      "Theorems (Props/C11.v): with the pandas sort as a PARAMETER (any permutation of the flat table keeping the ordinal ascending; no stability assumed) "
      "every row's table is a permutation of its own records, rows without records come back missing, and every row is sorted by ANY order rec_le when the "
      "sorter's output is; a sorter not led by the ordinal is refused; the canonical sorter meets the contract. Correspondence: verified checker "
      "(row-wise multiset equality + sortedness under the per-case order) on ties / nulls / NaN / per-key directions / na_position, 15 layouts.",
      NOTE, "Coq proof (relational sort specification) + verified checker on the real results", "DESIGN.md 6/C11")
claim("C12",
      "Theorems (Props/C12.v): for EVERY list of rows and every how/thresh/subset, nested dropna keeps row by row exactly the complete records in order, "
      "emptied rows become missing, row count unchanged (same regroup theorem as C07 with pandas' row predicate). Correspondence: all target forms "
      "(on_nested, dotted subset, both, conflicting, two layers, base), whole-frame snapshots.",
      NOTE, "Coq proof (regroup-filter theorem) + correspondence check", "DESIGN.md 6/C12")
claim("C10",
      "Theorems (Props/C10.v): for EVERY list of rows and EVERY selection of base and nested columns (any order, any multiplicity) the zip of per-column "
      "iterators calls the function exactly once per row, in row order, with that row's base scalars and that row's own nested values in stored "
      "order; count_nested = per-row record counts (missing = 0). Correspondence: a recording function on frames with all label kinds and 14 layouts, "
      "extra positional / keyword arguments, all return shapes incl. dotted outputs, count_nested with by / join; results compared with what the function returned.",
      NOTE, "Coq proof (zip of iterators = per-row calls) + correspondence check with a recording function", "DESIGN.md 6/C10")
claim("C17",
      "Theorems (Props/C17.v): for EVERY field list with distinct names free of ', ' and ': ' and element types that are aliases of themselves, the string "
      "name parses back to exactly that dtype (CPython split semantics modelled; split(join) lemma for any 2-char separator), so the name determines the "
      "dtype; a non-alias element type is REFUSED, never mis-parsed; non-nested<...> strings are refused; the side condition on element types is "
      "discharged by computation for the WHOLE alias catalogue of the installed pyarrow (table regenerated from the live library on every run). "
      "Correspondence: name rendering and parser vs the Coq model on every alias, parametric types by instantiation, mangled strings, equality / hash / "
      "Arrow dtype round trip / pickle, declared dtype = storage type after edits (incl. same-kind parametric replacements).",
      NOTE, "Coq proof (string round trip, catalogue discharged by vm_compute) + correspondence check", "DESIGN.md 6/C17")
claim("C14",
      "Theorems (Props/C14.v): with pandas' clean_column_name as a PARAMETER (one fact used: its output has no '.'), for EVERY frame schema and every nest / "
      "field name without '.' and '`' (spaces, punctuation, keywords, cross-layer collisions included), spelled plainly or with backticks around both parts, "
      "item access, item assignment, reduce, sort_values and dropna resolve the path to that very field, and so does the evaluator route of query / eval; "
      "literal dotted base column takes precedence in item access; unknown path = error in every reading operation; listing consistent. Correspondence: one "
      "fresh frame per (17 name patterns x 5 spellings x 7 operations), the touched column observed from data, compared with the Coq resolvers.",
      NOTE, "Coq proof (path resolvers over strings, cleaner as parameter) + correspondence check on fresh frames", "DESIGN.md 6/C14")
claim("C16",
      "Theorems (Props/C16.v): the only per-frame state beside the data is the alias table; with the evaluation in try/finally it is None after ANY history of "
      "successful / failing evaluations and other operations, so every later path resolution equals that on a fresh frame; the model without the finally is "
      "refuted by the witness that was a genuine violation of the unrepaired code (fixed). Correspondence: exhaustive prefixes (<=2 quick, <=3 thorough, random "
      "to 8) over 16 failing / read-only operations followed by 12 probes compared with a fresh equal frame, data snapshot, observed alias state vs the Coq state machine.",
      NOTE, "Coq proof (state invariant over histories) + exhaustive-prefix correspondence check", "DESIGN.md 6/C16")
claim("C13",
      "Theorems (Props/C13.v): the value of an expression has one entry per flat record with the flat index; for EVERY list of rows and values of "
      "matching length an assignment keeps rows, missing rows and per-row record counts, the assigned field read back on the flat view is exactly the "
      "values, every other field is untouched, a wrong length is refused; a multi-line program on the nested rows IS the program on the flat table "
      "(every line sees earlier assignments). Correspondence: generated 1-3 line programs (existing / new field, new nest, value expressions, "
      "backticks, inplace or not, repeated labels incl. the flat-index-equals-index corner) vs the same program run by plain pandas on the flat table.",
      NOTE, "Coq proof (positional assignment and program/flat commutation) + correspondence check against plain pandas", "DESIGN.md 6/C13")
claim("C18",
      "Theorems (Props/C18.v), partial by design: in a typed model (class of the table, dtype class of every column, effect of every kind of operation read off "
      "the code) EVERY chain of operations of ANY depth from a closed frame ends in a closed frame; the listing is a dtype scan; concatenating UNEQUAL nested "
      "dtypes degrades to object (the property's restriction is necessary); the unrepaired from_lists is refuted (fixed). That pandas builds derived frames "
      "through _constructor and keeps equal extension dtypes on concat is a contract. Correspondence: all chains of depth 1, all pairs starting with an operation "
      "that re-creates or empties the frame, sampled other pairs (thorough: all pairs, 1500 triples, random to depth 8) over 32 operations; after every step class, "
      "dtypes, listings, dotted access and a nested query on the result; the model must predict every observed typing.",
      NOTE, "Coq proof (typed closure model, induction over chains) + exhaustive-to-depth correspondence check", "DESIGN.md 6/C18")
claim("C15",
      "Theorems (Props/C15.v), partial by design: in an explicit object model (objects -> array cells -> immutable storage; the library's writers rebind "
      "a cell's storage or an object's column, never write into storage) for EVERY well-formed heap and histories of ANY length: pure operations change no "
      "observation, an element write shows only in holders of the written cell, a rebinding operation only in its target, a deep copy shows the same data "
      "and is separated from everything, separation is preserved by every step, separated objects never interfere. Which pandas operations share or copy "
      "cells is pandas' object model (contract). Correspondence: all sequences to length 2 (3 thorough, random to 7) over 31 operations on a family of 9 "
      "related objects (two family shapes), every live object snapshotted around every step; the last result is probed both ways (write into arguments / "
      "receiver, write into the result).",
      NOTE, "Coq proof (object/cell/storage model, separation invariant over histories) + snapshot-all-objects correspondence check", "DESIGN.md 6/C15")
claim("C08",
      "Theorems (Props/C08.v), partial by design (the parquet codec is Arrow's: contract): the library's regrouping of partially loaded dotted columns as a "
      "pure function on the requested names, for EVERY request list: removal of the regrouped leaves by descending position = filtering them out, so the "
      "result holds exactly the other requested columns in request order followed by one struct per partially loaded nest with its requested leaves in "
      "request order; collected positions are list-typed leaves of dotted requests of that nest; full + partial of one nest refused; the removal order is "
      "essential (refuted witness). Correspondence: real files under every writer configuration (row groups, compression, dictionary, path / buffer, "
      "index kinds), full read by the library and by plain pyarrow (no metadata, struct of equal-length lists, same content), selections with interleaved "
      "fields of two nests compared with the full read and with the Coq model, reject_nesting, files written by plain pyarrow (well-formed, ragged, non-list leaf).",
      NOTE, "Coq proof (regrouping index arithmetic) + correspondence check on real parquet files", "DESIGN.md 6/C08")

# third-round additions (appended to the claim texts)
_MORE = {
    "C03": " Third round: the list view EXACTLY (a missing row is a null list) from well-formedness alone; list / element views of any field selection.",
    "C01": " Third round: the constructor and set_list_field ESTABLISH the layout part of the invariant (a missing row holds nothing: init_normalises, set_list_field_normalises) for any accepted input.",
    "C04": " Third round: the layout hypothesis 'missing rows hide nothing' is no longer an assumption about the input: the repaired constructor re-encodes such chunks (init_normalises), the former known finding is closed.",
    "C05": " Third round: a frame as columns taken with one indexer - row selection and reordering move whole rows (FrameRows.v).",
    "C06": " Third round: the index test of frame['nest.field'] = value cannot go wrong with distinct labels (and can with repeated ones: the open finding).",
    "C07": " Third round: the layer preflight and routing of query over expression trees with binary, unary and call nodes (Preflight.v).",
    "C08": " Third round: the CONTENT of a partially loaded nested column on the physical level = the selected fields of the full column (Io2.v).",
    "C10": " Third round: the argument scan and the packing of dotted outputs of reduce (Reduce2.v); count_nested(by=...) (CountBy.v).",
    "C11": " Third round: the one layer the keys name, and the ascending flags handed to the engine (Targets.v).",
    "C12": " Third round: the one layer on_nested / subset name, with an exact characterisation of refusal (Targets.v).",
    "C14": " Third round: for ANY path text what item access resolves to a field, reduce / sort_values / dropna resolve to the same field (Proofs_Names2).",
    "C19": " Third round: a list-of-structs input of any chunking and offsets base is stored with exactly its records.",
}
# rounds seven to nine
_MORE2 = {
    "C01": " Later rounds: a cast between nested dtypes as an entry point (Cast.v: widening refused as soon as a kept field holds an element, the column's own dtype an identity, a selection / re-ordering = the field selection); the packing of list columns - also of reduce's dotted outputs - refused when ragged whatever the chunking, stored when validation is skipped (refuted witness).",
    "C03": " Later rounds: the per-row numpy view iter_field_lists (NumpyView.v): row by row a function of the logical column, the dtype of a row decided by that row alone; the accessor read as a Mapping and after pandas in-place operations on the series (stream).",
    "C04": " Later rounds: the arrays handed to reduce's user function do not depend on the chunking; a whole-chunk conversion would (refuted witness).",
    "C05": " Later rounds: an offered table becomes a row by field NAME, whatever the order of its columns (Box.v; boxing by position refuted); iteration, len and access by position as an operation of the stream.",
}
for _m in (_MORE, _MORE2):
    for _pid, _t in _m.items():
        if _pid in CLAIMED:
            CLAIMED[_pid] = (CLAIMED[_pid][0] + _t,) + CLAIMED[_pid][1:]
