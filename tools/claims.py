# executed by mkmanifest.py
NOTE = ("Trusted: Coq 8.16.1 kernel + vm_compute; the hand-written model is tied to /repo by the correspondence check of "
        "every run (generated inputs, real physical layouts read back through pyarrow); Arrow kernels / pandas enter as "
        "named contracts with canonical instances; no axioms (Print Assumptions: Closed under the global context).")
claim("C03",
      "Theorems (Props/C03.v) prove for EVERY well-formed physical layout (any chunking, any offsets base, any size) that each "
      "modelled view equals the corresponding function of the one logical column abs p; the correspondence check runs all views "
      "of the real object on ~13 layout recipes and compares them with model and spec inside coqc.",
      NOTE, "Coq proof (refinement physical model -> logical spec) + correspondence check", "DESIGN.md 6/C03")
