# executed by mkmanifest.py
NOTE = ("Trusted: Coq 8.16.1 kernel + vm_compute; the hand-written model is tied to /repo by the correspondence check of "
        "every run (generated inputs, real physical layouts read back through pyarrow); Arrow kernels / pandas enter as "
        "named contracts with canonical instances; no axioms (Print Assumptions: Closed under the global context).")
claim("C03",
      "Theorems (Props/C03.v) prove for EVERY well-formed physical layout (any chunking, any offsets base, any size) that each "
      "modelled view equals the corresponding function of the one logical column abs p; the correspondence check runs all views "
      "of the real object on ~13 layout recipes and compares them with model and spec inside coqc.",
      NOTE, "Coq proof (refinement physical model -> logical spec) + correspondence check", "DESIGN.md 6/C03")

claim("C05",
      "Correspondence: every selection / take / concat / copy / dropna / pickle / element-assignment form is run on the real array in 11 "
      "layouts and compared three ways (Coq model, Coq spec = Python sequence semantics, a plain Python list); frame-level row moves keep "
      "each nested table with its base id. Theorems (Props/C05.v) cover the index arithmetic of the model (see file).",
      NOTE, "Coq proof (sequence semantics of the model) + three-way correspondence check", "DESIGN.md 6/C05")
