(* Proofs_Preflight.v — the preflight of query sees exactly the layers that occur in the expression (C07). *)
From Coq Require Import List Arith Bool Lia.
Import ListNotations.
From NP Require Import Base Preflight.

(* ---- helpers ---- *)

(* a usable induction principle for the nested inductive qx *)
Fixpoint qx_ind' (P : qx -> Prop) (Hf : forall l, P (QField l)) (Hc : P QConst)
  (Ho : forall k args, Forall P args -> P (QOp k args)) (e : qx) : P e :=
  match e with
  | QField l => Hf l
  | QConst => Hc
  | QOp k args =>
      Ho k args ((fix go (l : list qx) : Forall P l :=
                    match l with
                    | [] => Forall_nil P
                    | a :: t => Forall_cons a (qx_ind' P Hf Hc Ho a) (go t)
                    end) args)
  end.

Lemma add_key_in acc k x : In x (add_key acc k) <-> In x acc \/ x = k.
Proof.
  unfold add_key. destruct (existsb (Nat.eqb k) acc) eqn:E.
  - split; [auto|]. intros [H|H]; [exact H|]. subst.
    apply existsb_exists in E. destruct E as [y [Hy Ey]]. apply Nat.eqb_eq in Ey. subst. exact Hy.
  - rewrite in_app_iff. cbn. split.
    + intros [H|[H|[]]]; auto.
    + intros [H|H]; auto.
Qed.

Lemma add_key_nodup acc k : NoDup acc -> NoDup (add_key acc k).
Proof.
  intros Hn. unfold add_key. destruct (existsb (Nat.eqb k) acc) eqn:E; [exact Hn|].
  assert (Hk : ~ In k acc).
  { intros Hin. assert (existsb (Nat.eqb k) acc = true).
    { apply existsb_exists. exists k. split; [exact Hin|apply Nat.eqb_refl]. }
    congruence. }
  clear E. induction Hn as [|y acc Hy Hn IH]; cbn.
  - constructor; [intros []|constructor].
  - constructor.
    + rewrite in_app_iff. cbn. intros [H|[H|[]]]; [auto|]. subst. apply Hk. left. reflexivity.
    + apply IH. intros H. apply Hk. right. exact H.
Qed.

Lemma add_keys_in ks : forall acc x, In x (add_keys acc ks) <-> In x acc \/ In x ks.
Proof.
  unfold add_keys. induction ks as [|k ks IH]; intros acc x; cbn.
  - tauto.
  - rewrite IH, add_key_in. intuition congruence.
Qed.

Lemma add_keys_nodup ks : forall acc, NoDup acc -> NoDup (add_keys acc ks).
Proof.
  unfold add_keys. induction ks as [|k ks IH]; intros acc Hn; cbn; [exact Hn|].
  apply IH, add_key_nodup, Hn.
Qed.

(* the inner loop, over a generic per-operand function *)
Fixpoint go_keys (f : qx -> list nat) (l : list qx) (acc : list nat) : list nat :=
  match l with [] => acc | a :: t => go_keys f t (add_keys acc (f a)) end.

Lemma q_keys_op k args : q_keys (QOp k args) = go_keys q_keys args [].
Proof.
  cbn [q_keys]. generalize (@nil nat). induction args as [|a t IH]; intros acc; cbn; [reflexivity|apply IH].
Qed.

Lemma go_keys_in f l : forall acc x, In x (go_keys f l acc) <-> In x acc \/ exists a, In a l /\ In x (f a).
Proof.
  induction l as [|a t IH]; intros acc x; cbn.
  - split; [auto|]. intros [H|[a [[] _]]]. exact H.
  - rewrite IH, add_keys_in. split.
    + intros [[H|H]|[b [Hb Hx]]]; eauto.
    + intros [H|[b [[Hb|Hb] Hx]]]; subst; eauto.
Qed.

Lemma go_keys_nodup f l : forall acc, NoDup acc -> NoDup (go_keys f l acc).
Proof.
  induction l as [|a t IH]; intros acc Hn; cbn; [exact Hn|]. apply IH, add_keys_nodup, Hn.
Qed.

(* 1. the keys are exactly the layers occurring in the expression, each once *)
Theorem keys_are_the_layers e l : In l (q_keys e) <-> occurs l e = true.
Proof.
  induction e as [l'| |k args IH] using qx_ind'.
  - cbn. rewrite Nat.eqb_eq. split; [intros [H|[]]; auto|auto].
  - cbn. split; [intros []|discriminate].
  - rewrite q_keys_op, go_keys_in. cbn [occurs]. rewrite existsb_exists.
    rewrite Forall_forall in IH. split.
    + intros [[]|[a [Ha Hx]]]. exists a. split; [exact Ha|]. apply IH; assumption.
    + intros [a [Ha Hx]]. right. exists a. split; [exact Ha|]. apply IH; assumption.
Qed.

Theorem keys_nodup e : NoDup (q_keys e).
Proof.
  destruct e as [l'| |k args].
  - cbn. constructor; [intros []|constructor].
  - constructor.
  - rewrite q_keys_op. apply go_keys_nodup. constructor.
Qed.

(* 2. routing: refused exactly when two different layers occur; a nested filter exactly when all terms belong to one nest
      (and there is one); whole-row selection exactly when no nested field occurs *)
Theorem route_refuse e : m_query_route e = QRefuse <-> exists a b, a <> b /\ occurs a e = true /\ occurs b e = true.
Proof.
  pose proof (keys_nodup e) as Hn. pose proof (keys_are_the_layers e) as Hk.
  unfold m_query_route. destruct (q_keys e) as [|x [|y r]] eqn:E.
  - split; [discriminate|]. intros [a [b [_ [Ha _]]]]. apply Hk in Ha. destruct Ha.
  - assert (forall a b, a <> b -> occurs a e = true -> occurs b e = true -> False) as Hc.
    { intros a b Hab Ha Hb. apply Hk in Ha, Hb. cbn in Ha, Hb. destruct Ha as [|[]], Hb as [|[]]. congruence. }
    destruct x; (split; [discriminate|]); intros [a [b [Hab [Ha Hb]]]]; exfalso; eauto.
  - assert (exists a b, a <> b /\ occurs a e = true /\ occurs b e = true) as Hex.
    { exists x, y. split; [|split].
      - inversion Hn as [|? ? Hx _]; subst. intros ->. apply Hx. left. reflexivity.
      - apply Hk. left. reflexivity.
      - apply Hk. right. left. reflexivity. }
    destruct x; split; auto.
Qed.

Theorem route_nest e k : m_query_route e = QNest k <-> (k <> 0 /\ occurs k e = true /\ forall l, occurs l e = true -> l = k).
Proof.
  pose proof (keys_nodup e) as Hn. pose proof (keys_are_the_layers e) as Hk.
  unfold m_query_route. destruct (q_keys e) as [|x [|y r]] eqn:E.
  - split; [discriminate|]. intros [_ [Ha _]]. apply Hk in Ha. destruct Ha.
  - destruct x as [|x].
    + split; [discriminate|]. intros [Hk0 [Ha _]]. apply Hk in Ha. destruct Ha as [|[]]. congruence.
    + split.
      * intros H. injection H as <-. split; [discriminate|]. split.
        -- apply Hk. left. reflexivity.
        -- intros l Hl. apply Hk in Hl. destruct Hl as [|[]]. congruence.
      * intros [_ [Ha _]]. apply Hk in Ha. destruct Ha as [<-|[]]. reflexivity.
  - assert (x <> y) as Hxy.
    { inversion Hn as [|? ? Hx _]; subst. intros ->. apply Hx. left. reflexivity. }
    assert (~ (k <> 0 /\ occurs k e = true /\ forall l, occurs l e = true -> l = k)) as Hneg.
    { intros [_ [_ Hall]]. apply Hxy.
      rewrite (Hall x), (Hall y); [reflexivity| |]; apply Hk; cbn; auto. }
    destruct x; (split; [discriminate|]); intros H; exfalso; auto.
Qed.

Theorem route_base e : m_query_route e = QBase <-> (forall l, occurs l e = true -> l = 0).
Proof.
  pose proof (keys_nodup e) as Hn. pose proof (keys_are_the_layers e) as Hk.
  unfold m_query_route. destruct (q_keys e) as [|x [|y r]] eqn:E.
  - split; [|reflexivity]. intros _ l Hl. apply Hk in Hl. destruct Hl.
  - destruct x as [|x].
    + split; [|reflexivity]. intros _ l Hl. apply Hk in Hl. destruct Hl as [|[]]. congruence.
    + split; [discriminate|]. intros Hall. exfalso.
      assert (S x = 0) by (apply Hall, Hk; left; reflexivity). discriminate.
  - assert (x <> y) as Hxy.
    { inversion Hn as [|? ? Hx _]; subst. intros ->. apply Hx. left. reflexivity. }
    assert (~ (forall l, occurs l e = true -> l = 0)) as Hneg.
    { intros Hall. apply Hxy.
      rewrite (Hall x), (Hall y); [reflexivity| |]; apply Hk; cbn; auto. }
    destruct x; (split; [discriminate|]); intros H; exfalso; auto.
Qed.

(* 3. the unrepaired preflight misses a layer under a unary operator or a function call: a mixed condition passed *)
Example unrepaired_preflight_refuted :
  let e := QOp KBinary [QOp KUnary [QOp KBinary [QField 1; QConst]]; QOp KBinary [QField 2; QConst]] in
  m_query_route e = QRefuse /\ q_keys_unrepaired e = [2].
Proof. cbv zeta. split; vm_compute; reflexivity. Qed.

Print Assumptions keys_are_the_layers.
Print Assumptions keys_nodup.
Print Assumptions route_refuse.
Print Assumptions route_nest.
Print Assumptions route_base.
Print Assumptions unrepaired_preflight_refuted.
