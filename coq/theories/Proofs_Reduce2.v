(* Proofs_Reduce2.v — reduce's argument scan and output packing (C10); when the index test of the dotted
   __setitem__ can mistake a flat value for a per-row value (C06 / C13). *)
From Coq Require Import String List Arith Bool Lia ZArith.
Import ListNotations.
From NP Require Import Base Values Dtype Names Proofs_Names Reduce2.

(* ---------- generic list helpers ---------- *)
Lemma filter_all_true (A : Type) (f : A -> bool) : forall l, (forall x, In x l -> f x = true) -> filter f l = l.
Proof.
  induction l as [|x t IH]; intro H; [reflexivity|]. cbn [filter].
  rewrite (H x) by (left; reflexivity). f_equal. apply IH. intros y Hy. apply H. right. exact Hy.
Qed.
Lemma filter_all_false (A : Type) (f : A -> bool) : forall l, (forall x, In x l -> f x = false) -> filter f l = [].
Proof.
  induction l as [|x t IH]; intro H; [reflexivity|]. cbn [filter].
  rewrite (H x) by (left; reflexivity). apply IH. intros y Hy. apply H. right. exact Hy.
Qed.
Lemma filter_map_comm (A B : Type) (f : B -> bool) (g : A -> B) : forall l,
  filter f (map g l) = map g (filter (fun x => f (g x)) l).
Proof.
  induction l as [|x t IH]; [reflexivity|]. cbn [map filter]. destruct (f (g x)); cbn [map]; rewrite IH; reflexivity.
Qed.
Lemma filter_filter (A : Type) (f g : A -> bool) : forall l,
  filter f (filter g l) = filter (fun x => g x && f x) l.
Proof.
  induction l as [|x t IH]; [reflexivity|]. cbn [filter]. destruct (g x); cbn [filter andb]; rewrite IH; reflexivity.
Qed.
Lemma existsb_all_false (A : Type) (f : A -> bool) : forall l, (forall x, In x l -> f x = false) -> existsb f l = false.
Proof.
  induction l as [|x t IH]; intro H; [reflexivity|]. cbn [existsb].
  rewrite (H x) by (left; reflexivity). apply IH. intros y Hy. apply H. right. exact Hy.
Qed.

(* ---------- argument scan ---------- *)
Lemma scan_args_spec known : forall args,
  map AStr (scan_args known args) ++ skipn (length (scan_args known args)) args = args /\
  forallb known (scan_args known args) = true /\
  match skipn (length (scan_args known args)) args with a :: _ => is_known_str known a = false | [] => True end.
Proof.
  induction args as [|a t IH].
  - cbn. repeat split.
  - destruct a as [s|tag].
    + cbn [scan_args]. destruct (known s) eqn:E.
      * destruct IH as [H1 [H2 H3]]. cbn [map length skipn app forallb]. repeat split.
        -- f_equal. exact H1.
        -- rewrite E. exact H2.
        -- exact H3.
      * cbn. repeat split. exact E.
    + cbn. repeat split.
Qed.

Lemma scan_args_app known : forall cols extra,
  forallb known cols = true ->
  match extra with a :: _ => is_known_str known a = false | [] => True end ->
  scan_args known (map AStr cols ++ extra) = cols.
Proof.
  induction cols as [|c t IH]; intros extra Hk Hx.
  - cbn [map app]. destruct extra as [|[s|tag] e]; [reflexivity| |reflexivity].
    cbn in Hx. cbn [scan_args]. rewrite Hx. reflexivity.
  - cbn [forallb] in Hk. apply andb_true_iff in Hk as [Hc Ht].
    cbn [map app scan_args]. rewrite Hc. f_equal. apply IH; assumption.
Qed.

Lemma skipn_map_app (extra : list parg) : forall cols, skipn (length cols) (map AStr cols ++ extra) = extra.
Proof. induction cols as [|c t IH]; [reflexivity|]. cbn [length map app skipn]. exact IH. Qed.

(* 1. what is returned splits the arguments; the requested columns are known; the first extra argument is not a
      known-column string; at least one column *)
Theorem split_sound known args cols extra :
  m_reduce_split known args = Ok (cols, extra) ->
  map AStr cols ++ extra = args /\ forallb known cols = true /\ cols <> [] /\
  match extra with a :: _ => is_known_str known a = false | [] => True end.
Proof.
  unfold m_reduce_split. pose proof (scan_args_spec known args) as S.
  destruct (scan_args known args) as [|c t] eqn:E; [discriminate|].
  intro H. inversion H; subst. destruct S as [S1 [S2 S3]].
  repeat split; try assumption. discriminate.
Qed.

(* 2. ... and that determines the answer: ANY split with these properties is the one returned (so an argument after the
      first non-column is never taken for a column, whatever it spells) *)
Theorem split_unique known args cols extra :
  map AStr cols ++ extra = args -> forallb known cols = true -> cols <> [] ->
  match extra with a :: _ => is_known_str known a = false | [] => True end ->
  m_reduce_split known args = Ok (cols, extra).
Proof.
  intros <- Hk Hne Hx. unfold m_reduce_split. rewrite scan_args_app by assumption.
  destruct cols as [|c t]; [congruence|]. rewrite skipn_map_app. reflexivity.
Qed.

(* 3. refused exactly when the first argument is not a known-column string *)
Theorem split_refused known args :
  m_reduce_split known args = Err <-> match args with a :: _ => is_known_str known a = false | [] => True end.
Proof.
  unfold m_reduce_split. destruct args as [|[s|tag] t]; cbn [scan_args is_known_str].
  - split; auto.
  - destruct (known s); split; intro H; try discriminate; reflexivity.
  - split; auto.
Qed.

(* ---------- output packing ---------- *)
(* the text before the first dot, directly *)
Fixpoint before_dot (c : str) : str :=
  match c with [] => [] | x :: t => if x =? DOT then [] else x :: before_dot t end.

Lemma split1_hd : forall c acc, hd [] (split1 DOT c acc) = rev acc ++ before_dot c.
Proof.
  induction c as [|x t IH]; intro acc; cbn [split1 before_dot hd].
  - rewrite app_nil_r. reflexivity.
  - destruct (x =? DOT); cbn [hd].
    + rewrite app_nil_r. reflexivity.
    + rewrite IH. cbn [rev]. rewrite <- app_assoc. reflexivity.
Qed.
Lemma layer_of_before_dot c : layer_of c = before_dot c.
Proof. unfold layer_of. rewrite split1_hd. reflexivity. Qed.

Lemma before_dot_nodot : forall c, has_char DOT (before_dot c) = false.
Proof.
  induction c as [|x t IH]; [reflexivity|]. cbn [before_dot]. destruct (x =? DOT) eqn:E; [reflexivity|].
  rewrite has_char_cons, Nat.eqb_sym, E. exact IH.
Qed.
Lemma layer_of_nodot c : has_char DOT (layer_of c) = false.
Proof. rewrite layer_of_before_dot. apply before_dot_nodot. Qed.

Lemma str_eqb_cons x a s t : str_eqb (x :: s) (a :: t) = (x =? a) && str_eqb s t.
Proof. reflexivity. Qed.

(* 6. starts_with (layer ++ '.') is exactly "holds a dot and the text before the first dot is the layer" - which is why a
      plain output named 'out_n' or 'outmax' does not belong to the layer 'out' *)
Lemma starts_with_layer l c : has_char DOT l = false ->
  starts_with (l ++ [DOT]) c = has_char DOT c && str_eqb (layer_of c) l.
Proof.
  rewrite layer_of_before_dot. revert c. induction l as [|a l IH]; intros c Hl.
  - cbn [app]. destruct c as [|x t]; [reflexivity|].
    cbn [starts_with before_dot]. rewrite has_char_cons, andb_true_r, (Nat.eqb_sym x DOT).
    destruct (DOT =? x); [reflexivity|]. symmetry. apply andb_false_r.
  - rewrite has_char_cons in Hl. apply orb_false_iff in Hl as [Ha Hl].
    destruct c as [|x t]; [reflexivity|].
    cbn [app starts_with before_dot]. rewrite has_char_cons, (Nat.eqb_sym x DOT).
    destruct (DOT =? x) eqn:E.
    + apply Nat.eqb_eq in E. subst x. rewrite (Nat.eqb_sym a DOT), Ha. reflexivity.
    + rewrite str_eqb_cons, (IH t Hl), (Nat.eqb_sym x a). cbn [orb].
      destruct (a =? x), (has_char DOT t), (str_eqb (before_dot t) l); reflexivity.
Qed.

(* np_unique: the same elements, without repetition *)
Lemma ins_uniq_In x y : forall l, In y (ins_uniq x l) <-> y = x \/ In y l.
Proof.
  induction l as [|z t IH]; cbn [ins_uniq].
  - cbn. intuition.
  - destruct (str_eqb_reflect x z) as [E|E].
    + subst. cbn. intuition.
    + destruct (str_ltb x z).
      * cbn. intuition.
      * cbn [In]. rewrite IH. intuition.
Qed.

(* str_ltb is a strict total order *)
Lemma str_ltb_irrefl : forall a, str_ltb a a = false.
Proof.
  induction a as [|x a IH]; [reflexivity|]. cbn [str_ltb]. rewrite Nat.ltb_irrefl, Nat.eqb_refl, IH. reflexivity.
Qed.
Lemma str_ltb_trans : forall a b c, str_ltb a b = true -> str_ltb b c = true -> str_ltb a c = true.
Proof.
  induction a as [|x a IH]; intros [|y b] [|z c] H1 H2; cbn [str_ltb] in *; try discriminate; try reflexivity.
  apply orb_true_iff in H1. apply orb_true_iff in H2. apply orb_true_iff.
  destruct H1 as [H1|H1], H2 as [H2|H2].
  - left. apply Nat.ltb_lt in H1, H2. apply Nat.ltb_lt. lia.
  - left. apply andb_true_iff in H2 as [H2 _]. apply Nat.eqb_eq in H2. subst. exact H1.
  - left. apply andb_true_iff in H1 as [H1 _]. apply Nat.eqb_eq in H1. subst. exact H2.
  - right. apply andb_true_iff in H1 as [H1 H1']. apply andb_true_iff in H2 as [H2 H2'].
    apply Nat.eqb_eq in H1, H2. subst. rewrite Nat.eqb_refl. cbn [andb]. eapply IH; eassumption.
Qed.
Lemma str_ltb_total : forall a b, str_eqb a b = false -> str_ltb a b = false -> str_ltb b a = true.
Proof.
  induction a as [|x a IH]; intros [|y b] H1 H2; cbn [str_ltb] in *; try discriminate; try reflexivity.
  rewrite str_eqb_cons in H1. apply orb_false_iff in H2 as [H2 H2'].
  apply Nat.ltb_ge in H2. destruct (Nat.eqb_spec x y) as [E|E].
  - subst. rewrite Nat.eqb_refl. cbn [andb] in *. rewrite (IH b H1 H2'). apply orb_true_r.
  - apply orb_true_iff. left. apply Nat.ltb_lt. lia.
Qed.

Fixpoint ssorted (l : list str) : Prop :=
  match l with [] => True | x :: t => (forall y, In y t -> str_ltb x y = true) /\ ssorted t end.

Lemma ins_uniq_sorted x : forall l, ssorted l -> ssorted (ins_uniq x l).
Proof.
  induction l as [|z t IH]; intro H; cbn [ins_uniq].
  - cbn. split; [intros y []|exact I].
  - destruct (str_eqb x z) eqn:E; [exact H|]. destruct (str_ltb x z) eqn:L.
    + split; [|exact H]. intros y [<-|Hy]; [exact L|].
      destruct H as [H _]. eapply str_ltb_trans; [exact L|apply H; exact Hy].
    + destruct H as [Hz Ht]. split; [|apply IH; exact Ht].
      intros y Hy. apply ins_uniq_In in Hy as [->|Hy]; [|apply Hz; exact Hy].
      apply str_ltb_total; [exact E|exact L].
Qed.
Lemma np_unique_sorted l : ssorted (np_unique l).
Proof. induction l as [|x t IH]; [exact I|]. cbn [np_unique fold_right]. apply ins_uniq_sorted. exact IH. Qed.
Lemma ssorted_NoDup : forall l, ssorted l -> NoDup l.
Proof.
  induction l as [|x t IH]; intro H; [constructor|]. destruct H as [Hx Ht]. constructor; [|apply IH; exact Ht].
  intro Hin. apply Hx in Hin. rewrite str_ltb_irrefl in Hin. discriminate.
Qed.
Lemma np_unique_NoDup l : NoDup (np_unique l).
Proof. apply ssorted_NoDup, np_unique_sorted. Qed.
Lemma np_unique_In y : forall l, In y (np_unique l) <-> In y l.
Proof.
  induction l as [|x t IH]; [reflexivity|]. cbn [np_unique fold_right]. rewrite ins_uniq_In.
  fold (np_unique t). rewrite IH. cbn [In]. intuition.
Qed.

(* the layers: sorted, distinct, dot-free, and exactly the layer_of of the dotted columns *)
Lemma layers_In cols l : In l (layers cols) <-> exists c, In c cols /\ has_char DOT c = true /\ layer_of c = l.
Proof.
  unfold layers. rewrite np_unique_In, in_map_iff. split.
  - intros [c [E Hc]]. apply filter_In in Hc as [Hc Hd]. exists c. auto.
  - intros [c [Hc [Hd E]]]. exists c. split; [exact E|]. apply filter_In. auto.
Qed.
Lemma layers_NoDup cols : NoDup (layers cols).
Proof. apply np_unique_NoDup. Qed.
Lemma layers_nodot cols l : In l (layers cols) -> has_char DOT l = false.
Proof. intro H. apply layers_In in H as [c [_ [_ <-]]]. apply layer_of_nodot. Qed.

(* ---------- the state of the packing loop after the layers D (in this order) are done ---------- *)
Definition keep (D : list str) (c : str) : bool := negb (has_char DOT c && mem_str (layer_of c) D).
Definition nest_of (cols : list str) (l : str) : ocol := ONest l (fields_of_layer cols l).
Definition state (cols D : list str) : list ocol := map OBase (filter (keep D) cols) ++ map (nest_of cols) D.

Lemma mem_str_app x a b : mem_str x (a ++ b) = mem_str x a || mem_str x b.
Proof. unfold mem_str. apply existsb_app. Qed.
Lemma mem_str_false x l : ~ In x l -> mem_str x l = false.
Proof. intro H. destruct (mem_str x l) eqn:E; [|reflexivity]. apply mem_str_In in E. contradiction. Qed.

Lemma pack_layer_step cols D l :
  (forall d, In d D -> has_char DOT d = false) -> has_char DOT l = false -> ~ In l D ->
  (forall c, In c cols -> c <> l) ->
  pack_layer (state cols D) l = state cols (D ++ [l]).
Proof.
  intros HD Hl HlD Hcl.
  assert (SW : forall c, starts_with (l ++ [DOT]) c = has_char DOT c && str_eqb (layer_of c) l)
    by (intro c; apply starts_with_layer; exact Hl).
  unfold pack_layer, state.
  rewrite !filter_app.
  (* the nests already made: their names hold no dot *)
  assert (N1 : filter (fun c => starts_with (l ++ [DOT]) (ocol_name c)) (map (nest_of cols) D) = []).
  { apply filter_all_false. intros x Hx. apply in_map_iff in Hx as [d [<- Hd]]. cbn [nest_of ocol_name].
    rewrite SW, (HD d Hd). reflexivity. }
  assert (N2 : filter (fun c => negb (starts_with (l ++ [DOT]) (ocol_name c))) (map (nest_of cols) D)
               = map (nest_of cols) D).
  { apply filter_all_true. intros x Hx. apply in_map_iff in Hx as [d [<- Hd]]. cbn [nest_of ocol_name].
    rewrite SW, (HD d Hd). reflexivity. }
  rewrite N1, N2, app_nil_r.
  rewrite !filter_map_comm. cbn [ocol_name]. rewrite !filter_filter.
  (* no replacement *)
  rewrite (existsb_all_false).
  2:{ intros x Hx. apply in_app_or in Hx as [Hx|Hx].
      - apply in_map_iff in Hx as [c [<- Hc]]. apply filter_In in Hc as [Hc _]. cbn [ocol_name].
        destruct (str_eqb_reflect c l) as [E|E]; [|reflexivity]. exfalso. exact (Hcl c Hc E).
      - apply in_map_iff in Hx as [d [<- Hd]]. cbn [nest_of ocol_name].
        destruct (str_eqb_reflect d l) as [E|E]; [|reflexivity]. subst. contradiction. }
  rewrite map_app. cbn [map]. rewrite <- app_assoc. f_equal; [f_equal|f_equal].
  - (* the columns that stay *)
    apply filter_ext. intro c. rewrite SW. unfold keep. rewrite mem_str_app. cbn [mem_str existsb].
    destruct (has_char DOT c), (mem_str (layer_of c) D), (str_eqb (layer_of c) l); reflexivity.
  - (* the fields *)
    unfold nest_of. f_equal. f_equal. unfold fields_of_layer. rewrite map_map. cbn [ocol_name].
    f_equal. apply filter_ext. intro c. rewrite SW. unfold keep.
    destruct (has_char DOT c); [|reflexivity]. cbn [andb].
    destruct (str_eqb_reflect (layer_of c) l) as [E|E]; [|apply andb_false_r].
    rewrite E, (mem_str_false _ _ HlD). reflexivity.
Qed.

Lemma fold_pack cols : forall L D,
  NoDup (D ++ L) -> (forall d, In d (D ++ L) -> has_char DOT d = false) ->
  (forall c, In c cols -> ~ In c (D ++ L)) ->
  fold_left pack_layer L (state cols D) = state cols (D ++ L).
Proof.
  induction L as [|l L IH]; intros D Hnd Hdot Hcl.
  - rewrite app_nil_r. reflexivity.
  - cbn [fold_left]. rewrite pack_layer_step.
    + replace (D ++ l :: L) with ((D ++ [l]) ++ L) in * by (rewrite <- app_assoc; reflexivity).
      apply IH; assumption.
    + intros d Hd. apply Hdot. apply in_or_app. left. exact Hd.
    + apply Hdot. apply in_or_app. right. left. reflexivity.
    + apply NoDup_remove_2 in Hnd. intro H. apply Hnd. apply in_or_app. left. exact H.
    + intros c Hc E. apply (Hcl c Hc). subst. apply in_or_app. right. left. reflexivity.
Qed.

(* 4. the packing equals the specification when no plain output is named like a layer and names are distinct.
      name_ok_out: an output name is non-empty and, if it holds a dot, has a non-empty text before the first dot
      (true of every dict key a function can sensibly return; state precisely what you need).
      RESULT: no extra premise is needed, and names_distinct is not used either (infer_nesting_spec_gen). *)
Definition no_layer_clash (cols : list str) : bool :=
  forallb (fun c => has_char DOT c || negb (mem_str c (layers cols))) cols.

Lemma no_layer_clash_inv cols : no_layer_clash cols = true -> forall c, In c cols -> ~ In c (layers cols).
Proof.
  unfold no_layer_clash. rewrite forallb_forall. intros H c Hc Hin. specialize (H c Hc).
  pose proof (layers_nodot _ _ Hin) as Hd. rewrite Hd in H. cbn [orb] in H.
  apply mem_str_In in Hin. rewrite Hin in H. discriminate.
Qed.

Theorem infer_nesting_spec_gen cols :
  no_layer_clash cols = true -> m_infer_nesting cols = spec_infer_nesting cols.
Proof.
  intro Hc. unfold m_infer_nesting, spec_infer_nesting.
  assert (S0 : map OBase cols = state cols []).
  { unfold state. cbn [map]. rewrite app_nil_r. f_equal. symmetry. apply filter_all_true.
    intros c _. unfold keep. cbn [mem_str existsb]. rewrite andb_false_r. reflexivity. }
  rewrite S0, fold_pack.
  - cbn [app]. unfold state. f_equal. f_equal. apply filter_ext_in. intros c Hin. unfold keep.
    destruct (has_char DOT c) eqn:E; [|reflexivity]. cbn [andb negb]. 
    assert (H : In (layer_of c) (layers cols)) by (apply layers_In; exists c; auto).
    apply mem_str_In in H. rewrite H. reflexivity.
  - cbn [app]. apply layers_NoDup.
  - cbn [app]. apply layers_nodot.
  - cbn [app]. apply no_layer_clash_inv. exact Hc.
Qed.

Theorem infer_nesting_spec cols :
  names_distinct cols = true -> no_layer_clash cols = true ->
  m_infer_nesting cols = spec_infer_nesting cols.
Proof. intros _. apply infer_nesting_spec_gen. Qed.

(* 5. consequences spelled out: nothing is lost, nothing is invented *)
Theorem infer_nesting_plain_kept cols c :
  names_distinct cols = true -> no_layer_clash cols = true ->
  In c cols -> has_char DOT c = false -> In (OBase c) (m_infer_nesting cols).
Proof.
  intros Hd Hc Hin Hp. rewrite infer_nesting_spec by assumption. unfold spec_infer_nesting.
  apply in_or_app. left. apply in_map. apply filter_In. split; [exact Hin|]. rewrite Hp. reflexivity.
Qed.
Theorem infer_nesting_dotted_packed cols c :
  names_distinct cols = true -> no_layer_clash cols = true ->
  In c cols -> has_char DOT c = true ->
  exists fs, In (ONest (layer_of c) fs) (m_infer_nesting cols) /\ In (after_dot c) fs.
Proof.
  intros Hd Hc Hin Hp. rewrite infer_nesting_spec by assumption. unfold spec_infer_nesting.
  exists (fields_of_layer cols (layer_of c)). split.
  - apply in_or_app. right. apply in_map_iff. exists (layer_of c). split; [reflexivity|].
    apply layers_In. exists c. auto.
  - unfold fields_of_layer. apply in_map. apply filter_In. split; [exact Hin|].
    rewrite Hp, str_eqb_refl. reflexivity.
Qed.

(* 7. the clash is real: a plain output named like a layer is silently replaced *)
Example layer_clash_loses_a_column :
  let cols := [[111;117;116]; [111;117;116;46;97]] in     (* 'out', 'out.a' *)
  m_infer_nesting cols = [ONest [111;117;116] [[97]]] /\ spec_infer_nesting cols <> m_infer_nesting cols.
Proof. cbv zeta. split; [vm_compute; reflexivity|vm_compute; discriminate]. Qed.

(* ---------- the index test of frame['nest.field'] = value ---------- *)
Lemma flat_repeat_In (V : Type) (x : V) : forall vs cs, In x (flat_repeat vs cs) -> In x vs.
Proof.
  induction vs as [|v vs IH]; intros [|c cs] H; cbn [flat_repeat] in H; try contradiction.
  apply in_app_or in H as [H|H].
  - apply repeat_spec in H. left. congruence.
  - right. eapply IH. exact H.
Qed.

(* the flat index of a nest = the frame's labels repeated by the row lengths *)
(* 8. with DISTINCT labels the test is harmless: if a flat value's index equals the frame's index, every row holds
      exactly one record ... *)
Theorem equal_flat_index_means_one_record_per_row (labels : list Z) lens :
  NoDup labels -> length lens = length labels -> flat_repeat labels lens = labels ->
  forallb (fun k => k =? 1) lens = true.
Proof.
  revert lens. induction labels as [|a t IH]; intros [|k ks] Hnd Hlen H; cbn [length] in Hlen; try discriminate.
  - reflexivity.
  - inversion Hnd as [|? ? Ha Ht]; subst. cbn [flat_repeat] in H.
    destruct k as [|[|k]].
    + exfalso. apply Ha. apply (flat_repeat_In _ a t ks). cbn [repeat app] in H. rewrite H. left. reflexivity.
    + cbn [repeat app] in H. inversion H as [H']. cbn [forallb Nat.eqb andb]. apply IH; [exact Ht|lia|exact H'].
    + exfalso. apply Ha. cbn [repeat app] in H. inversion H as [H']. left. reflexivity.
Qed.
(* 9. ... and then the per-row route and the flat route store the same values *)
Theorem routes_agree_when_one_record_per_row (V : Type) (vals : list V) lens :
  length vals = length lens -> forallb (fun k => k =? 1) lens = true -> flat_repeat vals lens = vals.
Proof.
  revert lens. induction vals as [|v vs IH]; intros [|k ks] Hlen H; cbn [length] in Hlen; try discriminate.
  - reflexivity.
  - cbn [forallb] in H. apply andb_true_iff in H as [Hk H]. apply Nat.eqb_eq in Hk. subst k.
    cbn [flat_repeat repeat app]. f_equal. apply IH; [lia|exact H].
Qed.
(* 10. with REPEATED labels the test can be fooled (the open finding): equal indexes, different results *)
Example repeated_labels_fool_the_index_test :
  flat_repeat [5%Z; 5%Z] [2; 0] = [5%Z; 5%Z] /\ flat_repeat [10; 20] [2; 0] <> [10; 20].
Proof. split; [reflexivity|vm_compute; discriminate]. Qed.

Print Assumptions split_sound.
Print Assumptions split_unique.
Print Assumptions split_refused.
Print Assumptions infer_nesting_spec.
Print Assumptions infer_nesting_plain_kept.
Print Assumptions infer_nesting_dotted_packed.
Print Assumptions starts_with_layer.
Print Assumptions layer_clash_loses_a_column.
Print Assumptions equal_flat_index_means_one_record_per_row.
Print Assumptions routes_agree_when_one_record_per_row.
Print Assumptions repeated_labels_fool_the_index_test.
