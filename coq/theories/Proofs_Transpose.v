(* Proofs_Transpose.v — struct-of-lists <-> list-of-structs. *)
From Coq Require Import String List Arith Bool ZArith Lia.
Import ListNotations.
From NP Require Import Base Values Arrow Abs Kernels Logical ExtArray Codec Steps Proofs_Views Proofs_Codec.

(* ---------- generic list facts ---------- *)

Lemma map2_nth_seq {A B C} (f : A -> B -> C) (dA : A) (dB : B) : forall l m, length l = length m ->
  map2 f l m = map (fun i => f (nth i l dA) (nth i m dB)) (seq 0 (length l)).
Proof.
  induction l as [|x l IH]; intros [|y m] H; cbn [length] in H; try discriminate; [reflexivity|].
  rewrite map2_cons. cbn [length seq map nth]. f_equal.
  rewrite IH by lia. rewrite <- seq_shift, map_map. reflexivity.
Qed.

Lemma map2_map_seq {A B C} (f : A -> B -> C) (dA : A) : forall l (g : nat -> B),
  map2 f l (map g (seq 0 (length l))) = map (fun i => f (nth i l dA) (g i)) (seq 0 (length l)).
Proof.
  induction l as [|x l IH]; intros g; [reflexivity|].
  cbn [length seq map]. rewrite map2_cons. cbn [nth]. f_equal.
  rewrite <- seq_shift, !map_map. apply (IH (fun i => g (S i))).
Qed.

Lemma nth_map2 {A B C} (f : A -> B -> C) (dA : A) (dB : B) (dC : C) : forall l m i,
  length l = length m -> i < length l -> nth i (map2 f l m) dC = f (nth i l dA) (nth i m dB).
Proof.
  induction l as [|x l IH]; intros [|y m] i H Hi; cbn [length] in *; try discriminate; try lia.
  rewrite map2_cons. destruct i as [|i]; [reflexivity|]. cbn [nth]. apply IH; lia.
Qed.

Lemma seq_add_map : forall n a, seq a n = map (fun j => a + j) (seq 0 n).
Proof.
  induction n as [|n IH]; intros a; [reflexivity|].
  cbn [seq map]. f_equal; [lia|].
  rewrite (IH (S a)), <- seq_shift, map_map. apply map_ext. intros j. lia.
Qed.

Lemma last_map (f : nat -> nat) : forall l d, last (map f l) (f d) = f (last l d).
Proof.
  induction l as [|a [|b t] IH]; intros d; [reflexivity|reflexivity|].
  change (map f (a :: b :: t)) with (f a :: map f (b :: t)).
  change (last (a :: b :: t) d) with (last (b :: t) d). rewrite <- IH. reflexivity.
Qed.

Lemma nth_adj : forall o i, S i < length o -> nth i (adj o) (0, 0) = (nth i o 0, nth (S i) o 0).
Proof.
  induction o as [|a [|b t] IH]; intros i H; cbn [length] in H; try lia.
  rewrite adj_cons2. destruct i as [|i]; [reflexivity|].
  change (nth (S i) ((a, b) :: adj (b :: t)) (0, 0)) with (nth i (adj (b :: t)) (0, 0)).
  rewrite IH by (cbn [length]; lia). reflexivity.
Qed.

Lemma nth_cuts (ch : list val) : forall o i, S i < length o ->
  nth i (cuts o ch) [] = slice (nth i o 0) (nth (S i) o 0) ch.
Proof.
  induction o as [|a [|b t] IH]; intros i H; cbn [length] in H; try lia.
  rewrite cuts_cons2. destruct i as [|i]; [reflexivity|].
  change (nth (S i) (slice a b ch :: cuts (b :: t) ch) []) with (nth i (cuts (b :: t) ch) []).
  rewrite IH by (cbn [length]; lia). reflexivity.
Qed.

Lemma adj_map (g : nat -> nat) : forall o, adj (map g o) = map (fun ab => (g (fst ab), g (snd ab))) (adj o).
Proof.
  induction o as [|a [|b t] IH]; [reflexivity|reflexivity|].
  change (map g (a :: b :: t)) with (g a :: g b :: map g t).
  rewrite !adj_cons2. cbn [map fst snd]. f_equal. exact IH.
Qed.

Lemma in_adj : forall o w, In w (adj o) -> In (fst w) o /\ In (snd w) o.
Proof.
  induction o as [|a [|b t] IH]; intros w H; try (destruct H; fail).
  rewrite adj_cons2 in H. destruct H as [<-|H].
  - simpl. auto.
  - apply IH in H. destruct H as [H1 H2]. split; right; assumption.
Qed.

Lemma masked_all_true : forall e (x : list val),
  map2 (fun (sv : bool) x => if sv then x else VNull) (repeat true e) x = firstn e x.
Proof.
  induction e as [|e IH]; intros [|v x]; try reflexivity.
  cbn [repeat firstn]. rewrite map2_cons. f_equal. apply IH.
Qed.

(* ---------- re-based windows ---------- *)

Lemma slice_window (ch : list val) h e a b : h <= a -> a <= b -> b <= h + e ->
  slice (a - h) (b - h) (firstn e (skipn h ch)) = slice a b ch.
Proof.
  intros H1 H2 H3. unfold slice.
  rewrite skipn_firstn_comm, firstn_firstn, skipn_skipn'.
  replace (h + (a - h)) with a by lia.
  replace (Nat.min (b - h - (a - h)) (e - (a - h))) with (b - a) by lia. reflexivity.
Qed.

Lemma last_rebase o : last (rebase o) 0 = last o 0 - hd 0 o.
Proof.
  unfold rebase. rewrite <- (last_map (fun x => x - hd 0 o) o 0). reflexivity.
Qed.

Lemma cuts_window (ch : list val) o : mono o ->
  cuts (rebase o) (firstn (last (rebase o) 0) (skipn (hd 0 o) ch)) = cuts o ch.
Proof.
  intros Hm. rewrite last_rebase. unfold cuts, rebase. rewrite adj_map, map_map.
  apply map_ext_in. intros [a b] Hin. cbn [fst snd].
  pose proof (adj_bounds o (last o 0) Hm (le_n _)) as HB. rewrite Forall_forall in HB.
  specialize (HB _ Hin). cbn [fst snd] in HB. destruct HB as [Hab Hbl].
  apply in_adj in Hin. cbn [fst snd] in Hin. destruct Hin as [Ha Hb].
  destruct o as [|h t]; [destruct Ha|]. cbn [hd].
  pose proof (mono_ge_hd t h a Hm Ha) as Hha.
  apply slice_window; lia.
Qed.

Lemma mono_rebase o : mono o -> mono (rebase o).
Proof.
  unfold rebase. generalize (hd 0 o) as h. intros h.
  induction o as [|a [|b t] IH]; intros Hm; try exact I.
  change (map (fun x => x - h) (a :: b :: t)) with ((a - h) :: map (fun x => x - h) (b :: t)).
  destruct Hm as [Hab Hm]. specialize (IH Hm).
  change (map (fun x => x - h) (b :: t)) with ((b - h) :: map (fun x => x - h) t) in *.
  split; [lia|exact IH].
Qed.

Lemma length_rebase o : length (rebase o) = length o.
Proof. unfold rebase. apply map_length. Qed.

(* ---------- one chunk: the exported list-of-structs array ---------- *)

Definition offs0 (c : schunk) : list nat :=
  match sfields c with f0 :: _ => rebase (offs (farr f0)) | [] => [] end.

Definition sl_of (c : schunk) : lsarr :=
  {| ls_offs := offs0 c;
     ls_valid := svalid c;
     ls_svalid := repeat true (last (offs0 c) 0);
     ls_children := map (fun f => (fname f, fty f,
                                   firstn (last (offs0 c) 0) (skipn (hd 0 (offs (farr f))) (child (farr f)))))
                        (sc_flatten c) |}.

Lemma transpose_sl_of c : sfields c <> [] -> m_transpose_sl c = Ok (sl_of c).
Proof.
  intros H. unfold m_transpose_sl, sl_of, offs0. destruct (sfields c); [congruence|reflexivity].
Qed.

(* the per-row reading of one chunk *)
Definition chunk_rows (c : schunk) : lrows :=
  map (fun i => if nth i (svalid c) false
                then Some (map (fun col => nth i col []) (chunk_cols c)) else None)
      (seq 0 (sc_len c)).

Lemma chunk_fields_ne sch c : sch <> [] -> chunk_ok sch c -> sfields c <> [].
Proof.
  intros Hne (Hwf & _). destruct (chunk_first_field sch c Hne Hwf) as (f0 & t & E).
  rewrite E. discriminate.
Qed.

Lemma chunk_offs0 sch c f : chunk_ok sch c -> In f (sfields c) -> rebase (offs (farr f)) = offs0 c.
Proof.
  intros (Hwf & Hso & _) Hin. unfold offs0.
  destruct (sfields c) as [|f0 t] eqn:E; [destruct Hin|].
  apply (same_offsets_spec c f0 t f E Hso). rewrite E. exact Hin.
Qed.

Lemma field_ok_facts sv l : field_ok sv l ->
  length (offs l) = S (length sv) /\ mono (offs l) /\ last (offs l) 0 <= length (child l).
Proof. intros (Hwf & _). apply wf_larr_b_spec in Hwf. tauto. Qed.

Lemma chunk_length_offs0 sch c : sch <> [] -> chunk_ok sch c -> length (offs0 c) = S (sc_len c).
Proof.
  intros Hne Hok. pose proof Hok as (Hwf & _).
  destruct (chunk_first_field sch c Hne Hwf) as (f0 & t & E).
  assert (Hin : In f0 (sfields c)) by (rewrite E; left; reflexivity).
  rewrite <- (chunk_offs0 sch c f0 Hok Hin), length_rebase.
  apply (field_ok_facts (svalid c)). apply (chunk_field_ok sch c f0 Hok Hin).
Qed.

(* the window of field f, re-based, cut out of the exported child = the rows of field f *)
Lemma exported_child_cuts sch c f : chunk_ok sch c -> In f (sfields c) ->
  cuts (offs0 c) (firstn (last (offs0 c) 0) (skipn (hd 0 (offs (farr f))) (child (farr f))))
  = field_rows (svalid c) (farr f).
Proof.
  intros Hok Hin. pose proof (chunk_field_ok sch c f Hok Hin) as Hf.
  rewrite (field_rows_cuts _ _ Hf). rewrite <- (chunk_offs0 sch c f Hok Hin).
  apply cuts_window. apply (field_ok_facts _ _ Hf).
Qed.

Lemma chunk_export sch c : sch <> [] -> chunk_ok sch c -> ls_rows (sl_of c) = chunk_rows c.
Proof.
  intros Hne Hok. pose proof (chunk_length_offs0 sch c Hne Hok) as Hlen.
  unfold ls_rows, chunk_rows. cbn [ls_offs ls_valid ls_svalid ls_children sl_of].
  assert (Hla : length (adj (offs0 c)) = sc_len c) by (rewrite length_adj, Hlen; lia).
  rewrite (map2_nth_seq _ (0, 0) false) by exact Hla. rewrite Hla.
  apply map_ext_in. intros i Hi. apply in_seq in Hi.
  rewrite nth_adj by lia. cbn [fst snd].
  destruct (nth i (svalid c) false); [|reflexivity]. f_equal.
  unfold sc_flatten, chunk_cols. rewrite !map_map. apply map_ext_in. intros f Hf. cbn [snd fname fty farr offs child].
  rewrite masked_all_true, firstn_firstn, Nat.min_id.
  rewrite <- (exported_child_cuts sch c f Hok Hf). rewrite nth_cuts by lia. reflexivity.
Qed.

(* ---------- rows of the logical column, chunk by chunk ---------- *)

Definition cols_shape (n : nat) (c : schunk) : Prop :=
  length (chunk_cols c) = n /\ forall col, In col (chunk_cols c) -> length col = sc_len c.

Lemma rows_of_abs_chunks : forall cs sch, Forall (cols_shape (length sch)) cs ->
  rows_of (abs {| ctype := sch; chunks := cs |}) = concat (map chunk_rows cs).
Proof.
  induction cs as [|c cs IH]; intros sch Hall; [reflexivity|].
  inversion Hall as [|? ? (Hn & Hcol) Hcs]; subst. specialize (IH sch Hcs).
  unfold rows_of, lcol_nrows, abs in *. cbn [lvalidity lcols ctype chunks map concat] in *.
  rewrite app_length, seq_app, map_app. f_equal.
  - unfold chunk_rows. fold (sc_len c). apply map_ext_in. intros i Hi. apply in_seq in Hi.
    rewrite app_nth1 by (unfold sc_len in Hi; lia).
    destruct (nth i (svalid c) false); [|reflexivity]. f_equal.
    rewrite map_map. rewrite (map_nth_seq (fun col => nth i col []) [] (chunk_cols c)), Hn.
    apply map_ext_in. intros k Hk. apply in_seq in Hk.
    apply app_nth1. rewrite Hcol by (apply nth_In; lia). lia.
  - rewrite <- IH. rewrite (seq_add_map (length (concat (map svalid cs))) (0 + length (svalid c))), map_map.
    apply map_ext_in. intros j Hj. cbn [plus].
    rewrite app_nth2_plus.
    destruct (nth j (concat (map svalid cs)) false); [|reflexivity]. f_equal.
    rewrite !map_map. apply map_ext_in. intros k Hk. apply in_seq in Hk.
    assert (Hl : length (nth k (chunk_cols c) []) = length (svalid c))
      by (apply Hcol, nth_In; lia).
    rewrite <- Hl. apply app_nth2_plus.
Qed.

Lemma chunk_ok_shape sch c : chunk_ok sch c -> cols_shape (length sch) c.
Proof.
  intros Hok. pose proof Hok as (Hwf & _). split.
  - unfold chunk_cols. rewrite map_length. apply (chunk_nfields sch c Hwf).
  - intros col Hin. unfold chunk_cols in Hin. apply in_map_iff in Hin as (f & <- & Hf).
    apply length_field_rows. apply (chunk_field_ok sch c f Hok Hf).
Qed.

Lemma chunked_eta p : p = {| ctype := ctype p; chunks := chunks p |}.
Proof. destruct p; reflexivity. Qed.

Lemma rows_of_abs p : col_ok p -> rows_of (abs p) = concat (map chunk_rows (chunks p)).
Proof.
  intros (Hne & Hall). rewrite (chunked_eta p) at 1. apply rows_of_abs_chunks.
  eapply Forall_impl; [|exact Hall]. intros c. apply chunk_ok_shape.
Qed.

Lemma list_struct_rows_chunks sch : sch <> [] -> forall cs, Forall (chunk_ok sch) cs ->
  fold_right (fun c acc => res_bind (m_transpose_sl c) (fun a => res_bind acc (fun t => Ok (ls_rows a ++ t))))
             (Ok []) cs
  = Ok (concat (map chunk_rows cs)).
Proof.
  intros Hne. induction cs as [|c cs IH]; intros Hall; [reflexivity|].
  inversion Hall as [|? ? Hc Hcs]; subst. cbn [fold_right map concat]. rewrite (IH Hcs).
  rewrite (transpose_sl_of c (chunk_fields_ne sch c Hne Hc)). cbn [res_bind].
  rewrite (chunk_export sch c Hne Hc). reflexivity.
Qed.

Lemma inv_col_ok p : inv_b p = true -> col_ok p.
Proof.
  unfold inv_b. rewrite !andb_true_iff. intros (((Hwf & Hnm) & _) & _). apply wf_b_col_ok; assumption.
Qed.

(* export: the list-of-structs orientation holds the same records per row *)
Lemma export_rows p : inv_b p = true -> m_list_struct_rows p = Ok (rows_of (abs p)).
Proof.
  intros Hinv. pose proof (inv_col_ok p Hinv) as Hok. rewrite (rows_of_abs p Hok).
  destruct Hok as (Hne & Hall). unfold m_list_struct_rows.
  apply (list_struct_rows_chunks (ctype p) Hne (chunks p) Hall).
Qed.

(* ---------- one chunk: export then import ---------- *)

Definition rt_field (c : schunk) (f : field) : field :=
  {| fname := fname f; fty := fty f;
     farr := {| offs := offs0 c;
                lvalid := repeat true (length (offs0 c) - 1);
                child := firstn (last (offs0 c) 0) (skipn (hd 0 (offs (farr f))) (child (farr f))) |} |}.

Definition rt (c : schunk) : schunk := m_transpose_ls (sl_of c).

Lemma rt_eq c : rt c = {| svalid := svalid c; sfields := map (rt_field c) (sfields c) |}.
Proof.
  unfold rt, m_transpose_ls, sc_from_arrays, sl_of.
  cbn [ls_offs ls_valid ls_svalid ls_children]. f_equal.
  - rewrite map_map. rewrite <- (map_id (svalid c)) at 2. apply map_ext. intros b. apply negb_involutive.
  - unfold sc_flatten. rewrite !map_map. apply map_ext. intros f.
    cbn [fst snd fname fty farr offs child]. unfold rt_field, la_from_arrays. f_equal. f_equal.
    rewrite masked_all_true, firstn_firstn, Nat.min_id. reflexivity.
Qed.

Lemma svalid_rt c : svalid (rt c) = svalid c.
Proof. rewrite rt_eq. reflexivity. Qed.
Lemma sfields_rt c : sfields (rt c) = map (rt_field c) (sfields c).
Proof. rewrite rt_eq. reflexivity. Qed.

Lemma implb_all_true : forall sv : list bool,
  forallb2 (fun s v : bool => implb s v) sv (repeat true (length sv)) = true.
Proof.
  induction sv as [|s sv IH]; [reflexivity|]. cbn [length repeat forallb2]. rewrite IH.
  destruct s; reflexivity.
Qed.

Lemma rt_field_ok sch c f : sch <> [] -> chunk_ok sch c -> In f (sfields c) ->
  field_ok (svalid c) (farr (rt_field c f)).
Proof.
  intros Hne Hok Hin. pose proof (chunk_field_ok sch c f Hok Hin) as Hf.
  pose proof (field_ok_facts _ _ Hf) as (Hlo & Hm & Hl).
  pose proof (chunk_offs0 sch c f Hok Hin) as Ho.
  pose proof (chunk_length_offs0 sch c Hne Hok) as Hlen. unfold sc_len in Hlen.
  unfold field_ok, rt_field. cbn [farr offs lvalid child]. repeat split.
  - unfold wf_larr_b. cbn [offs lvalid child].
    rewrite !andb_true_iff, !Nat.eqb_eq, Nat.leb_le, monob_spec. repeat split.
    + exact Hlen.
    + rewrite repeat_length, Hlen. lia.
    + rewrite <- Ho. apply mono_rebase, Hm.
    + rewrite firstn_length, skipn_length. rewrite <- Ho at 1 2. rewrite last_rebase. lia.
  - rewrite Hlen. replace (S (length (svalid c)) - 1) with (length (svalid c)) by lia.
    apply implb_all_true.
  - rewrite <- Ho, (diffs_rebase _ Hm). apply Hf.
Qed.

Lemma rt_field_rows sch c f : sch <> [] -> chunk_ok sch c -> In f (sfields c) ->
  field_rows (svalid c) (farr (rt_field c f)) = field_rows (svalid c) (farr f).
Proof.
  intros Hne Hok Hin.
  rewrite (field_rows_cuts _ _ (rt_field_ok sch c f Hne Hok Hin)).
  unfold rt_field. cbn [farr offs child]. apply (exported_child_cuts sch c f Hok Hin).
Qed.

Lemma chunk_cols_rt sch c : sch <> [] -> chunk_ok sch c -> chunk_cols (rt c) = chunk_cols c.
Proof.
  intros Hne Hok. unfold chunk_cols. rewrite svalid_rt, sfields_rt, map_map.
  apply map_ext_in. intros f Hf. apply (rt_field_rows sch c f Hne Hok Hf).
Qed.

Lemma nat_list_eqb_refl (l : list nat) : list_eqb Nat.eqb l l = true.
Proof. apply (list_eqb_spec Nat.eqb Nat.eqb_eq). reflexivity. Qed.

Lemma chunk_ok_rt sch c : sch <> [] -> chunk_ok sch c -> chunk_ok sch (rt c).
Proof.
  intros Hne Hok. pose proof Hok as (Hwf & _).
  assert (HF : forall g, In g (sfields (rt c)) -> field_ok (svalid c) (farr g)).
  { intros g Hg. rewrite sfields_rt in Hg. apply in_map_iff in Hg as (f & <- & Hf).
    apply (rt_field_ok sch c f Hne Hok Hf). }
  unfold chunk_ok. repeat split.
  - unfold wf_chunk_b. apply andb_true_iff. split.
    + assert (E : sc_schema (rt c) = sch).
      { rewrite <- (chunk_schema sch c Hwf). unfold sc_schema. rewrite sfields_rt, map_map. reflexivity. }
      rewrite E. apply (list_eqb_spec sfield_eqb sfield_eqb_spec). reflexivity.
    + apply forallb_forall. intros g Hg. unfold sc_len. rewrite svalid_rt. apply (HF g Hg).
  - unfold same_offsets_b. rewrite sfields_rt. destruct (sfields c) as [|f0 t]; [reflexivity|].
    cbn [map]. apply forallb_forall. intros g Hg. apply in_map_iff in Hg as (f & <- & _).
    unfold rt_field. cbn [farr offs]. apply nat_list_eqb_refl.
  - unfold lists_valid_b. apply forallb_forall. intros g Hg. rewrite svalid_rt. apply (HF g Hg).
  - unfold norm_missing_b. apply forallb_forall. intros g Hg. rewrite svalid_rt. apply (HF g Hg).
Qed.

(* ---------- the whole column ---------- *)

Lemma export_ls_chunks sch : sch <> [] -> forall cs, Forall (chunk_ok sch) cs ->
  fold_right (fun c acc => res_bind (m_transpose_sl c) (fun a => res_bind acc (fun t => Ok (a :: t))))
             (Ok []) cs
  = Ok (map sl_of cs).
Proof.
  intros Hne. induction cs as [|c cs IH]; intros Hall; [reflexivity|].
  inversion Hall as [|? ? Hc Hcs]; subst. cbn [fold_right map]. rewrite (IH Hcs).
  rewrite (transpose_sl_of c (chunk_fields_ne sch c Hne Hc)). reflexivity.
Qed.

Lemma m_init_false p : chunks p <> [] -> m_init p false = Ok p.
Proof. intros H. unfold m_init. destruct (chunks p); [congruence|reflexivity]. Qed.

Lemma inv_chunks_ne p : inv_b p = true -> chunks p <> [].
Proof.
  unfold inv_b. rewrite !andb_true_iff. intros ((_ & Hc) & _).
  destruct (chunks p); [discriminate|discriminate].
Qed.

Lemma roundtrip_eq p : inv_b p = true ->
  m_roundtrip_ls p = Ok {| ctype := ctype p; chunks := map rt (chunks p) |}.
Proof.
  intros Hinv. destruct (inv_col_ok p Hinv) as (Hne & Hall).
  unfold m_roundtrip_ls, m_export_ls. rewrite (export_ls_chunks (ctype p) Hne (chunks p) Hall).
  cbn [res_bind]. unfold m_init_from_ls. rewrite map_map. fold rt.
  apply m_init_false. cbn [chunks]. pose proof (inv_chunks_ne p Hinv) as Hc.
  destruct (chunks p); [congruence|discriminate].
Qed.

Lemma abs_rt p : col_ok p -> abs {| ctype := ctype p; chunks := map rt (chunks p) |} = abs p.
Proof.
  intros (Hne & Hall). rewrite Forall_forall in Hall.
  unfold abs. cbn [ctype chunks]. f_equal.
  - f_equal. rewrite map_map. apply map_ext. intros c. apply svalid_rt.
  - apply map_ext. intros k. f_equal. rewrite map_map. apply map_ext_in. intros c Hc.
    rewrite (chunk_cols_rt (ctype p) c Hne (Hall c Hc)). reflexivity.
Qed.

(* import after export: the same column, and again a column satisfying the invariant *)
Lemma roundtripls_refines p : inv_b p = true -> op_ok p ORoundtripLS = true ->
  res_map abs (m_step p ORoundtripLS) = spec_step (abs p) ORoundtripLS.
Proof.
  intros Hinv _. cbn [m_step spec_step]. rewrite (roundtrip_eq p Hinv). cbn [res_map].
  rewrite (abs_rt p (inv_col_ok p Hinv)). reflexivity.
Qed.

Lemma inv_rt p : inv_b p = true -> inv_b {| ctype := ctype p; chunks := map rt (chunks p) |} = true.
Proof.
  intros Hinv. pose proof (inv_col_ok p Hinv) as (Hne & Hall). rewrite Forall_forall in Hall.
  pose proof (inv_chunks_ne p Hinv) as Hc.
  unfold inv_b in *. rewrite !andb_true_iff in *. destruct Hinv as (((Hwf & Hnm) & Hlen) & Hnd).
  cbn [ctype chunks]. repeat split.
  - unfold wf_b in *. cbn [ctype chunks]. rewrite andb_true_iff in *. destruct Hwf as (Hk & _).
    split; [exact Hk|]. apply forallb_forall. intros c' Hc'. apply in_map_iff in Hc' as (c & <- & Hin).
    destruct (chunk_ok_rt (ctype p) c Hne (Hall c Hin)) as (H1 & H2 & H3 & _).
    rewrite H1, H2, H3. reflexivity.
  - unfold norm_missing_all_b. cbn [chunks]. apply forallb_forall. intros c' Hc'.
    apply in_map_iff in Hc' as (c & <- & Hin).
    apply (chunk_ok_rt (ctype p) c Hne (Hall c Hin)).
  - rewrite map_length. exact Hlen.
  - exact Hnd.
Qed.

Lemma roundtripls_inv p p' : inv_b p = true -> op_ok p ORoundtripLS = true ->
  m_step p ORoundtripLS = Ok p' -> inv_b p' = true.
Proof.
  intros Hinv _ Hs. cbn [m_step] in Hs. rewrite (roundtrip_eq p Hinv) in Hs.
  inversion Hs; subst p'. apply (inv_rt p Hinv).
Qed.

(* transposing twice: exporting the re-imported column gives the same list-of-structs rows *)
Lemma double_transpose p p' : inv_b p = true -> m_step p ORoundtripLS = Ok p' ->
  m_list_struct_rows p' = m_list_struct_rows p.
Proof.
  intros Hinv Hs. cbn [m_step] in Hs. rewrite (roundtrip_eq p Hinv) in Hs.
  inversion Hs; subst p'.
  rewrite (export_rows _ (inv_rt p Hinv)), (export_rows p Hinv).
  rewrite (abs_rt p (inv_col_ok p Hinv)). reflexivity.
Qed.

(* ---------- import of an arbitrary list-of-structs chunk ---------- *)

(* a list-of-structs chunk whose offsets are monotone and within the children imports to a
   chunk with the same rows: rows of (transpose_ls a) = ls_rows a *)
Definition wf_ls_b (a : lsarr) : bool :=
  (length (ls_offs a) =? S (length (ls_valid a))) && monob (ls_offs a)
  && forallb (fun k => (last (ls_offs a) 0 <=? length (snd k)) && (length (ls_svalid a) =? length (snd k))) (ls_children a)
  && negb (length (ls_children a) =? 0).

Lemma olist_all_true : forall (cs : list (list val)),
  map (@olist val) (map2 (fun c (v : bool) => if v then Some c else None) cs (repeat true (length cs))) = cs.
Proof.
  induction cs as [|c cs IH]; [reflexivity|].
  cbn [length repeat]. rewrite map2_cons. cbn [map olist]. f_equal. exact IH.
Qed.

Lemma field_rows_from_arrays sv o ch : length o = S (length sv) ->
  field_rows sv (la_from_arrays o ch) = mask_rows sv (cuts o ch).
Proof.
  intros H. unfold field_rows, la_lists, la_from_arrays. cbn [offs lvalid child]. f_equal.
  rewrite <- (length_cuts o ch). apply olist_all_true.
Qed.

Lemma import_rows a : wf_ls_b a = true ->
  forall c, c = m_transpose_ls a ->
  map2 (fun (s : bool) r => if s then Some r else None) (svalid c)
       (map (fun i => map (fun col => nth i col []) (chunk_cols c)) (seq 0 (sc_len c)))
  = ls_rows a.
Proof.
  intros Hwf c ->. unfold wf_ls_b in Hwf. rewrite !andb_true_iff in Hwf.
  destruct Hwf as (((Hlen & _) & _) & _). apply Nat.eqb_eq in Hlen.
  assert (Hsv : svalid (m_transpose_ls a) = ls_valid a).
  { unfold m_transpose_ls, sc_from_arrays. cbn [svalid]. rewrite map_map.
    rewrite <- (map_id (ls_valid a)) at 2. apply map_ext. intros b. apply negb_involutive. }
  unfold sc_len. rewrite Hsv.
  rewrite (map2_map_seq _ false). unfold ls_rows.
  assert (Hla : length (adj (ls_offs a)) = length (ls_valid a)) by (rewrite length_adj, Hlen; lia).
  rewrite (map2_nth_seq _ (0, 0) false) by exact Hla. rewrite Hla.
  apply map_ext_in. intros i Hi. apply in_seq in Hi.
  destruct (nth i (ls_valid a) false) eqn:Ev; [|reflexivity]. f_equal.
  unfold chunk_cols. rewrite Hsv. unfold m_transpose_ls, sc_from_arrays. cbn [sfields].
  rewrite !map_map. apply map_ext. intros k. cbn [fst snd farr].
  rewrite (field_rows_from_arrays _ _ _ Hlen). unfold mask_rows.
  rewrite (nth_map2 _ false [] []); [|rewrite length_cuts; lia|lia].
  rewrite Ev. rewrite nth_cuts by lia. rewrite nth_adj by lia. reflexivity.
Qed.

Print Assumptions export_rows.
Print Assumptions roundtripls_refines.
Print Assumptions roundtripls_inv.
Print Assumptions double_transpose.
Print Assumptions import_rows.
