(* Proofs_Select.v — selection, take, concatenation, copy, dropna, pickle: refinement and invariant. *)
From Coq Require Import String List Arith Bool ZArith Lia.
Import ListNotations.
From NP Require Import Base Values Arrow Abs Kernels Logical ExtArray Codec Steps Proofs_Views Proofs_Codec.

(* ---------- projections of the invariants ---------- *)

Lemma inv_nodup p : inv_b p = true -> nodupb (map fst (ctype p)) = true.
Proof. unfold inv_b. rewrite !andb_true_iff. tauto. Qed.

Lemma inv_norm p : inv_b p = true -> norm_missing_all_b p = true.
Proof. unfold inv_b. rewrite !andb_true_iff. tauto. Qed.

Lemma dec_inv_parts k d : dec_inv_b k d = true ->
  k <> 0 /\ dec_shape_b k d = true /\ dec_valid_b d = true /\ dec_rect_b d = true /\ dec_norm_b d = true.
Proof.
  unfold dec_inv_b. rewrite !andb_true_iff, negb_true_iff, Nat.eqb_neq. tauto.
Qed.

Lemma dec_inv_build k d : k <> 0 -> dec_shape_b k d = true -> dec_valid_b d = true ->
  dec_rect_b d = true -> dec_norm_b d = true -> dec_inv_b k d = true.
Proof.
  intros. unfold dec_inv_b. rewrite !andb_true_iff, negb_true_iff, Nat.eqb_neq. tauto.
Qed.

Lemma dec_shape_parts k d : dec_shape_b k d = true ->
  length (snd d) = k /\ forall col, In col (snd d) -> length col = length (fst d).
Proof.
  unfold dec_shape_b. rewrite andb_true_iff, Nat.eqb_eq, forallb_forall.
  intros [H1 H2]. split; [exact H1|]. intros col Hc. apply Nat.eqb_eq, H2, Hc.
Qed.

Lemma dec_shape_build k d : length (snd d) = k ->
  (forall col, In col (snd d) -> length col = length (fst d)) -> dec_shape_b k d = true.
Proof.
  intros H1 H2. unfold dec_shape_b. rewrite andb_true_iff, Nat.eqb_eq, forallb_forall.
  split; [exact H1|]. intros col Hc. apply Nat.eqb_eq, H2, Hc.
Qed.

Lemma inv_abs_dec p : inv_b p = true -> abs p = lcol_of_dec (ctype p) (decode p).
Proof. intro H. apply abs_decode, inv_wf, H. Qed.

Lemma inv_rows p : inv_b p = true -> rows_of (abs p) = dec_rows (decode p).
Proof.
  intro H. rewrite (inv_abs_dec p H).
  destruct (dec_inv_parts _ _ (decode_inv p H)) as (_ & Hs & Hv & _).
  apply rows_of_dec; assumption.
Qed.

Lemma length_fst_decode p : length (fst (decode p)) = m_len p.
Proof. rewrite len_refines. reflexivity. Qed.

(* ---------- sel ---------- *)

Lemma length_sel {A} (d : A) ix l : length (sel d ix l) = length ix.
Proof. unfold sel. apply map_length. Qed.

Lemma map_sel {A B} (g : A -> B) d ix l : map g (sel d ix l) = sel (g d) ix (map g l).
Proof.
  unfold sel. rewrite map_map. apply map_ext. intros [i|]; [|reflexivity].
  symmetry. apply map_nth.
Qed.

Lemma nth_sel {A} (dflt : A) ix l j :
  nth j (sel dflt ix l) dflt = match nth j ix None with Some i => nth i l dflt | None => dflt end.
Proof.
  unfold sel.
  exact (map_nth (fun oi : option nat => match oi with Some i => nth i l dflt | None => dflt end) ix None j).
Qed.

Lemma forallb2_nth {A B} (f : A -> B -> bool) d1 d2 : forall l1 l2,
  forallb2 f l1 l2 = true -> f d1 d2 = true -> forall i, f (nth i l1 d1) (nth i l2 d2) = true.
Proof.
  induction l1 as [|x l1 IH]; intros [|y l2] H Hd i; simpl in H; try discriminate.
  - destruct i; exact Hd.
  - apply andb_true_iff in H as [H1 H2]. destruct i; simpl; [exact H1|apply IH; assumption].
Qed.

Lemma forallb2_sel {A B} (f : A -> B -> bool) d1 d2 l1 l2 : forall ix,
  forallb2 f l1 l2 = true -> f d1 d2 = true -> forallb2 f (sel d1 ix l1) (sel d2 ix l2) = true.
Proof.
  induction ix as [|oi ix IH]; intros H Hd; [reflexivity|].
  unfold sel in *. cbn [map forallb2]. apply andb_true_iff. split; [|apply IH; assumption].
  destruct oi; [apply forallb2_nth; assumption|exact Hd].
Qed.

Definition dsel (ix : list (option nat)) (d : rowsd) : rowsd :=
  (sel false ix (fst d), map (sel None ix) (snd d)).

Lemma dsel_shape k d ix : dec_shape_b k d = true -> dec_shape_b k (dsel ix d) = true.
Proof.
  intros H. apply dec_shape_parts in H as [H1 H2]. apply dec_shape_build; unfold dsel; cbn [fst snd].
  - rewrite map_length. exact H1.
  - intros col Hc. apply in_map_iff in Hc as (c & <- & _). rewrite !length_sel. reflexivity.
Qed.

Lemma dsel_inv k d ix : dec_inv_b k d = true -> dec_inv_b k (dsel ix d) = true.
Proof.
  intros H. destruct (dec_inv_parts _ _ H) as (Hk & Hs & Hv & Hr & Hn).
  apply dec_inv_build; [exact Hk|apply dsel_shape; exact Hs| | |].
  - unfold dec_valid_b, dsel in *. cbn [fst snd]. rewrite forallb_forall in *.
    intros col Hc. apply in_map_iff in Hc as (c & <- & Hc).
    apply forallb2_sel; [apply Hv, Hc|reflexivity].
  - unfold dec_rect_b, dsel in *. cbn [fst snd]. destruct (snd d) as [|c0 t]; [reflexivity|].
    cbn [map]. rewrite forallb_forall in *. intros col Hc. apply in_map_iff in Hc as (c & <- & Hc).
    specialize (Hr c Hc). apply (list_eqb_spec Nat.eqb Nat.eqb_eq) in Hr.
    apply (list_eqb_spec Nat.eqb Nat.eqb_eq). unfold dec_lens in *. rewrite !map_sel, Hr. reflexivity.
  - unfold dec_norm_b, dsel in *. cbn [fst snd]. rewrite forallb_forall in *.
    intros col Hc. apply in_map_iff in Hc as (c & <- & Hc).
    apply forallb2_sel; [apply Hn, Hc|reflexivity].
Qed.

(* ---------- rows of decoded columns, pointwise ---------- *)

Definition row_at (d : rowsd) (i : nat) : lrow :=
  if nth i (fst d) false then Some (map (fun col => olist (nth i col None)) (snd d)) else None.

Lemma dec_rows_eq d : dec_rows d = map (row_at d) (seq 0 (length (fst d))).
Proof. reflexivity. Qed.

Lemma length_dec_rows d : length (dec_rows d) = length (fst d).
Proof. unfold dec_rows. rewrite map_length, seq_length. reflexivity. Qed.

Lemma nth_dec_rows d i : nth i (dec_rows d) None = row_at d i.
Proof.
  destruct (lt_dec i (length (fst d))) as [Hi|Hi].
  - rewrite dec_rows_eq. rewrite (nth_indep _ None (row_at d 0)) by (rewrite map_length, seq_length; exact Hi).
    rewrite map_nth, seq_nth by exact Hi. reflexivity.
  - rewrite nth_overflow by (rewrite length_dec_rows; lia).
    unfold row_at. rewrite nth_overflow by lia. reflexivity.
Qed.

Lemma row_at_dsel d ix j :
  row_at (dsel ix d) j = match nth j ix None with Some i => row_at d i | None => None end.
Proof.
  unfold row_at, dsel. cbn [fst snd]. rewrite nth_sel. destruct (nth j ix None) as [i|] eqn:E; [|reflexivity].
  destruct (nth i (fst d) false); [|reflexivity]. f_equal. rewrite map_map. apply map_ext.
  intro col. rewrite nth_sel, E. reflexivity.
Qed.

Lemma dec_rows_dsel d ix :
  dec_rows (dsel ix d) = map (fun oi => match oi with Some i => nth i (dec_rows d) None | None => None end) ix.
Proof.
  rewrite dec_rows_eq. unfold dsel at 2. cbn [fst]. rewrite length_sel.
  rewrite (map_nth_seq (fun oi : option nat => match oi with Some i => nth i (dec_rows d) None | None => None end) None ix).
  apply map_ext. intro j. rewrite row_at_dsel. destruct (nth j ix None); [rewrite nth_dec_rows|]; reflexivity.
Qed.

(* ---------- the take kernel ---------- *)

Lemma k_take_dsel p ix : k_take p ix = encode (ctype p) (dsel ix (decode p)).
Proof. reflexivity. Qed.

Lemma abs_encode_rows sch d : dec_shape_b (length sch) d = true -> dec_valid_b d = true ->
  abs (encode sch d) = lcol_of sch (dec_rows d).
Proof. intros Hs Hv. rewrite abs_encode by exact Hs. symmetry. apply lcol_of_dec_rows; assumption. Qed.

Lemma take_core p ix : inv_b p = true ->
  inv_b (k_take p ix) = true /\
  abs (k_take p ix) = lcol_of (ctype p)
     (map (fun oi => match oi with Some i => nth i (rows_of (abs p)) None | None => None end) ix).
Proof.
  intros H. pose proof (dsel_inv _ _ ix (decode_inv p H)) as Hd.
  rewrite k_take_dsel. split.
  - apply encode_inv; [apply inv_nodup, H|exact Hd].
  - destruct (dec_inv_parts _ _ Hd) as (_ & Hs & Hv & _).
    rewrite abs_encode_rows by assumption. rewrite dec_rows_dsel, (inv_rows p H). reflexivity.
Qed.

Lemma take_some_abs p pos : inv_b p = true ->
  abs (k_take p (map Some pos)) = on_rows (abs p) (fun rs => spec_select rs pos).
Proof.
  intros H. destruct (take_core p (map Some pos) H) as [_ E]. rewrite E.
  unfold on_rows, spec_select. rewrite map_map. reflexivity.
Qed.

Lemma inv_m_init p v : inv_b p = true -> m_init p v = Ok p.
Proof.
  intros H. apply m_init_chunks; [apply inv_chunks, H|]. right. split; [apply inv_validate, H|apply inv_norm, H].
Qed.

(* ---------- slice ---------- *)

Lemma slice_refines p a b s : inv_b p = true -> op_ok p (OSlice a b s) = true ->
  res_map abs (m_step p (OSlice a b s)) = spec_step (abs p) (OSlice a b s).
Proof.
  intros H _. cbn [m_step spec_step]. unfold m_getitem_slice, spec_col_slice.
  rewrite len_refines. unfold spec_len.
  destruct (py_slice_positions a b s (lcol_nrows (abs p))) as [pos|]; cbn [res_map]; [|reflexivity].
  f_equal. apply take_some_abs, H.
Qed.
Lemma slice_inv p a b s p' : inv_b p = true -> op_ok p (OSlice a b s) = true ->
  m_step p (OSlice a b s) = Ok p' -> inv_b p' = true.
Proof.
  intros H _. cbn [m_step]. unfold m_getitem_slice.
  destruct (py_slice_positions a b s (m_len p)) as [pos|]; cbn [res_map]; [|discriminate].
  intros E. inversion E; subst p'. apply take_core, H.
Qed.

(* ---------- mask: a filter is a take of the true positions ---------- *)

Lemma mask_filter_pos {A} (dflt : A) : forall m l pre, length m <= length l ->
  mask_filter m l = map (fun i => nth i (pre ++ l) dflt) (true_positions_from (length pre) m).
Proof.
  induction m as [|b m IH]; intros [|x l] pre H; simpl in *; try lia; try reflexivity.
  specialize (IH l (pre ++ [x])). rewrite app_length, <- app_assoc in IH. simpl in IH.
  rewrite Nat.add_1_r in IH.
  destruct b; cbn [map]; rewrite <- IH by lia; [|reflexivity].
  f_equal. rewrite app_nth2, Nat.sub_diag by lia. reflexivity.
Qed.

Lemma mask_filter_sel {A} (dflt : A) m l : length m <= length l ->
  mask_filter m l = sel dflt (map Some (true_positions m)) l.
Proof.
  intros H. unfold sel. rewrite map_map. apply (mask_filter_pos dflt m l [] H).
Qed.

Lemma k_filter_take p m : inv_b p = true -> length m = m_len p ->
  k_filter p m = k_take p (map Some (true_positions m)).
Proof.
  intros H Hm. destruct (dec_inv_parts _ _ (decode_inv p H)) as (_ & Hs & _).
  apply dec_shape_parts in Hs as [_ Hs]. rewrite <- length_fst_decode in Hm.
  unfold k_filter, k_take. f_equal. f_equal.
  - apply mask_filter_sel. lia.
  - apply map_ext_in. intros col Hc. apply mask_filter_sel. rewrite (Hs col Hc). lia.
Qed.

Lemma length_rows_of L : length (rows_of L) = lcol_nrows L.
Proof. unfold rows_of. rewrite map_length, seq_length. reflexivity. Qed.

Lemma mask_refines p m : inv_b p = true -> op_ok p (OMask m) = true ->
  res_map abs (m_step p (OMask m)) = spec_step (abs p) (OMask m).
Proof.
  intros H _. cbn [m_step spec_step]. unfold m_getitem_mask, spec_col_mask.
  rewrite <- len_refines.
  destruct (length m =? m_len p) eqn:E; [|reflexivity]. apply Nat.eqb_eq in E.
  rewrite (k_filter_take p m H E).
  rewrite inv_m_init by (apply take_core, H). cbn [res_map]. f_equal.
  rewrite (take_some_abs _ _ H). unfold on_rows. f_equal. unfold spec_mask, spec_select.
  rewrite (mask_filter_sel (None : lrow) m (rows_of (abs p))) by (rewrite length_rows_of, <- len_refines; lia).
  unfold sel. rewrite map_map. reflexivity.
Qed.
Lemma mask_inv p m p' : inv_b p = true -> op_ok p (OMask m) = true ->
  m_step p (OMask m) = Ok p' -> inv_b p' = true.
Proof.
  intros H _. cbn [m_step]. unfold m_getitem_mask.
  destruct (length m =? m_len p) eqn:E; [|discriminate]. apply Nat.eqb_eq in E.
  rewrite (k_filter_take p m H E).
  rewrite inv_m_init by (apply take_core, H). intros E'. inversion E'; subst p'. apply take_core, H.
Qed.

(* ---------- integer-array indexing ---------- *)

Lemma norm_indices_py n ix : norm_indices n ix = py_indices n ix.
Proof. reflexivity. Qed.

Lemma map2_const_r {A B C D} (f : A -> B -> C) (c : B) : forall (l1 : list A) (l2 : list D),
  length l1 = length l2 -> map2 f l1 (map (fun _ => c) l2) = map (fun x => f x c) l1.
Proof.
  induction l1 as [|x l1 IH]; intros [|y l2] H; simpl in H; try lia; [reflexivity|].
  cbn [map]. rewrite map2_cons. f_equal. apply IH. lia.
Qed.

Lemma empty_is_take p v :
  m_init {| ctype := ctype p; chunks := [] |} v = Ok (k_take p []).
Proof.
  unfold m_init. cbn [chunks ctype].
  assert (E : {| ctype := ctype p;
                 chunks := [ {| svalid := [];
                                sfields := map (fun nt => {| fname := fst nt; fty := snd nt;
                                                             farr := {| offs := [0]; lvalid := []; child := [] |} |})
                                               (ctype p) |} ] |} = k_take p []).
  { unfold k_take, encode, decode. cbn [fst snd sel map ctype]. f_equal. f_equal. f_equal.
    rewrite map_map. cbn [sel map].
    rewrite (map2_const_r _ (@nil (option (list val)))) by (rewrite seq_length; reflexivity).
    reflexivity. }
  rewrite E. destruct v; [|reflexivity].
  (* validate = true is not needed by the callers, but holds as well *)
  rewrite drop_hidden_id.
  2:{ unfold norm_missing_all_b, k_take. rewrite encode_unfold. cbn [chunks forallb]. rewrite andb_true_r.
      apply encode_norm_missing.
      - cbn [snd]. unfold decode. cbn [snd]. rewrite !map_length, seq_length. reflexivity.
      - unfold dec_norm_b. cbn [fst snd sel map]. apply forallb_forall. intros col Hin.
        apply in_map_iff in Hin as (c & <- & _). reflexivity. }
  unfold m_validate, k_take, encode. cbn [chunks forallb]. rewrite andb_true_r.
  unfold m_validate_chunk, same_offsets_b. cbn [sfields sel map fst snd].
  destruct (map2 _ (ctype p) _) as [|f0 t] eqn:Ef; [reflexivity|].
  assert (Hall : forall f, In f (f0 :: t) -> offs (farr f) = [0]).
  { rewrite <- Ef. intros f Hf. unfold map2 in Hf. apply in_map_iff in Hf as ([nt ls] & <- & Hin).
    apply in_combine_r in Hin. apply in_map_iff in Hin as (c & <- & _). reflexivity. }
  replace (forallb _ t) with true; [reflexivity|]. symmetry. apply forallb_forall. intros f Hf.
  rewrite (Hall f0), (Hall f) by (simpl; auto). reflexivity.
Qed.

Lemma idx_refines p ix : inv_b p = true -> op_ok p (OIdx ix) = true ->
  res_map abs (m_step p (OIdx ix)) = spec_step (abs p) (OIdx ix).
Proof.
  intros H _. cbn [m_step spec_step]. unfold m_getitem_idx, spec_col_idx.
  rewrite <- len_refines. change py_indices with norm_indices.
  destruct ix as [|z ix].
  - rewrite empty_is_take. cbn [res_map norm_indices fold_right]. f_equal.
    apply (take_some_abs p [] H).
  - destruct (norm_indices (m_len p) (z :: ix)) as [pos|]; cbn [res_map]; [|reflexivity].
    f_equal. apply take_some_abs, H.
Qed.
Lemma idx_inv p ix p' : inv_b p = true -> op_ok p (OIdx ix) = true ->
  m_step p (OIdx ix) = Ok p' -> inv_b p' = true.
Proof.
  intros H _. cbn [m_step]. unfold m_getitem_idx.
  destruct ix as [|z ix].
  - rewrite empty_is_take. intros E. inversion E; subst p'. apply take_core, H.
  - destruct (norm_indices (m_len p) (z :: ix)) as [pos|]; [|discriminate].
    intros E. inversion E; subst p'. apply take_core, H.
Qed.

(* ---------- copy, pickle ---------- *)

Lemma copy_refines p  : inv_b p = true -> op_ok p (OCopy) = true ->
  res_map abs (m_step p (OCopy)) = spec_step (abs p) (OCopy).
Proof.
  intros H _. cbn [m_step spec_step]. unfold m_copy. rewrite (inv_m_init p false H). reflexivity.
Qed.
Lemma copy_inv p  p' : inv_b p = true -> op_ok p (OCopy) = true ->
  m_step p (OCopy) = Ok p' -> inv_b p' = true.
Proof.
  intros H _. cbn [m_step]. unfold m_copy. rewrite (inv_m_init p false H).
  intros E. inversion E; subst p'. exact H.
Qed.

Lemma pickle_refines p  : inv_b p = true -> op_ok p (OPickle) = true ->
  res_map abs (m_step p (OPickle)) = spec_step (abs p) (OPickle).
Proof.
  intros H _. cbn [m_step spec_step res_map]. unfold m_pickle. cbn [res_map]. f_equal.
  unfold k_combine_chunks. destruct (dec_inv_parts _ _ (decode_inv p H)) as (_ & Hs & _).
  rewrite abs_encode by exact Hs. symmetry. apply inv_abs_dec, H.
Qed.
Lemma pickle_inv p  p' : inv_b p = true -> op_ok p (OPickle) = true ->
  m_step p (OPickle) = Ok p' -> inv_b p' = true.
Proof.
  intros H _. cbn [m_step]. unfold m_pickle. intros E. inversion E; subst p'.
  unfold k_combine_chunks. apply encode_inv; [apply inv_nodup, H|apply decode_inv, H].
Qed.

(* ---------- dropna ---------- *)

Lemma row_present_row_at d i : row_present (row_at d i) = nth i (fst d) false.
Proof. unfold row_at. destruct (nth i (fst d) false); reflexivity. Qed.

Lemma map_nth_seq_id {A} (dflt : A) l : map (fun i => nth i l dflt) (seq 0 (length l)) = l.
Proof. rewrite <- (map_nth_seq (fun x => x) dflt l). apply map_id. Qed.

Lemma present_dec_rows d : map row_present (dec_rows d) = fst d.
Proof.
  rewrite dec_rows_eq, map_map.
  rewrite (map_ext _ (fun i => nth i (fst d) false)) by (intro i; apply row_present_row_at).
  apply map_nth_seq_id.
Qed.

Lemma k_drop_null_take p : inv_b p = true ->
  k_drop_null p = k_take p (map Some (true_positions (fst (decode p)))).
Proof. intros H. unfold k_drop_null. apply k_filter_take; [exact H|apply length_fst_decode]. Qed.

Lemma dropna_refines p  : inv_b p = true -> op_ok p (ODropna) = true ->
  res_map abs (m_step p (ODropna)) = spec_step (abs p) (ODropna).
Proof.
  intros H _. cbn [m_step spec_step]. unfold m_dropna. rewrite (k_drop_null_take p H).
  rewrite inv_m_init by (apply take_core, H). cbn [res_map]. f_equal.
  rewrite (take_some_abs _ _ H). unfold spec_col_dropna, on_rows. f_equal.
  unfold spec_dropna, spec_select. rewrite (inv_rows p H).
  rewrite <- (mask_filter_map_filter row_present (dec_rows (decode p))), present_dec_rows.
  rewrite (mask_filter_sel (None : lrow) (fst (decode p)) (dec_rows (decode p)))
    by (rewrite length_dec_rows; lia).
  unfold sel. rewrite map_map. reflexivity.
Qed.
Lemma dropna_inv p  p' : inv_b p = true -> op_ok p (ODropna) = true ->
  m_step p (ODropna) = Ok p' -> inv_b p' = true.
Proof.
  intros H _. cbn [m_step]. unfold m_dropna. rewrite (k_drop_null_take p H).
  rewrite inv_m_init by (apply take_core, H). intros E. inversion E; subst p'. apply take_core, H.
Qed.

(* ---------- element access ---------- *)

Lemma getitem_int_refines p z : inv_b p = true -> m_getitem_int p z = spec_col_getitem_int (abs p) z.
Proof.
  intros H. unfold m_getitem_int, spec_col_getitem_int, spec_getitem_int.
  rewrite length_rows_of. change (lcol_nrows (abs p)) with (spec_len (abs p)). rewrite <- len_refines.
  rewrite (inv_rows p H), <- m_rows_dec. reflexivity.
Qed.

(* ---------- concatenation ---------- *)

Lemma concat_map_concat {A B C} (g : B -> list C) (h : A -> list B) : forall ps,
  concat (map g (concat (map h ps))) = concat (map (fun q => concat (map g (h q))) ps).
Proof.
  induction ps as [|q ps IH]; simpl; [reflexivity|]. rewrite map_app, concat_app, IH. reflexivity.
Qed.

Lemma abs_as_rows q : inv_b q = true -> abs q = lcol_of (ctype q) (rows_of (abs q)).
Proof.
  intros H. rewrite (inv_rows q H). rewrite (inv_abs_dec q H).
  destruct (dec_inv_parts _ _ (decode_inv q H)) as (_ & Hs & Hv & _).
  symmetry. apply lcol_of_dec_rows; assumption.
Qed.

Lemma abs_col_rows q k : inv_b q = true -> k < length (ctype q) ->
  nth k (lcols (abs q)) [] = map (row_field k) (rows_of (abs q)).
Proof.
  intros H Hk.
  transitivity (nth k (lcols (lcol_of (ctype q) (rows_of (abs q)))) []).
  { f_equal. f_equal. apply abs_as_rows, H. }
  unfold lcol_of. cbn [lcols].
  rewrite (nth_indep _ [] (map (row_field 0) (rows_of (abs q)))) by (rewrite map_length, seq_length; exact Hk).
  rewrite (map_nth (fun k => map (row_field k) (rows_of (abs q))) (seq 0 (length (ctype q))) 0 k).
  rewrite seq_nth by exact Hk. reflexivity.
Qed.

Lemma abs_concat sch ps : (forall q, In q ps -> inv_b q = true /\ ctype q = sch) ->
  abs (k_concat sch ps) = lcol_of sch (concat (map rows_of (map abs ps))).
Proof.
  intros Hall. unfold abs at 1, lcol_of, k_concat. cbn [ctype chunks]. rewrite map_map. f_equal.
  - rewrite concat_map_concat, concat_map, map_map. f_equal. apply map_ext_in. intros q Hq.
    destruct (Hall q Hq) as [Hi _]. rewrite (inv_rows q Hi), present_dec_rows. reflexivity.
  - apply map_ext_in. intros k Hk. apply in_seq in Hk.
    rewrite concat_map_concat, concat_map, map_map. f_equal. apply map_ext_in. intros q Hq.
    destruct (Hall q Hq) as [Hi Hc].
    rewrite <- (abs_col_rows q k Hi) by (rewrite Hc; lia).
    symmetry. apply abs_col_k. rewrite Hc. lia.
Qed.

Lemma inv_concat sch ps : ps <> [] -> (forall q, In q ps -> inv_b q = true /\ ctype q = sch) ->
  inv_b (k_concat sch ps) = true.
Proof.
  intros Hne Hall. destruct ps as [|q0 ps]; [congruence|].
  destruct (Hall q0 (or_introl eq_refl)) as [H0 C0].
  pose proof H0 as H0'. unfold inv_b in H0'. rewrite !andb_true_iff in H0'.
  destruct H0' as (((Hwf0 & Hnm0) & Hch0) & Hnd0).
  unfold inv_b. rewrite !andb_true_iff. repeat split.
  - unfold wf_b in *. cbn [k_concat ctype chunks]. rewrite andb_true_iff in *. destruct Hwf0 as [Hl0 _].
    split; [rewrite <- C0; exact Hl0|].
    apply forallb_forall. intros c Hc. apply in_concat in Hc as (cs & Hcs & Hc).
    apply in_map_iff in Hcs as (q & <- & Hq). destruct (Hall q Hq) as [Hi Hcq].
    apply inv_wf in Hi. unfold wf_b in Hi. apply andb_true_iff in Hi as [_ Hi].
    rewrite forallb_forall in Hi. rewrite <- Hcq. apply Hi, Hc.
  - unfold norm_missing_all_b. cbn [k_concat chunks].
    apply forallb_forall. intros c Hc. apply in_concat in Hc as (cs & Hcs & Hc).
    apply in_map_iff in Hcs as (q & <- & Hq). destruct (Hall q Hq) as [Hi _].
    apply inv_norm in Hi. unfold norm_missing_all_b in Hi. rewrite forallb_forall in Hi. apply Hi, Hc.
  - cbn [k_concat chunks map concat]. rewrite app_length.
    apply negb_true_iff, Nat.eqb_neq. apply negb_true_iff, Nat.eqb_neq in Hch0. lia.
  - cbn [k_concat ctype]. rewrite <- C0. exact Hnd0.
Qed.

Lemma schema_eqb_eq a b : schema_eqb a b = true -> a = b.
Proof. apply (list_eqb_spec sfield_eqb sfield_eqb_spec). Qed.

Lemma concat_args_ok p bs afs : inv_b p = true -> op_ok p (OConcat bs afs) = true ->
  forall q, In q (bs ++ p :: afs) -> inv_b q = true /\ ctype q = ctype p.
Proof.
  intros H Hok q Hq. cbn [op_ok] in Hok. rewrite forallb_forall in Hok.
  apply in_app_or in Hq as [Hq|[<-|Hq]]; [|split; [exact H|reflexivity]|].
  - specialize (Hok q (in_or_app _ _ _ (or_introl Hq))). apply andb_true_iff in Hok as [Hi Hs].
    split; [exact Hi|apply schema_eqb_eq, Hs].
  - specialize (Hok q (in_or_app _ _ _ (or_intror Hq))). apply andb_true_iff in Hok as [Hi Hs].
    split; [exact Hi|apply schema_eqb_eq, Hs].
Qed.

Lemma m_concat_ok p bs afs : inv_b p = true -> op_ok p (OConcat bs afs) = true ->
  m_concat (bs ++ p :: afs) = Ok (k_concat (ctype p) (bs ++ p :: afs))
  /\ inv_b (k_concat (ctype p) (bs ++ p :: afs)) = true.
Proof.
  intros H Hok. pose proof (concat_args_ok p bs afs H Hok) as Hall.
  assert (Hi : inv_b (k_concat (ctype p) (bs ++ p :: afs)) = true).
  { apply inv_concat; [destruct bs; discriminate|exact Hall]. }
  split; [|exact Hi]. unfold m_concat.
  destruct (bs ++ p :: afs) as [|p0 rest] eqn:E; [destruct bs; discriminate|].
  destruct (Hall p0 (or_introl eq_refl)) as [_ C0]. rewrite C0. apply inv_m_init, Hi.
Qed.

Lemma concat_refines p bs afs : inv_b p = true -> op_ok p (OConcat bs afs) = true ->
  res_map abs (m_step p (OConcat bs afs)) = spec_step (abs p) (OConcat bs afs).
Proof.
  intros H Hok. cbn [m_step spec_step].
  destruct (m_concat_ok p bs afs H Hok) as [E _]. rewrite E. cbn [res_map].
  pose proof (concat_args_ok p bs afs H Hok) as Hall.
  rewrite (abs_concat _ _ Hall). rewrite map_app. cbn [map].
  unfold spec_col_concat.
  destruct (map abs bs ++ abs p :: map abs afs) as [|L0 rest] eqn:EL; [destruct bs; discriminate|].
  f_equal. f_equal.
  destruct bs as [|b bs]; cbn [map app] in EL; inversion EL; subst; [reflexivity|].
  cbn [abs lsch]. symmetry. apply (Hall b). left. reflexivity.
Qed.
Lemma concat_inv p bs afs p' : inv_b p = true -> op_ok p (OConcat bs afs) = true ->
  m_step p (OConcat bs afs) = Ok p' -> inv_b p' = true.
Proof.
  intros H Hok. cbn [m_step]. destruct (m_concat_ok p bs afs H Hok) as [E Hi]. rewrite E.
  intros E'. inversion E'; subst p'. exact Hi.
Qed.

(* ---------- take: generic list facts ---------- *)

Lemma choose_maps {A Z' : Type} (f : Z' -> bool) (g h : Z' -> A) : forall ix,
  choose (map f ix) (map g ix) (map h ix) = map (fun z => if f z then g z else h z) ix.
Proof. induction ix as [|z ix IH]; [reflexivity|]. cbn [map choose]. rewrite IH. reflexivity. Qed.

Lemma map2_map_map {A A' B B' C} (f : A' -> B' -> C) (a : A -> A') (b : B -> B') : forall l1 l2,
  map2 f (map a l1) (map b l2) = map2 (fun x y => f (a x) (b y)) l1 l2.
Proof.
  induction l1 as [|x l1 IH]; intros [|y l2]; try reflexivity.
  cbn [map]. rewrite !map2_cons, IH. reflexivity.
Qed.

Lemma map2_ext {A B C} (f g : A -> B -> C) l1 l2 : (forall x y, f x y = g x y) -> map2 f l1 l2 = map2 g l1 l2.
Proof. intros H. unfold map2. apply map_ext. intros [x y]. apply H. Qed.

Lemma map_map2 {A B C D} (h : C -> D) (f : A -> B -> C) l1 l2 :
  map h (map2 f l1 l2) = map2 (fun x y => h (f x y)) l1 l2.
Proof. unfold map2. rewrite map_map. reflexivity. Qed.

Lemma map2_fst {A B} : forall (l1 : list A) (l2 : list B), length l1 <= length l2 ->
  map2 (fun x _ => x) l1 l2 = l1.
Proof.
  induction l1 as [|x l1 IH]; intros [|y l2] H; simpl in H; try lia; try reflexivity.
  rewrite map2_cons, IH by lia. reflexivity.
Qed.

Lemma map2_snd {A B C} (g : B -> C) : forall (l1 : list A) (l2 : list B), length l2 <= length l1 ->
  map2 (fun _ y => g y) l1 l2 = map g l2.
Proof.
  induction l1 as [|x l1 IH]; intros [|y l2] H; simpl in H; try lia; try reflexivity.
  rewrite map2_cons, IH by lia. reflexivity.
Qed.

Lemma in_map2 {A B C} (f : A -> B -> C) l1 l2 c : In c (map2 f l1 l2) ->
  exists x y, In (x, y) (combine l1 l2) /\ c = f x y.
Proof.
  unfold map2. intros H. apply in_map_iff in H as ([x y] & <- & Hin). exists x, y. split; [exact Hin|reflexivity].
Qed.

Lemma length_map2 {A B C} (f : A -> B -> C) l1 l2 : length (map2 f l1 l2) = Nat.min (length l1) (length l2).
Proof. unfold map2. rewrite map_length, combine_length. reflexivity. Qed.

Lemma forallb2_maps {A B Z'} (G : A -> B -> bool) (a : Z' -> A) (b : Z' -> B) : forall ix,
  forallb2 G (map a ix) (map b ix) = forallb (fun z => G (a z) (b z)) ix.
Proof. induction ix as [|z ix IH]; [reflexivity|]. cbn [map forallb2 forallb]. rewrite IH. reflexivity. Qed.

Lemma forallb_false_ex {A} (P : A -> bool) : forall l, forallb P l = false -> exists x, In x l /\ P x = false.
Proof.
  induction l as [|x l IH]; simpl; [discriminate|]. intros H.
  destruct (P x) eqn:E.
  - simpl in H. destruct (IH H) as (y & Hy & Py). exists y. auto.
  - exists x. auto.
Qed.

Lemma in_combine_ex_l {A B} : forall (l1 : list A) (l2 : list B) x, length l1 = length l2 -> In x l1 ->
  exists y, In (x, y) (combine l1 l2).
Proof.
  induction l1 as [|a l1 IH]; intros [|b l2] x H Hin; simpl in *; try lia; try tauto.
  destruct Hin as [<-|Hin].
  - exists b. left. reflexivity.
  - destruct (IH l2 x ltac:(lia) Hin) as (y & Hy). exists y. right. exact Hy.
Qed.

Lemma map_eq_in {A B} (f g : A -> B) : forall l x, map f l = map g l -> In x l -> f x = g x.
Proof.
  induction l as [|a l IH]; intros x H Hin; [destruct Hin|]. simpl in H. inversion H.
  destruct Hin as [<-|Hin]; [assumption|apply IH; assumption].
Qed.

Lemma forallb_map2 {A B C} (P : C -> bool) (Q : B -> bool) (G : A -> B -> C) :
  (forall x y, P (G x y) = Q y) -> forall l1 l2, length l1 = length l2 ->
  forallb P (map2 G l1 l2) = forallb Q l2.
Proof.
  intros HPQ. induction l1 as [|x l1 IH]; intros [|y l2] H; simpl in H; try lia; [reflexivity|].
  rewrite map2_cons. cbn [forallb]. rewrite HPQ, IH by lia. reflexivity.
Qed.

(* ---------- validation of an encoded column = rectangularity of the decoded rows ---------- *)

Lemma rebase_cumsum0 l : rebase (cumsum_from 0 l) = cumsum_from 0 l.
Proof.
  unfold rebase. destruct (cumsum_from_hd 0 l) as [t E]. rewrite E. cbn [hd].
  rewrite <- (map_id (0 :: t)) at 2. apply map_ext. intro x. lia.
Qed.

Lemma cumsum0_eqb l1 l2 :
  list_eqb Nat.eqb (cumsum_from 0 l1) (cumsum_from 0 l2) = list_eqb Nat.eqb l1 l2.
Proof.
  apply eq_true_iff_eq. rewrite !(list_eqb_spec Nat.eqb Nat.eqb_eq). split; [|congruence].
  intros E. rewrite <- (diffs_cumsum l1 0), <- (diffs_cumsum l2 0), E. reflexivity.
Qed.

Lemma m_validate_encode sch d : length sch = length (snd d) ->
  m_validate (encode sch d) = dec_rect_b d.
Proof.
  destruct d as [v cols]. cbn [snd]. intros Hl.
  unfold m_validate, encode. cbn [chunks forallb fst snd]. rewrite andb_true_r.
  unfold m_validate_chunk, same_offsets_b, dec_rect_b. cbn [sfields snd].
  destruct sch as [|nt sch]; destruct cols as [|c0 t]; simpl in Hl; try lia; [reflexivity|].
  rewrite map2_cons. cbn [farr offs la_of_lists].
  apply forallb_map2; [|lia]. intros x y. cbn [farr offs la_of_lists].
  change (map (fun o : option (list val) => length (olist o)) c0) with (dec_lens c0).
  change (map (fun o : option (list val) => length (olist o)) y) with (dec_lens y).
  rewrite !rebase_cumsum0. apply cumsum0_eqb.
Qed.

Lemma m_init_encode sch d : length sch = length (snd d) -> dec_norm_b d = true ->
  m_init (encode sch d) true = if m_validate (encode sch d) then Ok (encode sch d) else Err.
Proof.
  intros Hs Hn. transitivity (if m_validate (encode sch d) then Ok (m_drop_hidden (encode sch d)) else Err); [reflexivity|].
  rewrite (drop_hidden_encode sch d Hs Hn). reflexivity.
Qed.

(* ---------- take with a fill row: the decoded result ---------- *)

Definition tf_v (ix : list Z) (v : list bool) : list bool :=
  map (fun z => if (z <? 0)%Z then true else nth (Z.to_nat z) v false) ix.
Definition tf_c (ix : list Z) (f : list val) (col : list (option (list val))) : list (option (list val)) :=
  map (fun z => if (z <? 0)%Z then Some f else nth (Z.to_nat z) col None) ix.
Definition dfill (ix : list Z) (fs : list (list val)) (d : rowsd) : rowsd :=
  (tf_v ix (fst d), map2 (tf_c ix) fs (snd d)).

Definition fill_ix (ix : list Z) : list (option nat) :=
  map (fun z => if (z <? 0)%Z then None else Some (Z.to_nat z)) ix.

Lemma dfill_shape k ix fs d : length fs = k -> dec_shape_b k d = true -> dec_shape_b k (dfill ix fs d) = true.
Proof.
  intros Hf Hs. apply dec_shape_parts in Hs as [H1 H2]. apply dec_shape_build; unfold dfill; cbn [fst snd].
  - rewrite length_map2. lia.
  - intros col Hc. apply in_map2 in Hc as (f & c & _ & ->). unfold tf_c, tf_v. rewrite !map_length. reflexivity.
Qed.

Lemma take_fill_kernel p ix fs : inv_b p = true -> length fs = length (ctype p) ->
  k_if_else (map (fun z => (z <? 0)%Z) ix)
            (encode (ctype p) (map (fun _ => true) ix, map (fun col => map (fun _ => col) ix) (map Some fs)))
            (k_take p (fill_ix ix))
  = encode (ctype p) (dfill ix fs (decode p)).
Proof.
  intros H Hf. destruct (dec_inv_parts _ _ (decode_inv p H)) as (_ & Hs & _).
  unfold k_if_else. rewrite k_take_dsel.
  rewrite !decode_encode.
  - cbn [ctype encode fst snd]. f_equal. unfold dfill, dsel. cbn [fst snd]. f_equal.
    + unfold sel, tf_v, fill_ix. rewrite map_map, choose_maps. apply map_ext. intro z.
      destruct (z <? 0)%Z; reflexivity.
    + rewrite map_map, map2_map_map. apply map2_ext. intros f col.
      unfold sel, tf_c, fill_ix. rewrite map_map, choose_maps. apply map_ext. intro z.
      destruct (z <? 0)%Z; reflexivity.
  - apply dsel_shape, Hs.
  - apply dec_shape_build; cbn [fst snd].
    + rewrite !map_length. exact Hf.
    + intros col Hc. rewrite map_map in Hc. apply in_map_iff in Hc as (f & <- & _). rewrite !map_length. reflexivity.
Qed.

Lemma dfill_valid k ix fs d : dec_shape_b k d = true -> dec_valid_b d = true -> dec_valid_b (dfill ix fs d) = true.
Proof.
  intros Hs Hv. unfold dec_valid_b, dfill in *. cbn [fst snd]. rewrite forallb_forall in *.
  intros col Hc. apply in_map2 in Hc as (f & c & Hin & ->). apply in_combine_r in Hin.
  unfold tf_v, tf_c. rewrite forallb2_maps. apply forallb_forall. intros z _.
  destruct (z <? 0)%Z; [reflexivity|].
  apply (forallb2_nth (fun (s : bool) (o : option (list val)) => implb s (some_b o)) false None (fst d) c);
    [apply Hv, Hin|reflexivity].
Qed.

Lemma dfill_norm k ix fs d : dec_shape_b k d = true -> dec_norm_b d = true -> dec_norm_b (dfill ix fs d) = true.
Proof.
  intros Hs Hv. unfold dec_norm_b, dfill in *. cbn [fst snd]. rewrite forallb_forall in *.
  intros col Hc. apply in_map2 in Hc as (f & c & Hin & ->). apply in_combine_r in Hin.
  unfold tf_v, tf_c. rewrite forallb2_maps. apply forallb_forall. intros z _.
  destruct (z <? 0)%Z; [reflexivity|].
  apply (forallb2_nth (fun (s : bool) (o : option (list val)) => s || (length (olist o) =? 0)) false None (fst d) c);
    [apply Hv, Hin|reflexivity].
Qed.

Lemma dec_lens_tf_c ix f col :
  dec_lens (tf_c ix f col) = map (fun z => if (z <? 0)%Z then length f else nth (Z.to_nat z) (dec_lens col) 0) ix.
Proof.
  unfold dec_lens, tf_c. rewrite map_map. apply map_ext. intro z. destruct (z <? 0)%Z; [reflexivity|].
  symmetry. exact (map_nth (fun o : option (list val) => length (olist o)) col None (Z.to_nat z)).
Qed.

Lemma dfill_rect_true ix fs d : length fs = length (snd d) -> dec_rect_b d = true ->
  row_rect (Some fs) = true -> dec_rect_b (dfill ix fs d) = true.
Proof.
  destruct d as [v cols]. cbn [snd]. intros Hl Hr Hf. unfold dec_rect_b, dfill in *. cbn [fst snd] in *.
  destruct fs as [|f0 ft]; destruct cols as [|c0 ct]; simpl in Hl; try lia; [reflexivity|].
  rewrite map2_cons. apply forallb_forall. intros col Hc.
  apply in_map2 in Hc as (f & c & Hin & ->).
  cbn [row_rect map all_equal_nat] in Hf. rewrite forallb_forall in Hf, Hr.
  pose proof (in_combine_l _ _ _ _ Hin) as Hf'. pose proof (in_combine_r _ _ _ _ Hin) as Hc'.
  specialize (Hf (length f) (in_map _ _ _ Hf')). apply Nat.eqb_eq in Hf.
  specialize (Hr c Hc'). apply (list_eqb_spec Nat.eqb Nat.eqb_eq) in Hr.
  apply (list_eqb_spec Nat.eqb Nat.eqb_eq). rewrite !dec_lens_tf_c, Hr, Hf. reflexivity.
Qed.

Lemma dfill_rect_false ix fs d : length fs = length (snd d) ->
  existsb (fun z => (z <? 0)%Z) ix = true -> row_rect (Some fs) = false ->
  dec_rect_b (dfill ix fs d) = false.
Proof.
  destruct d as [v cols]. cbn [snd]. intros Hl Hneg Hf. unfold dec_rect_b, dfill. cbn [fst snd].
  destruct fs as [|f0 ft]; destruct cols as [|c0 ct]; simpl in Hl; try lia; [discriminate|].
  rewrite map2_cons.
  cbn [row_rect map all_equal_nat] in Hf.
  apply forallb_false_ex in Hf as (n & Hn & Hne). apply in_map_iff in Hn as (f & <- & Hfin).
  apply Nat.eqb_neq in Hne.
  destruct (in_combine_ex_l ft ct f ltac:(lia) Hfin) as (c & Hin).
  apply existsb_exists in Hneg as (z & Hz & Hzneg).
  match goal with |- ?b = false => destruct b eqn:E end; [|reflexivity]. exfalso.
  rewrite forallb_forall in E.
  assert (Hcol : In (tf_c ix f c) (map2 (tf_c ix) ft ct)).
  { unfold map2. apply in_map_iff. exists (f, c). split; [reflexivity|exact Hin]. }
  specialize (E _ Hcol). apply (list_eqb_spec Nat.eqb Nat.eqb_eq) in E.
  rewrite !dec_lens_tf_c in E. pose proof (map_eq_in _ _ ix z E Hz) as Ez. cbv beta in Ez.
  rewrite Hzneg in Ez. congruence.
Qed.

Lemma nth_map_in {A B} (f : A -> B) l j dB dA : j < length l -> nth j (map f l) dB = f (nth j l dA).
Proof.
  intros H. rewrite (nth_indep _ dB (f dA)) by (rewrite map_length; exact H). apply map_nth.
Qed.

Lemma dfill_rows k ix fs d : length fs = k -> dec_shape_b k d = true ->
  dec_rows (dfill ix fs d) = spec_take_fill (dec_rows d) ix (Some fs).
Proof.
  intros Hf Hs. apply dec_shape_parts in Hs as [H1 H2].
  rewrite dec_rows_eq. unfold dfill at 2. cbn [fst]. unfold tf_v at 1. rewrite map_length.
  unfold spec_take_fill.
  rewrite (map_nth_seq _ 0%Z ix).
  apply map_ext_in. intros j Hj. apply in_seq in Hj.
  unfold row_at, dfill. cbn [fst snd]. unfold tf_v.
  rewrite (nth_map_in _ ix j false 0%Z) by lia.
  destruct (nth j ix 0 <? 0)%Z eqn:Ez.
  - f_equal. rewrite map_map2.
    rewrite (map2_ext _ (fun (x : list val) (_ : list (option (list val))) => x)).
    + apply map2_fst. lia.
    + intros f col. unfold tf_c. rewrite (nth_map_in _ ix j None 0%Z) by lia. rewrite Ez. reflexivity.
  - rewrite nth_dec_rows. unfold row_at. destruct (nth (Z.to_nat (nth j ix 0%Z)) (fst d) false); [|reflexivity].
    f_equal. rewrite map_map2.
    rewrite (map2_ext _ (fun (_ : list val) (col : list (option (list val))) => olist (nth (Z.to_nat (nth j ix 0%Z)) col None))).
    + apply map2_snd. lia.
    + intros f col. unfold tf_c. rewrite (nth_map_in _ ix j None 0%Z) by lia. rewrite Ez. reflexivity.
Qed.

(* ---------- take ---------- *)

Lemma existsb_false_in {A} (P : A -> bool) l x : existsb P l = false -> In x l -> P x = false.
Proof.
  intros H Hin. destruct (P x) eqn:E; [|reflexivity].
  assert (existsb P l = true) by (apply existsb_exists; exists x; auto). congruence.
Qed.

Lemma existsb_neg_lt ix : existsb (fun z => (z <? 0)%Z) ix = false -> existsb (fun z => (z <? -1)%Z) ix = false.
Proof.
  intros H. apply not_true_is_false. intros E. apply existsb_exists in E as (z & Hz & Hlt).
  pose proof (existsb_false_in _ _ z H Hz) as Hn. cbv beta in Hn.
  apply Z.ltb_lt in Hlt. apply Z.ltb_ge in Hn. lia.
Qed.

Lemma take_both p ix af fill : inv_b p = true -> op_ok p (OTake ix af fill) = true ->
  res_map abs (m_take p ix af fill) = spec_col_take (abs p) ix af fill /\
  (forall p', m_take p ix af fill = Ok p' -> inv_b p' = true).
Proof.
  intros H Hok. unfold m_take, spec_col_take. cbv zeta.
  change (lcol_nrows (abs p)) with (spec_len (abs p)). rewrite <- len_refines.
  destruct ((m_len p =? 0) && existsb (fun z => (0 <=? z)%Z) ix) eqn:E0.
  { apply andb_true_iff in E0 as [En Eex]. apply Nat.eqb_eq in En. rewrite En. cbn [Z.of_nat].
    rewrite Eex. split; [reflexivity|discriminate]. }
  destruct (existsb (fun z => (Z.of_nat (m_len p) <=? z)%Z) ix) eqn:E1; [split; [reflexivity|discriminate]|].
  destruct (dec_inv_parts _ _ (decode_inv p H)) as (Hk & Hs & Hv & Hr & Hn).
  destruct af.
  - destruct (existsb (fun z => (z <? 0)%Z) ix) eqn:Eneg; cbn [negb].
    + destruct (existsb (fun z => (z <? -1)%Z) ix) eqn:E2; [split; [reflexivity|discriminate]|].
      cbn [andb].
      change (map (fun z : Z => if (z <? 0)%Z then None else Some (Z.to_nat z)) ix) with (fill_ix ix).
      destruct fill as [fs|].
      * cbn [op_ok] in Hok. apply Nat.eqb_eq in Hok.
        cbn [box_row fst snd]. rewrite (take_fill_kernel p ix fs H Hok).
        pose proof (dfill_shape _ ix fs _ Hok Hs) as Hs'.
        destruct (dec_shape_parts _ _ Hs) as [Hlen _].
        destruct (dec_shape_parts _ _ Hs') as [Hlen' _].
        rewrite (m_init_encode _ _ (eq_sym Hlen') (dfill_norm _ ix fs _ Hs Hn)), m_validate_encode by (symmetry; exact Hlen').
        change (lrow_rect (Some fs)) with (row_rect (Some fs)).
        destruct (row_rect (Some fs)) eqn:Er.
        -- rewrite dfill_rect_true by (try assumption; lia). cbn [negb res_map].
           pose proof (dfill_valid _ ix fs _ Hs Hv) as Hv'.
           split.
           ++ f_equal. rewrite abs_encode_rows by assumption.
              rewrite (dfill_rows _ ix fs _ Hok Hs), <- (inv_rows p H). reflexivity.
           ++ intros p' E. inversion E; subst p'. apply encode_inv; [apply inv_nodup, H|].
              apply dec_inv_build; try assumption.
              ** apply dfill_rect_true; try assumption; lia.
              ** apply (dfill_norm _ ix fs _ Hs Hn).
        -- rewrite dfill_rect_false by (try assumption; lia). split; [reflexivity|discriminate].
      * rewrite inv_m_init by (apply take_core, H). cbn [res_map negb lrow_rect]. split.
        -- f_equal. destruct (take_core p (fill_ix ix) H) as [_ E]. rewrite E.
           unfold on_rows, spec_take_fill, fill_ix. cbn [abs lsch]. f_equal. rewrite map_map.
           apply map_ext. intro z. destruct (z <? 0)%Z; reflexivity.
        -- intros p' E. inversion E; subst p'. apply take_core, H.
    + rewrite (existsb_neg_lt ix Eneg). cbn [andb].
      rewrite inv_m_init by (apply take_core, H). cbn [res_map]. split.
      * f_equal. destruct (take_core p (map (fun z : Z => Some (Z.to_nat z)) ix) H) as [_ E]. rewrite E.
        unfold on_rows, spec_take_fill. cbn [abs lsch]. f_equal. rewrite map_map.
        apply map_ext_in. intros z Hz. rewrite (existsb_false_in _ _ z Eneg Hz). reflexivity.
      * intros p' E. inversion E; subst p'. apply take_core, H.
  - unfold spec_col_idx. change (lcol_nrows (abs p)) with (spec_len (abs p)). rewrite <- len_refines.
    change py_indices with norm_indices.
    destruct (norm_indices (m_len p) ix) as [pos|]; [|split; [reflexivity|discriminate]].
    rewrite inv_m_init by (apply take_core, H). cbn [res_map]. split.
    + f_equal. apply take_some_abs, H.
    + intros p' E. inversion E; subst p'. apply take_core, H.
Qed.

Lemma take_refines p ix af fill : inv_b p = true -> op_ok p (OTake ix af fill) = true ->
  res_map abs (m_step p (OTake ix af fill)) = spec_step (abs p) (OTake ix af fill).
Proof. intros H Hok. cbn [m_step spec_step]. apply take_both; assumption. Qed.
Lemma take_inv p ix af fill p' : inv_b p = true -> op_ok p (OTake ix af fill) = true ->
  m_step p (OTake ix af fill) = Ok p' -> inv_b p' = true.
Proof. intros H Hok. cbn [m_step]. apply take_both; assumption. Qed.

Print Assumptions slice_refines.
Print Assumptions slice_inv.
Print Assumptions mask_refines.
Print Assumptions mask_inv.
Print Assumptions idx_refines.
Print Assumptions idx_inv.
Print Assumptions take_refines.
Print Assumptions take_inv.
Print Assumptions concat_refines.
Print Assumptions concat_inv.
Print Assumptions copy_refines.
Print Assumptions copy_inv.
Print Assumptions dropna_refines.
Print Assumptions dropna_inv.
Print Assumptions pickle_refines.
Print Assumptions pickle_inv.
Print Assumptions getitem_int_refines.
