(* Steps.v — the operation alphabet of one nested column (array / accessor level), as ONE
   step function on the physical model (m_step, assembled from the m_* functions of
   ExtArray.v that mirror the Python) and ONE step function on the logical column (spec_step,
   assembled from the spec_* functions of Logical.v that are written from the property
   sentences).  Histories are folds of steps.  Definitions only; the theorems
   (refinement, invariant preservation, layout independence, all over histories of any
   length) are in Proofs_Steps*.v and Props/C01.v C04.v C05.v C06.v. *)
From Coq Require Import String List Arith Bool ZArith.
Import ListNotations.
From NP Require Import Base Values Arrow Abs Kernels Logical ExtArray.

Inductive aop :=
| OSlice (a b s : option Z)                       (* arr[a:b:s] *)
| OMask (m : list bool)                           (* arr[bool array] *)
| OIdx (ix : list Z)                              (* arr[int array] *)
| OTake (ix : list Z) (allow_fill : bool) (fill : option (list (list val)))
| OConcat (before after : list chunked)           (* _concat_same_type(before ++ [self] ++ after) *)
| OCopy | ODropna | OPickle
| OSetitem (k : skey) (v : sval)                  (* arr[k] = v *)
| OViewFields (fs : list string)
| OPopFields (fs : list string)
| OSetList (nm : string) (ty : ety) (v : larr) (keep : bool)
| OSetFlat (nm : string) (ty : ety) (v : flatval) (keep : bool)
| OFill (nm : string) (ty : ety) (vs : list val) (keep : bool)
| ORoundtripLS.                                   (* NestedExtensionArray(arr.chunked_list_struct_array) *)

(* export to list-of-structs, chunk by chunk, and import again *)
Definition m_export_ls (p : chunked) : res (list lsarr) :=
  fold_right (fun c acc => res_bind (m_transpose_sl c) (fun a => res_bind acc (fun t => Ok (a :: t))))
             (Ok []) (chunks p).
Definition m_roundtrip_ls (p : chunked) : res chunked :=
  res_bind (m_export_ls p) (fun cs => m_init_from_ls (ctype p) cs).

Definition m_step (p : chunked) (o : aop) : res chunked :=
  match o with
  | OSlice a b s => m_getitem_slice p a b s
  | OMask m => m_getitem_mask p m
  | OIdx ix => m_getitem_idx p ix
  | OTake ix af fill => m_take p ix af fill
  | OConcat bs afs => m_concat (bs ++ p :: afs)
  | OCopy => m_copy p
  | ODropna => m_dropna p
  | OPickle => m_pickle p
  | OSetitem k v => m_setitem p k v
  | OViewFields fs => m_view_fields p fs
  | OPopFields fs => m_pop_fields p fs
  | OSetList nm ty v keep => m_set_list_field p nm ty v keep
  | OSetFlat nm ty v keep => m_set_flat_field p nm ty v keep
  | OFill nm ty vs keep => m_fill_field_lists p nm ty vs keep
  | ORoundtripLS => m_roundtrip_ls p
  end.

Definition akey_of (k : skey) : akey :=
  match k with KInt z => AInt z | KSlice a b s => ASlice a b s | KMask m => AMask m | KIdx ix => AIdx ix end.
Definition aval_of (v : sval) : aval :=
  match v with SRow r => ARow r | SRows rs => ARows rs end.
Definition fvalue_of (v : flatval) : fvalue :=
  match v with FScalar x => FVScalar x | FArray l => FVFlat l end.

Definition spec_step (L : lcol) (o : aop) : res lcol :=
  match o with
  | OSlice a b s => spec_col_slice L a b s
  | OMask m => spec_col_mask L m
  | OIdx ix => spec_col_idx L ix
  | OTake ix af fill => spec_col_take L ix af fill
  | OConcat bs afs => spec_col_concat (map abs bs ++ L :: map abs afs)
  | OCopy => Ok L
  | ODropna => Ok (spec_col_dropna L)
  | OPickle => Ok L
  | OSetitem k v => spec_col_setitem L (akey_of k) (aval_of v)
  | OViewFields fs => spec_col_view_fields L fs
  | OPopFields fs => spec_col_pop_fields L fs
  | OSetList nm ty v keep => spec_col_set_lists L nm ty (map (@olist val) (la_lists v)) keep
  | OSetFlat nm ty v keep => spec_col_set_flat L nm ty (fvalue_of v) keep
  | OFill nm ty vs keep => spec_col_fill L nm ty vs keep
  | ORoundtripLS => Ok L
  end.

(* histories: left-to-right, stop at the first error *)
Fixpoint m_run (p : chunked) (ops : list aop) : res chunked :=
  match ops with [] => Ok p | o :: t => res_bind (m_step p o) (fun p' => m_run p' t) end.
Fixpoint spec_run (L : lcol) (ops : list aop) : res lcol :=
  match ops with [] => Ok L | o :: t => res_bind (spec_step L o) (fun L' => spec_run L' t) end.

(* the invariant every array born through the API satisfies *)
Definition inv_b (p : chunked) : bool :=
  wf_b p && norm_missing_all_b p && negb (length (chunks p) =? 0) && nodupb (map fst (ctype p)).

(* what a well-formed ARGUMENT of an operation is (the quantifier's domain: values of matching
   width offered at distinct positions; other columns are themselves columns of the library) *)
Definition row_width_ok (k : nat) (r : option (list (list val))) : bool :=
  match r with Some fs => length fs =? k | None => true end.

Definition targets_of (n : nat) (k : skey) : option (list nat) :=
  match k with
  | KInt z => option_map (fun i => [i]) (norm_index n z)
  | KSlice a b s => match py_slice_positions a b s n with Ok pos => Some pos | Err => None end
  | KMask m => if length m =? n then Some (true_positions m) else None
  | KIdx ix => norm_indices n ix
  end.

Fixpoint nodup_nat (l : list nat) : bool :=
  match l with [] => true | x :: t => negb (existsb (Nat.eqb x) t) && nodup_nat t end.

Definition op_ok (p : chunked) (o : aop) : bool :=
  match o with
  | OTake _ _ (Some fs) => length fs =? length (ctype p)
  | OConcat bs afs => forallb (fun q => inv_b q && schema_eqb (ctype q) (ctype p)) (bs ++ afs)
  | OSetitem k v =>
      match targets_of (m_len p) k with
      | None => true                                   (* invalid key: both sides refuse *)
      | Some ts =>
          nodup_nat ts &&
          match v with
          | SRow r => true
          | SRows rs => length rs =? length ts        (* one offered row per target *)
          end
      end
  | OViewFields fs => negb (length fs =? 0)
  (* the offered list array is a valid Arrow list array without null lists, and offers nothing
     for a missing row (the quantifier's domain: "values of matching length") *)
  | OSetList nm ty v keep =>
      wf_larr_b (la_len v) v && forallb (fun b => b) (lvalid v)
      && (negb (la_len v =? m_len p)
          || forallb2 (fun (s : bool) d => s || (d =? 0)) (concat (map svalid (chunks p))) (diffs (offs v)))
  (* keep_dtype on an existing field: the offered element type is the field's type (casting is Arrow's business) *)
  | OFill nm ty vs keep =>
      negb keep || match schema_type (ctype p) nm with Some t => ety_eqb t ty | None => true end
  | _ => true
  end.
