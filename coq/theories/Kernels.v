(* Kernels.v — canonical executable instances of the Arrow kernels the library calls
   (take, filter, slice, if_else, concat/combine_chunks, drop_null).  They work on the
   "decoded" form of a chunked struct array (row validity + per-field optional lists, hidden
   children under missing rows retained) and re-encode into one fresh compact chunk.  The
   chunking / offsets base a real kernel chooses is NOT modelled: every theorem about library
   code uses only the abs-level lemmas proved about these instances (Proofs_Kernels.v), which
   are exactly the contracts the kernel stream samples against real pyarrow. *)
From Coq Require Import String List Arith Bool ZArith.
Import ListNotations.
From NP Require Import Base Values Arrow Abs.

(* decoded rows: (validity, per field: per row optional list) *)
Definition rowsd := (list bool * list (list (option (list val))))%type.

Definition decode_chunk (c : schunk) : list (list (option (list val))) :=
  map (fun f => la_lists (farr f)) (sfields c).

Definition decode (p : chunked) : rowsd :=
  (concat (map svalid (chunks p)),
   map (fun k => concat (map (fun c => nth k (decode_chunk c) []) (chunks p))) (seq 0 (length (ctype p)))).

Definition encode (sch : schema) (d : rowsd) : chunked :=
  {| ctype := sch;
     chunks := [ {| svalid := fst d;
                    sfields := map2 (fun (nt : string * ety) ls =>
                                       {| fname := fst nt; fty := snd nt; farr := la_of_lists ls |})
                                    sch (snd d) |} ] |}.

Definition rowsd_map (f : forall A : Type, A -> list A -> list A) (d : rowsd) : rowsd :=
  (f bool false (fst d), map (f (option (list val)) None) (snd d)).

(* select rows by (optional) position; a null position gives a null row *)
Definition sel {A} (dflt : A) (ix : list (option nat)) (l : list A) : list A :=
  map (fun oi => match oi with Some i => nth i l dflt | None => dflt end) ix.

Definition k_take (p : chunked) (ix : list (option nat)) : chunked :=
  let d := decode p in
  encode (ctype p) (sel false ix (fst d), map (sel None ix) (snd d)).

Definition k_filter (p : chunked) (m : list bool) : chunked :=
  let d := decode p in
  encode (ctype p) (mask_filter m (fst d), map (mask_filter m) (snd d)).

Definition k_slice (p : chunked) (a b : nat) : chunked :=
  let d := decode p in
  encode (ctype p) (slice a b (fst d), map (slice a b) (snd d)).

Fixpoint choose {A} (m : list bool) (a b : list A) : list A :=
  match m, a, b with
  | c :: m', x :: a', y :: b' => (if c then x else y) :: choose m' a' b'
  | _, _, _ => []
  end.

(* pc.if_else(mask, a, b) on struct arrays of the same type *)
Definition k_if_else (m : list bool) (a b : chunked) : chunked :=
  let da := decode a in let db := decode b in
  encode (ctype b) (choose m (fst da) (fst db), map2 (choose m) (snd da) (snd db)).

Definition k_concat (sch : schema) (ps : list chunked) : chunked :=
  {| ctype := sch; chunks := concat (map chunks ps) |}.

Definition k_combine_chunks (p : chunked) : chunked := encode (ctype p) (decode p).

Definition k_drop_null (p : chunked) : chunked := k_filter p (fst (decode p)).
