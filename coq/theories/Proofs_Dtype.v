(* Proofs_Dtype.v — the string name of a nested dtype parses back to the same dtype (C17).
   A feasibility sketch of split (join ps) = ps for a generic 2-character separator is in
   /tmp/proofs/dtype/scratch/Split2_sketch.v (different definitions: adapt, do not import). *)
From Coq Require Import String List Arith Bool Lia.
Import ListNotations.
From NP Require Import Base Values Dtype.

(* ---------- helpers: equations for the two-at-a-time fixpoints ---------- *)
Lemma split2_cons2 c1 c2 x y t acc :
  split2 c1 c2 (x :: y :: t) acc =
  if (x =? c1) && (y =? c2) then rev acc :: split2 c1 c2 t [] else split2 c1 c2 (y :: t) (x :: acc).
Proof. reflexivity. Qed.
Lemma split2_one c1 c2 x acc : split2 c1 c2 [x] acc = [rev (x :: acc)].
Proof. reflexivity. Qed.
Lemma split2_nil c1 c2 acc : split2 c1 c2 [] acc = [rev acc].
Proof. reflexivity. Qed.

Lemma split_first_cons2 c1 c2 x y t acc :
  split_first c1 c2 (x :: y :: t) acc =
  if (x =? c1) && (y =? c2) then Some (rev acc, t) else split_first c1 c2 (y :: t) (x :: acc).
Proof. reflexivity. Qed.

Lemma has_sep_cons2 c1 c2 x y t :
  has_sep c1 c2 (x :: y :: t) = ((x =? c1) && (y =? c2)) || has_sep c1 c2 (y :: t).
Proof. reflexivity. Qed.
Lemma has_sep_one c1 c2 x : has_sep c1 c2 [x] = false.
Proof. reflexivity. Qed.

Lemma sep_hit (c1 c2 : nat) : (c1 =? c1) && (c2 =? c2) = true.
Proof. rewrite !Nat.eqb_refl. reflexivity. Qed.

Lemma sep_miss1 (c1 c2 x : nat) : c1 <> c2 -> (x =? c1) && (c1 =? c2) = false.
Proof. intro H. apply Nat.eqb_neq in H. rewrite H. apply andb_false_r. Qed.

(* ---------- split2 on one piece ---------- *)
Lemma split2_piece_end c1 c2 : forall p acc, has_sep c1 c2 p = false -> split2 c1 c2 p acc = [rev acc ++ p].
Proof.
  induction p as [|x p IH]; intros acc H.
  - rewrite split2_nil, app_nil_r. reflexivity.
  - destruct p as [|y p'].
    + rewrite split2_one. reflexivity.
    + rewrite has_sep_cons2 in H. apply orb_false_iff in H as [Hxy H].
      rewrite split2_cons2, Hxy, (IH (x :: acc) H).
      cbn [rev]. rewrite <- app_assoc. reflexivity.
Qed.

Lemma split2_piece_sep c1 c2 : c1 <> c2 -> forall p acc more, has_sep c1 c2 p = false ->
  split2 c1 c2 (p ++ c1 :: c2 :: more) acc = (rev acc ++ p) :: split2 c1 c2 more [].
Proof.
  intros c12. induction p as [|x p IH]; intros acc more H.
  - cbn [app]. rewrite split2_cons2, sep_hit, app_nil_r. reflexivity.
  - destruct p as [|y p'].
    + cbn [app]. rewrite split2_cons2, (sep_miss1 c1 c2 x c12), split2_cons2, sep_hit. reflexivity.
    + rewrite has_sep_cons2 in H. apply orb_false_iff in H as [Hxy H].
      cbn [app]. rewrite split2_cons2, Hxy.
      change (y :: p' ++ c1 :: c2 :: more) with ((y :: p') ++ c1 :: c2 :: more).
      rewrite (IH (x :: acc) more H). cbn [rev]. rewrite <- app_assoc. reflexivity.
Qed.

Lemma join2_cons2 c1 c2 p q ps : join2 c1 c2 (p :: q :: ps) = p ++ c1 :: c2 :: join2 c1 c2 (q :: ps).
Proof. reflexivity. Qed.

(* CPython's split and join are inverse on pieces that do not contain the separator *)
Lemma split_join c1 c2 ps : c1 <> c2 -> ps <> [] -> forallb (fun p => negb (has_sep c1 c2 p)) ps = true ->
  py_split c1 c2 (join2 c1 c2 ps) = ps.
Proof.
  intros c12. unfold py_split. induction ps as [|p ps IH]; intros Hne Hall; [congruence|].
  cbn [forallb] in Hall. apply andb_true_iff in Hall as [Hp Hps]. apply negb_true_iff in Hp.
  destruct ps as [|q ps'].
  - cbn [join2]. rewrite split2_piece_end by exact Hp. reflexivity.
  - rewrite join2_cons2, split2_piece_sep by assumption. cbn [rev app]. f_equal.
    apply IH; [discriminate|exact Hps].
Qed.

(* ---------- has_sep across a concatenation ---------- *)
Lemma has_sep_app_cons c1 c2 : forall a x b, has_sep c1 c2 a = false -> x <> c2 ->
  has_sep c1 c2 (x :: b) = false -> has_sep c1 c2 (a ++ x :: b) = false.
Proof.
  induction a as [|u a IH]; intros x b Ha Hx Hb.
  - exact Hb.
  - destruct a as [|v a'].
    + cbn [app]. rewrite has_sep_cons2, Hb. apply Nat.eqb_neq in Hx. rewrite Hx, andb_false_r. reflexivity.
    + rewrite has_sep_cons2 in Ha. apply orb_false_iff in Ha as [Huv Ha].
      cbn [app]. rewrite has_sep_cons2, Huv. cbn [orb].
      change (v :: a' ++ x :: b) with ((v :: a') ++ x :: b). apply IH; assumption.
Qed.

Lemma has_sep_render_field nt :
  has_sep COMMA SPACE (fst nt) = false -> has_sep COMMA SPACE (snd nt) = false ->
  has_sep COMMA SPACE (render_field nt) = false.
Proof.
  intros Hn Ht. unfold render_field. cbn [app].
  apply has_sep_app_cons; [exact Hn|discriminate|].
  rewrite has_sep_cons2. cbn [Nat.eqb COLON SPACE COMMA andb orb].
  rewrite has_sep_cons2. cbn [Nat.eqb COLON SPACE COMMA LBR andb orb].
  change (LBR :: snd nt ++ [RBR]) with ([LBR] ++ snd nt ++ [RBR]).
  destruct (snd nt) as [|y t] eqn:E.
  - reflexivity.
  - cbn [app]. rewrite has_sep_cons2. replace (LBR =? COMMA) with false by reflexivity. cbn [andb orb].
    change (y :: t ++ [RBR]) with ((y :: t) ++ RBR :: []).
    apply has_sep_app_cons; [exact Ht|discriminate|reflexivity].
Qed.

(* the version that is used: pieces of the shape  name ++ ": [" ++ type ++ "]"  end with "]" (<> ","), so a
   separator ", " can neither hide inside a piece nor straddle a piece boundary *)
Lemma split_join_fields d : d <> [] ->
  forallb (fun nt => negb (has_sep COMMA SPACE (fst nt)) && negb (has_sep COMMA SPACE (snd nt))) d = true ->
  py_split COMMA SPACE (join2 COMMA SPACE (map render_field d)) = map render_field d.
Proof.
  intros Hne Hall. apply split_join.
  - discriminate.
  - destruct d; [congruence|discriminate].
  - rewrite forallb_forall in *. intros p Hp. apply in_map_iff in Hp as [nt [<- Hin]].
    specialize (Hall nt Hin). apply andb_true_iff in Hall as [Hn Ht].
    apply negb_true_iff in Hn, Ht. apply negb_true_iff. apply has_sep_render_field; assumption.
Qed.

(* ---------- split_first on a piece followed by the separator ---------- *)
Lemma split_first_piece c1 c2 : c1 <> c2 -> forall p acc more, has_sep c1 c2 p = false ->
  split_first c1 c2 (p ++ c1 :: c2 :: more) acc = Some (rev acc ++ p, more).
Proof.
  intros c12. induction p as [|x p IH]; intros acc more H.
  - cbn [app]. rewrite split_first_cons2, sep_hit, app_nil_r. reflexivity.
  - destruct p as [|y p'].
    + cbn [app]. rewrite split_first_cons2, (sep_miss1 c1 c2 x c12), split_first_cons2, sep_hit. reflexivity.
    + rewrite has_sep_cons2 in H. apply orb_false_iff in H as [Hxy H].
      cbn [app]. rewrite split_first_cons2, Hxy.
      change (y :: p' ++ c1 :: c2 :: more) with ((y :: p') ++ c1 :: c2 :: more).
      rewrite (IH (x :: acc) more H). cbn [rev]. rewrite <- app_assoc. reflexivity.
Qed.

Lemma starts_with_refl_app p : forall s, starts_with p (p ++ s) = true.
Proof. induction p as [|a p IH]; intro s; [reflexivity|]. cbn [app starts_with]. rewrite Nat.eqb_refl. apply IH. Qed.

Lemma ends_with_last c s : ends_with [c] (s ++ [c]) = true.
Proof. unfold ends_with. rewrite rev_app_distr. cbn [rev app starts_with]. rewrite Nat.eqb_refl. reflexivity. Qed.

(* one field string parses back to its field *)
Lemma parse_field_render table n t : negb (has_sep COLON SPACE n) = true ->
  parse_field table (render_field (n, t)) = match alias_of table t with Some c => Ok (n, c) | None => Err end.
Proof.
  intro H. apply negb_true_iff in H. unfold parse_field, render_field. cbn [fst snd app].
  rewrite (split_first_piece COLON SPACE) by (discriminate || exact H). cbn [rev app].
  change (LBR :: t ++ [RBR]) with ((LBR :: t) ++ [RBR]) at 2.
  rewrite ends_with_last. cbn [starts_with tl]. rewrite Nat.eqb_refl. cbn [andb].
  rewrite removelast_last. reflexivity.
Qed.

(* ---------- the fold of parse_name ---------- *)
Definition pn_step (table : list (str * str)) (acc : res dfields) (fs : str) : res dfields :=
  res_bind acc (fun d => res_bind (parse_field table fs) (fun nt => Ok (dict_set d (fst nt) (snd nt)))).

Lemma parse_name_unfold table d :
  parse_name table (render_name d) = fold_left (pn_step table) (py_split COMMA SPACE (join2 COMMA SPACE (map render_field d))) (Ok []).
Proof.
  unfold parse_name, render_name.
  rewrite starts_with_refl_app.
  rewrite app_assoc, ends_with_last. cbn [andb].
  rewrite <- app_assoc, skipn_app, skipn_all, Nat.sub_diag. cbn [app skipn].
  rewrite removelast_last. reflexivity.
Qed.

Lemma fold_pn_err table l : fold_left (pn_step table) l Err = Err.
Proof. induction l as [|x l IH]; [reflexivity|]. cbn [fold_left]. exact IH. Qed.

Lemma str_eqb_spec a b : str_eqb a b = true <-> a = b.
Proof. apply list_eqb_spec. intros x y. apply Nat.eqb_eq. Qed.

Lemma names_distinct_NoDup l : names_distinct l = true -> NoDup l.
Proof.
  induction l as [|x l IH]; intro H; [constructor|].
  cbn [names_distinct] in H. apply andb_true_iff in H as [H1 H2]. apply negb_true_iff in H1.
  constructor; [|apply IH; exact H2].
  intro Hin. assert (E : existsb (str_eqb x) l = true).
  { apply existsb_exists. exists x. split; [exact Hin|apply str_eqb_spec; reflexivity]. }
  congruence.
Qed.

Lemma dict_set_fresh : forall (d : dfields) k v, ~ In k (map fst d) -> dict_set d k v = d ++ [(k, v)].
Proof.
  induction d as [|[k' v'] d IH]; intros k v H; [reflexivity|].
  cbn [dict_set app]. cbn [map fst In] in H.
  destruct (str_eqb k' k) eqn:E.
  - apply str_eqb_spec in E. exfalso. apply H. left. exact E.
  - f_equal. apply IH. intro Hin. apply H. right. exact Hin.
Qed.

Lemma fold_pn_ok table : forall d acc,
  NoDup (map fst (acc ++ d)) ->
  forallb name_ok (map fst d) = true -> forallb (type_simple table) (map snd d) = true ->
  fold_left (pn_step table) (map render_field d) (Ok acc) = Ok (acc ++ d).
Proof.
  induction d as [|[n t] d IH]; intros acc Hnd Hn Ht.
  - rewrite app_nil_r. reflexivity.
  - cbn [map fst snd forallb] in Hn, Ht.
    apply andb_true_iff in Hn as [Hn Hns]. apply andb_true_iff in Ht as [Ht Hts].
    unfold name_ok in Hn. apply andb_true_iff in Hn as [_ Hn].
    unfold type_simple in Ht. apply andb_true_iff in Ht as [_ Ht].
    cbn [map fold_left]. unfold pn_step at 2. cbn [res_bind].
    rewrite (parse_field_render table n t Hn).
    destruct (alias_of table t) as [c|]; [|discriminate].
    apply str_eqb_spec in Ht. subst c. cbn [res_bind fst snd].
    rewrite map_app in Hnd. cbn [map fst] in Hnd.
    rewrite dict_set_fresh.
    + replace (acc ++ (n, t) :: d) with ((acc ++ [(n, t)]) ++ d) by (rewrite <- app_assoc; reflexivity).
      apply IH; [|exact Hns|exact Hts].
      rewrite <- app_assoc, map_app. exact Hnd.
    + apply NoDup_remove_2 in Hnd. intro Hin. apply Hnd. apply in_or_app. left. exact Hin.
Qed.

Lemma dtype_ok_seps (d : dfields) :
  forallb name_ok (map fst d) = true -> forallb (fun t => negb (has_sep COMMA SPACE t)) (map snd d) = true ->
  forallb (fun nt => negb (has_sep COMMA SPACE (fst nt)) && negb (has_sep COMMA SPACE (snd nt))) d = true.
Proof.
  intros Hn Ht. rewrite forallb_forall in *. intros [n t] Hin. cbn [fst snd].
  apply andb_true_iff. split.
  - specialize (Hn n (in_map fst _ _ Hin)). unfold name_ok in Hn. apply andb_true_iff in Hn as [Hn _]. exact Hn.
  - exact (Ht t (in_map snd _ _ Hin)).
Qed.

(* THE round trip: the name of a dtype (distinct names free of the separators, element types that are aliases
   of themselves and free of ", ") parses back to exactly that dtype *)
Theorem parse_render table d : dtype_ok table d = true -> parse_name table (render_name d) = Ok d.
Proof.
  unfold dtype_ok. intro H.
  apply andb_true_iff in H as [H Ht]. apply andb_true_iff in H as [H Hn]. apply andb_true_iff in H as [Hlen Hnd].
  assert (Hne : d <> []).
  { intro E. subst d. discriminate. }
  rewrite parse_name_unfold, split_join_fields.
  - change d with ([] ++ d) at 2. apply fold_pn_ok; [|exact Hn|exact Ht].
    cbn [app]. apply names_distinct_NoDup. exact Hnd.
  - exact Hne.
  - apply dtype_ok_seps; [exact Hn|].
    rewrite forallb_forall in *. intros t Hin. specialize (Ht t Hin). unfold type_simple in Ht.
    apply andb_true_iff in Ht as [Ht _]. exact Ht.
Qed.

(* hence the name determines the dtype: equal names, equal dtypes *)
Theorem render_injective table d1 d2 : dtype_ok table d1 = true -> dtype_ok table d2 = true ->
  render_name d1 = render_name d2 -> d1 = d2.
Proof.
  intros H1 H2 E. pose proof (parse_render table d1 H1) as P1. pose proof (parse_render table d2 H2) as P2.
  rewrite E in P1. rewrite P1 in P2. inversion P2. reflexivity.
Qed.

Lemma fold_pn_refuse table : forall d acc,
  forallb name_ok (map fst d) = true ->
  existsb (fun t => match alias_of table t with None => true | Some _ => false end) (map snd d) = true ->
  fold_left (pn_step table) (map render_field d) acc = Err.
Proof.
  induction d as [|[n t] d IH]; intros acc Hn Hex; [discriminate|].
  cbn [map fst snd forallb existsb] in Hn, Hex.
  apply andb_true_iff in Hn as [Hn Hns].
  unfold name_ok in Hn. apply andb_true_iff in Hn as [_ Hn].
  cbn [map fold_left].
  destruct (alias_of table t) as [c|] eqn:Ea.
  - cbn [orb] in Hex. apply IH; assumption.
  - replace (pn_step table acc (render_field (n, t))) with (@Err dfields); [apply fold_pn_err|].
    unfold pn_step. destruct acc as [a|]; [|reflexivity]. cbn [res_bind].
    rewrite (parse_field_render table n t Hn), Ea. reflexivity.
Qed.

(* an element type that is not an alias (a parametric type whose rendering has no ", ") is refused, never mis-parsed *)
Theorem parse_refuses_non_alias table d :
  d <> [] -> forallb name_ok (map fst d) = true ->
  forallb (fun t => negb (has_sep COMMA SPACE t)) (map snd d) = true ->
  existsb (fun t => match alias_of table t with None => true | Some _ => false end) (map snd d) = true ->
  parse_name table (render_name d) = Err.
Proof.
  intros Hne Hn Ht Hex.
  rewrite parse_name_unfold, split_join_fields; [|exact Hne|apply dtype_ok_seps; assumption].
  apply fold_pn_refuse; assumption.
Qed.

(* strings that are not of the form nested<...> are refused *)
Theorem parse_requires_wrapper table s :
  starts_with nested_prefix s && ends_with [GT] s = false -> parse_name table s = Err.
Proof. intro H. unfold parse_name. rewrite H. reflexivity. Qed.

Print Assumptions split_join.
Print Assumptions split_join_fields.
Print Assumptions parse_field_render.
Print Assumptions parse_render.
Print Assumptions render_injective.
Print Assumptions parse_refuses_non_alias.
Print Assumptions parse_requires_wrapper.
