(* Proofs_Box.v — boxing a table by field name does not depend on the order of the table's columns *)
From Coq Require Import String List Arith Bool Permutation Lia ZArith.
Import ListNotations.
From NP Require Import Base Values Box.

Lemma existsb_perm (f : string -> bool) l l' : Permutation l l' -> existsb f l = existsb f l'.
Proof.
  induction 1 as [|x l l' _ IH|x y l|l l' l'' _ IH1 _ IH2]; cbn [existsb]; try reflexivity.
  - rewrite IH. reflexivity.
  - destruct (f x), (f y); reflexivity.
  - rewrite IH1. exact IH2.
Qed.

Lemma nodup_names_spec l : nodup_names l = true <-> NoDup l.
Proof.
  induction l as [|x r IH]; cbn [nodup_names].
  - split; [constructor|reflexivity].
  - rewrite andb_true_iff, negb_true_iff, IH. split.
    + intros [Hx Hr]. constructor; [|exact Hr]. intro Hin.
      assert (existsb (String.eqb x) r = true) as E by (apply existsb_exists; exists x; split; [exact Hin|apply String.eqb_refl]).
      congruence.
    + intros H. inversion H as [|? ? Hnot Hnd]; subst. split; [|exact Hnd].
      destruct (existsb (String.eqb x) r) eqn:E; [|reflexivity].
      apply existsb_exists in E. destruct E as (y & Hy & Hxy). apply String.eqb_eq in Hxy. subst y. contradiction.
Qed.

Lemma nodup_names_perm l l' : Permutation l l' -> nodup_names l = nodup_names l'.
Proof.
  intro P. destruct (nodup_names l) eqn:E, (nodup_names l') eqn:E'; try reflexivity.
  - apply nodup_names_spec in E. apply (Permutation_NoDup P) in E. apply nodup_names_spec in E. congruence.
  - apply nodup_names_spec in E'. apply (Permutation_NoDup (Permutation_sym P)) in E'. apply nodup_names_spec in E'. congruence.
Qed.

Lemma lookup_in nm (t : table) v : NoDup (map fst t) -> In (nm, v) t -> lookup nm t = Some v.
Proof.
  induction t as [|[k w] r IH]; intros Hnd Hin; [destruct Hin|].
  cbn [lookup]. cbn [map fst] in Hnd. inversion Hnd as [|? ? Hnot Hnd']; subst.
  destruct Hin as [E|Hin].
  - inversion E; subst. rewrite String.eqb_refl. reflexivity.
  - destruct (String.eqb k nm) eqn:E.
    + apply String.eqb_eq in E. subst k. exfalso. apply Hnot. change nm with (fst (nm, v)). apply in_map. exact Hin.
    + apply IH; assumption.
Qed.

Lemma lookup_none nm (t : table) : lookup nm t = None <-> ~ In nm (map fst t).
Proof.
  induction t as [|[k w] r IH]; cbn [lookup map fst In].
  - split; [intros _ []|reflexivity].
  - destruct (String.eqb k nm) eqn:E.
    + apply String.eqb_eq in E. split; [discriminate|]. intro H. exfalso. apply H. left. exact E.
    + apply String.eqb_neq in E. rewrite IH. split; [intros H [H1|H1]; [congruence|exact (H H1)]|intros H H1; apply H; right; exact H1].
Qed.

Lemma lookup_some_in nm (t : table) v : lookup nm t = Some v -> In (nm, v) t.
Proof.
  induction t as [|[k w] r IH]; cbn [lookup]; [discriminate|].
  destruct (String.eqb k nm) eqn:E.
  - apply String.eqb_eq in E. intro H. inversion H; subst. left. reflexivity.
  - intro H. right. exact (IH H).
Qed.

Lemma lookup_perm nm (t t' : table) : NoDup (map fst t) -> Permutation t t' -> lookup nm t = lookup nm t'.
Proof.
  intros Hnd P.
  assert (Hnd' : NoDup (map fst t')) by (apply (Permutation_NoDup (Permutation_map fst P)); exact Hnd).
  destruct (lookup nm t) as [v|] eqn:E.
  - symmetry. apply lookup_in; [exact Hnd'|]. apply (Permutation_in _ P). apply lookup_some_in. exact E.
  - symmetry. apply lookup_none. intro Hin. apply (proj1 (lookup_none nm t) E).
    apply (Permutation_in _ (Permutation_sym (Permutation_map fst P))). exact Hin.
Qed.

(* the order in which the columns of a table are offered does not matter *)
Theorem box_order_irrelevant fields (t t' : table) : Permutation t t' -> m_box fields t = m_box fields t'.
Proof.
  intro P. unfold m_box.
  rewrite (Permutation_length P), (nodup_names_perm _ _ (Permutation_map fst P)).
  destruct (negb (length t' =? length fields) || negb (nodup_names (map fst t'))) eqn:G; [reflexivity|].
  apply orb_false_iff in G. destruct G as [_ G]. apply negb_false_iff in G.
  assert (Hnd : NoDup (map fst t)).
  { apply (Permutation_NoDup (Permutation_sym (Permutation_map fst P))). apply nodup_names_spec. exact G. }
  replace (map (fun f => lookup f t) fields) with (map (fun f => lookup f t') fields); [reflexivity|].
  apply map_ext. intro f. symmetry. apply lookup_perm; assumption.
Qed.

(* a table in the column's own order: the row is its columns; a refused table misses a field, has one too many or repeats one *)
Theorem box_in_order (fields : list string) (cols : list (list val)) : NoDup fields -> length cols = length fields ->
  m_box fields (combine fields cols) = Ok cols.
Proof.
  intros Hnd Hlen. unfold m_box.
  assert (Hfst : map fst (combine fields cols) = fields).
  { clear Hnd. revert cols Hlen. induction fields as [|f r IH]; intros [|c cs] Hlen; cbn in *; try reflexivity; try discriminate.
    f_equal. apply IH. lia. }
  rewrite combine_length, Hlen, Nat.min_id, Nat.eqb_refl, Hfst.
  rewrite (proj2 (nodup_names_spec fields) Hnd). cbn [negb orb].
  assert (H : all_some (map (fun f => lookup f (combine fields cols)) fields) = Some cols).
  { revert cols Hlen Hfst. induction fields as [|f r IH]; intros [|c cs] Hlen Hfst; cbn in Hlen; try discriminate; [reflexivity|].
    inversion Hnd as [|? ? Hnot Hnd']; subst.
    cbn [combine map lookup all_some]. rewrite String.eqb_refl.
    assert (E : map (fun f0 => if String.eqb f f0 then Some c else lookup f0 (combine r cs)) r
                = map (fun f0 => lookup f0 (combine r cs)) r).
    { apply map_ext_in. intros g Hg. destruct (String.eqb f g) eqn:E; [|reflexivity].
      apply String.eqb_eq in E. subst g. contradiction. }
    cbn [lookup]. rewrite E. rewrite (IH Hnd' cs); [reflexivity|lia|].
    cbn [combine map fst] in Hfst. inversion Hfst. congruence. }
  rewrite H. reflexivity.
Qed.

Corollary box_any_order fields cols (t : table) : NoDup fields -> length cols = length fields ->
  Permutation t (combine fields cols) -> m_box fields t = Ok cols.
Proof. intros Hnd Hlen P. rewrite (box_order_irrelevant fields t _ P). apply box_in_order; assumption. Qed.

(* boxing by position is another function: two doubles offered in the other order change places *)
Theorem box_positional_refuted : exists fields t t',
  Permutation t t' /\ m_box fields t = m_box fields t' /\ m_box_positional fields t <> m_box_positional fields t'.
Proof.
  exists ["t"%string; "flux"%string],
         [("t"%string, [VInt 1%Z]); ("flux"%string, [VInt 9%Z])], [("flux"%string, [VInt 9%Z]); ("t"%string, [VInt 1%Z])].
  split; [apply perm_swap|]. split; [reflexivity|]. vm_compute. discriminate.
Qed.

Print Assumptions box_order_irrelevant.
Print Assumptions box_in_order.
Print Assumptions box_any_order.
Print Assumptions box_positional_refuted.
