(* Proofs_Setitem.v — element assignment through the cumulative-sum masked replace. *)
From Coq Require Import String List Arith Bool ZArith Lia Sorted.
Import ListNotations.
From NP Require Import Base Values Arrow Abs Kernels Logical ExtArray Codec Steps Proofs_Views Proofs_Codec.

(* Plan of the file.
   A. index arithmetic of replace_with_mask (value_index_from, true_positions) and of
      np.unique(..., return_index=True) (unique_first_index) — value_index_rank and
      unique_first_index_sorts are proved here (the latter via the general unique_first_index_sorts_n);
   B. target positions of every key are in range;
   C. choose (if_else) against list_update: choose_update is the core list argument;
   D. decoded rows: row-wise choice (dchoose) and boxed rows (bdec) preserve dec_inv_b and
      commute with dec_rows;
   E. m_setitem = key analysis (set_prep) ; tail (set_tail); both top-level lemmas follow
      from tail_both through setitem_both. *)

(* ---------- generic list facts ---------- *)

Lemma nth_map_lt {A B} (f : A -> B) l i d d' : i < length l -> nth i (map f l) d = f (nth i l d').
Proof.
  intros H. rewrite (nth_indep _ d (f d')) by (rewrite map_length; exact H). apply map_nth.
Qed.

Lemma count_true_cons b m : count_true (b :: m) = (if b then 1 else 0) + count_true m.
Proof. unfold count_true. destruct b; reflexivity. Qed.

Lemma count_true_nil : count_true [] = 0.
Proof. reflexivity. Qed.

Lemma count_true_firstn_S : forall m i,
  count_true (firstn (S i) m) = count_true (firstn i m) + (if nth i m false then 1 else 0).
Proof.
  induction m as [|b m IH]; intros i.
  - rewrite !firstn_nil. destruct i; reflexivity.
  - destruct i as [|i].
    + cbn [firstn nth]. rewrite count_true_cons, !count_true_nil. lia.
    + change (firstn (S (S i)) (b :: m)) with (b :: firstn (S i) m).
      change (firstn (S i) (b :: m)) with (b :: firstn i m).
      rewrite !count_true_cons, IH. cbn [nth]. lia.
Qed.

Lemma count_true_firstn_le : forall m i, count_true (firstn i m) <= count_true m.
Proof.
  induction m as [|b m IH]; intros i.
  - rewrite firstn_nil. lia.
  - destruct i as [|i]; cbn [firstn]; rewrite ?count_true_cons, ?count_true_nil; [lia|].
    specialize (IH i). lia.
Qed.

Lemma nth_true_lt : forall (m : list bool) i, nth i m false = true -> i < length m.
Proof.
  intros m i H. destruct (Nat.lt_ge_cases i (length m)) as [|Hge]; [assumption|].
  rewrite nth_overflow in H by exact Hge. discriminate.
Qed.

(* ---------- value_index = max(cumsum(mask) - 1, 0) ---------- *)

Lemma length_value_index : forall m acc, length (value_index_from acc m) = length m.
Proof. induction m as [|b m IH]; intro acc; simpl; [reflexivity|]. rewrite IH. reflexivity. Qed.

Lemma value_index_nth : forall m acc i, i < length m ->
  nth i (value_index_from acc m) 0 = acc + count_true (firstn (S i) m) - 1.
Proof.
  induction m as [|b m IH]; intros acc i Hi; [simpl in Hi; lia|].
  destruct i as [|i].
  - cbn [value_index_from nth firstn]. rewrite count_true_cons, count_true_nil. destruct b; lia.
  - cbn [value_index_from nth]. simpl in Hi. rewrite IH by lia.
    change (firstn (S (S i)) (b :: m)) with (b :: firstn (S i) m). rewrite count_true_cons.
    destruct b; lia.
Qed.

Lemma value_index_rank_from : forall m acc i, nth i m false = true ->
  nth i (value_index_from acc m) 0 = acc + count_true (firstn i m).
Proof.
  intros m acc i H. pose proof (nth_true_lt m i H) as Hi.
  rewrite value_index_nth by exact Hi. rewrite count_true_firstn_S, H. lia.
Qed.

Lemma value_index_bound : forall m i, count_true m <> 0 -> i < length m ->
  nth i (value_index_from 0 m) 0 < count_true m.
Proof.
  intros m i Hc Hi. rewrite value_index_nth by exact Hi.
  pose proof (count_true_firstn_le m (S i)). lia.
Qed.

(* ---------- true_positions ---------- *)

Lemma tp_from_In : forall m k x,
  In x (true_positions_from k m) <-> k <= x /\ x < k + length m /\ nth (x - k) m false = true.
Proof.
  induction m as [|b m IH]; intros k x.
  - simpl. split; [tauto|]. intros (H1 & H2 & _). lia.
  - assert (Hcase : (k <= x /\ x < k + length (b :: m) /\ nth (x - k) (b :: m) false = true)
                    <-> ((x = k /\ b = true) \/ (S k <= x /\ x < S k + length m /\ nth (x - S k) m false = true))).
    { cbn [length]. destruct (Nat.eq_dec x k) as [->|Hne].
      - rewrite Nat.sub_diag. cbn [nth]. split.
        + intros (_ & _ & Hb). left. auto.
        + intros [[_ Hb]|(H1 & _)]; [|lia]. repeat split; [lia|lia|exact Hb].
      - split.
        + intros (H1 & H2 & H3). right. replace (x - k) with (S (x - S k)) in H3 by lia. cbn [nth] in H3.
          repeat split; [lia|lia|exact H3].
        + intros [[H1 _]|(H1 & H2 & H3)]; [congruence|].
          replace (x - k) with (S (x - S k)) by lia. cbn [nth]. repeat split; [lia|lia|exact H3]. }
    rewrite Hcase. cbn [true_positions_from]. destruct b.
    + cbn [In]. rewrite IH. split.
      * intros [<-|H]; [left; auto|right; exact H].
      * intros [[-> _]|H]; [left; reflexivity|right; exact H].
    + rewrite IH. split; [intro H; right; exact H|]. intros [[_ H]|H]; [discriminate|exact H].
Qed.

Lemma tp_In m x : In x (true_positions m) <-> x < length m /\ nth x m false = true.
Proof.
  unfold true_positions. rewrite tp_from_In. rewrite Nat.sub_0_r. simpl. split.
  - intros (_ & H1 & H2). auto.
  - intros (H1 & H2). repeat split; [lia|exact H1|exact H2].
Qed.

Lemma tp_from_sorted : forall m k, StronglySorted lt (true_positions_from k m).
Proof.
  induction m as [|b m IH]; intro k; [constructor|].
  cbn [true_positions_from]. destruct b; [|apply IH].
  constructor; [apply IH|]. apply Forall_forall. intros x Hx. apply tp_from_In in Hx. lia.
Qed.

Lemma length_tp_from : forall m k, length (true_positions_from k m) = count_true m.
Proof.
  induction m as [|b m IH]; intro k; [reflexivity|].
  cbn [true_positions_from]. rewrite count_true_cons. destruct b; cbn [length]; rewrite IH; lia.
Qed.

Lemma length_tp m : length (true_positions m) = count_true m.
Proof. apply length_tp_from. Qed.

Lemma tp_from_rank : forall m k i, nth i m false = true ->
  nth (count_true (firstn i m)) (true_positions_from k m) 0 = k + i.
Proof.
  induction m as [|b m IH]; intros k i H; [destruct i; discriminate|].
  destruct i as [|i].
  - cbn [nth] in H. subst b. cbn [firstn true_positions_from]. rewrite count_true_nil. cbn [nth]. lia.
  - cbn [nth] in H. cbn [firstn true_positions_from]. rewrite count_true_cons.
    destruct b.
    + change (1 + count_true (firstn i m)) with (S (count_true (firstn i m))). cbn [nth].
      rewrite IH by exact H. lia.
    + cbn [plus]. rewrite IH by exact H. lia.
Qed.

Lemma tp_rank m i : nth i m false = true -> nth (count_true (firstn i m)) (true_positions m) 0 = i.
Proof. intro H. unfold true_positions. rewrite tp_from_rank by exact H. reflexivity. Qed.

(* two strictly increasing lists with the same elements are equal *)
Lemma ssorted_ext : forall l1 l2 : list nat, StronglySorted lt l1 -> StronglySorted lt l2 ->
  (forall x, In x l1 <-> In x l2) -> l1 = l2.
Proof.
  induction l1 as [|a t1 IH]; intros [|b t2] S1 S2 Hin.
  - reflexivity.
  - exfalso. apply (proj2 (Hin b)). left. reflexivity.
  - exfalso. apply (proj1 (Hin a)). left. reflexivity.
  - apply StronglySorted_inv in S1 as [S1 F1]. apply StronglySorted_inv in S2 as [S2 F2].
    rewrite Forall_forall in F1, F2.
    assert (E : a = b).
    { destruct (proj1 (Hin a) (or_introl eq_refl)) as [E|Ha]; [congruence|].
      destruct (proj2 (Hin b) (or_introl eq_refl)) as [E|Hb]; [congruence|].
      specialize (F1 _ Hb). specialize (F2 _ Ha). lia. }
    subst b. f_equal. apply IH; [assumption|assumption|].
    intros x. split; intro Hx.
    + destruct (proj1 (Hin x) (or_intror Hx)) as [E|H]; [|exact H]. specialize (F1 _ Hx). lia.
    + destruct (proj2 (Hin x) (or_intror Hx)) as [E|H]; [|exact H]. specialize (F2 _ Hx). lia.
Qed.

(* ---------- mask_of_positions ---------- *)

Lemma length_mop n pos : length (mask_of_positions n pos) = n.
Proof. unfold mask_of_positions. rewrite map_length, seq_length. reflexivity. Qed.

Lemma mop_nth n pos i : nth i (mask_of_positions n pos) false = true <-> i < n /\ In i pos.
Proof.
  split.
  - intro H. pose proof (nth_true_lt _ _ H) as Hi. rewrite length_mop in Hi. split; [exact Hi|].
    unfold mask_of_positions in H. rewrite (nth_map_lt _ _ _ _ 0) in H by (rewrite seq_length; exact Hi).
    rewrite seq_nth in H by exact Hi. simpl in H. apply existsb_exists in H as (x & Hx & E).
    apply Nat.eqb_eq in E. subst x. exact Hx.
  - intros (Hi & Hin). unfold mask_of_positions.
    rewrite (nth_map_lt _ _ _ _ 0) by (rewrite seq_length; exact Hi).
    rewrite seq_nth by exact Hi. simpl. apply existsb_exists. exists i. split; [exact Hin|apply Nat.eqb_refl].
Qed.

Lemma nodup_nat_spec : forall l, nodup_nat l = true -> NoDup l.
Proof.
  induction l as [|x l IH]; intro H; [constructor|].
  cbn [nodup_nat] in H. apply andb_true_iff in H as [H1 H2]. constructor; [|apply IH, H2].
  intro Hin. apply negb_true_iff in H1.
  assert (E : existsb (Nat.eqb x) l = true) by (apply existsb_exists; exists x; split; [exact Hin|apply Nat.eqb_refl]).
  congruence.
Qed.
(* ---------- np.unique(pos, return_index=True)[1] on distinct positions ---------- *)

Lemma ins_key_In x l z : In z (ins_key x l) <-> z = x \/ In z l.
Proof.
  induction l as [|y t IH]; cbn [ins_key].
  - simpl. split; [intros [H|[]]; left; congruence|intros [H|[]]; left; congruence].
  - destruct (fst x <? fst y).
    + cbn [In]. split; [intros [H|H]; [left; congruence|right; exact H]|intros [H|H]; [left; congruence|right; exact H]].
    + cbn [In]. rewrite IH. tauto.
Qed.

Lemma length_ins_key x l : length (ins_key x l) = S (length l).
Proof.
  induction l as [|y t IH]; cbn [ins_key]; [reflexivity|].
  destruct (fst x <? fst y); cbn [length]; [reflexivity|]. rewrite IH. reflexivity.
Qed.

Lemma ins_key_sorted x l : StronglySorted lt (map fst l) -> ~ In (fst x) (map fst l) ->
  StronglySorted lt (map fst (ins_key x l)).
Proof.
  induction l as [|y t IH]; intros Hs Hn; cbn [ins_key].
  - simpl. constructor; constructor.
  - cbn [map] in Hs. apply StronglySorted_inv in Hs as [Hs Hf].
    destruct (Nat.ltb_spec (fst x) (fst y)) as [Hlt|Hge].
    + cbn [map]. constructor; [constructor; assumption|].
      constructor; [exact Hlt|]. rewrite Forall_forall in *. intros z Hz. specialize (Hf z Hz). lia.
    + cbn [map]. assert (Hne : fst x <> fst y) by (intro E; apply Hn; left; symmetry; exact E).
      constructor.
      * apply IH; [exact Hs|]. intro Hin. apply Hn. right. exact Hin.
      * rewrite Forall_forall in *. intros z Hz. apply in_map_iff in Hz as (w & <- & Hw).
        apply ins_key_In in Hw as [->|Hw]; [lia|]. apply Hf. apply in_map. exact Hw.
Qed.

Lemma sort_keys_cons x t : sort_keys (x :: t) = ins_key x (sort_keys t).
Proof. reflexivity. Qed.

Lemma sort_keys_In l z : In z (sort_keys l) <-> In z l.
Proof.
  induction l as [|x t IH]; [simpl; tauto|]. rewrite sort_keys_cons. cbn [In].
  rewrite ins_key_In, IH. split; intros [H|H]; auto.
Qed.

Lemma length_sort_keys l : length (sort_keys l) = length l.
Proof.
  induction l as [|x t IH]; [reflexivity|]. rewrite sort_keys_cons. cbn [length].
  rewrite length_ins_key, IH. reflexivity.
Qed.

Lemma sort_keys_sorted l : NoDup (map fst l) -> StronglySorted lt (map fst (sort_keys l)).
Proof.
  induction l as [|x t IH]; intro Hnd; [constructor|].
  cbn [map] in Hnd. inversion Hnd as [|? ? Hn Hnd']; subst.
  rewrite sort_keys_cons. apply ins_key_sorted; [apply IH, Hnd'|].
  intro Hin. apply Hn. apply in_map_iff in Hin as (w & E & Hw). apply (proj1 (sort_keys_In _ _)) in Hw.
  rewrite <- E. apply in_map. exact Hw.
Qed.

Lemma dedup_sorted : forall l prev, StronglySorted lt (map fst l) ->
  match prev with Some k => Forall (lt k) (map fst l) | None => True end ->
  dedup_from prev l = l.
Proof.
  induction l as [|x t IH]; intros prev Hs Hp; [reflexivity|].
  cbn [map] in Hs. apply StronglySorted_inv in Hs as [Hs Hf].
  assert (E : dedup_from (Some (fst x)) t = t) by (apply IH; assumption).
  cbn [dedup_from]. destruct prev as [k|].
  - cbn [map] in Hp. inversion Hp as [|? ? Hk _]; subst.
    destruct (Nat.eqb_spec (fst x) k) as [Ek|_]; [lia|]. rewrite E. reflexivity.
  - rewrite E. reflexivity.
Qed.

Lemma combine_seq_In : forall (l : list nat) s a j, In (a, j) (combine l (seq s (length l))) ->
  s <= j /\ j < s + length l /\ nth (j - s) l 0 = a.
Proof.
  induction l as [|x l IH]; intros s a j H; [destruct H|].
  cbn [length seq combine In] in H. destruct H as [E|H].
  - inversion E; subst. rewrite Nat.sub_diag. cbn [nth length]. repeat split; lia.
  - apply IH in H as (H1 & H2 & H3). cbn [length]. replace (j - s) with (S (j - S s)) by lia. cbn [nth].
    repeat split; [lia|lia|exact H3].
Qed.

Lemma map_fst_combine {A B} : forall (l : list A) (l' : list B), length l = length l' ->
  map fst (combine l l') = l.
Proof.
  induction l as [|x l IH]; intros [|y l'] H; simpl in *; try lia; [reflexivity|].
  rewrite IH by lia. reflexivity.
Qed.

Definition sorted_pairs (pos : list nat) := sort_keys (combine pos (seq 0 (length pos))).

Lemma ufi_eq pos : NoDup pos -> unique_first_index pos = map snd (sorted_pairs pos).
Proof.
  intro Hnd. unfold unique_first_index, dedup_keys, sorted_pairs. f_equal.
  apply dedup_sorted; [|exact I]. apply sort_keys_sorted.
  rewrite map_fst_combine by (rewrite seq_length; reflexivity). exact Hnd.
Qed.

Lemma sorted_pairs_In pos a j : In (a, j) (sorted_pairs pos) -> j < length pos /\ nth j pos 0 = a.
Proof.
  intro H. unfold sorted_pairs in H. apply (proj1 (sort_keys_In _ _)) in H. apply combine_seq_In in H as (H1 & H2 & H3).
  rewrite Nat.sub_0_r in H3. split; [lia|exact H3].
Qed.

Lemma ufi_keys pos : NoDup pos ->
  map (fun j => nth j pos 0) (unique_first_index pos) = map fst (sorted_pairs pos).
Proof.
  intro Hnd. rewrite (ufi_eq pos Hnd), map_map. apply map_ext_in. intros [a j] Hin.
  apply sorted_pairs_In in Hin as [_ H]. exact H.
Qed.

Lemma ufi_lt pos : NoDup pos -> Forall (fun j => j < length pos) (unique_first_index pos).
Proof.
  intro Hnd. rewrite (ufi_eq pos Hnd). apply Forall_forall. intros j Hj.
  apply in_map_iff in Hj as ([a j'] & E & Hin). simpl in E. subst j'.
  apply sorted_pairs_In in Hin as [H _]. exact H.
Qed.

Lemma length_ufi pos : NoDup pos -> length (unique_first_index pos) = length pos.
Proof.
  intro Hnd. rewrite (ufi_eq pos Hnd), map_length. unfold sorted_pairs.
  rewrite length_sort_keys, combine_length, seq_length. lia.
Qed.

(* the general form: any mask length that covers the positions *)
Lemma unique_first_index_sorts_n pos n : NoDup pos -> (forall x, In x pos -> x < n) ->
  map (fun j => nth j pos 0) (unique_first_index pos) = true_positions (mask_of_positions n pos).
Proof.
  intros Hnd Hlt. rewrite (ufi_keys pos Hnd). apply ssorted_ext.
  - unfold sorted_pairs. apply sort_keys_sorted.
    rewrite map_fst_combine by (rewrite seq_length; reflexivity). exact Hnd.
  - apply tp_from_sorted.
  - intro x. rewrite tp_In, length_mop, mop_nth. split.
    + intro H. apply in_map_iff in H as ([a j] & E & Hin). simpl in E. subst a.
      apply sorted_pairs_In in Hin as [Hj E]. subst x.
      assert (Hin : In (nth j pos 0) pos) by (apply nth_In; exact Hj).
      pose proof (Hlt _ Hin). tauto.
    + intros (_ & _ & Hin). unfold sorted_pairs.
      apply (In_nth _ _ 0) in Hin as (j & Hj & E).
      apply in_map_iff. exists (x, j). split; [reflexivity|]. apply sort_keys_In.
      assert (G : forall (l : list nat) s j, j < length l -> In (nth j l 0, s + j) (combine l (seq s (length l)))).
      { induction l as [|y l IH]; intros s i Hi; [simpl in Hi; lia|].
        cbn [length seq combine]. destruct i as [|i].
        - left. cbn [nth]. f_equal. lia.
        - right. cbn [nth]. replace (s + S i) with (S s + i) by lia. apply IH. simpl in Hi. lia. }
      specialize (G pos 0 j Hj). rewrite E in G. exact G.
Qed.

Lemma le_fold_max : forall l x, In x l -> x <= fold_right Nat.max 0 l.
Proof.
  induction l as [|y l IH]; intros x Hx; [destruct Hx|].
  cbn [fold_right]. destruct Hx as [<-|H]; [lia|]. specialize (IH x H). lia.
Qed.

(* (1) max(cumsum(mask)-1, 0) at a true position is the rank of that position among the true ones *)
Lemma value_index_rank : forall m i, nth i m false = true ->
  nth i (value_index_from 0 m) 0 = count_true (firstn i m).
Proof. intros m i H. rewrite value_index_rank_from by exact H. reflexivity. Qed.

(* (2) for distinct positions, np.unique(pos, return_index=True)[1] is the permutation that sorts them *)
Lemma unique_first_index_sorts : forall pos, nodup_nat pos = true ->
  map (fun j => nth j pos 0) (unique_first_index pos) = true_positions (mask_of_positions (S (fold_right Nat.max 0 pos)) pos).
Proof.
  intros pos H. apply unique_first_index_sorts_n; [apply nodup_nat_spec, H|].
  intros x Hx. pose proof (le_fold_max pos x Hx). lia.
Qed.
(* ---------- target positions are in range ---------- *)

Lemma norm_index_lt n z i : norm_index n z = Some i -> i < n.
Proof.
  unfold norm_index. intro H.
  destruct ((0 <=? (if (z <? 0)%Z then (z + Z.of_nat n)%Z else z))%Z
            && ((if (z <? 0)%Z then (z + Z.of_nat n)%Z else z) <? Z.of_nat n)%Z) eqn:E; [|discriminate].
  inversion H; subst. apply andb_true_iff in E as [E1 E2].
  apply Z.leb_le in E1. apply Z.ltb_lt in E2. lia.
Qed.

Lemma norm_indices_lt n : forall ix pos, norm_indices n ix = Some pos -> forall x, In x pos -> x < n.
Proof.
  induction ix as [|z ix IH]; intros pos H x Hx.
  - simpl in H. inversion H; subst. destruct Hx.
  - cbn [norm_indices fold_right] in H. fold (norm_indices n ix) in H.
    destruct (norm_index n z) as [i|] eqn:Ei; [|discriminate].
    destruct (norm_indices n ix) as [t|] eqn:Et; [|discriminate].
    inversion H; subst. destruct Hx as [<-|Hx]; [eapply norm_index_lt; eauto|eapply IH; eauto].
Qed.

Lemma norm_indices_nil n ix : norm_indices n ix = Some [] -> ix = [].
Proof.
  destruct ix as [|z ix]; [reflexivity|]. cbn [norm_indices fold_right]. fold (norm_indices n ix).
  destruct (norm_index n z); [|discriminate]. destruct (norm_indices n ix); discriminate.
Qed.

Lemma norm_indices_py n ix : norm_indices n ix = py_indices n ix.
Proof. reflexivity. Qed.

Lemma slice_step_pos (nz st A B : Z) (k : nat) : (0 < st)%Z -> (0 <= A)%Z -> (B <= nz)%Z ->
  (Z.of_nat k < Z.max 0 ((B - A + st - 1) / st))%Z ->
  (0 <= A + Z.of_nat k * st < nz)%Z.
Proof.
  intros Hst HA HB Hk.
  assert (Hc : (st * ((B - A + st - 1) / st) <= B - A + st - 1)%Z) by (apply Z.mul_div_le; lia).
  assert (Hk' : (Z.of_nat k + 1 <= (B - A + st - 1) / st)%Z) by lia.
  assert (Hm : (st * (Z.of_nat k + 1) <= st * ((B - A + st - 1) / st))%Z) by (apply Z.mul_le_mono_nonneg_l; lia).
  split; nia.
Qed.

Lemma slice_step_neg (nz st A B : Z) (k : nat) : (st < 0)%Z -> (A <= nz - 1)%Z -> (-1 <= B)%Z ->
  (Z.of_nat k < Z.max 0 ((A - B - st - 1) / (- st)))%Z ->
  (0 <= A + Z.of_nat k * st < nz)%Z.
Proof.
  intros Hst HA HB Hk.
  assert (Hc : ((-st) * ((A - B - st - 1) / (-st)) <= A - B - st - 1)%Z) by (apply Z.mul_div_le; lia).
  assert (Hk' : (Z.of_nat k + 1 <= (A - B - st - 1) / (-st))%Z) by lia.
  assert (Hm : ((-st) * (Z.of_nat k + 1) <= (-st) * ((A - B - st - 1) / (-st)))%Z) by (apply Z.mul_le_mono_nonneg_l; lia).
  split; nia.
Qed.

Lemma slice_positions_lt a b s n pos : py_slice_positions a b s n = Ok pos -> forall x, In x pos -> x < n.
Proof.
  unfold py_slice_positions. intros H x Hx.
  set (st := match s with Some s0 => s0 | None => 1%Z end) in *.
  destruct (st =? 0)%Z eqn:E0; [discriminate|]. apply Z.eqb_neq in E0.
  inversion H as [H']. clear H. rewrite <- H' in Hx. clear H'.
  apply in_map_iff in Hx as (k & <- & Hk). apply in_seq in Hk. destruct Hk as [_ Hk]. simpl in Hk.
  set (nz := Z.of_nat n) in *.
  destruct (Z.ltb_spec st 0) as [Hneg|Hpos].
  - (* negative step *)
    destruct (Z.gtb_spec st 0) as [Hc|_]; [lia|].
    set (clampv := fun (o : option Z) (dflt : Z) =>
       match o with None => dflt | Some v => if (v <? 0)%Z then Z.max (v + nz) (-1) else Z.min v (nz - 1) end) in *.
    assert (Hcl : forall o d, (-1 <= d <= nz - 1)%Z -> (-1 <= clampv o d <= nz - 1)%Z).
    { intros [v|] d Hd; unfold clampv; [|exact Hd]. unfold nz. destruct (Z.ltb_spec v 0); lia. }
    assert (HA := Hcl a (nz - 1)%Z ltac:(unfold nz; lia)).
    assert (HB := Hcl b (-1)%Z ltac:(unfold nz; lia)).
    assert (Hk2 : (Z.of_nat k < Z.max 0 ((clampv a (nz - 1) - clampv b (-1) - st - 1) / (- st)))%Z) by (unfold clampv; lia).
    pose proof (slice_step_neg nz st _ _ k Hneg (proj2 HA) (proj1 HB) Hk2) as Hr.
    unfold clampv in Hr. clear Hk2 HA HB Hcl. subst clampv. subst nz. lia.
  - assert (Hst : (0 < st)%Z) by lia.
    destruct (Z.gtb_spec st 0) as [_|Hc]; [|lia].
    set (clampv := fun (o : option Z) (dflt : Z) =>
       match o with None => dflt | Some v => if (v <? 0)%Z then Z.max (v + nz) 0 else Z.min v nz end) in *.
    assert (Hcl : forall o d, (0 <= d <= nz)%Z -> (0 <= clampv o d <= nz)%Z).
    { intros [v|] d Hd; unfold clampv; [|exact Hd]. unfold nz. destruct (Z.ltb_spec v 0); lia. }
    assert (HA := Hcl a 0%Z ltac:(unfold nz; lia)).
    assert (HB := Hcl b nz ltac:(unfold nz; lia)).
    assert (Hk2 : (Z.of_nat k < Z.max 0 ((clampv b nz - clampv a 0 + st - 1) / st))%Z) by (unfold clampv; lia).
    pose proof (slice_step_pos nz st _ _ k Hst (proj1 HA) (proj2 HB) Hk2) as Hr.
    unfold clampv in Hr. clear Hk2 HA HB Hcl. subst clampv. subst nz. lia.
Qed.
(* ---------- choose ---------- *)

Lemma length_choose {A} : forall (m : list bool) (a b : list A),
  length a = length m -> length b = length m -> length (choose m a b) = length m.
Proof.
  induction m as [|c m IH]; intros [|x a] [|y b] Ha Hb; simpl in *; try lia.
  rewrite IH by lia. reflexivity.
Qed.

Lemma nth_choose {A} (d : A) : forall (m : list bool) (a b : list A) i,
  length a = length m -> length b = length m -> i < length m ->
  nth i (choose m a b) d = if nth i m false then nth i a d else nth i b d.
Proof.
  induction m as [|c m IH]; intros [|x a] [|y b] i Ha Hb Hi; simpl in *; try lia.
  destruct i as [|i]; [reflexivity|]. apply IH; lia.
Qed.

Lemma map_choose {A B} (g : A -> B) : forall (m : list bool) (a b : list A),
  map g (choose m a b) = choose m (map g a) (map g b).
Proof.
  induction m as [|c m IH]; intros [|x a] [|y b]; simpl; try reflexivity.
  rewrite IH. destruct c; reflexivity.
Qed.

Lemma forallb2_choose {A B} (f : A -> B -> bool) : forall (m : list bool) a1 a2 b1 b2,
  forallb2 f a1 a2 = true -> forallb2 f b1 b2 = true ->
  forallb2 f (choose m a1 b1) (choose m a2 b2) = true.
Proof.
  induction m as [|c m IH]; intros [|x1 a1] [|x2 a2] [|y1 b1] [|y2 b2] Ha Hb;
    cbn [forallb2 choose] in *; try discriminate; try reflexivity.
  apply andb_true_iff in Ha as [Ha1 Ha]. apply andb_true_iff in Hb as [Hb1 Hb].
  rewrite (IH _ _ _ _ Ha Hb), andb_true_r. destruct c; assumption.
Qed.

(* ---------- list_update on distinct in-range targets ---------- *)

Lemma length_list_set {A} : forall (l : list A) i x, length (list_set l i x) = length l.
Proof. induction l as [|y l IH]; intros [|i] x; simpl; try reflexivity. rewrite IH. reflexivity. Qed.

Lemma nth_list_set_eq {A} (d : A) : forall (l : list A) i x, i < length l -> nth i (list_set l i x) d = x.
Proof.
  induction l as [|y l IH]; intros [|i] x H; simpl in *; try lia; [reflexivity|]. apply IH. lia.
Qed.

Lemma nth_list_set_neq {A} (d : A) : forall (l : list A) i j x, i <> j -> nth j (list_set l i x) d = nth j l d.
Proof.
  induction l as [|y l IH]; intros [|i] [|j] x H; simpl; try reflexivity; try congruence.
  apply IH. congruence.
Qed.

Lemma length_list_update : forall ts rs vs, length (list_update rs ts vs) = length rs.
Proof.
  induction ts as [|t ts IH]; intros rs [|v vs]; simpl; try reflexivity.
  rewrite IH, length_list_set. reflexivity.
Qed.

Lemma nth_list_update_notin (d : lrow) : forall ts rs vs i, ~ In i ts ->
  nth i (list_update rs ts vs) d = nth i rs d.
Proof.
  induction ts as [|t ts IH]; intros rs [|v vs] i H; simpl; try reflexivity.
  rewrite IH by (intro; apply H; right; assumption).
  apply nth_list_set_neq. intro E. apply H. left. exact E.
Qed.

Lemma nth_list_update_in (d : lrow) : forall ts rs vs j, NoDup ts -> length vs = length ts ->
  j < length ts -> nth j ts 0 < length rs ->
  nth (nth j ts 0) (list_update rs ts vs) d = nth j vs d.
Proof.
  induction ts as [|t ts IH]; intros rs [|v vs] j Hnd Hl Hj Hr; simpl in *; try lia.
  inversion Hnd as [|? ? Hn Hnd']; subst. destruct j as [|j].
  - rewrite nth_list_update_notin by exact Hn. apply nth_list_set_eq. exact Hr.
  - apply IH; [exact Hnd'|lia|lia|]. rewrite length_list_set. exact Hr.
Qed.

(* replace_with_mask against list_update: the core index argument *)
Lemma choose_update (mask : list bool) (rs : lrows) ts (vs vr : lrows) :
  length mask = length rs -> NoDup ts ->
  (forall i, i < length rs -> (nth i mask false = true <-> In i ts)) ->
  (forall i, In i ts -> i < length rs) ->
  length vs = length ts ->
  (forall r, r < length (true_positions mask) -> exists j, j < length ts /\
       nth j ts 0 = nth r (true_positions mask) 0 /\ nth r vr None = nth j vs None) ->
  choose mask (map (fun i => nth i vr None) (value_index_from 0 mask)) rs = list_update rs ts vs.
Proof.
  intros Hlen Hnd Hmask Hlt Hvs Hperm.
  assert (Hl1 : length (map (fun i => nth i vr None) (value_index_from 0 mask)) = length mask)
    by (rewrite map_length, length_value_index; reflexivity).
  apply (nth_ext _ _ None None).
  - rewrite length_list_update, length_choose; auto.
  - rewrite length_choose by auto. intros i Hi.
    rewrite nth_choose by auto.
    destruct (nth i mask false) eqn:Em.
    + rewrite (nth_map_lt _ _ _ _ 0) by (rewrite length_value_index; exact Hi).
      rewrite value_index_rank by exact Em.
      pose proof (tp_rank mask i Em) as Hr.
      assert (Hrl : count_true (firstn i mask) < length (true_positions mask)).
      { rewrite length_tp. pose proof (count_true_firstn_S mask i) as H1. rewrite Em in H1.
        pose proof (count_true_firstn_le mask (S i)). lia. }
      destruct (Hperm _ Hrl) as (j & Hj & E1 & E2). rewrite E2. rewrite Hr in E1.
      rewrite <- E1. symmetry. apply nth_list_update_in; [exact Hnd|exact Hvs|exact Hj|].
      rewrite E1. lia.
    + symmetry. apply nth_list_update_notin. intro Hin. rewrite Hlen in Hi.
      apply (Hmask i Hi) in Hin. congruence.
Qed.
(* ---------- decoded rows: boolean predicates as propositions ---------- *)

Lemma dec_inv_split k d : dec_inv_b k d = true <->
  k <> 0 /\ dec_shape_b k d = true /\ dec_valid_b d = true /\ dec_rect_b d = true /\ dec_norm_b d = true.
Proof.
  unfold dec_inv_b. rewrite !andb_true_iff, negb_true_iff, Nat.eqb_neq. tauto.
Qed.

Lemma dec_shape_spec k d : dec_shape_b k d = true <->
  length (snd d) = k /\ (forall col, In col (snd d) -> length col = length (fst d)).
Proof.
  unfold dec_shape_b. rewrite andb_true_iff, Nat.eqb_eq, forallb_forall.
  split; intros [H1 H2]; (split; [exact H1|]); intros col Hc; specialize (H2 col Hc);
    [apply Nat.eqb_eq, H2|apply Nat.eqb_eq, H2].
Qed.

Lemma dec_rect_spec d : dec_rect_b d = true <->
  match snd d with [] => True | c0 :: t => forall c, In c t -> dec_lens c0 = dec_lens c end.
Proof.
  unfold dec_rect_b. destruct (snd d) as [|c0 t]; [tauto|]. rewrite forallb_forall.
  split; intros H c Hc; specialize (H c Hc); apply (list_eqb_spec Nat.eqb Nat.eqb_eq); exact H.
Qed.

Lemma forallb_map2 {A B C} (P : C -> bool) (f : A -> B -> C) la lb :
  (forall a b, In a la -> In b lb -> P (f a b) = true) -> forallb P (map2 f la lb) = true.
Proof.
  intro H. apply forallb_forall. intros c Hc. unfold map2 in Hc.
  apply in_map_iff in Hc as ([a b] & <- & Hin). simpl.
  apply H; [eapply in_combine_l; eauto|eapply in_combine_r; eauto].
Qed.

Lemma In_map2 {A B C} (f : A -> B -> C) la lb c : In c (map2 f la lb) ->
  exists a b, In a la /\ In b lb /\ c = f a b.
Proof.
  unfold map2. intro Hc. apply in_map_iff in Hc as ([a b] & <- & Hin). exists a, b.
  split; [eapply in_combine_l; eauto|split; [eapply in_combine_r; eauto|reflexivity]].
Qed.

(* ---------- row-wise choice between two decoded columns ---------- *)

Definition dchoose (m : list bool) (a b : rowsd) : rowsd :=
  (choose m (fst a) (fst b), map2 (choose m) (snd a) (snd b)).

Lemma dchoose_shape k m a b : dec_shape_b k a = true -> dec_shape_b k b = true ->
  length (fst a) = length m -> length (fst b) = length m ->
  dec_shape_b k (dchoose m a b) = true /\ length (fst (dchoose m a b)) = length m.
Proof.
  intros Ha Hb La Lb. apply dec_shape_spec in Ha as [Ha1 Ha2]. apply dec_shape_spec in Hb as [Hb1 Hb2].
  assert (Lf : length (fst (dchoose m a b)) = length m) by (cbn [dchoose fst]; apply length_choose; assumption).
  split; [|exact Lf]. apply dec_shape_spec. split.
  - cbn [dchoose snd]. rewrite map2_length; lia.
  - intros col Hc. rewrite Lf. cbn [dchoose snd] in Hc.
    apply In_map2 in Hc as (ca & cb & Hca & Hcb & ->).
    apply length_choose; [rewrite (Ha2 _ Hca); exact La|rewrite (Hb2 _ Hcb); exact Lb].
Qed.

Lemma dchoose_inv k m a b : dec_inv_b k a = true -> dec_inv_b k b = true ->
  length (fst a) = length m -> length (fst b) = length m ->
  dec_inv_b k (dchoose m a b) = true.
Proof.
  intros Ha Hb La Lb.
  apply dec_inv_split in Ha as (Hk & Sa & Va & Ra & Na). apply dec_inv_split in Hb as (_ & Sb & Vb & Rb & Nb).
  apply dec_inv_split. split; [exact Hk|]. split; [apply (dchoose_shape k m a b); assumption|].
  split; [|split].
  - unfold dec_valid_b in *. cbn [dchoose fst snd]. apply forallb_map2. intros ca cb Hca Hcb.
    rewrite forallb_forall in Va, Vb. apply forallb2_choose; [apply Va, Hca|apply Vb, Hcb].
  - apply dec_rect_spec. apply dec_rect_spec in Ra. apply dec_rect_spec in Rb.
    cbn [dchoose snd]. destruct (snd a) as [|a0 ta]; [exact I|]. destruct (snd b) as [|b0 tb]; [exact I|].
    rewrite map2_cons. intros c Hc. apply In_map2 in Hc as (ca & cb & Hca & Hcb & ->).
    unfold dec_lens in *. rewrite !map_choose. rewrite (Ra _ Hca), (Rb _ Hcb). reflexivity.
  - unfold dec_norm_b in *. cbn [dchoose fst snd]. apply forallb_map2. intros ca cb Hca Hcb.
    rewrite forallb_forall in Na, Nb. apply forallb2_choose; [apply Na, Hca|apply Nb, Hcb].
Qed.

Lemma length_dec_rows d : length (dec_rows d) = length (fst d).
Proof. unfold dec_rows. rewrite map_length, seq_length. reflexivity. Qed.

Lemma nth_dec_rows d i : i < length (fst d) ->
  nth i (dec_rows d) None =
  if nth i (fst d) false then Some (map (fun col => olist (nth i col None)) (snd d)) else None.
Proof.
  intro Hi. unfold dec_rows. rewrite (nth_map_lt _ _ _ _ 0) by (rewrite seq_length; exact Hi).
  rewrite seq_nth by exact Hi. reflexivity.
Qed.

Lemma map_nth_map2_choose {B} (g : option (list val) -> B) (m : list bool) i : forall A Bc : list (list (option (list val))),
  length A = length Bc -> i < length m ->
  (forall c, In c A -> length c = length m) -> (forall c, In c Bc -> length c = length m) ->
  map (fun col => g (nth i col None)) (map2 (choose m) A Bc)
  = if nth i m false then map (fun col => g (nth i col None)) A else map (fun col => g (nth i col None)) Bc.
Proof.
  induction A as [|ca A IH]; intros [|cb Bc] Hl Hi HA HB; simpl in Hl; try lia.
  - destruct (nth i m false); reflexivity.
  - rewrite map2_cons. cbn [map]. rewrite IH; [|lia|exact Hi|intros; apply HA; right; assumption|intros; apply HB; right; assumption].
    rewrite nth_choose; [|apply HA; left; reflexivity|apply HB; left; reflexivity|exact Hi].
    destruct (nth i m false); reflexivity.
Qed.

Lemma dec_rows_dchoose k m a b : dec_shape_b k a = true -> dec_shape_b k b = true ->
  length (fst a) = length m -> length (fst b) = length m ->
  dec_rows (dchoose m a b) = choose m (dec_rows a) (dec_rows b).
Proof.
  intros Ha Hb La Lb.
  destruct (dchoose_shape k m a b Ha Hb La Lb) as [_ Lf].
  apply dec_shape_spec in Ha as [Ha1 Ha2]. apply dec_shape_spec in Hb as [Hb1 Hb2].
  assert (Lra : length (dec_rows a) = length m) by (rewrite length_dec_rows; exact La).
  assert (Lrb : length (dec_rows b) = length m) by (rewrite length_dec_rows; exact Lb).
  apply (nth_ext _ _ None None).
  - rewrite length_dec_rows, Lf, length_choose; auto.
  - rewrite length_dec_rows, Lf. intros i Hi.
    rewrite nth_dec_rows by (rewrite Lf; exact Hi).
    rewrite nth_choose by auto.
    rewrite !nth_dec_rows by lia.
    cbn [dchoose fst snd]. rewrite nth_choose by auto.
    rewrite (map_nth_map2_choose (@olist val) m i (snd a) (snd b)); [|lia|exact Hi| |].
    + destruct (nth i m false); reflexivity.
    + intros c Hc. rewrite (Ha2 c Hc). exact La.
    + intros c Hc. rewrite (Hb2 c Hc). exact Lb.
Qed.

(* ---------- boxed rows ---------- *)

Definition bdec (k : nat) (bro : list (bool * list (option (list val)))) : rowsd :=
  (map fst bro, map (fun j => map (fun r => nth j (snd r) None) bro) (seq 0 k)).

Definition brow_ok (k : nat) (r : bool * list (option (list val))) : Prop :=
  (forall j, j < k -> fst r = true -> some_b (nth j (snd r) None) = true) /\
  (forall j, j < k -> length (olist (nth j (snd r) None)) = length (olist (nth 0 (snd r) None))) /\
  (fst r = false -> forall j, j < k -> length (olist (nth j (snd r) None)) = 0).

Lemma bdec_shape k bro : dec_shape_b k (bdec k bro) = true /\ length (fst (bdec k bro)) = length bro.
Proof.
  split; [|cbn [bdec fst]; apply map_length]. apply dec_shape_spec. cbn [bdec fst snd]. split.
  - rewrite map_length, seq_length. reflexivity.
  - intros col Hc. apply in_map_iff in Hc as (j & <- & _). rewrite !map_length. reflexivity.
Qed.

Lemma forallb2_map_map {A B C} (f : B -> C -> bool) (g : A -> B) (h : A -> C) : forall l,
  (forall x, In x l -> f (g x) (h x) = true) -> forallb2 f (map g l) (map h l) = true.
Proof.
  induction l as [|x l IH]; intro H; [reflexivity|]. cbn [map forallb2].
  rewrite (H x (or_introl eq_refl)). apply IH. intros y Hy. apply H. right. exact Hy.
Qed.

Lemma bdec_inv k bro : k <> 0 -> Forall (brow_ok k) bro -> dec_inv_b k (bdec k bro) = true.
Proof.
  intros Hk Hall. rewrite Forall_forall in Hall.
  apply dec_inv_split. split; [exact Hk|]. split; [apply bdec_shape|]. split; [|split].
  - unfold dec_valid_b. cbn [bdec fst snd]. apply forallb_forall. intros col Hc.
    apply in_map_iff in Hc as (j & <- & Hj). apply in_seq in Hj.
    apply forallb2_map_map. intros r Hr. destruct (Hall r Hr) as (H1 & _ & _).
    destruct (fst r) eqn:E; [|reflexivity]. simpl. apply H1; [lia|reflexivity].
  - apply dec_rect_spec. cbn [bdec snd]. destruct k as [|k]; [congruence|].
    cbn [seq map]. intros c Hc. apply in_map_iff in Hc as (j & <- & Hj). apply in_seq in Hj.
    unfold dec_lens. rewrite !map_map. apply map_ext_in. intros r Hr.
    destruct (Hall r Hr) as (_ & H2 & _). symmetry. apply H2. lia.
  - unfold dec_norm_b. cbn [bdec fst snd]. apply forallb_forall. intros col Hc.
    apply in_map_iff in Hc as (j & <- & Hj). apply in_seq in Hj.
    apply forallb2_map_map. intros r Hr. destruct (Hall r Hr) as (_ & _ & H3).
    destruct (fst r) eqn:E; [reflexivity|]. simpl. apply Nat.eqb_eq. apply H3; [reflexivity|lia].
Qed.

Definition unbox (k : nat) (r : bool * list (option (list val))) : lrow :=
  if fst r then Some (map (fun j => olist (nth j (snd r) None)) (seq 0 k)) else None.

Lemma dec_rows_bdec k bro : dec_rows (bdec k bro) = map (unbox k) bro.
Proof.
  unfold dec_rows. cbn [bdec fst snd]. rewrite map_length.
  rewrite (map_nth_seq (unbox k) (false, []) bro). apply map_ext_in. intros i Hi. apply in_seq in Hi.
  rewrite (nth_map_lt _ _ _ _ (false, [])) by lia. unfold unbox.
  destruct (fst (nth i bro (false, []))); [|reflexivity]. f_equal. rewrite map_map.
  apply map_ext. intro j. rewrite (nth_map_lt _ _ _ _ (false, [])) by lia. reflexivity.
Qed.

Lemma unbox_box k r : row_width_ok k r = true -> unbox k (box_row k r) = r.
Proof.
  destruct r as [fs|]; intro H; [|reflexivity]. simpl in H. apply Nat.eqb_eq in H. subst k.
  unfold unbox, box_row. cbn [fst snd]. f_equal.
  rewrite <- (map_id fs) at 2. rewrite (map_nth_seq (fun x => x) [] fs).
  apply map_ext_in. intros j Hj. apply in_seq in Hj.
  rewrite (nth_map_lt _ _ _ _ []) by lia. reflexivity.
Qed.

Lemma all_equal_nth (fs : list (list val)) j : all_equal_nat (map (@length val) fs) = true ->
  j < length fs -> length (nth j fs []) = length (nth 0 fs []).
Proof.
  destruct fs as [|f0 t]; intros H Hj; [simpl in Hj; lia|].
  cbn [map all_equal_nat] in H. rewrite forallb_forall in H. destruct j as [|j]; [reflexivity|].
  cbn [nth]. symmetry. apply Nat.eqb_eq. apply H. apply in_map. apply nth_In. simpl in Hj. lia.
Qed.

Lemma box_row_ok k r : row_rect r = true -> row_width_ok k r = true -> brow_ok k (box_row k r).
Proof.
  destruct r as [fs|]; intros Hr Hw.
  - simpl in Hw. apply Nat.eqb_eq in Hw. subst k. unfold brow_ok, box_row. cbn [fst snd].
    split; [|split].
    + intros j Hj _. rewrite (nth_map_lt _ _ _ _ []) by exact Hj. reflexivity.
    + intros j Hj. rewrite !(nth_map_lt _ _ _ _ []) by lia. cbn [olist].
      apply all_equal_nth; [exact Hr|exact Hj].
    + discriminate.
  - unfold brow_ok, box_row. cbn [fst snd]. split; [discriminate|]. split.
    + intros j Hj. rewrite !nth_repeat. reflexivity.
    + intros _ j Hj. rewrite nth_repeat. reflexivity.
Qed.
(* ---------- m_setitem in two stages ---------- *)

Definition set_prep (n : nat) (key : skey) : res (option (list bool * option (list nat))) :=
  match key with
  | KInt z => match norm_index n z with
              | Some i => Ok (Some (mask_of_positions n [i], Some (unique_first_index [i])))
              | None => Err end
  | KSlice a b s => match py_slice_positions a b s n with
                    | Ok [] => Ok None
                    | Ok pos => Ok (Some (mask_of_positions n pos, Some (unique_first_index pos)))
                    | Err => Err end
  | KMask m => if length m =? n then (if n =? 0 then Ok None else Ok (Some (m, None))) else Err
  | KIdx ix => match ix with
               | [] => Ok None
               | _ => match norm_indices n ix with
                      | Some pos => Ok (Some (mask_of_positions n pos, Some (unique_first_index pos)))
                      | None => Err end
               end
  end.

Definition set_bro (k : nat) (mask : list bool) (vr : lrows) : list (bool * list (option (list val))) :=
  map (fun i => box_row k (nth i vr None)) (value_index_from 0 mask).

Definition set_tail (p : chunked) (mask : list bool) (argsort : option (list nat)) (v : sval) : res chunked :=
  let k := length (ctype p) in
  if count_true mask =? 0 then Ok p else
  let vrows := rows_of_sval (count_true mask) v in
  if negb (forallb row_rect vrows) then Err else
  if negb (forallb (row_width_ok k) vrows) then Err else
  let vrows' := match argsort with
                | None => Some vrows
                | Some ag => if forallb (fun i => i <? length vrows) ag
                             then Some (map (fun i => nth i vrows None) ag) else None
                end in
  match vrows' with
  | None => Err
  | Some vr =>
      if negb (forallb (fun i => i <? length vr) (value_index_from 0 mask)) then Err else
      Ok (k_if_else mask (encode (ctype p) (bdec k (set_bro k mask vr))) p)
  end.

Lemma m_setitem_eq p key v : m_setitem p key v =
  match set_prep (m_len p) key with
  | Err => Err
  | Ok None => Ok p
  | Ok (Some (mask, ag)) => set_tail p mask ag v
  end.
Proof. reflexivity. Qed.

Definition spec_tail (L : lcol) (ts : list nat) (v : aval) : res lcol :=
  let vs := match v with ARow r => repeat r (length ts) | ARows rs => rs end in
  if negb (length vs =? length ts) then Err else
  if negb (forallb lrow_rect vs) then Err else
  if negb (forallb (fun r => match r with Some fs => length fs =? length (lsch L) | None => true end) vs) then Err else
  Ok (on_rows L (fun rs => list_update rs ts vs)).

Lemma spec_setitem_eq L k v : spec_col_setitem L k v =
  match spec_targets (lcol_nrows L) k with
  | Err => Err
  | Ok [] => Ok L
  | Ok ts => spec_tail L ts v
  end.
Proof. reflexivity. Qed.
(* ---------- facts about the decoded form of an invariant column ---------- *)

Lemma length_fst_decode p : length (fst (decode p)) = m_len p.
Proof.
  unfold decode, m_len, ca_len. cbn [fst]. rewrite length_concat, map_map. reflexivity.
Qed.

Lemma nrows_abs p : lcol_nrows (abs p) = m_len p.
Proof. symmetry. apply len_refines. Qed.

Lemma rows_of_abs p : inv_b p = true -> rows_of (abs p) = dec_rows (decode p).
Proof.
  intro Hinv. rewrite (abs_decode p (inv_wf p Hinv)).
  pose proof (decode_inv p Hinv) as Hd. apply dec_inv_split in Hd as (_ & Hs & Hv & _ & _).
  apply rows_of_dec; assumption.
Qed.

Lemma inv_nodupb p : inv_b p = true -> nodupb (map fst (ctype p)) = true.
Proof. unfold inv_b. intro H. apply andb_true_iff in H as [_ H]. exact H. Qed.

(* ---------- the tail of m_setitem under the facts the key analysis provides ---------- *)

Definition tail_hyp (p : chunked) (mask : list bool) (ag : option (list nat)) (ts : list nat) (v : sval) : Prop :=
  length mask = m_len p /\ NoDup ts /\ (forall x, In x ts -> x < m_len p) /\
  (forall i, i < m_len p -> (nth i mask false = true <-> In i ts)) /\
  count_true mask = length ts /\ ts <> [] /\
  match ag with
  | None => ts = true_positions mask
  | Some a => map (fun j => nth j ts 0) a = true_positions mask /\ Forall (fun j => j < length ts) a
  end /\
  match v with SRow _ => True | SRows rs => length rs = length ts end.

Lemma k_if_else_eq m a b : k_if_else m a b = encode (ctype b) (dchoose m (decode a) (decode b)).
Proof. reflexivity. Qed.

Lemma set_tail_eq p mask ag ts v : tail_hyp p mask ag ts v ->
  let k := length (ctype p) in
  let vs := rows_of_sval (length ts) v in
  length vs = length ts /\
  exists vr,
    (forall r, r < length ts -> exists j, j < length ts /\
        nth j ts 0 = nth r (true_positions mask) 0 /\ nth r vr None = nth j vs None) /\
    length vr = length ts /\
    set_tail p mask ag v =
      if forallb row_rect vs && forallb (row_width_ok k) vs
      then Ok (encode (ctype p) (dchoose mask (bdec k (set_bro k mask vr)) (decode p)))
      else Err.
Proof.
  intros (Hlen & Hnd & Hlt & Hmask & Hcnt & Hne & Hag & Hv) k vs.
  assert (Hvs : length vs = length ts).
  { unfold vs. destruct v as [r|rs]; cbn [rows_of_sval]; [apply repeat_length|exact Hv]. }
  split; [exact Hvs|].
  assert (Hc0 : count_true mask <> 0) by (rewrite Hcnt; destruct ts; [congruence|simpl; lia]).
  assert (Htp : length (true_positions mask) = length ts) by (rewrite length_tp; exact Hcnt).
  (* the re-ordered rows *)
  assert (Hvr : exists vr,
    (forall r, r < length ts -> exists j, j < length ts /\
        nth j ts 0 = nth r (true_positions mask) 0 /\ nth r vr None = nth j vs None) /\
    length vr = length ts /\
    match ag with
    | None => Some vs
    | Some a => if forallb (fun i => i <? length vs) a then Some (map (fun i => nth i vs None) a) else None
    end = Some vr).
  { destruct ag as [a|].
    - destruct Hag as [Hmap Hfa].
      assert (Hla : length a = length ts) by (rewrite <- Htp, <- Hmap, map_length; reflexivity).
      exists (map (fun i => nth i vs None) a). split; [|split].
      + intros r Hr. exists (nth r a 0). rewrite Forall_forall in Hfa. split; [|split].
        * apply Hfa. apply nth_In. lia.
        * rewrite <- Hmap. symmetry. apply (nth_map_lt (fun j => nth j ts 0) a r 0 0). lia.
        * apply (nth_map_lt (fun i => nth i vs None) a r None 0). lia.
      + rewrite map_length. exact Hla.
      + assert (E : forallb (fun i => i <? length vs) a = true).
        { apply forallb_forall. intros i Hi. apply Nat.ltb_lt. rewrite Hvs.
          rewrite Forall_forall in Hfa. apply Hfa, Hi. }
        rewrite E. reflexivity.
    - exists vs. split; [|split; [exact Hvs|reflexivity]].
      intros r Hr. exists r. split; [exact Hr|]. split; [rewrite <- Hag; reflexivity|reflexivity]. }
  destruct Hvr as (vr & Hperm & Hlvr & Evr). exists vr. split; [exact Hperm|]. split; [exact Hlvr|].
  unfold set_tail. fold k.
  destruct (Nat.eqb_spec (count_true mask) 0) as [E0|_]; [congruence|].
  rewrite Hcnt. fold vs.
  destruct (forallb row_rect vs); [|reflexivity].
  destruct (forallb (row_width_ok k) vs); [|reflexivity].
  cbn [negb andb]. rewrite Evr.
  assert (Evix : forallb (fun i => i <? length vr) (value_index_from 0 mask) = true).
  { apply forallb_forall. intros i Hi. apply Nat.ltb_lt.
    apply (In_nth _ _ 0) in Hi as (q & Hq & <-). rewrite length_value_index in Hq.
    rewrite Hlvr, <- Hcnt. apply value_index_bound; assumption. }
  rewrite Evix. cbn [negb]. rewrite k_if_else_eq.
  rewrite decode_encode by (apply bdec_shape). reflexivity.
Qed.

Lemma spec_tail_eq p ts v :
  let vs := rows_of_sval (length ts) v in
  length vs = length ts ->
  spec_tail (abs p) ts (aval_of v) =
    if forallb row_rect vs && forallb (row_width_ok (length (ctype p))) vs
    then Ok (lcol_of (ctype p) (list_update (rows_of (abs p)) ts vs))
    else Err.
Proof.
  intros vs Hl. unfold spec_tail.
  replace (match aval_of v with ARow r => repeat r (length ts) | ARows rs => rs end) with vs
    by (destruct v; reflexivity).
  match goal with |- context [negb (?a =? ?b)] =>
    replace (a =? b) with true by (symmetry; apply Nat.eqb_eq; exact Hl) end.
  cbn [negb].
  change (forallb lrow_rect vs) with (forallb row_rect vs).
  destruct (forallb row_rect vs); [|reflexivity]. cbn [negb andb].
  match goal with |- context [negb (forallb ?f vs)] =>
    change (forallb f vs) with (forallb (row_width_ok (length (ctype p))) vs) end.
  destruct (forallb (row_width_ok (length (ctype p))) vs); reflexivity.
Qed.

Lemma tail_both p mask ag ts v : inv_b p = true -> tail_hyp p mask ag ts v ->
  res_map abs (set_tail p mask ag v) = spec_tail (abs p) ts (aval_of v) /\
  (forall p', set_tail p mask ag v = Ok p' -> inv_b p' = true).
Proof.
  intros Hinv Hyp.
  destruct (set_tail_eq p mask ag ts v Hyp) as (Hvs & vr & Hperm & Hlvr & Eq).
  destruct Hyp as (Hlen & Hnd & Hlt & Hmask & Hcnt & Hne & Hag & Hv).
  set (k := length (ctype p)) in *. set (vs := rows_of_sval (length ts) v) in *.
  rewrite (spec_tail_eq p ts v Hvs). fold vs. fold k. rewrite Eq.
  destruct (forallb row_rect vs) eqn:Er; [|split; [reflexivity|discriminate]].
  destruct (forallb (row_width_ok k) vs) eqn:Ew; [|split; [reflexivity|discriminate]].
  cbn [andb].
  (* every re-ordered row is rectangular and of the right width *)
  assert (Hrow : forall i, row_rect (nth i vr None) = true /\ row_width_ok k (nth i vr None) = true).
  { intro i. destruct (Nat.lt_ge_cases i (length vr)) as [Hi|Hi].
    - rewrite Hlvr in Hi. destruct (Hperm i Hi) as (j & Hj & _ & ->).
      rewrite forallb_forall in Er, Ew.
      assert (Hin : In (nth j vs None) vs) by (apply nth_In; lia). split; [apply Er, Hin|apply Ew, Hin].
    - rewrite nth_overflow by exact Hi. split; reflexivity. }
  pose proof (decode_inv p Hinv) as Hd. fold k in Hd.
  pose proof Hd as Hd'. apply dec_inv_split in Hd' as (Hk0 & Sd & Vd & _ & _).
  set (bro := set_bro k mask vr).
  assert (Lbro : length bro = length mask)
    by (unfold bro, set_bro; rewrite map_length, length_value_index; reflexivity).
  assert (Hb : dec_inv_b k (bdec k bro) = true).
  { apply bdec_inv; [exact Hk0|]. apply Forall_forall. intros r Hr.
    unfold bro, set_bro in Hr. apply in_map_iff in Hr as (i & <- & _).
    destruct (Hrow i) as [H1 H2]. apply box_row_ok; assumption. }
  destruct (bdec_shape k bro) as [Sb Lb]. rewrite Lbro in Lb.
  assert (Ld : length (fst (decode p)) = length mask) by (rewrite length_fst_decode; symmetry; exact Hlen).
  pose proof (dchoose_inv k mask _ _ Hb Hd Lb Ld) as HD.
  split.
  - cbn [res_map]. f_equal.
    pose proof HD as HD'. apply dec_inv_split in HD' as (_ & SD & VD & _ & _).
    rewrite (abs_encode (ctype p) _ SD).
    rewrite <- (lcol_of_dec_rows (ctype p) _ SD VD). f_equal.
    rewrite (dec_rows_dchoose k mask _ _ Sb Sd Lb Ld).
    rewrite dec_rows_bdec, (rows_of_abs p Hinv).
    assert (Eb : map (unbox k) bro = map (fun i => nth i vr None) (value_index_from 0 mask)).
    { unfold bro, set_bro. rewrite map_map. apply map_ext. intro i. apply unbox_box. apply Hrow. }
    rewrite Eb. apply choose_update.
    + rewrite length_dec_rows. lia.
    + exact Hnd.
    + rewrite length_dec_rows, length_fst_decode. exact Hmask.
    + rewrite length_dec_rows, length_fst_decode. exact Hlt.
    + exact Hvs.
    + rewrite length_tp, Hcnt. exact Hperm.
  - intros p' E. inversion E; subst p'. apply encode_inv; [apply inv_nodupb, Hinv|exact HD].
Qed.
(* ---------- the key analysis ---------- *)

Lemma ssorted_nodup : forall l : list nat, StronglySorted lt l -> NoDup l.
Proof.
  induction l as [|a l IH]; intro H; [constructor|].
  apply StronglySorted_inv in H as [H F]. constructor; [|apply IH, H].
  intro Hin. rewrite Forall_forall in F. specialize (F a Hin). lia.
Qed.

Definition vlen_ok (v : sval) (ts : list nat) : Prop :=
  match v with SRow _ => True | SRows rs => length rs = length ts end.

Lemma pos_tail_hyp p pos v : pos <> [] -> nodup_nat pos = true ->
  (forall x, In x pos -> x < m_len p) -> vlen_ok v pos ->
  tail_hyp p (mask_of_positions (m_len p) pos) (Some (unique_first_index pos)) pos v.
Proof.
  intros Hne Hnd Hlt Hv. apply nodup_nat_spec in Hnd.
  pose proof (unique_first_index_sorts_n pos (m_len p) Hnd Hlt) as Hs.
  unfold tail_hyp.
  split; [apply length_mop|]. split; [exact Hnd|]. split; [exact Hlt|].
  split; [intros i Hi; rewrite mop_nth; tauto|].
  repeat split.
  - rewrite <- length_tp, <- Hs, map_length. apply length_ufi, Hnd.
  - exact Hne.
  - exact Hs.
  - apply ufi_lt, Hnd.
  - exact Hv.
Qed.

Lemma mask_tail_hyp p m v : length m = m_len p -> true_positions m <> [] -> vlen_ok v (true_positions m) ->
  tail_hyp p m None (true_positions m) v.
Proof.
  intros Hl Hne Hv. unfold tail_hyp.
  split; [exact Hl|]. split; [apply ssorted_nodup, tp_from_sorted|].
  split; [intros x Hx; apply tp_In in Hx; lia|].
  split; [intros i Hi; rewrite tp_In; split; [intro H; split; [lia|exact H]|tauto]|].
  repeat split.
  - symmetry. apply length_tp.
  - exact Hne.
  - exact Hv.
Qed.

Lemma op_ok_setitem p k v ts : op_ok p (OSetitem k v) = true -> targets_of (m_len p) k = Some ts ->
  nodup_nat ts = true /\ vlen_ok v ts.
Proof.
  cbn [op_ok]. intros H E. rewrite E in H. apply andb_true_iff in H as [H1 H2]. split; [exact H1|].
  destruct v as [r|rs]; [exact I|]. simpl. apply Nat.eqb_eq. exact H2.
Qed.

Lemma tp_nil_count m : true_positions m = [] -> count_true m = 0.
Proof. intro H. rewrite <- length_tp, H. reflexivity. Qed.

Lemma setitem_both p k v : inv_b p = true -> op_ok p (OSetitem k v) = true ->
  res_map abs (m_setitem p k v) = spec_col_setitem (abs p) (akey_of k) (aval_of v) /\
  (forall p', m_setitem p k v = Ok p' -> inv_b p' = true).
Proof.
  intros Hinv Hop. rewrite m_setitem_eq, spec_setitem_eq, nrows_abs.
  assert (Hsame : forall p0, res_map abs (Ok p0) = Ok (abs p0)) by reflexivity.
  assert (Hid : res_map abs (Ok p) = Ok (abs p) /\ (forall p', Ok p = Ok p' -> inv_b p' = true)).
  { split; [reflexivity|]. intros p' E. inversion E; subst. exact Hinv. }
  assert (Herr : res_map abs (@Err chunked) = @Err lcol /\ (forall p', @Err chunked = Ok p' -> inv_b p' = true)).
  { split; [reflexivity|discriminate]. }
  destruct k as [z|a b s|m|ix]; cbn [set_prep akey_of spec_targets].
  - (* integer key *)
    change (py_index (m_len p) z) with (norm_index (m_len p) z).
    destruct (norm_index (m_len p) z) as [i|] eqn:Ei; [|exact Herr].
    destruct (op_ok_setitem p (KInt z) v [i] Hop) as [Hnd Hv]; [cbn [targets_of]; rewrite Ei; reflexivity|].
    apply tail_both; [exact Hinv|]. apply pos_tail_hyp; [discriminate|exact Hnd| |exact Hv].
    intros x [<-|[]]. eapply norm_index_lt; eauto.
  - (* slice key *)
    destruct (py_slice_positions a b s (m_len p)) as [pos|] eqn:Es; [|exact Herr].
    destruct pos as [|x0 pos]; [exact Hid|].
    destruct (op_ok_setitem p (KSlice a b s) v (x0 :: pos) Hop) as [Hnd Hv]; [cbn [targets_of]; rewrite Es; reflexivity|].
    apply tail_both; [exact Hinv|]. apply pos_tail_hyp; [discriminate|exact Hnd| |exact Hv].
    eapply slice_positions_lt; eauto.
  - (* boolean mask *)
    destruct (Nat.eqb_spec (length m) (m_len p)) as [El|_]; [|exact Herr].
    destruct (Nat.eqb_spec (m_len p) 0) as [E0|_].
    + destruct m; [exact Hid|simpl in El; lia].
    + destruct (true_positions m) as [|t0 ts] eqn:Et.
      * unfold set_tail. rewrite (tp_nil_count m Et). cbn [Nat.eqb]. exact Hid.
      * rewrite <- Et.
        destruct (op_ok_setitem p (KMask m) v (true_positions m) Hop) as [Hnd Hv].
        { cbn [targets_of]. rewrite El, Nat.eqb_refl. reflexivity. }
        apply tail_both; [exact Hinv|]. apply mask_tail_hyp; [exact El|rewrite Et; discriminate|exact Hv].
  - (* integer array *)
    destruct ix as [|z ix]; [exact Hid|].
    change (py_indices (m_len p) (z :: ix)) with (norm_indices (m_len p) (z :: ix)).
    destruct (norm_indices (m_len p) (z :: ix)) as [pos|] eqn:Ep; [|exact Herr].
    destruct pos as [|x0 pos]; [apply norm_indices_nil in Ep; discriminate|].
    destruct (op_ok_setitem p (KIdx (z :: ix)) v (x0 :: pos) Hop) as [Hnd Hv]; [cbn [targets_of]; exact Ep|].
    apply tail_both; [exact Hinv|]. apply pos_tail_hyp; [discriminate|exact Hnd| |exact Hv].
    eapply norm_indices_lt; eauto.
Qed.

Lemma setitem_refines p k v : inv_b p = true -> op_ok p (OSetitem k v) = true ->
  res_map abs (m_step p (OSetitem k v)) = spec_step (abs p) (OSetitem k v).
Proof. intros H1 H2. exact (proj1 (setitem_both p k v H1 H2)). Qed.

Lemma setitem_inv p k v p' : inv_b p = true -> op_ok p (OSetitem k v) = true ->
  m_step p (OSetitem k v) = Ok p' -> inv_b p' = true.
Proof. intros H1 H2 H3. exact (proj2 (setitem_both p k v H1 H2) p' H3). Qed.

Print Assumptions setitem_refines.
Print Assumptions setitem_inv.
Print Assumptions value_index_rank.
Print Assumptions unique_first_index_sorts.
