(* Proofs_Codec.v — decoded rows <-> physical column <-> logical column. *)
From Coq Require Import String List Arith Bool ZArith Lia.
Import ListNotations.
From NP Require Import Base Values Arrow Abs Kernels Logical ExtArray Codec Steps Proofs_Views.

(* ---------- generic list helpers ---------- *)

Lemma forallb2_app {A B} (f : A -> B -> bool) : forall l1 m1 l2 m2,
  forallb2 f l1 m1 = true -> forallb2 f l2 m2 = true -> forallb2 f (l1 ++ l2) (m1 ++ m2) = true.
Proof.
  induction l1 as [|x l1 IH]; intros [|y m1] l2 m2 H1 H2; cbn [forallb2 app] in *; try discriminate; [exact H2|].
  apply andb_true_iff in H1 as [Ha H1]. rewrite Ha. cbn [andb]. apply IH; assumption.
Qed.

Lemma forallb2_concat {X A B} (f : A -> B -> bool) (F : X -> list A) (G : X -> list B) : forall cs,
  (forall c, In c cs -> forallb2 f (F c) (G c) = true) ->
  forallb2 f (concat (map F cs)) (concat (map G cs)) = true.
Proof.
  induction cs as [|c cs IH]; intros H; [reflexivity|]. cbn [map concat].
  apply forallb2_app; [apply H; left; reflexivity|]. apply IH. intros c' Hc'. apply H. right. exact Hc'.
Qed.

Lemma mask_rows_cons b v x l : mask_rows (b :: v) (x :: l) = (if b then x else []) :: mask_rows v l.
Proof. reflexivity. Qed.

Lemma mask_rows_app : forall v1 l1 v2 l2, length v1 = length l1 ->
  mask_rows (v1 ++ v2) (l1 ++ l2) = mask_rows v1 l1 ++ mask_rows v2 l2.
Proof.
  induction v1 as [|b v1 IH]; intros [|x l1] v2 l2 H; cbn [length] in H; try discriminate; [reflexivity|].
  cbn [app]. rewrite !mask_rows_cons. cbn [app]. f_equal. apply IH. lia.
Qed.

Lemma mask_rows_concat {X} (F : X -> list bool) (G : X -> list (list val)) : forall cs,
  (forall c, In c cs -> length (F c) = length (G c)) ->
  mask_rows (concat (map F cs)) (concat (map G cs)) = concat (map (fun c => mask_rows (F c) (G c)) cs).
Proof.
  induction cs as [|c cs IH]; intros H; [reflexivity|]. cbn [map concat].
  rewrite mask_rows_app by (apply H; left; reflexivity). f_equal.
  apply IH. intros c' Hc'. apply H. right. exact Hc'.
Qed.

Lemma map_nth_seq_id {A} (d : A) (l : list A) : map (fun k => nth k l d) (seq 0 (length l)) = l.
Proof. rewrite <- (map_nth_seq (fun x => x) d l). apply map_id. Qed.

Lemma nth_nil {A} (i : nat) (d : A) : nth i [] d = d.
Proof. destruct i; reflexivity. Qed.

Lemma map2_nil_r {A B C} (f : A -> B -> C) l : map2 f l [] = [].
Proof. destruct l; reflexivity. Qed.

Lemma nth_map2 {A B C} (f : A -> B -> C) (da : A) (db : B) (dc : C) : forall l m i,
  i < length l -> i < length m -> nth i (map2 f l m) dc = f (nth i l da) (nth i m db).
Proof.
  induction l as [|x l IH]; intros [|y m] i Hl Hm; cbn [length] in *; try lia.
  rewrite map2_cons. destruct i as [|i]; [reflexivity|]. cbn [nth]. apply IH; lia.
Qed.

Lemma map_map2_snd {A B C D} (mk : A -> B -> C) (h : C -> D) (h' : B -> D) :
  (forall a b, h (mk a b) = h' b) -> forall l m, length l = length m -> map h (map2 mk l m) = map h' m.
Proof.
  intros E. induction l as [|x l IH]; intros [|y m] H; cbn [length] in H; try discriminate; [reflexivity|].
  rewrite map2_cons. cbn [map]. rewrite E, IH by lia. reflexivity.
Qed.

Lemma map_map2_fst {A B C D} (mk : A -> B -> C) (h : C -> D) (h' : A -> D) :
  (forall a b, h (mk a b) = h' a) -> forall l m, length l = length m -> map h (map2 mk l m) = map h' l.
Proof.
  intros E. induction l as [|x l IH]; intros [|y m] H; cbn [length] in H; try discriminate; [reflexivity|].
  rewrite map2_cons. cbn [map]. rewrite E, IH by lia. reflexivity.
Qed.

Lemma forallb_map {A B} (P : B -> bool) (f : A -> B) l : forallb P (map f l) = forallb (fun x => P (f x)) l.
Proof. induction l as [|x l IH]; [reflexivity|]. cbn [map forallb]. rewrite IH. reflexivity. Qed.

Lemma forallb_map2_snd {A B C} (mk : A -> B -> C) (P : C -> bool) (P' : B -> bool) :
  (forall a b, P (mk a b) = P' b) -> forall l m, length l = length m -> forallb P (map2 mk l m) = forallb P' m.
Proof.
  intros E. induction l as [|x l IH]; intros [|y m] H; cbn [length] in H; try discriminate; [reflexivity|].
  rewrite map2_cons. cbn [forallb]. rewrite E, IH by lia. reflexivity.
Qed.

Lemma list_eqb_nat_refl l : list_eqb Nat.eqb l l = true.
Proof. apply (list_eqb_spec Nat.eqb Nat.eqb_eq). reflexivity. Qed.

Lemma list_eqb_nat_eq l m : list_eqb Nat.eqb l m = true -> l = m.
Proof. apply (list_eqb_spec Nat.eqb Nat.eqb_eq). Qed.

(* ---------- la_of_lists / la_lists ---------- *)

Lemma relist : forall ls : list (option (list val)),
  map2 (fun c (v : bool) => if v then Some c else None) (map (@olist val) ls)
       (map (fun o => match o with Some _ => true | None => false end) ls) = ls.
Proof.
  induction ls as [|o ls IH]; [reflexivity|]. cbn [map]. rewrite map2_cons, IH.
  destruct o; reflexivity.
Qed.

Lemma cuts_of_lists (ls : list (option (list val))) :
  cuts (cumsum_from 0 (map (fun o => length (olist o)) ls)) (concat (map (@olist val) ls)) = map (@olist val) ls.
Proof.
  rewrite cuts_cumsum. cbn [skipn].
  rewrite <- (map_map (@olist val) (@length val)). apply cut_by_concat.
Qed.

Lemma la_lists_of_lists ls : la_lists (la_of_lists ls) = ls.
Proof.
  unfold la_lists, la_of_lists. cbn [offs lvalid child]. rewrite cuts_of_lists. apply relist.
Qed.

Lemma wf_la_of_lists n ls : length ls = n -> wf_larr_b n (la_of_lists ls) = true.
Proof.
  intros H. unfold wf_larr_b, la_of_lists. cbn [offs lvalid child].
  rewrite length_cumsum_from, !map_length, H, !Nat.eqb_refl. cbn [andb].
  apply andb_true_iff. split.
  - apply monob_spec, mono_cumsum_from.
  - apply Nat.leb_le. rewrite last_cumsum_from. cbn [Nat.add].
    rewrite length_concat, map_map. apply Nat.le_refl.
Qed.

(* ---------- the fields of an encoded chunk ---------- *)

Definition mkf (nt : string * ety) (ls : list (option (list val))) : field :=
  {| fname := fst nt; fty := snd nt; farr := la_of_lists ls |}.

Lemma encode_unfold sch d :
  encode sch d = {| ctype := sch; chunks := [ {| svalid := fst d; sfields := map2 mkf sch (snd d) |} ] |}.
Proof. reflexivity. Qed.

Lemma dec_shape_spec k d : dec_shape_b k d = true ->
  length (snd d) = k /\ forall col, In col (snd d) -> length col = length (fst d).
Proof.
  unfold dec_shape_b. rewrite andb_true_iff, Nat.eqb_eq, forallb_forall. intros [H1 H2]. split; [exact H1|].
  intros col Hc. apply Nat.eqb_eq. apply H2, Hc.
Qed.

(* 4. *)
Lemma decode_encode sch d : dec_shape_b (length sch) d = true -> decode (encode sch d) = d.
Proof.
  intros H. apply dec_shape_spec in H as [Hk _]. destruct d as [v cols]. cbn [fst snd] in *.
  rewrite encode_unfold. unfold decode. cbn [ctype chunks map concat svalid fst snd].
  rewrite app_nil_r. f_equal.
  unfold decode_chunk. cbn [sfields].
  rewrite (map_map2_snd mkf (fun f => la_lists (farr f)) (fun ls => ls));
    [|intros a b; apply la_lists_of_lists|symmetry; exact Hk].
  rewrite map_id.
  rewrite <- Hk.
  etransitivity; [|apply (map_nth_seq_id [])]. apply map_ext. intros k. apply app_nil_r.
Qed.

(* 5. *)
Lemma abs_encode sch d : dec_shape_b (length sch) d = true -> abs (encode sch d) = lcol_of_dec sch d.
Proof.
  intros H. apply dec_shape_spec in H as [Hk _]. destruct d as [v cols]. cbn [fst snd] in *.
  rewrite encode_unfold. unfold abs, lcol_of_dec. cbn [ctype chunks map concat svalid fst snd].
  rewrite app_nil_r. f_equal.
  unfold chunk_cols. cbn [sfields svalid].
  rewrite (map_map2_snd mkf (fun f => field_rows v (farr f)) (fun ls => mask_rows v (map (@olist val) ls))).
  - rewrite <- Hk.
    etransitivity; [|apply (map_nth_seq_id [])].
    rewrite map_length. apply map_ext. intros k. apply app_nil_r.
  - intros a b. unfold field_rows, mkf. cbn [farr]. rewrite la_lists_of_lists. reflexivity.
  - symmetry. exact Hk.
Qed.

(* ---------- 6. rows of a decoded column ---------- *)

Lemma nth_mask_rows : forall v (l : list (list val)) i, length l = length v ->
  nth i (mask_rows v l) [] = if nth i v false then nth i l [] else [].
Proof.
  induction v as [|b v IH]; intros [|x l] i H; cbn [length] in H; try discriminate.
  - destruct i; reflexivity.
  - rewrite mask_rows_cons. destruct i as [|i]; cbn [nth]; [reflexivity|]. apply IH. lia.
Qed.

Lemma length_mask_rows v (l : list (list val)) : length l = length v -> length (mask_rows v l) = length v.
Proof. intros H. unfold mask_rows. apply map2_length. lia. Qed.

Lemma mask_rows_seq v (l : list (list val)) : length l = length v ->
  mask_rows v l = map (fun i => if nth i v false then nth i l [] else []) (seq 0 (length v)).
Proof.
  intros H. etransitivity; [symmetry; apply (map_nth_seq_id [])|].
  rewrite (length_mask_rows v l H). apply map_ext. intros i. apply nth_mask_rows, H.
Qed.

Lemma nth_map_olist (col : list (option (list val))) i : nth i (map (@olist val) col) [] = olist (nth i col None).
Proof. exact (map_nth (@olist val) col None i). Qed.

Lemma rows_of_dec sch d : dec_shape_b (length sch) d = true -> dec_valid_b d = true ->
  rows_of (lcol_of_dec sch d) = dec_rows d.
Proof.
  intros H _. apply dec_shape_spec in H as [Hk Hc].
  unfold rows_of, dec_rows, lcol_of_dec, lcol_nrows. cbn [lvalidity lcols].
  apply map_ext. intros i. destruct (nth i (fst d) false) eqn:E; [|reflexivity]. f_equal.
  rewrite map_map. apply map_ext_in. intros col Hin.
  rewrite nth_mask_rows by (rewrite map_length; apply Hc, Hin). rewrite E. apply nth_map_olist.
Qed.

Lemma m_rows_dec p : m_rows p = dec_rows (decode p).
Proof. reflexivity. Qed.

Lemma lcol_of_dec_rows sch d : dec_shape_b (length sch) d = true -> dec_valid_b d = true ->
  lcol_of sch (dec_rows d) = lcol_of_dec sch d.
Proof.
  intros H _. apply dec_shape_spec in H as [Hk Hc]. destruct d as [v cols]. cbn [fst snd] in *.
  unfold lcol_of, lcol_of_dec, dec_rows. cbn [fst snd]. f_equal.
  - rewrite map_map. etransitivity; [|apply (map_nth_seq_id false)].
    apply map_ext. intros i. destruct (nth i v false); reflexivity.
  - rewrite <- Hk.
    etransitivity; [|apply (map_nth_seq_id [])]. rewrite map_length.
    apply map_ext_in. intros k Hin. apply in_seq in Hin.
    rewrite (nth_indep _ [] ((fun col => mask_rows v (map (@olist val) col)) []))
      by (rewrite map_length; lia).
    rewrite (map_nth (fun col => mask_rows v (map (@olist val) col)) cols [] k).
    assert (Hl : length (nth k cols []) = length v) by (apply Hc, nth_In; lia).
    rewrite mask_rows_seq by (rewrite map_length; exact Hl).
    rewrite map_map. apply map_ext. intros i.
    destruct (nth i v false); [|reflexivity]. cbn [row_field].
    rewrite (nth_indep _ [] ((fun col => olist (nth i col None)) [])) by (rewrite map_length; lia).
    rewrite (map_nth (fun col => olist (nth i col None)) cols [] k).
    symmetry. apply nth_map_olist.
Qed.

(* ---------- 7. m_init and the components of the invariant ---------- *)

Lemma inv_b_spec p : inv_b p = true ->
  wf_b p = true /\ norm_missing_all_b p = true /\ chunks p <> [] /\ nodupb (map fst (ctype p)) = true.
Proof.
  unfold inv_b. rewrite !andb_true_iff. intros [[[H1 H2] H3] H4]. repeat split; try assumption.
  intros E. rewrite E in H3. discriminate.
Qed.

Lemma wf_b_spec p : wf_b p = true ->
  ctype p <> [] /\
  forall c, In c (chunks p) -> wf_chunk_b (ctype p) c = true /\ same_offsets_b c = true /\ lists_valid_b c = true.
Proof.
  unfold wf_b. rewrite andb_true_iff, forallb_forall. intros [H1 H2]. split.
  - intros E. rewrite E in H1. discriminate.
  - intros c Hc. specialize (H2 c Hc). rewrite !andb_true_iff in H2. tauto.
Qed.

(* N1: a column whose missing rows hold nothing is left alone by _drop_hidden_elements *)
Lemma masked_sum_norm : forall (sv : list bool) ds,
  forallb2 (fun (s : bool) d => s || (d =? 0)) sv ds = true ->
  sum (map2 (fun (s : bool) d => if s then 0 else d) sv ds) = 0.
Proof.
  induction sv as [|s sv IH]; intros [|d ds] H; cbn [forallb2] in H; try discriminate; try reflexivity.
  apply andb_true_iff in H as [H1 H]. rewrite map2_cons. cbn [sum]. rewrite (IH ds H).
  destruct s; [reflexivity|]. cbn [orb] in H1. apply Nat.eqb_eq in H1. subst d. reflexivity.
Qed.

Lemma norm_hidden_count c : norm_missing_b c = true -> hidden_count c = 0.
Proof.
  unfold norm_missing_b, hidden_count. intros H. destruct (sfields c) as [|f0 t]; [reflexivity|].
  cbn [forallb] in H. apply andb_true_iff in H as [H _]. apply masked_sum_norm, H.
Qed.

Lemma flat_map_singleton {A} (f : A -> list A) : forall l, (forall x, In x l -> f x = [x]) -> flat_map f l = l.
Proof.
  induction l as [|x l IH]; intros H; [reflexivity|]. cbn [flat_map].
  rewrite (H x (or_introl eq_refl)), IH; [reflexivity|]. intros y Hy. apply H. right. exact Hy.
Qed.

Lemma drop_hidden_id p : norm_missing_all_b p = true -> m_drop_hidden p = p.
Proof.
  intros H. unfold m_drop_hidden. destruct p as [sch cs]. cbn [ctype chunks] in *. f_equal.
  unfold norm_missing_all_b in H. cbn [chunks] in H. rewrite forallb_forall in H.
  apply flat_map_singleton. intros c Hc. unfold renorm_chunk.
  rewrite (norm_hidden_count c (H c Hc)). reflexivity.
Qed.

(* the validating constructor keeps a column it accepts AS IT IS only when its missing rows hold nothing
   (after the repair "a missing row holds nothing"; before, m_validate alone was enough) *)
Lemma m_init_chunks p v : chunks p <> [] -> (v = false \/ (m_validate p = true /\ norm_missing_all_b p = true)) ->
  m_init p v = Ok p.
Proof.
  intros Hne H. unfold m_init. destruct (chunks p) eqn:E; [congruence|].
  destruct v; [|reflexivity]. destruct H as [H|[H N]]; [discriminate|]. rewrite H, (drop_hidden_id p N). reflexivity.
Qed.

Lemma inv_wf p : inv_b p = true -> wf_b p = true.
Proof. intros H. apply inv_b_spec in H. tauto. Qed.

Lemma inv_chunks p : inv_b p = true -> chunks p <> [].
Proof. intros H. apply inv_b_spec in H. tauto. Qed.

Lemma inv_norm p : inv_b p = true -> norm_missing_all_b p = true.
Proof. intros H. apply inv_b_spec in H. tauto. Qed.

Lemma inv_validate p : inv_b p = true -> m_validate p = true.
Proof.
  intros H. apply inv_wf, wf_b_spec in H as [_ H]. unfold m_validate, m_validate_chunk.
  apply forallb_forall. intros c Hc. apply H, Hc.
Qed.

(* ---------- the fields of a well-formed chunk ---------- *)

Lemma chunk_dec_lookup sch c k : wf_chunk_b sch c = true -> k < length sch ->
  exists f, In f (sfields c) /\ nth k (decode_chunk c) [] = la_lists (farr f)
            /\ nth k (chunk_cols c) [] = field_rows (svalid c) (farr f).
Proof.
  intros Hwf Hk. rewrite <- (chunk_nfields sch c Hwf) in Hk.
  destruct (nth_error (sfields c) k) as [f|] eqn:Ef; [|apply nth_error_None in Ef; lia].
  exists f. split; [eapply nth_error_In; eauto|]. split.
  - unfold decode_chunk. apply nth_error_nth. rewrite nth_error_map, Ef. reflexivity.
  - unfold chunk_cols. apply nth_error_nth. rewrite nth_error_map, Ef. reflexivity.
Qed.

Lemma wf_chunk_field sch c f : wf_chunk_b sch c = true -> In f (sfields c) ->
  wf_larr_b (length (svalid c)) (farr f) = true.
Proof.
  unfold wf_chunk_b. rewrite andb_true_iff, forallb_forall. intros [_ H] Hin. apply (H f Hin).
Qed.

Lemma length_la_lists n l : wf_larr_b n l = true -> length (la_lists l) = n.
Proof.
  intros H. apply wf_larr_b_spec in H as (Ho & Hv & _). unfold la_lists.
  rewrite map2_length; rewrite length_cuts; lia.
Qed.

(* 2. *)
Lemma abs_decode p : wf_b p = true -> abs p = lcol_of_dec (ctype p) (decode p).
Proof.
  intros H. apply wf_b_spec in H as [Hne Hc].
  unfold abs, lcol_of_dec, decode. cbn [fst snd]. f_equal.
  rewrite map_map. apply map_ext_in. intros k Hk. apply in_seq in Hk.
  rewrite concat_map, map_map.
  rewrite (mask_rows_concat svalid (fun c => map (@olist val) (nth k (decode_chunk c) []))).
  - f_equal. apply map_ext_in. intros c Hin. destruct (Hc c Hin) as (Hwf & _).
    destruct (chunk_dec_lookup (ctype p) c k Hwf ltac:(lia)) as (f & Hf & E1 & E2).
    rewrite E1, E2. reflexivity.
  - intros c Hin. destruct (Hc c Hin) as (Hwf & _).
    destruct (chunk_dec_lookup (ctype p) c k Hwf ltac:(lia)) as (f & Hf & E1 & _).
    rewrite E1, map_length. symmetry. apply length_la_lists. apply (wf_chunk_field _ _ _ Hwf Hf).
Qed.

(* ---------- 1. decode of a column satisfying the invariant ---------- *)

Lemma decode_shape p : wf_b p = true -> dec_shape_b (length (ctype p)) (decode p) = true.
Proof.
  intros H. apply wf_b_spec in H as [Hne Hc]. unfold dec_shape_b, decode. cbn [fst snd].
  rewrite map_length, seq_length, Nat.eqb_refl. cbn [andb].
  apply forallb_forall. intros col Hin. apply in_map_iff in Hin as (k & <- & Hk). apply in_seq in Hk.
  apply Nat.eqb_eq. rewrite !length_concat, !map_map. f_equal. apply map_ext_in. intros c Hin.
  destruct (Hc c Hin) as (Hwf & _).
  destruct (chunk_dec_lookup (ctype p) c k Hwf ltac:(lia)) as (f & Hf & E1 & _).
  rewrite E1. apply length_la_lists. apply (wf_chunk_field _ _ _ Hwf Hf).
Qed.

Lemma valid_lists : forall (sv lv : list bool) (cs : list (list val)),
  forallb2 (fun s l : bool => implb s l) sv lv = true -> length cs = length lv ->
  forallb2 (fun (s : bool) (o : option (list val)) => implb s (some_b o)) sv
           (map2 (fun c (v : bool) => if v then Some c else None) cs lv) = true.
Proof.
  induction sv as [|s sv IH]; intros [|l lv] [|c cs] H Hl; cbn [forallb2 length] in *; try discriminate; try reflexivity.
  apply andb_true_iff in H as [Ha H]. rewrite map2_cons. cbn [forallb2].
  apply andb_true_iff. split; [|apply IH; [exact H|lia]].
  destruct l; [destruct s; reflexivity|exact Ha].
Qed.

Lemma norm_lists : forall (sv lv : list bool) (cs : list (list val)),
  forallb2 (fun (s : bool) (c : list val) => s || (length c =? 0)) sv cs = true -> length cs = length lv ->
  forallb2 (fun (s : bool) (o : option (list val)) => s || (length (olist o) =? 0)) sv
           (map2 (fun c (v : bool) => if v then Some c else None) cs lv) = true.
Proof.
  induction sv as [|s sv IH]; intros [|l lv] [|c cs] H Hl; cbn [forallb2 length] in *; try discriminate; try reflexivity.
  apply andb_true_iff in H as [Ha H]. rewrite map2_cons. cbn [forallb2].
  apply andb_true_iff. split; [|apply IH; [exact H|lia]].
  destruct l; [exact Ha|]. cbn [olist length Nat.eqb]. apply orb_true_r.
Qed.

Lemma decode_valid p : wf_b p = true -> dec_valid_b (decode p) = true.
Proof.
  intros H. apply wf_b_spec in H as [Hne Hc]. unfold dec_valid_b, decode. cbn [fst snd].
  apply forallb_forall. intros col Hin. apply in_map_iff in Hin as (k & <- & Hk). apply in_seq in Hk.
  apply forallb2_concat. intros c Hin. destruct (Hc c Hin) as (Hwf & _ & Hlv).
  destruct (chunk_dec_lookup (ctype p) c k Hwf ltac:(lia)) as (f & Hf & E1 & _).
  rewrite E1. unfold la_lists. pose proof (wf_chunk_field _ _ _ Hwf Hf) as Hw.
  apply wf_larr_b_spec in Hw as (Ho & Hv & _).
  apply valid_lists.
  - unfold lists_valid_b in Hlv. rewrite forallb_forall in Hlv. apply (Hlv f Hf).
  - rewrite length_cuts. lia.
Qed.

Lemma dec_lens_concat {X} (F : X -> list (option (list val))) cs :
  dec_lens (concat (map F cs)) = concat (map (fun c => dec_lens (F c)) cs).
Proof. unfold dec_lens. rewrite concat_map, map_map. reflexivity. Qed.

Lemma dec_lens_la_lists sv l : field_ok sv l -> dec_lens (la_lists l) = diffs (offs l).
Proof.
  intros H. unfold dec_lens. rewrite <- (map_map (@olist val) (@length val)).
  rewrite (olists_cuts sv l H). destruct H as (Hw & _).
  apply wf_larr_b_spec in Hw as (_ & _ & Hm & Hl). apply lengths_cuts; assumption.
Qed.

Lemma chunk_dec_lens sch c k : sch <> [] -> chunk_ok sch c -> k < length sch ->
  dec_lens (nth k (decode_chunk c) []) = dec_lens (nth 0 (decode_chunk c) []).
Proof.
  intros Hne Hck Hk. destruct Hck as (Hwf & Hso & Hrest) eqn:E. clear E.
  assert (H0 : 0 < length sch) by (destruct sch; [congruence|simpl; lia]).
  destruct (chunk_dec_lookup sch c k Hwf Hk) as (f & Hf & E1 & _).
  destruct (chunk_dec_lookup sch c 0 Hwf H0) as (g & Hg & E2 & _).
  rewrite E1, E2.
  pose proof (chunk_field_ok sch c f Hck Hf) as Fk. pose proof (chunk_field_ok sch c g Hck Hg) as Fg.
  rewrite (dec_lens_la_lists _ _ Fk), (dec_lens_la_lists _ _ Fg).
  destruct (chunk_first_field sch c Hne Hwf) as (f0 & t & Ef0).
  destruct Fk as (Hwk & _). apply wf_larr_b_spec in Hwk as (_ & _ & Hmk & _).
  destruct Fg as (Hwg & _). apply wf_larr_b_spec in Hwg as (_ & _ & Hmg & _).
  rewrite <- (diffs_rebase _ Hmk), <- (diffs_rebase _ Hmg). f_equal.
  rewrite (same_offsets_spec c f0 t f Ef0 Hso Hf), (same_offsets_spec c f0 t g Ef0 Hso Hg). reflexivity.
Qed.

Lemma decode_rect p : col_ok p -> dec_rect_b (decode p) = true.
Proof.
  intros (Hne & Hall). rewrite Forall_forall in Hall. unfold dec_rect_b, decode. cbn [snd].
  destruct (length (ctype p)) as [|m] eqn:En; [reflexivity|]. cbn [seq map].
  apply forallb_forall. intros col Hin. apply in_map_iff in Hin as (k & <- & Hk). apply in_seq in Hk.
  rewrite !dec_lens_concat.
  replace (map (fun c => dec_lens (nth k (decode_chunk c) [])) (chunks p))
    with (map (fun c => dec_lens (nth 0 (decode_chunk c) [])) (chunks p)); [apply list_eqb_nat_refl|].
  apply map_ext_in. intros c Hin. symmetry.
  apply (chunk_dec_lens (ctype p) c k Hne (Hall c Hin)). lia.
Qed.

Lemma decode_norm p : col_ok p -> dec_norm_b (decode p) = true.
Proof.
  intros (Hne & Hall). rewrite Forall_forall in Hall. unfold dec_norm_b, decode. cbn [fst snd].
  apply forallb_forall. intros col Hin. apply in_map_iff in Hin as (k & <- & Hk). apply in_seq in Hk.
  apply forallb2_concat. intros c Hin. pose proof (Hall c Hin) as Hck.
  destruct Hck as (Hwf & Hrest) eqn:E. clear E.
  destruct (chunk_dec_lookup (ctype p) c k Hwf ltac:(lia)) as (f & Hf & E1 & _).
  rewrite E1. destruct (chunk_field_ok (ctype p) c f Hck Hf) as (Hw & _ & Hnm).
  apply wf_larr_b_spec in Hw as (Ho & Hv & Hm & Hl). unfold la_lists.
  apply norm_lists; [|rewrite length_cuts; lia].
  rewrite <- (lengths_cuts (offs (farr f)) (child (farr f)) Hm Hl) in Hnm.
  rewrite forallb2_map_r in Hnm. exact Hnm.
Qed.

Lemma decode_inv p : inv_b p = true -> dec_inv_b (length (ctype p)) (decode p) = true.
Proof.
  intros H. apply inv_b_spec in H as (Hwf & Hnm & _ & _).
  pose proof (wf_b_col_ok p Hwf Hnm) as Hok.
  unfold dec_inv_b. rewrite (decode_shape p Hwf), (decode_valid p Hwf), (decode_rect p Hok), (decode_norm p Hok).
  rewrite !andb_true_r. destruct Hok as (Hne & _). destruct (ctype p); [congruence|reflexivity].
Qed.

(* ---------- 3. encode of well-shaped decoded rows ---------- *)

Lemma schema_eqb_refl sch : schema_eqb sch sch = true.
Proof. apply (list_eqb_spec sfield_eqb sfield_eqb_spec). reflexivity. Qed.

Lemma encode_wf_chunk sch d : dec_shape_b (length sch) d = true ->
  wf_chunk_b sch {| svalid := fst d; sfields := map2 mkf sch (snd d) |} = true.
Proof.
  intros H. apply dec_shape_spec in H as [Hk Hc]. unfold wf_chunk_b, sc_schema, sc_len. cbn [sfields svalid].
  apply andb_true_iff. split.
  - rewrite (map_map2_fst mkf (fun f => (fname f, fty f)) (fun nt => nt));
      [rewrite map_id; apply schema_eqb_refl|intros [a b] ls; reflexivity|symmetry; exact Hk].
  - rewrite (forallb_map2_snd mkf _ (fun ls => wf_larr_b (length (fst d)) (la_of_lists ls)));
      [|intros a b; reflexivity|symmetry; exact Hk].
    apply forallb_forall. intros ls Hin. apply wf_la_of_lists. apply Hc, Hin.
Qed.

Lemma encode_same_offsets sch d : dec_rect_b d = true ->
  same_offsets_b {| svalid := fst d; sfields := map2 mkf sch (snd d) |} = true.
Proof.
  intros H. unfold same_offsets_b. cbn [sfields]. unfold dec_rect_b in H.
  destruct sch as [|nt sch]; [reflexivity|]. destruct (snd d) as [|c0 cols]; [reflexivity|].
  rewrite map2_cons.
  (* compare only as many columns as there are schema entries *)
  revert H. generalize cols as cs. clear cols. revert sch.
  induction sch as [|nt' sch IH]; intros [|c cs] H; try reflexivity.
  rewrite map2_cons. cbn [forallb] in *. apply andb_true_iff in H as [Ha H].
  apply andb_true_iff. split; [|apply IH, H].
  unfold mkf. cbn [farr]. unfold la_of_lists. cbn [offs].
  apply list_eqb_nat_eq in Ha. unfold dec_lens in Ha. rewrite Ha. apply list_eqb_nat_refl.
Qed.

Lemma encode_lists_valid sch d : length sch = length (snd d) -> dec_valid_b d = true ->
  lists_valid_b {| svalid := fst d; sfields := map2 mkf sch (snd d) |} = true.
Proof.
  intros Hk H. unfold lists_valid_b. cbn [sfields svalid]. unfold dec_valid_b in H.
  rewrite (forallb_map2_snd mkf _
             (fun ls => forallb2 (fun sv lv : bool => implb sv lv) (fst d) (lvalid (la_of_lists ls))));
    [|intros a b; reflexivity|exact Hk].
  rewrite forallb_forall in H. apply forallb_forall. intros ls Hin. specialize (H ls Hin).
  unfold la_of_lists. cbn [lvalid]. rewrite forallb2_map_r. exact H.
Qed.

Lemma encode_norm_missing sch d : length sch = length (snd d) -> dec_norm_b d = true ->
  norm_missing_b {| svalid := fst d; sfields := map2 mkf sch (snd d) |} = true.
Proof.
  intros Hk H. unfold norm_missing_b. cbn [sfields svalid]. unfold dec_norm_b in H.
  rewrite (forallb_map2_snd mkf _
             (fun ls => forallb2 (fun (sv : bool) dd => sv || (dd =? 0)) (fst d) (diffs (offs (la_of_lists ls)))));
    [|intros a b; reflexivity|exact Hk].
  rewrite forallb_forall in H. apply forallb_forall. intros ls Hin. specialize (H ls Hin).
  unfold la_of_lists. cbn [offs]. rewrite diffs_cumsum, forallb2_map_r. exact H.
Qed.

(* an encoded column whose missing rows hold nothing is left alone by _drop_hidden_elements *)
Lemma drop_hidden_encode sch d : length sch = length (snd d) -> dec_norm_b d = true ->
  m_drop_hidden (encode sch d) = encode sch d.
Proof.
  intros Hk Hn. apply drop_hidden_id. rewrite encode_unfold. unfold norm_missing_all_b. cbn [chunks forallb].
  rewrite (encode_norm_missing sch d Hk Hn). reflexivity.
Qed.

Lemma encode_inv sch d : nodupb (map fst sch) = true -> dec_inv_b (length sch) d = true ->
  inv_b (encode sch d) = true.
Proof.
  intros Hnd H. unfold dec_inv_b in H. rewrite !andb_true_iff in H.
  destruct H as [[[[Hk Hs] Hv] Hr] Hn].
  pose proof (dec_shape_spec _ _ Hs) as [Hlen _].
  rewrite encode_unfold. unfold inv_b, wf_b, norm_missing_all_b. cbn [ctype chunks forallb length].
  rewrite Hk, Hnd, (encode_wf_chunk sch d Hs), (encode_same_offsets sch d Hr).
  rewrite (encode_lists_valid sch d (eq_sym Hlen) Hv), (encode_norm_missing sch d (eq_sym Hlen) Hn).
  reflexivity.
Qed.

Print Assumptions decode_inv.
Print Assumptions abs_decode.
Print Assumptions encode_inv.
Print Assumptions decode_encode.
Print Assumptions abs_encode.
Print Assumptions rows_of_dec.
Print Assumptions m_rows_dec.
Print Assumptions lcol_of_dec_rows.
Print Assumptions m_init_chunks.
Print Assumptions drop_hidden_id.
Print Assumptions inv_validate.
Print Assumptions inv_chunks.
Print Assumptions inv_wf.
