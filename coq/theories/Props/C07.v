(* C07 — a query on a nested field filters inside every row, and only there.
   The nested branch of NestedFrame.query (flat view re-indexed by ordinal row number -> boolean selection ->
   pack_sorted_df_into_struct: offsets from first occurrences of the surviving ordinals -> aligned write-back on
   0..n-1) is modelled by m_query_nested (Frame.v).  For EVERY list of rows (any number, missing / empty / non-empty,
   any records) and EVERY per-record predicate keep: the result has exactly the satisfying records of each row, in
   their original order, and a row left without records (also an empty or a missing one) is missing; a mask of the
   wrong length is refused.  The truth value of a record under a condition is the pandas evaluator's (contract,
   sampled by the stream row by row); labels, row order, base and other nested columns are untouched because the
   write-back replaces one column of a frame re-indexed to 0..n-1 and restores the index (checked on the real frames). *)
From Coq Require Import String List Arith Bool ZArith.
Import ListNotations.
From NP Require Import Base Values Arrow Abs Kernels Logical ExtArray Codec Steps Frame Bridge Proofs_Pack Proofs_Regroup Proofs_Bridge.
From NP Require Import Preflight Proofs_Preflight.

Theorem C07_query_nested : forall rows keep,
  m_query_nested rows (map keep (m_flat rows)) = Ok (spec_filter_rows keep rows).
Proof. exact query_nested_spec. Qed.
Print Assumptions C07_query_nested.

Theorem C07_same_number_of_rows : forall keep rows, length (spec_filter_rows keep rows) = length rows.
Proof. exact spec_filter_rows_length. Qed.
Print Assumptions C07_same_number_of_rows.

Theorem C07_each_row_keeps_its_own_satisfying_records : forall keep rows i, i < length rows ->
  recs (nth i (spec_filter_rows keep rows) None) = filter keep (recs (nth i rows None))
  /\ (nth i (spec_filter_rows keep rows) None = None <-> filter keep (recs (nth i rows None)) = []).
Proof. exact spec_filter_rows_nth. Qed.
Print Assumptions C07_each_row_keeps_its_own_satisfying_records.

Theorem C07_wrong_mask_refused : forall rows mask, length mask <> length (m_flat rows) -> m_query_nested rows mask = Err.
Proof. exact query_nested_bad_mask. Qed.
Print Assumptions C07_wrong_mask_refused.

(* the re-pack underneath: a table with a sorted index packs into rows with distinct ascending labels, no empty
   row, and flattening gives the table back *)
Theorem C07_repack_is_lossless : forall t, is_mono_inc (map fst t) = true ->
  exists g, m_pack_sorted t = Ok g /\ flatten_packed g = t /\ strict_inc (map fst g) = true
            /\ Forall (fun kg : Z * list record => snd kg <> []) g.
Proof. exact pack_sorted_ok. Qed.
Print Assumptions C07_repack_is_lossless.

(* the link to the column level: the rows the mechanism starts from are the record-major reading of the logical column abs p,
   whose flat fields, per-row lengths and ordinal index are exactly the C03 views that the library computes on ANY layout *)
Theorem C07_starts_from_the_C03_views : forall p, inv_b p = true ->
  let L := abs p in
  row_lens (nrows_of L) = lrow_lengths L /\
  m_list_index (nrows_of L) = map Z.of_nat (spec_list_index L) /\
  (forall k, k < length (lcols L) -> flat_field k (nrows_of L) = nth k (spec_flat L) []).
Proof. exact frame_views_are_c03_views. Qed.
Print Assumptions C07_starts_from_the_C03_views.

(* which layer a query belongs to (Preflight.v mirrors _subexprs_by_nest / extract_nest_names and the routing of query):
   for EVERY expression tree - binary operators, unary ~ and -, function calls, any depth - the preflight sees exactly
   the layers occurring in it; the query is refused exactly when two different layers occur, filters inside nest k
   exactly when every term belongs to nest k, selects whole rows exactly when no nested field occurs; the preflight of
   the unrepaired code (descending through binary operators only) let a mixed condition pass *)
Theorem C07_preflight_sees_every_layer : forall e l, In l (q_keys e) <-> occurs l e = true.
Proof. exact keys_are_the_layers. Qed.
Print Assumptions C07_preflight_sees_every_layer.

Theorem C07_mixed_layers_refused : forall e,
  m_query_route e = QRefuse <-> exists a b, a <> b /\ occurs a e = true /\ occurs b e = true.
Proof. exact route_refuse. Qed.
Print Assumptions C07_mixed_layers_refused.

Theorem C07_nested_route : forall e k,
  m_query_route e = QNest k <-> (k <> 0 /\ occurs k e = true /\ forall l, occurs l e = true -> l = k).
Proof. exact route_nest. Qed.
Print Assumptions C07_nested_route.

Theorem C07_base_route : forall e, m_query_route e = QBase <-> (forall l, occurs l e = true -> l = 0).
Proof. exact route_base. Qed.
Print Assumptions C07_base_route.

Theorem C07_unrepaired_preflight_refuted :
  let e := QOp KBinary [QOp KUnary [QOp KBinary [QField 1; QConst]]; QOp KBinary [QField 2; QConst]] in
  m_query_route e = QRefuse /\ q_keys_unrepaired e = [2].
Proof. exact unrepaired_preflight_refuted. Qed.
Print Assumptions C07_unrepaired_preflight_refuted.

Example C07_nonvacuous :
  m_query_nested [Some [[VInt 1]; [VInt 5]; [VInt 2]]; None; Some []; Some [[VInt 9]]; Some [[VInt 0]]]
                 [true; false; true; false; true]
  = Ok [Some [[VInt 1]; [VInt 2]]; None; None; None; Some [[VInt 0]]].
Proof. vm_compute. reflexivity. Qed.
