From NP Require Import Base.
Theorem placeholder_C04 : True. Proof. exact I. Qed.
Print Assumptions placeholder_C04.
