(* C04 — behaviour does not depend on physical layout or construction history.
   Two physical columns (any chunking, any offsets bases, any encoding of missing rows that hides no child
   values, whatever their history) that denote the same logical column are indistinguishable by ANY history of
   operations of the alphabet of Steps.v (selection, take, concat, copy, dropna, pickle, element assignment, field
   edits, list-struct round trip): same logical results step by step, or both fail.  It is a corollary of the
   all-layout refinement theorems; the one layout hypothesis the refinement needs (norm_missing, part of inv_b) cannot be
   dropped: C04_hidden_refuted exhibits two layouts of ONE logical column that the faithful model tells apart (the former
   finding KF-hidden-children: repaired, the constructor now establishes norm_missing for every accepted input). *)
From Coq Require Import String List Arith Bool ZArith.
Import ListNotations.
From NP Require Import Base Values Arrow Abs Kernels Logical ExtArray Codec Steps
  Proofs_Views Proofs_Codec Proofs_Steps.
From NP Require Import Props.C03.

Theorem C04_layout_independence : forall ops p1 p2,
  inv_b p1 = true -> inv_b p2 = true -> abs p1 = abs p2 ->
  ops_ok p1 ops = true -> ops_ok p2 ops = true ->
  res_map abs (m_run p1 ops) = res_map abs (m_run p2 ops).
Proof. exact layout_independence. Qed.
Print Assumptions C04_layout_independence.

(* the read-only views too: they are functions of abs p alone (C03), hence equal on equal logical columns *)
Theorem C04_views_layout_independent : forall p1 p2,
  inv_b p1 = true -> inv_b p2 = true -> abs p1 = abs p2 ->
  m_list_lengths p1 = m_list_lengths p2 /\ m_flat_length p1 = m_flat_length p2
  /\ m_get_list_index p1 = m_get_list_index p2
  /\ res_map diffs (m_list_offsets p1) = res_map diffs (m_list_offsets p2)
  /\ m_list_struct_rows p1 = m_list_struct_rows p2.
Proof.
  intros p1 p2 H1 H2 E.
  pose proof (inv_chunks p1 H1) as C1. pose proof (inv_chunks p2 H2) as C2.
  assert (W1 : wf_b p1 = true /\ norm_missing_all_b p1 = true).
  { unfold inv_b in H1. rewrite !andb_true_iff in H1. tauto. }
  assert (W2 : wf_b p2 = true /\ norm_missing_all_b p2 = true).
  { unfold inv_b in H2. rewrite !andb_true_iff in H2. tauto. }
  destruct W1 as [W1 N1], W2 as [W2 N2].
  rewrite (C03_list_lengths p1 W1 N1 C1), (C03_list_lengths p2 W2 N2 C2),
          (C03_flat_length p1 W1 N1 C1), (C03_flat_length p2 W2 N2 C2),
          (C03_get_list_index p1 W1 N1 C1), (C03_get_list_index p2 W2 N2 C2),
          (C03_list_offsets p1 W1 N1 C1), (C03_list_offsets p2 W2 N2 C2),
          (Proofs_Transpose.export_rows p1 H1), (Proofs_Transpose.export_rows p2 H2), E.
  repeat split; reflexivity.
Qed.
Print Assumptions C04_views_layout_independent.

Definition plain_witness : chunked :=
  {| ctype := [("a"%string, TI64)];
     chunks := [ {| svalid := [true; false];
                    sfields := [ {| fname := "a"%string; fty := TI64;
                                    farr := {| offs := [0; 1; 1]; lvalid := [true; false];
                                               child := [VInt 1] |} |} ] |} ] |}.
Theorem C04_hidden_refuted : exists p1 p2,
  wf_b p1 = true /\ wf_b p2 = true /\ abs p1 = abs p2 /\ m_list_offsets p1 <> m_list_offsets p2.
Proof. exists hidden_witness, plain_witness. repeat split; try reflexivity. vm_compute. discriminate. Qed.
Print Assumptions C04_hidden_refuted.

(* non-vacuity: two genuinely different layouts of one logical column, both satisfying the invariant *)
Definition sample_col_one_chunk : chunked := k_combine_chunks sample_col.
Example C04_hypotheses_satisfiable :
  inv_b sample_col = true /\ inv_b sample_col_one_chunk = true
  /\ abs sample_col = abs sample_col_one_chunk /\ chunks sample_col <> chunks sample_col_one_chunk.
Proof. split; [reflexivity|]. split; [reflexivity|]. split; [reflexivity|]. vm_compute. discriminate. Qed.

(* the arrays handed to reduce's user function (iter_field_lists) do not depend on the chunking; a conversion of a
   whole chunk at once would *)
From NP Require Import NumpyView Proofs_NumpyView.
Theorem C04_iter_field_lists_layout_independent : forall p q nm,
  wf_b p = true -> chunks p <> [] -> NoDup (map fst (ctype p)) ->
  wf_b q = true -> chunks q <> [] -> abs p = abs q ->
  has_name (map fst (ctype p)) nm = true ->
  m_iter_field_lists p nm = m_iter_field_lists q nm.
Proof. exact iter_field_lists_layout_independent. Qed.
Print Assumptions C04_iter_field_lists_layout_independent.
Theorem C04_chunkwise_conversion_refuted :
  inv_b cx_one = true /\ inv_b cx_two = true /\ abs cx_one = abs cx_two
  /\ m_iter_chunkwise cx_one "a" <> m_iter_chunkwise cx_two "a"
  /\ m_iter_field_lists cx_one "a" = m_iter_field_lists cx_two "a".
Proof. exact chunkwise_conversion_refuted. Qed.
Print Assumptions C04_chunkwise_conversion_refuted.
