(* C08 — parquet files round-trip the frame and stay readable by plain Arrow.  Partial by design.
   The file format lives in Arrow C++ and enters as a contract (write_table / read_table keep values, nulls at struct
   and list level, and order; a dotted request 'n.a' comes back as the leaf list column 'a').  What is proved is the
   library's own glue on the reading side, the regrouping of partially loaded dotted columns (io.py), as a pure function
   on the requested names (Io.v), for EVERY request list: removing the regrouped leaves by descending position is
   exactly filtering them out - whatever order they were collected in - so the result holds exactly the requested
   columns that are not part of a regrouped nest, in request order, followed by one struct per partially loaded nest whose
   fields are its requested leaves in request order; the positions collected for a nest are list-typed leaves of dotted
   requests of that very nest; a nest requested in full and partially is refused; and the removal order is essential
   (removing in collection order is refuted by a witness - the change a seeded mutant makes).  The writer drops the
   pandas metadata, exports the struct storage as it is and turns a non-default index into a column: checked on real
   files under every writer configuration, by the library and by plain pyarrow. *)
From Coq Require Import String List Arith Bool Permutation.
Import ListNotations.
From NP Require Import Base Values Dtype Names Io Proofs_Io.
From NP Require Import Arrow Abs Kernels Logical ExtArray Codec Steps Io2 Proofs_Io2.
From NP Require Import Glue Proofs_Glue.

Theorem C08_removal_by_descending_position_is_filtering : forall (idx : list nat) (l : list outcol),
  NoDup idx -> (forall i, In i idx -> i < length l) ->
  remove_all idx l = map snd (filter (fun p => negb (existsb (Nat.eqb (fst p)) idx)) (combine (seq 0 (length l)) l)).
Proof. intros. apply remove_all_filter; assumption. Qed.
Print Assumptions C08_removal_by_descending_position_is_filtering.

Theorem C08_partial_load_gives_exactly_the_requested_columns : forall reject0 cols reject out,
  m_regroup reject0 cols = Ok (reject, out) ->
  exists d, scan 0 cols reject0 [] = (reject, d) /\
            out = spec_kept cols (concat (map snd d))
                  ++ map (fun kv => OStruct (fst kv) (map (fun i => rq_pa (nth i cols dflt)) (snd kv))) d.
Proof. exact regroup_kept. Qed.
Print Assumptions C08_partial_load_gives_exactly_the_requested_columns.

Theorem C08_regrouped_positions_belong_to_their_nest : forall cols i reject d reject' d',
  scan i cols reject d = (reject', d') ->
  (forall k l p, In (k, l) d -> In p l -> p < i) ->
  forall k l p, In (k, l) d' -> In p l ->
    (exists l0, In (k, l0) d /\ In p l0) \/
    (i <= p < i + length cols /\ str_eqb (rq_in (nth (p - i) cols dflt)) (rq_pa (nth (p - i) cols dflt)) = false
     /\ rq_list (nth (p - i) cols dflt) = true /\ nest_of (rq_in (nth (p - i) cols dflt)) = k).
Proof. exact scan_positions. Qed.
Print Assumptions C08_regrouped_positions_belong_to_their_nest.

Theorem C08_full_and_partial_refused : forall reject0 cols,
  (let '(_, d) := scan 0 cols reject0 [] in existsb (fun c => mem_str (rq_in c) (map fst d)) cols = true) ->
  m_regroup reject0 cols = Err.
Proof. exact regroup_full_and_partial_refused. Qed.
Print Assumptions C08_full_and_partial_refused.

Theorem C08_removal_order_matters : exists (idx : list nat) (l : list nat),
  NoDup idx /\ (forall i, In i idx -> i < length l) /\
  fold_left (fun acc i => remove_nth i acc) (rev idx) l
  <> map snd (filter (fun p => negb (existsb (Nat.eqb (fst p)) idx)) (combine (seq 0 (length l)) l)).
Proof. exact removal_order_matters. Qed.
Print Assumptions C08_removal_order_matters.

(* the CONTENT of a partially loaded nested column (Io2.v: the leaves the file returns carry the struct's validity; the
   reader rebuilds the struct and marks a row missing when every requested leaf is null): for EVERY column satisfying
   the invariant - any chunking (row groups), offsets base, size - and every non-empty duplicate-free selection of
   existing fields, the partial load denotes exactly the selected fields of the full column: same rows, same missing
   rows, same lists, in the order of the request; it is what selecting the fields of the fully loaded column gives;
   the result satisfies the invariant again; the reader WITHOUT the mask (the unrepaired io.py) returns a missing row
   as a present one *)
Theorem C08_partial_load_holds_the_selected_fields : forall p sel,
  inv_b p = true -> sel <> [] -> nodupb sel = true -> forallb (has_name (map fst (ctype p))) sel = true ->
  res_map abs (m_partial_load p sel) = Ok (spec_select_fields (abs p) sel).
Proof. exact partial_load_refines. Qed.
Print Assumptions C08_partial_load_holds_the_selected_fields.

Theorem C08_partial_load_is_field_selection_of_the_full_read : forall p sel,
  inv_b p = true -> sel <> [] -> nodupb sel = true -> forallb (has_name (map fst (ctype p))) sel = true ->
  res_map abs (m_partial_load p sel) = res_map abs (m_view_fields p sel).
Proof. exact partial_load_is_view_fields. Qed.
Print Assumptions C08_partial_load_is_field_selection_of_the_full_read.

Theorem C08_partial_load_keeps_invariant : forall p sel p',
  inv_b p = true -> sel <> [] -> nodupb sel = true -> forallb (has_name (map fst (ctype p))) sel = true ->
  m_partial_load p sel = Ok p' -> inv_b p' = true.
Proof. exact partial_load_inv. Qed.
Print Assumptions C08_partial_load_keeps_invariant.

Theorem C08_unrepaired_reader_refuted :
  res_map svalid (m_partial_chunk_unrepaired missing_witness ["a"%string]) = Ok [true; true] /\
  res_map svalid (m_partial_chunk missing_witness ["a"%string]) = Ok [true; false].
Proof. exact unrepaired_partial_load_refuted. Qed.
Print Assumptions C08_unrepaired_reader_refuted.

(* which columns the reader makes nested (Glue.v mirrors _cast_struct_cols_to_nested): one output per column in order; a
   column becomes nested exactly when it is a well-formed struct of lists that is not rejected; the read fails exactly
   when some struct-of-lists column that is not rejected is ragged *)
Theorem C08_reader_keeps_columns : forall cols reject out, m_cast_cols cols reject = Ok out -> map fst out = map fst cols.
Proof. exact cast_cols_shape. Qed.
Print Assumptions C08_reader_keeps_columns.

Theorem C08_reader_nests_the_right_columns : forall cols reject out i nm k,
  m_cast_cols cols reject = Ok out -> nth_error cols i = Some (nm, k) ->
  nth_error out i = Some (nm, match k with KStructLists true => if mem_str nm reject then CUnchanged else CNested | _ => CUnchanged end)
  /\ (k = KStructLists false -> mem_str nm reject = true).
Proof. exact cast_cols_nested. Qed.
Print Assumptions C08_reader_nests_the_right_columns.

Theorem C08_reader_refuses_ragged : forall cols reject,
  m_cast_cols cols reject = Err <-> exists nm, In (nm, KStructLists false) cols /\ mem_str nm reject = false.
Proof. exact cast_cols_refused. Qed.
Print Assumptions C08_reader_refuses_ragged.

(* non-vacuity: fields of two nests requested interleaved with a base column *)
Example C08_nonvacuous :
  let rq := fun i p l => {| rq_in := i; rq_pa := p; rq_list := l |} in
  m_regroup [] [rq [110; 49; 46; 97] [97] true; rq [109; 46; 115] [115] true; rq [110; 49; 46; 98] [98] true; rq [121] [121] false]
  = Ok ([], [OFlat [121]; OStruct [110; 49] [[97]; [98]]; OStruct [109] [[115]]]).
Proof. vm_compute. reflexivity. Qed.
