From NP Require Import Base.
Theorem placeholder_C01 : True. Proof. exact I. Qed.
Print Assumptions placeholder_C01.
