(* C01 — every nested value is a rectangular table; ragged input is refused.
   State machine over the array API (Steps.v): any history, of any length, of selection / take / concat / copy /
   dropna / pickle / element assignment / field edits / list-struct round trips, started from a column that
   satisfies the invariant, only ever gives birth to columns that satisfy it (trace_inv: every intermediate state);
   the invariant implies the property's reading: in every chunk every row has the same number of elements in every
   field, and the field names and element types of the storage are those of the declared dtype.  The constructor with
   validation (every entry point that takes data from outside funnels into it: construction, from_sequence, pack_lists,
   set_list_field, astype cast, parquet load) accepts a struct-of-lists array only if it is rectangular and refuses
   every ragged one; element assignment refuses ragged rows (C05_setitem: spec_col_setitem demands lrow_rect). *)
From Coq Require Import String List Arith Bool ZArith.
Import ListNotations.
From NP Require Import Base Values Arrow Abs Kernels Logical ExtArray Codec Steps
  Proofs_Views Proofs_Codec Proofs_Norm Proofs_Fields Proofs_Steps Proofs_Extras.
From NP Require Import Props.C03.

Theorem C01_step_keeps_invariant : forall p o p', inv_b p = true -> op_ok p o = true ->
  m_step p o = Ok p' -> inv_b p' = true.
Proof. exact step_inv. Qed.
Print Assumptions C01_step_keeps_invariant.

(* every array that comes into existence along a history, intermediate ones included *)
Theorem C01_every_reachable_array : forall ops p, inv_b p = true -> ops_ok p ops = true ->
  Forall (fun q => inv_b q = true) (m_trace p ops).
Proof. exact trace_inv. Qed.
Print Assumptions C01_every_reachable_array.

Theorem C01_history_result : forall ops p p', inv_b p = true -> ops_ok p ops = true ->
  m_run p ops = Ok p' -> inv_b p' = true.
Proof. exact run_inv. Qed.
Print Assumptions C01_history_result.

(* what the invariant means: rectangular rows, storage schema = declared dtype *)
Theorem C01_invariant_means_rectangular : forall p, wf_b p = true -> forallb rect_b (chunks p) = true.
Proof. exact wf_rect. Qed.
Print Assumptions C01_invariant_means_rectangular.

Theorem C01_storage_schema_is_dtype : forall p c, wf_b p = true -> In c (chunks p) -> sc_schema c = ctype p.
Proof. exact wf_schema. Qed.
Print Assumptions C01_storage_schema_is_dtype.

(* the validating constructor: sound, and refuses every ragged input *)
Theorem C01_constructor_sound : forall p p', arrow_ok_b p = true -> m_init p true = Ok p' -> wf_b p' = true.
Proof. exact init_sound. Qed.
Print Assumptions C01_constructor_sound.

(* NEW with the repair "a missing row holds nothing": the constructor establishes the layout part of the invariant by
   itself (well-formed, missing rows hold nothing, at least one chunk), for ANY accepted input, also one whose missing
   rows hide elements, without changing the logical column; with distinct field names that is the whole invariant *)
Theorem C01_constructor_normalises : forall p q, arrow_ok_b p = true -> m_init p true = Ok q ->
  wf_b q = true /\ norm_missing_all_b q = true /\ abs q = abs p /\ chunks q <> [].
Proof. exact init_normalises. Qed.
Print Assumptions C01_constructor_normalises.

Theorem C01_constructor_keeps_column : forall p q, arrow_ok_b p = true -> m_init p true = Ok q ->
  abs q = abs p /\ chunks q <> [].
Proof. exact init_abs. Qed.
Print Assumptions C01_constructor_keeps_column.

Theorem C01_constructor_invariant : forall p q, arrow_ok_b p = true -> nodupb (map fst (ctype p)) = true ->
  m_init p true = Ok q -> inv_b q = true.
Proof. exact init_inv. Qed.
Print Assumptions C01_constructor_invariant.

(* NEW with the repair: set_list_field normalises too, whatever the column hides under its missing rows and whatever the
   offered array offers for them.  v is any valid Arrow list array (wf_larr_b: what pyarrow guarantees, the library does
   not check it).  If moreover every present row is offered a list (not a null) and the field names are distinct, the
   result satisfies the whole invariant. *)
Theorem C01_set_list_field_normalises : forall p nm ty v keep q,
  wf_b p = true -> wf_larr_b (la_len v) v = true ->
  m_set_list_field p nm ty v keep = Ok q ->
  norm_missing_all_b q = true /\ chunks q <> [].
Proof. exact set_list_field_normalises. Qed.
Print Assumptions C01_set_list_field_normalises.

Theorem C01_set_list_field_invariant : forall p nm ty v keep q,
  wf_b p = true -> nodupb (map fst (ctype p)) = true -> wf_larr_b (la_len v) v = true ->
  forallb2 (fun s l : bool => implb s l) (concat (map svalid (chunks p))) (lvalid v) = true ->
  m_set_list_field p nm ty v keep = Ok q ->
  inv_b q = true.
Proof.
  intros p nm ty v keep q Hwfp Hnd Hwf Ho H.
  apply (set_list_field_sound p nm ty v keep q Hwfp Hwf Ho H). exact Hnd.
Qed.
Print Assumptions C01_set_list_field_invariant.

Theorem C01_ragged_refused : forall p, arrow_ok_b p = true -> forallb rect_b (chunks p) = false ->
  m_init p true = Err.
Proof. exact init_refuses_ragged. Qed.
Print Assumptions C01_ragged_refused.

Definition ragged_witness : chunked :=
  {| ctype := [("a"%string, TI64); ("b"%string, TF64)];
     chunks := [ {| svalid := [true];
                    sfields := [ {| fname := "a"%string; fty := TI64;
                                    farr := {| offs := [0; 3]; lvalid := [true]; child := [VInt 1; VInt 2; VInt 3] |} |};
                                 {| fname := "b"%string; fty := TF64;
                                    farr := {| offs := [0; 1]; lvalid := [true]; child := [VTok 1] |} |} ] |} ] |}.
Example C01_hypotheses_satisfiable :
  inv_b sample_col = true /\ arrow_ok_b sample_col = true /\ m_init sample_col true = Ok sample_col
  /\ arrow_ok_b ragged_witness = true /\ forallb rect_b (chunks ragged_witness) = false
  /\ m_init ragged_witness true = Err.
Proof. repeat split; reflexivity. Qed.

(* packing of list columns (packer.pack_lists: from_lists, nest_lists, and the dotted outputs of a reduce function):
   with validation a ragged row is refused whatever the chunking of the columns; WITHOUT it (validate=False, what a
   seeded change of the eighth round made of reduce's packing step) the ragged row is stored *)
From NP Require Import Bridge Proofs_Bridge.
Theorem C01_pack_lists_ragged_refused : forall cols n, cols <> [] ->
  forallb (lcolumn_ok n) cols = true ->
  (exists c, In c cols /\ map (fun o => length (olist o)) (column_rows c)
                           <> map (fun o => length (olist o)) (column_rows (hd (EmptyString, TI64, []) cols))) ->
  m_pack_lists cols true = Err.
Proof. exact pack_lists_ragged_refused. Qed.
Print Assumptions C01_pack_lists_ragged_refused.

Definition ragged_outputs : list lcolumn :=
  [ ("t"%string, TF64, [la_of_lists [Some [VTok 1; VTok 2; VTok 3]; Some [VTok 4]]]);
    ("w"%string, TF64, [la_of_lists [Some [VTok 1; VTok 2; VTok 3]; Some []]]) ].
Theorem C01_unvalidated_packing_refuted : exists p,
  forallb (lcolumn_ok 2) ragged_outputs = true /\
  m_pack_lists ragged_outputs true = Err /\
  m_pack_lists ragged_outputs false = Ok p /\ forallb rect_b (chunks p) = false.
Proof. eexists. repeat split; vm_compute; reflexivity. Qed.
Print Assumptions C01_unvalidated_packing_refuted.

(* a cast between nested dtypes is an entry point too (Cast.v): Arrow fills a field the column lacks with a NULL list in
   every row, so widening is refused as soon as a kept field holds an element; the column's own dtype changes nothing; a
   selection / re-ordering of the fields is the field selection *)
From NP Require Import Cast Proofs_Cast.
Theorem C01_astype_widening_refused : forall p target c k fk nm,
  In c (chunks p) ->
  In k (map fst target) -> find (fun f => String.eqb (fname f) k) (sfields c) = Some fk ->
  last (offs (farr fk)) 0 <> hd 0 (offs (farr fk)) ->
  hd 0 (offs (farr fk)) <= last (offs (farr fk)) 0 ->
  In nm (map fst target) -> find (fun f => String.eqb (fname f) nm) (sfields c) = None ->
  m_astype_nested p target = Err.
Proof. exact astype_widening_refused. Qed.
Print Assumptions C01_astype_widening_refused.
Theorem C01_astype_same_dtype : forall p, inv_b p = true -> m_astype_nested p (ctype p) = Ok p.
Proof. exact astype_same_dtype. Qed.
Print Assumptions C01_astype_same_dtype.
Theorem C01_astype_select_fields : forall p target, inv_b p = true -> target <> [] -> NoDup (map fst target) ->
  (forall nt, In nt target -> In nt (ctype p)) ->
  exists q, m_astype_nested p target = Ok q /\ abs q = spec_select_fields (abs p) (map fst target).
Proof. exact astype_select_fields. Qed.
Print Assumptions C01_astype_select_fields.
