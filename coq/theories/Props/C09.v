(* C09 — nesting attaches to each row exactly the records carrying its label.
   add_nested = pack_flat of the flat table (stable sort by label, offsets from first occurrences) followed by a
   pandas join on the (distinct) packed labels.  For EVERY flat table (any multiset of labels in any order) and EVERY
   list of base labels (unsorted, repeated, absent from the flat table): with the default left join row i gets exactly
   the records whose label equals its label, in their original relative order, and is missing when there are none;
   for the other joins the same holds for every result row of the join plan (row set and order are pandas'
   contract).  from_flat keeps one base row per label - the FIRST occurrence, in first-occurrence order - and nests all
   records of that label. *)
From Coq Require Import String List Arith Bool ZArith.
Import ListNotations.
From NP Require Import Base Values Arrow Frame Proofs_Pack.
From NP Require Import Dtype Names Glue Proofs_Glue.

Theorem C09_left_join : forall base_labels t,
  m_add_nested_left base_labels t = Ok (spec_add_nested_left base_labels t).
Proof. exact add_nested_left_spec. Qed.
Print Assumptions C09_left_join.

Theorem C09_any_join_plan : forall plan t, m_join_plan plan t = Ok (spec_join_plan plan t).
Proof. exact join_plan_spec. Qed.
Print Assumptions C09_any_join_plan.

Theorem C09_row_packed_for_a_label : forall t g l, m_pack_flat t = Ok g ->
  lookup_key l g = nonempty_or_missing (map snd (filter (has_key l) t)).
Proof. exact lookup_pack_flat. Qed.
Print Assumptions C09_row_packed_for_a_label.

Theorem C09_from_flat : forall t base, length base = length t ->
  m_from_flat t base
  = Ok (map (fun kb : Z * record => (fst kb, snd kb, nonempty_or_missing (map snd (filter (has_key (fst kb)) t))))
            (first_occurrences (map fst t) base)).
Proof. exact from_flat_spec. Qed.
Print Assumptions C09_from_flat.

Theorem C09_one_base_row_per_label : forall (keys : list Z) (xs : list record), length xs = length keys ->
  NoDup (map fst (first_occurrences keys xs)).
Proof. intros. apply first_occurrences_nodup. assumption. Qed.
Print Assumptions C09_one_base_row_per_label.

Theorem C09_base_row_is_first_occurrence : forall (keys : list Z) (xs : list record) k x, length xs = length keys ->
  (In (k, x) (first_occurrences keys xs) <->
   exists i, nth_error keys i = Some k /\ nth_error xs i = Some x /\ forall j, j < i -> nth_error keys j <> Some k).
Proof. intros. apply first_occurrences_spec. assumption. Qed.
Print Assumptions C09_base_row_is_first_occurrence.

(* from_lists: which columns are packed and which stay (Glue.v mirrors the resolution of base_columns / list_columns): naming
   only the list columns or only the base columns splits the frame's columns - every column is a list column or a base
   column, never both, in frame order; naming nothing packs everything; refused exactly when no list column remains *)
Theorem C09_from_lists_split_by_lists : forall cols l b l',
  m_from_lists_columns cols None (Some l) = Ok (b, l') ->
  l' = l /\ b = Some (filter (fun c => negb (mem_str c l)) cols) /\
  forall c, In c cols -> (mem_str c l = true \/ In c (match b with Some x => x | None => [] end)) /\
                         ~ (mem_str c l = true /\ In c (match b with Some x => x | None => [] end)).
Proof. exact from_lists_split_by_lists. Qed.
Print Assumptions C09_from_lists_split_by_lists.

Theorem C09_from_lists_split_by_base : forall cols b0 b l,
  m_from_lists_columns cols (Some b0) None = Ok (b, l) ->
  b = Some b0 /\ l = filter (fun c => negb (mem_str c b0)) cols /\
  forall c, In c cols -> (mem_str c b0 = true \/ In c l) /\ ~ (mem_str c b0 = true /\ In c l).
Proof. exact from_lists_split_by_base. Qed.
Print Assumptions C09_from_lists_split_by_base.

Theorem C09_from_lists_refused : forall cols base lists,
  m_from_lists_columns cols base lists = Err <->
  match base, lists with
  | None, None => cols = []
  | _, Some l => l = []
  | Some b, None => forall c, In c cols -> mem_str c b = true
  end.
Proof. exact from_lists_refused. Qed.
Print Assumptions C09_from_lists_refused.

Example C09_nonvacuous :
  m_add_nested_left [2%Z; 7%Z; 3%Z; 3%Z] [(3%Z, [VInt 1]); (1%Z, [VInt 2]); (3%Z, [VInt 3]); (2%Z, [VInt 4])]
  = Ok [Some [[VInt 4]]; None; Some [[VInt 1]; [VInt 3]]; Some [[VInt 1]; [VInt 3]]].
Proof. vm_compute. reflexivity. Qed.
