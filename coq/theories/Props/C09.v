(* C09 — nesting attaches to each row exactly the records carrying its label.
   add_nested = pack_flat of the flat table (stable sort by label, offsets from first occurrences) followed by a
   pandas join on the (distinct) packed labels.  For EVERY flat table (any multiset of labels in any order) and EVERY
   list of base labels (unsorted, repeated, absent from the flat table): with the default left join row i gets exactly
   the records whose label equals its label, in their original relative order, and is missing when there are none;
   for the other joins the same holds for every result row of the join plan (row set and order are pandas'
   contract).  from_flat keeps one base row per label - the FIRST occurrence, in first-occurrence order - and nests all
   records of that label. *)
From Coq Require Import String List Arith Bool ZArith.
Import ListNotations.
From NP Require Import Base Values Arrow Frame Proofs_Pack.

Theorem C09_left_join : forall base_labels t,
  m_add_nested_left base_labels t = Ok (spec_add_nested_left base_labels t).
Proof. exact add_nested_left_spec. Qed.
Print Assumptions C09_left_join.

Theorem C09_any_join_plan : forall plan t, m_join_plan plan t = Ok (spec_join_plan plan t).
Proof. exact join_plan_spec. Qed.
Print Assumptions C09_any_join_plan.

Theorem C09_row_packed_for_a_label : forall t g l, m_pack_flat t = Ok g ->
  lookup_key l g = nonempty_or_missing (map snd (filter (has_key l) t)).
Proof. exact lookup_pack_flat. Qed.
Print Assumptions C09_row_packed_for_a_label.

Theorem C09_from_flat : forall t base, length base = length t ->
  m_from_flat t base
  = Ok (map (fun kb : Z * record => (fst kb, snd kb, nonempty_or_missing (map snd (filter (has_key (fst kb)) t))))
            (first_occurrences (map fst t) base)).
Proof. exact from_flat_spec. Qed.
Print Assumptions C09_from_flat.

Theorem C09_one_base_row_per_label : forall (keys : list Z) (xs : list record), length xs = length keys ->
  NoDup (map fst (first_occurrences keys xs)).
Proof. intros. apply first_occurrences_nodup. assumption. Qed.
Print Assumptions C09_one_base_row_per_label.

Theorem C09_base_row_is_first_occurrence : forall (keys : list Z) (xs : list record) k x, length xs = length keys ->
  (In (k, x) (first_occurrences keys xs) <->
   exists i, nth_error keys i = Some k /\ nth_error xs i = Some x /\ forall j, j < i -> nth_error keys j <> Some k).
Proof. intros. apply first_occurrences_spec. assumption. Qed.
Print Assumptions C09_base_row_is_first_occurrence.

Example C09_nonvacuous :
  m_add_nested_left [2%Z; 7%Z; 3%Z; 3%Z] [(3%Z, [VInt 1]); (1%Z, [VInt 2]); (3%Z, [VInt 3]); (2%Z, [VInt 4])]
  = Ok [Some [[VInt 4]]; None; Some [[VInt 1]; [VInt 3]]; Some [[VInt 1]; [VInt 3]]].
Proof. vm_compute. reflexivity. Qed.
