(* C15 — operations do not mutate their inputs; copies are isolated.  Partial by design.
   In a functional model nothing mutates, so Heap.v models object identity explicitly: objects hold their nested
   column in an array cell that points to immutable Arrow storage; the library's writers either rebind the CELL's
   storage (element assignment: visible to every holder of that cell - a Series extracted from a frame holds the frame's
   cell, by pandas' definition of a view) or rebind the OBJECT's column to a fresh cell (field assignment and every
   inplace frame operation: visible in the target only); operations returning a new object allocate fresh cells.
   Proved for EVERY well-formed heap and histories of ANY length: a pure operation changes no observation; an element
   write shows only in sharers of the cell; a rebinding operation shows only in its target; a deep copy shows the same
   data, shares its cell with nothing and separation, once established, is preserved by every later step; hence no
   in-place operation on one of two separated objects is ever visible through the other.  Which pandas operations
   share or copy cells is pandas' 2.2 object model (no copy-on-write): a contract, sampled by the stream, which also
   probes every result of a pure operation with an in-place write. *)
From Coq Require Import List Arith Bool.
Import ListNotations.
From NP Require Import Heap Proofs_Heap.

Theorem C15_pure_operations_change_nothing : forall s b, observe (h_step s HPure) b = observe s b.
Proof. exact pure_changes_nothing. Qed.
Print Assumptions C15_pure_operations_change_nothing.

Theorem C15_element_write_shows_only_in_sharers : forall s t b, h_wf s = true ->
  observe (h_step s (HWriteCell t)) b <> observe s b -> shares s t b = true.
Proof. exact write_shows_only_in_sharers. Qed.
Print Assumptions C15_element_write_shows_only_in_sharers.

Theorem C15_rebinding_shows_only_in_target : forall s t b, h_wf s = true ->
  observe (h_step s (HRebind t)) b <> observe s b -> b = t.
Proof. exact rebind_shows_only_in_target. Qed.
Print Assumptions C15_rebinding_shows_only_in_target.

Theorem C15_deep_copy_is_separated : forall s src dst b, h_wf s = true -> b <> dst -> observe s src <> None ->
  shares (h_step s (HDeepCopy src dst)) dst b = false.
Proof. exact deep_copy_is_separated. Qed.
Print Assumptions C15_deep_copy_is_separated.

Theorem C15_deep_copy_same_data : forall s src dst, h_wf s = true -> observe s src <> None ->
  observe (h_step s (HDeepCopy src dst)) dst = observe s src.
Proof. exact deep_copy_same_data. Qed.
Print Assumptions C15_deep_copy_same_data.

Theorem C15_separation_along_histories : forall ops s a b, h_wf s = true ->
  forallb (fun o => negb (touches o a b)) ops = true ->
  shares s a b = false -> shares (h_run s ops) a b = false.
Proof. exact separation_along_histories. Qed.
Print Assumptions C15_separation_along_histories.

Theorem C15_separated_objects_do_not_interfere : forall s o a b, h_wf s = true -> a <> b ->
  shares s a b = false -> (o = HWriteCell a \/ o = HRebind a) -> observe (h_step s o) b = observe s b.
Proof. exact separated_objects_do_not_interfere. Qed.
Print Assumptions C15_separated_objects_do_not_interfere.

Example C15_nonvacuous : h_wf family_heap = true /\ shares family_heap 0 4 = true /\ shares family_heap 0 1 = false.
Proof. exact family_is_wf. Qed.
