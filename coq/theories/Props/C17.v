(* C17 — the nested dtype is a faithful, stable description of the column.
   name = "nested<" ++ ", ".join(name ++ ": [" ++ type ++ "]") ++ ">" and the parser of construct_from_string
   (prefix/suffix test, split(", "), split(": ", maxsplit=1), bracket test, case-insensitive alias lookup) are modelled in
   Dtype.v over strings as code-point lists.  For EVERY field list with distinct names free of the separators ", " and
   ": " and element types that are aliases of themselves, the name parses back to exactly that dtype; hence the name
   determines the dtype; an element type whose rendering is not an alias is REFUSED, never mis-parsed; strings that are
   not nested<...> are refused.  The side condition on element types is discharged for the WHOLE alias catalogue of the
   installed pyarrow by computation over gen/AliasTable.v, which is regenerated from the live library on every run
   (C17_catalogue_is_simple: 55 aliases on pyarrow 25.0.1; the bound is the table itself). *)
From Coq Require Import String List Arith Bool.
Import ListNotations.
From NP Require Import Base Values Dtype Proofs_Dtype Proofs_DtypeCat.
From NPgen Require Import AliasTable.

Theorem C17_name_parses_back : forall table d, dtype_ok table d = true -> parse_name table (render_name d) = Ok d.
Proof. exact parse_render. Qed.
Print Assumptions C17_name_parses_back.

Theorem C17_name_determines_dtype : forall table d1 d2, dtype_ok table d1 = true -> dtype_ok table d2 = true ->
  render_name d1 = render_name d2 -> d1 = d2.
Proof. exact render_injective. Qed.
Print Assumptions C17_name_determines_dtype.

Theorem C17_non_alias_type_refused : forall table d,
  d <> [] -> forallb name_ok (map fst d) = true ->
  forallb (fun t => negb (has_sep COMMA SPACE t)) (map snd d) = true ->
  existsb (fun t => match alias_of table t with None => true | Some _ => false end) (map snd d) = true ->
  parse_name table (render_name d) = Err.
Proof. exact parse_refuses_non_alias. Qed.
Print Assumptions C17_non_alias_type_refused.

Theorem C17_wrapper_required : forall table s,
  starts_with nested_prefix s && ends_with [GT] s = false -> parse_name table s = Err.
Proof. exact parse_requires_wrapper. Qed.
Print Assumptions C17_wrapper_required.

Theorem C17_split_inverts_join : forall c1 c2 ps, c1 <> c2 -> ps <> [] ->
  forallb (fun p => negb (has_sep c1 c2 p)) ps = true -> py_split c1 c2 (join2 c1 c2 ps) = ps.
Proof. exact split_join. Qed.
Print Assumptions C17_split_inverts_join.

(* every non-parametric element type of the live catalogue renders to a string the parser accepts as itself *)
Theorem C17_catalogue_is_simple : forallb (fun kv => type_simple alias_table (snd kv)) alias_table = true.
Proof. exact catalogue_is_simple. Qed.
Print Assumptions C17_catalogue_is_simple.

(* hence: any dtype over catalogue element types with admissible names round-trips *)
Theorem C17_catalogue_roundtrip : forall d,
  negb (length d =? 0) = true -> names_distinct (map fst d) = true -> forallb name_ok (map fst d) = true ->
  (forall t, In t (map snd d) -> In t (map snd alias_table)) ->
  parse_name alias_table (render_name d) = Ok d.
Proof. exact catalogue_roundtrip. Qed.
Print Assumptions C17_catalogue_roundtrip.

Example C17_nonvacuous :
  let d := [([109; 121; 32; 102], [105; 110; 116; 54; 52]); ([116], [116; 105; 109; 101; 115; 116; 97; 109; 112; 91; 110; 115; 93])] in
  dtype_ok alias_table d = true /\ parse_name alias_table (render_name d) = Ok d.
Proof. split; vm_compute; reflexivity. Qed.
