From NP Require Import Base.
Theorem placeholder_C17 : True. Proof. exact I. Qed.
Print Assumptions placeholder_C17.
