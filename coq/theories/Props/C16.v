(* C16 — results depend only on data and arguments, not on what ran before.
   Beside its data a NestedFrame carries ONE piece of state: the alias table that eval / query set for the duration of an
   evaluation (Names.v: frun).  With the evaluation wrapped in try/finally (the repair recorded in known_findings.json)
   the state is None after ANY history of successful and FAILING evaluations and other operations, hence every later
   path resolution on that frame - item access, assignment, reduce, sort_values, dropna - is exactly that of a fresh
   equal frame.  The model is sensitive to the defect: without the finally a failing evaluation leaves a table under
   which a back-ticked path that resolves on a fresh frame raises (C16_unrepaired_refuted: the witness that was a genuine
   violation of the unrepaired code).  That failing calls leave the DATA untouched is checked on the real frames. *)
From Coq Require Import String List Arith Bool.
Import ListNotations.
From NP Require Import Base Values Dtype Names Proofs_Names.

Theorem C16_state_cleared_after_any_history : forall clean ops, frun clean true None ops = None.
Proof. exact state_cleared. Qed.
Print Assumptions C16_state_cleared_after_any_history.

Theorem C16_history_independent : forall clean ops F path,
  resolve_getitem clean (frun clean true None ops) F path = resolve_getitem clean None F path /\
  resolve_setitem clean (frun clean true None ops) F path = resolve_setitem clean None F path /\
  resolve_reduce clean (frun clean true None ops) F path = resolve_reduce clean None F path /\
  resolve_sort clean (frun clean true None ops) F path = resolve_sort clean None F path /\
  resolve_dropna clean (frun clean true None ops) F path = resolve_dropna clean None F path.
Proof. exact history_independent. Qed.
Print Assumptions C16_history_independent.

Theorem C16_unrepaired_refuted :
  resolve_getitem toy_clean None toy_schema toy_path = TField [110] [109; 121; 32; 102] /\
  resolve_getitem toy_clean (frun toy_clean false None [FEval toy_expr false]) toy_schema toy_path = TRaise /\
  resolve_getitem toy_clean (frun toy_clean true None [FEval toy_expr false]) toy_schema toy_path = TField [110] [109; 121; 32; 102].
Proof. exact unrepaired_refuted. Qed.
Print Assumptions C16_unrepaired_refuted.
