(* C05 — a nested column behaves like a sequence of rows.
   Every theorem: for EVERY physical column p satisfying the invariant inv_b (well-formed, any number of
   chunks >= 1, any offsets base, any size; missing rows hide nothing) and every argument in the property's
   domain (op_ok: offered rows have the column's width, assignment targets are distinct, one offered row per
   target), the modelled operation (ExtArray.v, mirrors ext_array.py) denotes exactly what the same operation
   gives on the plain list of rows rows_of (abs p) (Logical.v: Python sequence semantics, incl. CPython's
   slice.indices, negative positions, take with fill, assignment at distinct targets), errors included. *)
From Coq Require Import String List Arith Bool ZArith.
Import ListNotations.
From NP Require Import Base Values Arrow Abs Kernels Logical ExtArray Codec Steps
  Proofs_Views Proofs_Codec Proofs_Select Proofs_Setitem Proofs_Steps.
From NP Require Import FrameRows Proofs_FrameRows.
From NP Require Import Props.C03.

Theorem C05_len : forall p, m_len p = length (rows_of (abs p)).
Proof. intro p. rewrite len_refines. unfold rows_of, spec_len. rewrite map_length, seq_length. reflexivity. Qed.
Print Assumptions C05_len.

Theorem C05_getitem_int : forall p z, inv_b p = true -> m_getitem_int p z = spec_col_getitem_int (abs p) z.
Proof. exact getitem_int_refines. Qed.
Print Assumptions C05_getitem_int.

Theorem C05_getitem_slice : forall p a b s, inv_b p = true -> op_ok p (OSlice a b s) = true ->
  res_map abs (m_getitem_slice p a b s) = spec_col_slice (abs p) a b s.
Proof. exact slice_refines. Qed.
Print Assumptions C05_getitem_slice.

Theorem C05_getitem_mask : forall p m, inv_b p = true -> op_ok p (OMask m) = true ->
  res_map abs (m_getitem_mask p m) = spec_col_mask (abs p) m.
Proof. exact mask_refines. Qed.
Print Assumptions C05_getitem_mask.

Theorem C05_getitem_int_array : forall p ix, inv_b p = true -> op_ok p (OIdx ix) = true ->
  res_map abs (m_getitem_idx p ix) = spec_col_idx (abs p) ix.
Proof. exact idx_refines. Qed.
Print Assumptions C05_getitem_int_array.

Theorem C05_take : forall p ix af fill, inv_b p = true -> op_ok p (OTake ix af fill) = true ->
  res_map abs (m_take p ix af fill) = spec_col_take (abs p) ix af fill.
Proof. exact take_refines. Qed.
Print Assumptions C05_take.

Theorem C05_concat : forall p bs afs, inv_b p = true -> op_ok p (OConcat bs afs) = true ->
  res_map abs (m_concat (bs ++ p :: afs)) = spec_col_concat (map abs bs ++ abs p :: map abs afs).
Proof. exact concat_refines. Qed.
Print Assumptions C05_concat.

Theorem C05_copy : forall p, inv_b p = true -> res_map abs (m_copy p) = Ok (abs p).
Proof. intros p H. exact (copy_refines p H eq_refl). Qed.
Print Assumptions C05_copy.

Theorem C05_dropna : forall p, inv_b p = true -> res_map abs (m_dropna p) = Ok (spec_col_dropna (abs p)).
Proof. intros p H. exact (dropna_refines p H eq_refl). Qed.
Print Assumptions C05_dropna.

Theorem C05_pickle : forall p, inv_b p = true -> res_map abs (m_pickle p) = Ok (abs p).
Proof. intros p H. exact (pickle_refines p H eq_refl). Qed.
Print Assumptions C05_pickle.

(* element assignment through the cumulative-sum masked replace = list_update at the (distinct) targets *)
Theorem C05_setitem : forall p k v, inv_b p = true -> op_ok p (OSetitem k v) = true ->
  res_map abs (m_setitem p k v) = spec_col_setitem (abs p) (akey_of k) (aval_of v).
Proof. exact setitem_refines. Qed.
Print Assumptions C05_setitem.

(* the two index-arithmetic facts behind replace_with_mask *)
Theorem C05_value_index_is_rank : forall m i, nth i m false = true ->
  nth i (value_index_from 0 m) 0 = count_true (firstn i m).
Proof. exact value_index_rank. Qed.
Print Assumptions C05_value_index_is_rank.

Theorem C05_unique_index_sorts_distinct_positions : forall pos, nodup_nat pos = true ->
  map (fun j => nth j pos 0) (unique_first_index pos)
  = true_positions (mask_of_positions (S (fold_right Nat.max 0 pos)) pos).
Proof. exact unique_first_index_sorts. Qed.
Print Assumptions C05_unique_index_sorts_distinct_positions.

(* sequences of such operations, of any length: the model's history denotes the list history *)
Theorem C05_histories : forall ops p, inv_b p = true -> ops_ok p ops = true ->
  res_map abs (m_run p ops) = spec_run (abs p) ops.
Proof. exact run_refines. Qed.
Print Assumptions C05_histories.

(* the frame level (FrameRows.v): a frame is a list of named columns, base or nested, of one length; row selection
   takes every column with ONE indexer (pandas' block manager; the nested column answers through take / the mask
   kernel).  Row j of the result is row pos[j] of the input WHOLE: its base values and each of its nested tables
   (or its missing marker) move together; nothing is exchanged between rows, for any frame and any positions. *)
Theorem C05_frame_take_moves_whole_rows : forall F n pos j, frame_ok n F = true ->
  forallb (fun i => i <? n) pos = true -> j < length pos ->
  frame_row (f_take F pos) j = frame_row F (nth j pos 0).
Proof. exact take_moves_whole_rows. Qed.
Print Assumptions C05_frame_take_moves_whole_rows.

Theorem C05_frame_filter_keeps_whole_rows : forall F n m j, frame_ok n F = true -> length m = n ->
  j < count_true m -> frame_row (f_filter F m) j = frame_row F (nth j (true_positions m) 0).
Proof. exact filter_keeps_whole_rows. Qed.
Print Assumptions C05_frame_filter_keeps_whole_rows.

(* and the result is again a frame (so selections compose); frame_ok2 adds "missing rows hide nothing" to frame_ok -
   without it the statement is false (Proofs_FrameRows.Counterexample) *)
Theorem C05_frame_take_is_frame : forall F n pos, frame_ok2 n F = true ->
  forallb (fun i => i <? n) pos = true -> frame_ok2 (length pos) (f_take F pos) = true.
Proof. exact take_frame_ok2. Qed.
Print Assumptions C05_frame_take_is_frame.

(* non-vacuity: the sliced, two-chunk sample column of C03 satisfies the invariant, and a history of a
   reversed strided slice, a mixed-sign assignment, a take with fill and a dropna is in the domain *)
Definition sample_history : list aop :=
  [ OSetitem (KIdx [(-1)%Z; 0%Z]) (SRows [Some [[VInt 7]; [VTok 9]]; None]);
    OSlice None None (Some (-2)%Z);
    OTake [1%Z; (-1)%Z; 0%Z] true (Some [[VInt 1; VInt 2]; [VNull; VTok 3]]);
    ODropna ].
Example C05_hypotheses_satisfiable :
  inv_b sample_col = true /\ ops_ok sample_col sample_history = true
  /\ res_map (fun q => rows_of (abs q)) (m_run sample_col sample_history)
     = Ok [ Some [[VInt 1; VInt 2]; [VNull; VTok 3]]; Some [[VInt 7]; [VTok 9]] ].
Proof. split; [reflexivity|]. split; [reflexivity|]. vm_compute. reflexivity. Qed.

(* an offered table becomes a row by field NAME: the order of its columns does not matter (Box.v); boxing by position is
   another function *)
From Coq Require Import Permutation.
From NP Require Import Box Proofs_Box.
Theorem C05_box_order_irrelevant : forall fields (t t' : table), Permutation t t' -> m_box fields t = m_box fields t'.
Proof. exact box_order_irrelevant. Qed.
Print Assumptions C05_box_order_irrelevant.
Theorem C05_box_any_order : forall fields cols (t : table), NoDup fields -> length cols = length fields ->
  Permutation t (combine fields cols) -> m_box fields t = Ok cols.
Proof. exact box_any_order. Qed.
Print Assumptions C05_box_any_order.
Theorem C05_box_positional_refuted : exists fields t t',
  Permutation t t' /\ m_box fields t = m_box fields t' /\ m_box_positional fields t <> m_box_positional fields t'.
Proof. exact box_positional_refuted. Qed.
Print Assumptions C05_box_positional_refuted.
