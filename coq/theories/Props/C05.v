From NP Require Import Base.
Theorem placeholder_C05 : True. Proof. exact I. Qed.
Print Assumptions placeholder_C05.
