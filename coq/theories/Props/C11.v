(* C11 — sorting by a nested field permutes records inside each row only.
   The nested branch of NestedFrame.sort_values (flat view re-indexed by ordinal row number, pandas sort_values with
   the ordinal as LEADING key, re-pack, aligned write-back) is m_sort_nested_with sorter (Frame.v) where the pandas
   sort is a PARAMETER: any function returning a permutation of the flat table with ascending ordinals.  No stability
   is assumed.  For EVERY list of rows: every row's table is a permutation of its own records (whole records move
   together; none lost, duplicated or moved to another row), a row without records comes back missing (the reading
   adopted for empty rows, as in C07/C12), and when the sorter's output is sorted by (ordinal, rec_le) every row is
   sorted by rec_le - for ANY relation rec_le (keys, directions and null placement are a parameter).  A sorter that
   does not keep the ordinals ascending is refused.  The canonical sorter meets the contract for any total rec_le. *)
From Coq Require Import String List Arith Bool ZArith Permutation.
Import ListNotations.
From NP Require Import Base Values Arrow Frame Proofs_Pack Proofs_Sort.
From NP Require Import Targets Proofs_Targets.

Theorem C11_permutes_within_rows : forall sorter rows,
  Permutation (sorter (m_ordinal_flat rows)) (m_ordinal_flat rows) ->
  is_mono_inc (map fst (sorter (m_ordinal_flat rows))) = true ->
  exists rows', m_sort_nested_with sorter rows = Ok rows' /\ length rows' = length rows
    /\ forall i, i < length rows ->
         Permutation (recs (nth i rows' None)) (recs (nth i rows None))
         /\ (nth i rows' None = None <-> recs (nth i rows None) = []).
Proof. exact sort_nested_permutes. Qed.
Print Assumptions C11_permutes_within_rows.

Theorem C11_rows_sorted : forall rec_le sorter rows rows',
  Permutation (sorter (m_ordinal_flat rows)) (m_ordinal_flat rows) ->
  sorted_flat rec_le (sorter (m_ordinal_flat rows)) = true ->
  m_sort_nested_with sorter rows = Ok rows' ->
  forall i, i < length rows -> sorted_recs rec_le (recs (nth i rows' None)) = true.
Proof. exact sort_nested_sorted. Qed.
Print Assumptions C11_rows_sorted.

Theorem C11_ordinal_must_lead : forall sorter rows,
  is_mono_inc (map fst (sorter (m_ordinal_flat rows))) = false -> m_sort_nested_with sorter rows = Err.
Proof. exact sort_nested_unsorted_refused. Qed.
Print Assumptions C11_ordinal_must_lead.

Theorem C11_canonical_sorter_is_a_permutation : forall rec_le t, Permutation (sort_flat rec_le t) t.
Proof. exact sort_flat_perm. Qed.
Print Assumptions C11_canonical_sorter_is_a_permutation.

Theorem C11_canonical_sorter_sorts : forall rec_le t, (forall a b, rec_le a b || rec_le b a = true) ->
  sorted_flat rec_le (sort_flat rec_le t) = true.
Proof. exact sort_flat_sorted. Qed.
Print Assumptions C11_canonical_sorter_sorts.

Theorem C11_sorted_implies_ordinals_ascending : forall rec_le t,
  sorted_flat rec_le t = true -> is_mono_inc (map fst t) = true.
Proof. exact sorted_flat_mono. Qed.
Print Assumptions C11_sorted_implies_ordinals_ascending.

(* which layer sort_values works on and which flags it hands to the engine (Targets.v): the keys name one layer or the
   call is refused; for a nested layer the ordinal row number leads, ascending, followed by the requested direction of
   every key *)
Theorem C11_target_sound : forall keys l, m_sort_target keys = Ok l -> keys <> [] /\ forall k, In k keys -> k = l.
Proof. exact sort_target_sound. Qed.
Print Assumptions C11_target_sound.

Theorem C11_target_refused : forall keys,
  m_sort_target keys = Err <-> (keys = [] \/ exists a b, In a keys /\ In b keys /\ a <> b).
Proof. exact sort_target_refused. Qed.
Print Assumptions C11_target_refused.

Theorem C11_ascending_flags : forall a n,
  match a with AscList bs => length bs = n | AscBool _ => True end ->
  length (m_sort_ascending a n) = S n /\ hd false (m_sort_ascending a n) = true /\
  forall j, j < n -> nth (S j) (m_sort_ascending a n) false = match a with AscBool b => b | AscList bs => nth j bs false end.
Proof. exact sort_ascending_spec. Qed.
Print Assumptions C11_ascending_flags.

Example C11_nonvacuous :
  let le := rec_le_keys [(VInt 1, 1%Z); (VInt 2, 2%Z); (VInt 3, 3%Z)] true [(0, false)] in
  m_sort_nested_with (sort_flat le) [Some [[VInt 1]; [VNull]; [VInt 3]]; None; Some []; Some [[VInt 2]; [VInt 3]]]
  = Ok [Some [[VInt 3]; [VInt 1]; [VNull]]; None; None; Some [[VInt 3]; [VInt 2]]].
Proof. vm_compute. reflexivity. Qed.
