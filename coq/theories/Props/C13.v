(* C13 — eval computes on the flat view and assigns fields positionally.
   The value of an expression over the fields of one nest has one entry per flat record, in flat order, labelled with
   the label of its row (the per-record evaluation itself is pandas' pointwise evaluator: contract, sampled against
   plain pandas on the flat table).  An assignment nest.field = values (NestedFrame.__setitem__ -> with_flat_field ->
   set_flat_field, C06) stores the values record by record: for EVERY list of rows and values of matching length, the
   result has the same rows, the same missing rows, the same number of records per row; read back on the flat view the
   assigned field is exactly the list of values and every other field is untouched; a wrong number of values is
   refused.  A multi-line program on the nested rows is the same program run on the flat table: every line sees the
   fields assigned by the earlier ones (true of the code for inplace=False only since the repair recorded in
   known_findings.json).  Assignment to an unknown nest is add_nested of the one-field table (C09). *)
From Coq Require Import String List Arith Bool ZArith.
Import ListNotations.
From NP Require Import Base Values Arrow Frame Proofs_Eval.

Theorem C13_value_is_per_record_with_flat_index : forall labels rows e, length labels = length rows ->
  map snd (m_eval_value labels rows e) = map e (m_flat rows)
  /\ map fst (m_eval_value labels rows e) = flat_repeat labels (row_lens rows).
Proof. exact eval_value_values. Qed.
Print Assumptions C13_value_is_per_record_with_flat_index.

Theorem C13_assignment_keeps_rows : forall k rows vals, length vals = length (m_flat rows) ->
  map (option_map (@length record)) (assign_rows k rows vals) = map (option_map (@length record)) rows.
Proof. exact assign_rows_shape. Qed.
Print Assumptions C13_assignment_keeps_rows.

Theorem C13_assigned_field_holds_the_values : forall w k rows vals,
  rows_width w rows -> k <= w -> length vals = length (m_flat rows) ->
  map (fun r => nth k r VNull) (m_flat (assign_rows k rows vals)) = vals.
Proof. exact assigned_field_holds_values. Qed.
Print Assumptions C13_assigned_field_holds_the_values.

Theorem C13_other_fields_untouched : forall w k j rows vals,
  rows_width w rows -> k <= w -> j <> k -> j < w -> length vals = length (m_flat rows) ->
  map (fun r => nth j r VNull) (m_flat (assign_rows k rows vals)) = map (fun r => nth j r VNull) (m_flat rows).
Proof. exact other_fields_untouched. Qed.
Print Assumptions C13_other_fields_untouched.

Theorem C13_wrong_length_refused : forall k rows vals,
  length vals <> length (m_flat rows) -> m_eval_assign k rows vals = Err.
Proof. exact wrong_length_refused. Qed.
Print Assumptions C13_wrong_length_refused.

Theorem C13_multiline_is_the_program_on_the_flat_table : forall prog rows,
  m_flat (m_eval_program prog rows) = flat_program prog (m_flat rows).
Proof. exact program_on_flat. Qed.
Print Assumptions C13_multiline_is_the_program_on_the_flat_table.

Theorem C13_multiline_keeps_rows : forall prog rows,
  map (option_map (@length record)) (m_eval_program prog rows) = map (option_map (@length record)) rows.
Proof. exact program_shape. Qed.
Print Assumptions C13_multiline_keeps_rows.

Example C13_nonvacuous :
  let dbl := fun r : record => match nth 0 r VNull with VInt z => VInt (2 * z) | _ => VNull end in
  let inc := fun r : record => match nth 1 r VNull with VInt z => VInt (z + 1) | _ => VNull end in
  m_eval_program [(1, dbl); (2, inc)] [Some [[VInt 1]; [VInt 2]]; None; Some []; Some [[VInt 3]]]
  = [Some [[VInt 1; VInt 2; VInt 3]; [VInt 2; VInt 4; VInt 5]]; None; Some []; Some [[VInt 3; VInt 6; VInt 7]]].
Proof. vm_compute. reflexivity. Qed.
