From NP Require Import Base.
Theorem placeholder_C03 : True. Proof. exact I. Qed.
Print Assumptions placeholder_C03.
