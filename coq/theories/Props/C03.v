(* C03 — element, flat, list and summary views describe the same data.
   Every theorem: for EVERY physical layout p that is well-formed (wf_b: schema, offsets
   monotone and in bounds, identical offsets windows, present rows have valid lists) and whose
   missing rows hide no child values (norm_missing), with at least one chunk (what the
   constructor guarantees), the modelled view equals a function of the ONE logical column
   abs p.  No bound on rows, chunks, offsets base or list lengths. *)
From Coq Require Import String List Arith Bool ZArith.
Import ListNotations.
From NP Require Import Base Values Arrow Abs Kernels ExtArray Logical Steps Proofs_Views Proofs_Views2.

Theorem C03_len : forall p, m_len p = spec_len (abs p).
Proof. exact len_refines. Qed.
Print Assumptions C03_len.

Theorem C03_isna : forall p, m_isna p = spec_isna (abs p).
Proof. exact isna_refines. Qed.
Print Assumptions C03_isna.

Theorem C03_list_lengths : forall p,
  wf_b p = true -> norm_missing_all_b p = true -> chunks p <> [] ->
  m_list_lengths p = Ok (spec_list_lengths (abs p)).
Proof. intros p H N C. exact (list_lengths_refines p (wf_b_col_ok p H N) C). Qed.
Print Assumptions C03_list_lengths.

Theorem C03_flat_length : forall p,
  wf_b p = true -> norm_missing_all_b p = true -> chunks p <> [] ->
  m_flat_length p = Ok (spec_flat_length (abs p)).
Proof. intros p H N C. exact (flat_length_refines p (wf_b_col_ok p H N) C). Qed.
Print Assumptions C03_flat_length.

(* np.diff(list_offsets) = per-row lengths, for the single-chunk branch (raw offsets of the
   first field, whatever their base) and the multi-chunk branch (cumulative sum) alike *)
Theorem C03_list_offsets : forall p,
  wf_b p = true -> norm_missing_all_b p = true -> chunks p <> [] ->
  res_map diffs (m_list_offsets p) = Ok (spec_offset_diffs (abs p)).
Proof. intros p H N C. exact (list_offsets_refines p (wf_b_col_ok p H N) C). Qed.
Print Assumptions C03_list_offsets.

Theorem C03_get_list_index : forall p,
  wf_b p = true -> norm_missing_all_b p = true -> chunks p <> [] ->
  m_get_list_index p = Ok (spec_list_index (abs p)).
Proof. intros p H N C. exact (get_list_index_refines p (wf_b_col_ok p H N) C). Qed.
Print Assumptions C03_get_list_index.

Theorem C03_field_names : forall p, chunks p <> [] -> m_field_names p = Ok (spec_field_names (abs p)).
Proof. exact field_names_refines. Qed.
Print Assumptions C03_field_names.

(* the flat view: index = row i repeated len_i times (as repeat counts), every column = the
   concatenation of that field's rows; missing rows contribute nothing *)
Theorem C03_to_flat : forall p,
  wf_b p = true -> norm_missing_all_b p = true -> chunks p <> [] -> NoDup (map fst (ctype p)) ->
  m_to_flat p (map fst (ctype p)) = Ok (spec_offset_diffs (abs p), spec_flat (abs p)).
Proof. intros p H N C D. exact (to_flat_refines p (wf_b_col_ok p H N) C D). Qed.
Print Assumptions C03_to_flat.

(* ListArray.flatten() of any well-formed list array = concatenation of its python lists *)
Theorem C03_flatten : forall l n, wf_larr_b n l = true ->
  la_flatten l = concat (map (@olist val) (la_lists l)).
Proof. exact la_flatten_spec. Qed.
Print Assumptions C03_flatten.

(* The hypothesis norm_missing cannot be dropped: on a layout whose missing rows still span elements the faithful model
   (and the real views, were such an array ever stored) counts the hidden records of a missing row.  This was the finding
   KF-hidden-children; since the repairs ce52946 / 78d47a4 the constructor and the assignments re-encode such input
   (C01_constructor_normalises), so no constructed array is in that layout any more. *)
Definition hidden_witness : chunked :=
  {| ctype := [("a"%string, TI64)];
     chunks := [ {| svalid := [true; false];
                    sfields := [ {| fname := "a"%string; fty := TI64;
                                    farr := {| offs := [0; 1; 2]; lvalid := [true; true];
                                               child := [VInt 1; VInt 7] |} |} ] |} ] |}.
Theorem C03_hidden_refuted : exists p,
  wf_b p = true /\ chunks p <> [] /\
  res_map diffs (m_list_offsets p) <> Ok (spec_offset_diffs (abs p)) /\
  m_to_flat p (map fst (ctype p)) <> Ok (spec_offset_diffs (abs p), spec_flat (abs p)).
Proof. exists hidden_witness. split; [reflexivity|]. split; [discriminate|]. split; vm_compute; discriminate. Qed.
Print Assumptions C03_hidden_refuted.

(* the remaining views, stated against the full invariant inv_b (Steps.v): the list view (one list column per
   field; to_lists / nest.to_lists) holds exactly the logical lists, for all fields or any non-empty selection of
   existing ones; the row view (iteration, to_pylist) is the logical sequence of rows; the element view restricted
   to selected fields has the logical per-row lengths and the logical elements of those fields *)
Theorem C03_to_lists : forall p, inv_b p = true ->
  res_map (map (map (@olist val))) (m_to_lists p (map fst (ctype p))) = Ok (lcols (abs p)).
Proof. exact to_lists_refines. Qed.
Print Assumptions C03_to_lists.

Theorem C03_to_lists_fields : forall p fields, inv_b p = true -> fields <> [] ->
  forallb (has_name (map fst (ctype p))) fields = true ->
  res_map (map (map (@olist val))) (m_to_lists p fields) = Ok (spec_lists_fields (abs p) fields).
Proof. exact to_lists_fields_refines. Qed.
Print Assumptions C03_to_lists_fields.

(* the list view EXACTLY (to_lists, get_list_series, iter_field_lists read the fields with the validity of the struct):
   a missing row is a null list, a present row holds its list - from well-formedness alone, so also for a column whose
   missing rows hide records in their children *)
Theorem C03_to_lists_exact : forall p, wf_b p = true -> chunks p <> [] -> NoDup (map fst (ctype p)) ->
  m_to_lists p (map fst (ctype p)) = Ok (map (with_missing (lvalidity (abs p))) (lcols (abs p))).
Proof. exact to_lists_exact. Qed.
Print Assumptions C03_to_lists_exact.

Theorem C03_to_lists_fields_exact : forall p fields, wf_b p = true -> chunks p <> [] -> NoDup (map fst (ctype p)) ->
  fields <> [] -> forallb (has_name (map fst (ctype p))) fields = true ->
  m_to_lists p fields = Ok (spec_lists_opt_fields (abs p) fields).
Proof. exact to_lists_fields_exact. Qed.
Print Assumptions C03_to_lists_fields_exact.

Theorem C03_rows : forall p, inv_b p = true -> m_rows p = rows_of (abs p).
Proof. exact rows_refines. Qed.
Print Assumptions C03_rows.

Theorem C03_to_flat_fields : forall p fields, inv_b p = true -> fields <> [] ->
  forallb (has_name (map fst (ctype p))) fields = true ->
  m_to_flat p fields = Ok (spec_offset_diffs (abs p), spec_flat_fields (abs p) fields).
Proof. exact to_flat_fields_refines. Qed.
Print Assumptions C03_to_flat_fields.

(* non-vacuity: a sliced, two-chunk column with a missing and an empty row meets every hypothesis *)
Definition sample_col : chunked :=
  {| ctype := [("a"%string, TI64); ("b"%string, TF64)];
     chunks := [ {| svalid := [true; false];
                    sfields := [ {| fname := "a"%string; fty := TI64;
                                    farr := {| offs := [2; 4; 4]; lvalid := [true; false];
                                               child := [VInt 9; VInt 9; VInt 1; VInt 2; VInt 5] |} |};
                                 {| fname := "b"%string; fty := TF64;
                                    farr := {| offs := [2; 4; 4]; lvalid := [true; false];
                                               child := [VTok 0; VTok 0; VTok 1; VNull] |} |} ] |};
                 {| svalid := [true; true];
                    sfields := [ {| fname := "a"%string; fty := TI64;
                                    farr := {| offs := [0; 0; 3]; lvalid := [true; true];
                                               child := [VInt 3; VInt 4; VNull] |} |};
                                 {| fname := "b"%string; fty := TF64;
                                    farr := {| offs := [0; 0; 3]; lvalid := [true; true];
                                               child := [VTok 5; VTok 6; VTok 7] |} |} ] |} ] |}.
Example C03_hypotheses_satisfiable :
  wf_b sample_col = true /\ norm_missing_all_b sample_col = true /\ chunks sample_col <> []
  /\ m_list_lengths sample_col = Ok [2; 0; 0; 3].
Proof. split; [reflexivity|]. split; [reflexivity|]. split; [discriminate|reflexivity]. Qed.

(* the per-row numpy view (iter_field_lists, what reduce hands to user functions): row by row what the logical column
   says, the dtype of a row decided by that row alone *)
From NP Require Import NumpyView Proofs_NumpyView.
Theorem C03_iter_field_lists : forall p nm, wf_b p = true -> chunks p <> [] -> NoDup (map fst (ctype p)) ->
  has_name (map fst (ctype p)) nm = true ->
  m_iter_field_lists p nm = spec_iter_field_lists (abs p) nm /\ exists rows, m_iter_field_lists p nm = Ok rows.
Proof. exact iter_field_lists_exact. Qed.
Print Assumptions C03_iter_field_lists.
Theorem C03_iter_row_dtype_local : forall L nm rows i t d vs, spec_iter_field_lists L nm = Ok rows ->
  field_type (lsch L) nm = Some t -> nth_error rows i = Some (Some (d, vs)) -> d = np_dtype t (has_null vs).
Proof. exact row_dtype_local. Qed.
Print Assumptions C03_iter_row_dtype_local.
Example C03_iter_field_lists_nonvacuous :
  wf_b cx_one = true /\ chunks cx_one <> [] /\ NoDup (map fst (ctype cx_one)) /\ has_name (map fst (ctype cx_one)) "a" = true
  /\ m_iter_field_lists cx_one "a" = Ok [Some (DInt64, [VInt 1; VInt 2]); Some (DFloat64, [VInt 3; VNull])].
Proof. exact iter_field_lists_nonvacuous. Qed.
