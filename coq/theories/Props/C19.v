(* C19 — Arrow interchange is lossless in both orientations.
   For EVERY physical column satisfying the invariant (any chunking, any offsets base, fields that are windows
   of different value buffers, missing and empty rows): the list-of-structs export (transpose_struct_list_array
   per chunk) holds exactly the records of every row and keeps missing rows missing; importing it again
   (transpose_list_struct_array, constructor) gives a column that denotes the SAME logical column and satisfies
   the invariant again; transposing twice is the identity on the exported rows; importing any well-formed
   list-of-structs chunk (also one built by plain Arrow, sliced) keeps its rows. *)
From Coq Require Import String List Arith Bool ZArith.
Import ListNotations.
From NP Require Import Base Values Arrow Abs Kernels Logical ExtArray Codec Steps
  Proofs_Views Proofs_Codec Proofs_Transpose.
From NP Require Import Proofs_Views2.
From NP Require Import Props.C03.

Theorem C19_export_same_records : forall p, inv_b p = true -> m_list_struct_rows p = Ok (rows_of (abs p)).
Proof. exact export_rows. Qed.
Print Assumptions C19_export_same_records.

Theorem C19_import_of_export_is_identity : forall p, inv_b p = true ->
  res_map abs (m_roundtrip_ls p) = Ok (abs p).
Proof. intros p H. exact (roundtripls_refines p H eq_refl). Qed.
Print Assumptions C19_import_of_export_is_identity.

Theorem C19_import_keeps_invariant : forall p p', inv_b p = true -> m_roundtrip_ls p = Ok p' -> inv_b p' = true.
Proof. intros p p' H E. exact (roundtripls_inv p p' H eq_refl E). Qed.
Print Assumptions C19_import_keeps_invariant.

Theorem C19_transposing_twice : forall p p', inv_b p = true -> m_roundtrip_ls p = Ok p' ->
  m_list_struct_rows p' = m_list_struct_rows p.
Proof. exact double_transpose. Qed.
Print Assumptions C19_transposing_twice.

Theorem C19_import_keeps_rows : forall a, wf_ls_b a = true -> forall c, c = m_transpose_ls a ->
  map2 (fun (s : bool) r => if s then Some r else None) (svalid c)
       (map (fun i => map (fun col => nth i col []) (chunk_cols c)) (seq 0 (sc_len c)))
  = ls_rows a.
Proof. exact import_rows. Qed.
Print Assumptions C19_import_keeps_rows.

(* list-of-structs input of ANY chunking and offsets base, in the column's schema: the constructed column holds
   exactly the input's records, chunk after chunk (missing input rows stay missing, hidden records under them are
   not read) *)
Theorem C19_from_list_struct_rows : forall sch cs, sch <> [] -> nodupb (map fst sch) = true -> cs <> [] ->
  forallb (fun a => wf_ls_b a && ls_schema_ok sch a) cs = true ->
  exists q, m_init_from_ls sch cs = Ok q /\ rows_of (abs q) = concat (map ls_rows cs).
Proof. exact init_from_ls_rows. Qed.
Print Assumptions C19_from_list_struct_rows.

Example C19_hypotheses_satisfiable :
  inv_b sample_col = true
  /\ m_list_struct_rows sample_col
     = Ok [ Some [[VInt 1; VInt 2]; [VTok 1; VNull]]; None; Some [[]; []]; Some [[VInt 3; VInt 4; VNull]; [VTok 5; VTok 6; VTok 7]] ].
Proof. split; [reflexivity|]. vm_compute. reflexivity. Qed.
