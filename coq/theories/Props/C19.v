From NP Require Import Base.
Theorem placeholder_C19 : True. Proof. exact I. Qed.
Print Assumptions placeholder_C19.
