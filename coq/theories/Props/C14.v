(* C14 — the dotted name 'nest.field' means the same thing everywhere.
   Names.v models over code-point strings: the backtick regex and alias table, _parse_hierarchical_components, the
   known-column tests and the resolver of every operation that accepts a path.  pandas' clean_column_name is a
   PARAMETER of which ONE fact is used (its output contains no '.').  For EVERY frame schema, every
   nest and field name without '.' and '`' (identifiers, names with spaces or punctuation, keywords, names colliding with
   base columns), spelled plainly or with backticks around both parts: item access, item assignment, reduce,
   sort_values and dropna resolve the path to that very field, and so does the evaluator route of query / eval; a base
   column whose name is literally the text of the path takes precedence in item access; an unknown path is an error in
   every reading operation; the listing agrees with what the resolvers accept. *)
From Coq Require Import String List Arith Bool.
Import ListNotations.
From NP Require Import Base Values Dtype Names Proofs_Names Proofs_Names2.

Theorem C14_same_field_in_every_operation : forall clean,
  (forall s, has_char DOT (clean s) = false) ->
  forall F n f path,
  schema_ok F = true -> plain_name n = true -> plain_name f = true ->
  is_nest F n = true -> mem_str f (fields_of F n) = true ->
  mem_str (plain_path n f) (f_columns F) = false ->
  (clean n = clean f -> n = f) ->
  path = plain_path n f \/ path = bt_path n f ->
  resolve_getitem clean None F path = TField n f /\
  resolve_setitem clean None F path = TField n f /\
  resolve_reduce clean None F path = TField n f /\
  resolve_sort clean None F path = TField n f /\
  resolve_dropna clean None F path = TField n f.
Proof. exact resolvers_agree. Qed.
Print Assumptions C14_same_field_in_every_operation.

Theorem C14_query_and_eval_agree : forall clean,
  (forall s, has_char DOT (clean s) = false) ->
  forall F n f path,
  schema_ok F = true -> plain_name n = true -> plain_name f = true ->
  is_nest F n = true -> mem_str f (fields_of F n) = true ->
  (clean n = clean f -> n = f) ->
  (forall m, is_nest F m = true -> (m = n \/ clean m = n \/ m = clean n \/ clean m = clean n) -> m = n) ->
  path = plain_path n f \/ path = bt_path n f ->
  resolve_eval clean F path = TField n f.
Proof. exact eval_agrees. Qed.
Print Assumptions C14_query_and_eval_agree.

Theorem C14_base_precedence_in_item_access : forall clean st F item,
  mem_str item (f_columns F) = true -> resolve_getitem clean st F item = TColumn item.
Proof. exact base_precedence. Qed.
Print Assumptions C14_base_precedence_in_item_access.

Theorem C14_unknown_path_is_an_error : forall (clean : str -> str) F n f,
  schema_ok F = true -> plain_name n = true -> plain_name f = true ->
  (is_nest F n && mem_str f (fields_of F n)) = false ->
  mem_str (plain_path n f) (f_columns F) = false ->
  resolve_getitem clean None F (plain_path n f) = TRaise /\
  resolve_reduce clean None F (plain_path n f) = TRaise /\
  resolve_sort clean None F (plain_path n f) = TRaise /\
  resolve_dropna clean None F (plain_path n f) = TRaise.
Proof. exact unknown_is_error. Qed.
Print Assumptions C14_unknown_path_is_an_error.

Theorem C14_listing_consistent : forall F n f, plain_name n = true -> plain_name f = true ->
  known_hier F [n; f] = (is_nest F n && mem_str f (fields_of F n)).
Proof. exact listing_consistent. Qed.
Print Assumptions C14_listing_consistent.

(* For ANY path text, ANY alias state, ANY cleaner and ANY schema (no side condition at all): a path that item access
   resolves to a field is resolved to the SAME field by reduce, sort_values and dropna, and by item assignment or refused
   by it; a path that item access refuses is refused by the other reading operations.  No operation silently takes
   another field or column.  (reduce used to take the LAST component: 'n.a.b' was the field 'b' there and 'a.b' elsewhere;
   repaired in /repo, and these two theorems fail on the model of the unrepaired code.) *)
Theorem C14_no_silent_resolution_to_something_else : forall (clean : str -> str) st F path n f,
  resolve_getitem clean st F path = TField n f ->
  resolve_reduce clean st F path = TField n f /\
  resolve_sort clean st F path = TField n f /\
  resolve_dropna clean st F path = TField n f /\
  (resolve_setitem clean st F path = TField n f \/ resolve_setitem clean st F path = TRaise).
Proof. exact readers_agree_on_any_path. Qed.
Print Assumptions C14_no_silent_resolution_to_something_else.

Theorem C14_refused_together : forall (clean : str -> str) st F path,
  resolve_getitem clean st F path = TRaise ->
  resolve_reduce clean st F path = TRaise /\
  resolve_sort clean st F path = TRaise /\
  resolve_dropna clean st F path = TRaise.
Proof. exact readers_refuse_together. Qed.
Print Assumptions C14_refused_together.

(* field names holding dots (legal punctuation): with backticks around both parts the path is that field in all five
   operations; without backticks the reading operations still take the field 'a.b' (pandas' reading of the dotted
   text), never the field 'b', and item assignment refuses *)
Theorem C14_dotted_field_with_backticks : forall clean : str -> str,
  (forall s : str, has_char DOT (clean s) = false) ->
  forall F n f, schema_ok F = true -> plain_name n = true -> dotted_name f = true ->
  is_nest F n = true -> mem_str f (fields_of F n) = true ->
  mem_str (plain_path n f) (f_columns F) = false -> (clean n = clean f -> n = f) ->
  resolve_getitem clean None F (bt_path n f) = TField n f /\
  resolve_setitem clean None F (bt_path n f) = TField n f /\
  resolve_reduce clean None F (bt_path n f) = TField n f /\
  resolve_sort clean None F (bt_path n f) = TField n f /\
  resolve_dropna clean None F (bt_path n f) = TField n f.
Proof. exact resolvers_agree_dotted. Qed.
Print Assumptions C14_dotted_field_with_backticks.

Theorem C14_dotted_field_without_backticks : forall (clean : str -> str) F n f,
  schema_ok F = true -> plain_name n = true -> dotted_name f = true -> has_char DOT f = true ->
  is_nest F n = true -> mem_str f (fields_of F n) = true ->
  mem_str (plain_path n f) (f_columns F) = false ->
  resolve_getitem clean None F (plain_path n f) = TField n f /\
  resolve_reduce clean None F (plain_path n f) = TField n f /\
  resolve_sort clean None F (plain_path n f) = TField n f /\
  resolve_dropna clean None F (plain_path n f) = TField n f /\
  resolve_setitem clean None F (plain_path n f) = TRaise.
Proof. exact unprotected_dotted_field. Qed.
Print Assumptions C14_dotted_field_without_backticks.

(* non-vacuity: the toy cleaner satisfies the two facts on the names used, and a field with a space resolves *)
Example C14_nonvacuous :
  schema_ok toy_schema = true /\ plain_name [110] = true /\ plain_name [109; 121; 32; 102] = true
  /\ resolve_sort toy_clean None toy_schema (bt_path [110] [109; 121; 32; 102]) = TField [110] [109; 121; 32; 102]
  /\ resolve_eval toy_clean toy_schema (bt_path [110] [109; 121; 32; 102]) = TField [110] [109; 121; 32; 102].
Proof. repeat split; vm_compute; reflexivity. Qed.
