(* C12 — dropping missing values in a nested layer removes incomplete records per row.
   The nested branch of NestedFrame.dropna (flat view re-indexed by ordinal row number -> pandas dropna ->
   re-pack -> aligned write-back) is m_dropna_nested (Frame.v); pandas' row predicate is `complete how subset`
   (any: every looked-at value non-null; all: some non-null; thresh k: at least k non-null).  For EVERY list of
   rows and every how / thresh / subset the result holds, row by row, exactly the complete records in their original
   order, a row left without records is missing, and the number of rows is unchanged. *)
From Coq Require Import String List Arith Bool ZArith.
Import ListNotations.
From NP Require Import Base Values Arrow Frame Proofs_Pack Proofs_Regroup.
From NP Require Import Targets Proofs_Targets.

Theorem C12_dropna_nested : forall rows how subset,
  m_dropna_nested rows how subset = Ok (spec_filter_rows (complete how subset) rows).
Proof. exact dropna_nested_spec. Qed.
Print Assumptions C12_dropna_nested.

Theorem C12_rows_kept : forall how subset rows,
  length (spec_filter_rows (complete how subset) rows) = length rows.
Proof. intros. apply spec_filter_rows_length. Qed.
Print Assumptions C12_rows_kept.

Theorem C12_each_row_keeps_its_complete_records : forall how subset rows i, i < length rows ->
  recs (nth i (spec_filter_rows (complete how subset) rows) None) = filter (complete how subset) (recs (nth i rows None))
  /\ (nth i (spec_filter_rows (complete how subset) rows) None = None
      <-> filter (complete how subset) (recs (nth i rows None)) = []).
Proof. intros. apply spec_filter_rows_nth. assumption. Qed.
Print Assumptions C12_each_row_keeps_its_complete_records.

(* which layer dropna works on (Targets.v mirrors _resolve_dropna_target): when it answers, every subset entry belongs to
   the answered layer and so does on_nested; it answers whenever the arguments name one layer consistently; it refuses
   exactly for an entry of an unknown layer, entries of two layers, an unknown on_nested, or on_nested and subset that
   disagree *)
Theorem C12_target_sound : forall on sub l,
  m_dropna_target on sub = Ok l ->
  (forall es, sub = Some es -> forall e, In e es -> e = Some l) /\
  (forall k, on = Some (Some k) -> l = LNest k) /\
  on <> Some None /\
  ((on = None /\ (sub = None \/ sub = Some [])) -> l = LBase).
Proof. exact dropna_target_sound. Qed.
Print Assumptions C12_target_sound.

Theorem C12_target_refused : forall on sub,
  m_dropna_target on sub = Err <->
  ( on = Some None
    \/ (exists es, sub = Some es /\ In None es)
    \/ (exists es a b, sub = Some es /\ In (Some a) es /\ In (Some b) es /\ a <> b)
    \/ (exists es a k, sub = Some es /\ In (Some a) es /\ on = Some (Some k) /\ a <> LNest k) ).
Proof. exact dropna_target_refused. Qed.
Print Assumptions C12_target_refused.

Example C12_nonvacuous :
  m_dropna_nested [Some [[VInt 1; VNull]; [VNull; VNull]; [VInt 2; VTok 5]]; None; Some [[VNull; VInt 3]]]
                  (HowThresh 1) (Some [0])
  = Ok [Some [[VInt 1; VNull]; [VInt 2; VTok 5]]; None; None].
Proof. vm_compute. reflexivity. Qed.
