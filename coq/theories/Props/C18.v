(* C18 — results stay nested: the API is closed under its own operations.
   Typed model (Closure.v): class of the table, dtype class of every column, and the effect of every kind of operation
   on them, read off the code.  From a closed frame (a NestedFrame without object columns) EVERY chain of operations
   of ANY depth with admissible arguments (concat only of frames with equal dtypes, the property's own restriction)
   ends in a closed frame; the listing is a dtype scan, hence equals what the frame contains; concatenating UNEQUAL
   nested dtypes does degrade the column (so the restriction is necessary); the model of the unrepaired from_lists is
   refuted (plain DataFrame in, plain DataFrame out: the genuine defect that was fixed).  That pandas builds derived
   frames through _constructor and keeps equal extension dtypes on concat is the contract, sampled by the stream on
   every chain up to the tier's depth. *)
From Coq Require Import String List Arith Bool.
Import ListNotations.
From NP Require Import Base Values Arrow Dtype Closure Proofs_Closure.

Theorem C18_step_closed : forall t e, closed t = true -> effect_ok t e = true -> closed (cstep true t e) = true.
Proof. exact step_closed. Qed.
Print Assumptions C18_step_closed.

Theorem C18_chains_of_any_depth : forall es t,
  closed t = true -> effects_ok true t es = true -> closed (crun true t es) = true.
Proof. exact chain_closed. Qed.
Print Assumptions C18_chains_of_any_depth.

Theorem C18_listing_is_actual : forall t c,
  In c (nested_columns t) <-> exists tag, In (c, tag) (tcols t) /\ is_nested_tag tag = true.
Proof. exact listing_is_actual. Qed.
Print Assumptions C18_listing_is_actual.

Theorem C18_unequal_concat_degrades :
  exists a b, is_nested_tag a = true /\ is_nested_tag b = true /\ concat_tag a b = TgObject.
Proof. exact unequal_concat_degrades. Qed.
Print Assumptions C18_unequal_concat_degrades.

Theorem C18_unrepaired_from_lists_refuted : exists t cols,
  no_object cols = true /\ closed (cstep false t (ERebuild cols)) = false /\ closed (cstep true t (ERebuild cols)) = true.
Proof. exact unrepaired_from_lists_refuted. Qed.
Print Assumptions C18_unrepaired_from_lists_refuted.

Example C18_nonvacuous :
  let t := {| tk := KNested; tcols := [([97], TgBase); ([108; 99], TgNested [[116]; [102]])] |} in
  closed t = true /\
  closed (crun true t [ESetField [108; 99] [117]; EConcat {| tk := KNested; tcols := [([97], TgBase); ([108; 99], TgNested [[116]; [102]; [117]])] |};
                       EKeepCols (fun c => negb (str_eqb c [97])); EAddNested [120] [[122]]]) = true.
Proof. split; vm_compute; reflexivity. Qed.
