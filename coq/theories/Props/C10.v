(* C10 — row-wise computation sees exactly each row's own data.
   reduce zips one iterator per requested column (a base Series, or the per-row list iterator of a nested field)
   and calls the function on every tuple: m_reduce_calls (Frame.v).  For EVERY list of rows and EVERY selection of
   base and nested columns (any order, any multiplicity) the call list is: one call per row, in row order, base values
   as that row's scalars, nested fields as that row's own values in stored order (no values for a missing row).
   The function itself is arbitrary (it never appears: the statement is about what it is given); extra positional and
   keyword arguments are appended unchanged (checked on the real calls).  count_nested: one count per row, a
   missing row counting 0. *)
From Coq Require Import String List Arith Bool ZArith.
Import ListNotations.
From NP Require Import Base Values Arrow Frame Proofs_Reduce.
From NP Require Import Dtype Names Reduce2 Proofs_Reduce2.
From NP Require Import CountBy Proofs_CountBy.

Theorem C10_calls : forall rows cols, cols <> [] -> forallb (col_ok (length rows)) cols = true ->
  m_reduce_calls rows cols = spec_reduce_calls rows cols.
Proof. exact reduce_calls_spec. Qed.
Print Assumptions C10_calls.

Theorem C10_one_call_per_row : forall rows cols, cols <> [] -> forallb (col_ok (length rows)) cols = true ->
  length (m_reduce_calls rows cols) = length rows.
Proof. exact reduce_calls_length. Qed.
Print Assumptions C10_one_call_per_row.

Theorem C10_count_nested : forall rows, m_count_nested rows = map (fun r => length (recs r)) rows.
Proof. exact count_nested_spec. Qed.
Print Assumptions C10_count_nested.

(* which arguments are columns (Reduce2.v mirrors the scan of NestedFrame.reduce): for EVERY argument list and every
   frame (known = "this string names a known column"), what reduce takes as (requested columns, extra arguments) splits
   the arguments, the columns are known-column strings, the first extra argument is not one - and that determines the
   answer: an argument after the first non-column is never taken for a column, whatever it spells *)
Theorem C10_argument_split_sound : forall (known : str -> bool) args cols extra,
  m_reduce_split known args = Ok (cols, extra) ->
  map AStr cols ++ extra = args /\ forallb known cols = true /\ cols <> [] /\
  match extra with a :: _ => is_known_str known a = false | [] => True end.
Proof. exact split_sound. Qed.
Print Assumptions C10_argument_split_sound.

Theorem C10_argument_split_unique : forall (known : str -> bool) args cols extra,
  map AStr cols ++ extra = args -> forallb known cols = true -> cols <> [] ->
  match extra with a :: _ => is_known_str known a = false | [] => True end ->
  m_reduce_split known args = Ok (cols, extra).
Proof. exact split_unique. Qed.
Print Assumptions C10_argument_split_unique.

Theorem C10_argument_split_refused : forall (known : str -> bool) args,
  m_reduce_split known args = Err <-> match args with a :: _ => is_known_str known a = false | [] => True end.
Proof. exact split_refused. Qed.
Print Assumptions C10_argument_split_refused.

(* outputs named 'x.y' are packed into the nested column x with the fields y (in output order), the plain outputs stay,
   for ANY list of distinct output names in which no plain output is named like a layer (with such a clash the plain
   output is silently replaced: Proofs_Reduce2.layer_clash_loses_a_column - the property does not say what a function
   returning both 'out' and 'out.a' means) *)
Theorem C10_dotted_outputs_packed : forall cols,
  names_distinct cols = true -> no_layer_clash cols = true -> m_infer_nesting cols = spec_infer_nesting cols.
Proof. exact infer_nesting_spec. Qed.
Print Assumptions C10_dotted_outputs_packed.

Theorem C10_plain_outputs_kept : forall cols c,
  names_distinct cols = true -> no_layer_clash cols = true -> In c cols -> has_char DOT c = false ->
  In (OBase c) (m_infer_nesting cols).
Proof. exact infer_nesting_plain_kept. Qed.
Print Assumptions C10_plain_outputs_kept.

Theorem C10_layer_is_text_before_first_dot : forall l c, has_char DOT l = false ->
  starts_with (l ++ [DOT]) c = has_char DOT c && str_eqb (layer_of c) l.
Proof. exact starts_with_layer. Qed.
Print Assumptions C10_layer_is_text_before_first_dot.

(* count_nested(by=field) (CountBy.v mirrors the per-row value_counts and the assembly of the count table): the count
   columns are exactly the non-null values of the field occurring in some row, each once; one row of cells per input
   row; every cell is the number of that row's records carrying the value ("no count" when there is none); a missing or
   empty row has no count anywhere; a row's counts add up to its records with a non-null value *)
Theorem C10_count_by_columns : forall rows k v,
  In v (fst (m_count_by rows k)) <-> (v <> VNull /\ exists r, In r rows /\ In v (field_values k r)).
Proof. exact count_by_columns. Qed.
Print Assumptions C10_count_by_columns.

Theorem C10_count_by_columns_distinct : forall rows k, NoDup (fst (m_count_by rows k)).
Proof. exact count_by_columns_nodup. Qed.
Print Assumptions C10_count_by_columns_distinct.

Theorem C10_count_by_one_row_per_row : forall rows k,
  length (snd (m_count_by rows k)) = length rows /\
  Forall (fun cells => length cells = length (fst (m_count_by rows k))) (snd (m_count_by rows k)).
Proof. exact count_by_shape. Qed.
Print Assumptions C10_count_by_one_row_per_row.

Theorem C10_count_by_cell : forall rows k i j,
  i < length rows -> j < length (fst (m_count_by rows k)) ->
  nth j (nth i (snd (m_count_by rows k)) []) None = spec_count_cell rows k i (nth j (fst (m_count_by rows k)) VNull).
Proof. exact count_by_cell. Qed.
Print Assumptions C10_count_by_cell.

Theorem C10_count_by_missing_row : forall rows k i, i < length rows -> recs (nth i rows None) = [] ->
  Forall (fun c => c = None) (nth i (snd (m_count_by rows k)) []).
Proof. exact count_by_missing_row. Qed.
Print Assumptions C10_count_by_missing_row.

Theorem C10_count_by_total : forall rows k i, i < length rows ->
  fold_right (fun c acc => match c with Some n => n + acc | None => acc end) 0 (nth i (snd (m_count_by rows k)) [])
  = length (filter (fun v => negb (is_null v)) (field_values k (nth i rows None))).
Proof. exact count_by_total. Qed.
Print Assumptions C10_count_by_total.

Example C10_nonvacuous :
  m_reduce_calls [Some [[VInt 1; VTok 5]; [VInt 2; VTok 6]]; None; Some []]
                 [CNestField 1; CBaseCol [VInt 10; VInt 20; VInt 30]; CNestField 0; CNestField 1]
  = [ [RNested [VTok 5; VTok 6]; RBase (VInt 10); RNested [VInt 1; VInt 2]; RNested [VTok 5; VTok 6]];
      [RNested []; RBase (VInt 20); RNested []; RNested []];
      [RNested []; RBase (VInt 30); RNested []; RNested []] ].
Proof. vm_compute. reflexivity. Qed.
