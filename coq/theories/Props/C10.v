(* C10 — row-wise computation sees exactly each row's own data.
   reduce zips one iterator per requested column (a base Series, or the per-row list iterator of a nested field)
   and calls the function on every tuple: m_reduce_calls (Frame.v).  For EVERY list of rows and EVERY selection of
   base and nested columns (any order, any multiplicity) the call list is: one call per row, in row order, base values
   as that row's scalars, nested fields as that row's own values in stored order (no values for a missing row).
   The function itself is arbitrary (it never appears: the statement is about what it is given); extra positional and
   keyword arguments are appended unchanged (checked on the real calls).  count_nested: one count per row, a
   missing row counting 0. *)
From Coq Require Import String List Arith Bool ZArith.
Import ListNotations.
From NP Require Import Base Values Arrow Frame Proofs_Reduce.

Theorem C10_calls : forall rows cols, cols <> [] -> forallb (col_ok (length rows)) cols = true ->
  m_reduce_calls rows cols = spec_reduce_calls rows cols.
Proof. exact reduce_calls_spec. Qed.
Print Assumptions C10_calls.

Theorem C10_one_call_per_row : forall rows cols, cols <> [] -> forallb (col_ok (length rows)) cols = true ->
  length (m_reduce_calls rows cols) = length rows.
Proof. exact reduce_calls_length. Qed.
Print Assumptions C10_one_call_per_row.

Theorem C10_count_nested : forall rows, m_count_nested rows = map (fun r => length (recs r)) rows.
Proof. exact count_nested_spec. Qed.
Print Assumptions C10_count_nested.

Example C10_nonvacuous :
  m_reduce_calls [Some [[VInt 1; VTok 5]; [VInt 2; VTok 6]]; None; Some []]
                 [CNestField 1; CBaseCol [VInt 10; VInt 20; VInt 30]; CNestField 0; CNestField 1]
  = [ [RNested [VTok 5; VTok 6]; RBase (VInt 10); RNested [VInt 1; VInt 2]; RNested [VTok 5; VTok 6]];
      [RNested []; RBase (VInt 20); RNested []; RNested []];
      [RNested []; RBase (VInt 30); RNested []; RNested []] ].
Proof. vm_compute. reflexivity. Qed.
