From NP Require Import Base.
Theorem placeholder_C06 : True. Proof. exact I. Qed.
Print Assumptions placeholder_C06.
