(* C06 — editing one nested field changes that field and nothing else.
   For EVERY physical column satisfying the invariant (any chunking, any offsets base, missing and empty rows)
   the modelled field edits (ExtArray.v: view_fields, pop_fields, set_list_field, set_flat_field, fill_field_lists —
   the accessor's with_* / without_field / nest[...] and NestedFrame['nest.field'] = ... are thin wrappers over them)
   denote exactly spec_set_field / spec_select_fields of the logical column (Logical.v), whose definition IS the frame
   condition: same rows, same missing rows, every other field and type identical, the edited field holding the supplied
   values cut by the row lengths; wrong lengths, unknown or duplicate fields are refused.  The frame condition itself is
   spelled out by the spec_set_field_* theorems at the end. *)
From Coq Require Import String List Arith Bool ZArith.
Import ListNotations.
From NP Require Import Base Values Arrow Abs Kernels Logical ExtArray Codec Steps
  Proofs_Views Proofs_Codec Proofs_Fields Proofs_Steps Proofs_Extras.
From NP Require Import Dtype Names Reduce2 Proofs_Reduce2 Proofs_FromPandas.
From NP Require Import Props.C03.

Theorem C06_view_fields : forall p fs, inv_b p = true -> op_ok p (OViewFields fs) = true ->
  res_map abs (m_view_fields p fs) = spec_col_view_fields (abs p) fs.
Proof. exact viewfields_refines. Qed.
Print Assumptions C06_view_fields.

Theorem C06_pop_fields : forall p fs, inv_b p = true ->
  res_map abs (m_pop_fields p fs) = spec_col_pop_fields (abs p) fs.
Proof. intros p fs H. exact (popfields_refines p fs H eq_refl). Qed.
Print Assumptions C06_pop_fields.

Theorem C06_set_list_field : forall p nm ty v keep, inv_b p = true -> op_ok p (OSetList nm ty v keep) = true ->
  res_map abs (m_set_list_field p nm ty v keep)
  = spec_col_set_lists (abs p) nm ty (map (@olist val) (la_lists v)) keep.
Proof. exact setlist_refines. Qed.
Print Assumptions C06_set_list_field.

Theorem C06_set_flat_field : forall p nm ty v keep, inv_b p = true ->
  res_map abs (m_set_flat_field p nm ty v keep) = spec_col_set_flat (abs p) nm ty (fvalue_of v) keep.
Proof. intros p nm ty v keep H. exact (setflat_refines p nm ty v keep H eq_refl). Qed.
Print Assumptions C06_set_flat_field.

Theorem C06_fill_field_lists : forall p nm ty vs keep, inv_b p = true -> op_ok p (OFill nm ty vs keep) = true ->
  res_map abs (m_fill_field_lists p nm ty vs keep) = spec_col_fill (abs p) nm ty vs keep.
Proof. intros p nm ty vs keep H O. exact (fill_refines p nm ty vs keep H O O). Qed.
Print Assumptions C06_fill_field_lists.

(* the edited column satisfies the invariant again, so edits can be chained to any depth *)
Theorem C06_edits_keep_invariant : forall p o p', inv_b p = true -> op_ok p o = true ->
  m_step p o = Ok p' -> inv_b p' = true.
Proof. exact step_inv. Qed.
Print Assumptions C06_edits_keep_invariant.

(* ---- the frame condition, spelled out on the specification ---- *)
Theorem C06_same_missing_rows : forall L nm ty c, lvalidity (spec_set_field L nm ty c) = lvalidity L.
Proof. exact spec_set_field_validity. Qed.
Print Assumptions C06_same_missing_rows.

Theorem C06_replacing_leaves_other_fields : forall L nm ty c k k',
  length (lsch L) = length (lcols L) -> field_pos (lsch L) nm = Some k -> k' <> k -> k' < length (lcols L) ->
  nth k' (lcols (spec_set_field L nm ty c)) [] = nth k' (lcols L) []
  /\ nth_error (lsch (spec_set_field L nm ty c)) k' = nth_error (lsch L) k'
  /\ length (lcols (spec_set_field L nm ty c)) = length (lcols L).
Proof. exact spec_set_field_replace_others. Qed.
Print Assumptions C06_replacing_leaves_other_fields.

Theorem C06_adding_leaves_other_fields : forall L nm ty c, field_pos (lsch L) nm = None ->
  lcols (spec_set_field L nm ty c) = lcols L ++ [mask_rows (lvalidity L) c]
  /\ lsch (spec_set_field L nm ty c) = lsch L ++ [(nm, ty)].
Proof. exact spec_set_field_add_others. Qed.
Print Assumptions C06_adding_leaves_other_fields.

Theorem C06_edited_field_holds_supplied_values : forall L nm ty c k,
  length (lsch L) = length (lcols L) -> field_pos (lsch L) nm = Some k ->
  nth k (lcols (spec_set_field L nm ty c)) [] = mask_rows (lvalidity L) c
  /\ nth_error (lsch (spec_set_field L nm ty c)) k = Some (nm, ty).
Proof. exact spec_set_field_edited. Qed.
Print Assumptions C06_edited_field_holds_supplied_values.

Theorem C06_flat_values_in_flat_order : forall L flat, length flat = sum (lrow_lengths L) ->
  concat (spec_cut_flat L flat) = flat /\ map (@length val) (spec_cut_flat L flat) = lrow_lengths L.
Proof. exact spec_cut_flat_roundtrip. Qed.
Print Assumptions C06_flat_values_in_flat_order.

Theorem C06_same_row_lengths : forall L nm ty c,
  lcol_wf_b L = true -> lcols L <> [] -> map (@length val) c = lrow_lengths L ->
  lrow_lengths (spec_set_field L nm ty c) = lrow_lengths L.
Proof. exact spec_set_field_lengths. Qed.
Print Assumptions C06_same_row_lengths.

(* frame['nest.field'] = value chooses between "one value per row" and "flat values" by comparing the value's index with
   the frame's (Reduce2.m_setitem_route mirrors the test).  With DISTINCT labels the test cannot go wrong: if the index
   of a flat value (= the labels repeated by the row lengths) equals the frame's index, every row holds exactly one
   record, and then both routes store the same values.  With REPEATED labels it can (labels [5;5], row lengths [2;0]):
   the open finding KF-flat-value-taken-as-per-row, an ambiguity of the interface rather than a slip of the code. *)
Theorem C06_index_test_harmless_with_distinct_labels : forall (labels : list Z) lens,
  NoDup labels -> length lens = length labels -> flat_repeat labels lens = labels ->
  forallb (fun k => k =? 1) lens = true.
Proof. exact equal_flat_index_means_one_record_per_row. Qed.
Print Assumptions C06_index_test_harmless_with_distinct_labels.

Theorem C06_routes_agree_with_one_record_per_row : forall (V : Type) (vals : list V) lens,
  length vals = length lens -> forallb (fun k => k =? 1) lens = true -> flat_repeat vals lens = vals.
Proof. exact routes_agree_when_one_record_per_row. Qed.
Print Assumptions C06_routes_agree_with_one_record_per_row.

Theorem C06_index_test_fooled_by_repeated_labels_refuted :
  flat_repeat [5%Z; 5%Z] [2; 0] = [5%Z; 5%Z] /\ flat_repeat [10; 20] [2; 0] <> [10; 20].
Proof. exact repeated_labels_fool_the_index_test. Qed.
Print Assumptions C06_index_test_fooled_by_repeated_labels_refuted.

(* the conversion of offered flat values (pa.array(value, from_pandas=True)): Arrow-backed input is taken as it is; in
   numpy arrays, python lists and numpy-backed pandas objects NaN means "missing": it becomes null, every other value
   is kept, one value per offered value *)
Theorem C06_offered_values_arrow : forall vs, from_pandas false vs = vs.
Proof. exact from_pandas_arrow. Qed.
Print Assumptions C06_offered_values_arrow.

Theorem C06_offered_values_numpy : forall vs i, i < length vs ->
  nth i (from_pandas true vs) VNull = (if val_eqb (nth i vs VNull) (VTok NAN_TOKEN) then VNull else nth i vs VNull).
Proof. exact from_pandas_pointwise. Qed.
Print Assumptions C06_offered_values_numpy.

Theorem C06_offered_values_count : forall b vs, length (from_pandas b vs) = length vs.
Proof. exact from_pandas_length. Qed.
Print Assumptions C06_offered_values_count.

Example C06_hypotheses_satisfiable :
  inv_b sample_col = true
  /\ op_ok sample_col (OFill "c"%string TI64 [VInt 1; VInt 2; VInt 3; VInt 4] false) = true
  /\ res_map (fun q => rows_of (abs q)) (m_fill_field_lists sample_col "c"%string TI64 [VInt 1; VInt 2; VInt 3; VInt 4] false)
     = Ok [ Some [[VInt 1; VInt 2]; [VTok 1; VNull]; [VInt 1; VInt 1]]; None; Some [[]; []; []];
            Some [[VInt 3; VInt 4; VNull]; [VTok 5; VTok 6; VTok 7]; [VInt 4; VInt 4; VInt 4]] ].
Proof. split; [reflexivity|]. split; [reflexivity|]. vm_compute. reflexivity. Qed.
