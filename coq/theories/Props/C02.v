(* C02 — packing and unpacking are lossless inverses.
   packer.pack_flat = stable sort by label, offsets from first occurrences, list views cut at the offsets
   (m_pack_flat, Frame.v).  For EVERY flat table (any length, any multiset of labels in any order, any values):
   flattening the packed column gives exactly the stable sort of the table - same records, labels ascending, original
   relative order inside each label - the packed labels are distinct and ascending and no row without elements is
   invented; for EVERY nested column with distinct ascending labels, flattening and packing again gives the same column
   minus the rows that hold no element.  The stable sort is characterised (permutation, sorted, order inside each label
   kept), which pins it uniquely. *)
From Coq Require Import String List Arith Bool ZArith Permutation.
Import ListNotations.
From NP Require Import Base Values Arrow Abs Kernels Logical Frame Bridge Proofs_Pack Proofs_Bridge.

Theorem C02_flatten_of_pack : forall t,
  exists g, m_pack_flat t = Ok g /\ flatten_packed g = stable_sort_key t /\ strict_inc (map fst g) = true
            /\ Forall (fun kg : Z * list record => snd kg <> []) g.
Proof. exact flatten_pack_flat. Qed.
Print Assumptions C02_flatten_of_pack.

Theorem C02_pack_of_flatten : forall labels rows, length labels = length rows -> strict_inc labels = true ->
  m_pack_flat (m_labelled_flat labels rows)
  = Ok (filter (fun kg : Z * list record => negb (length (snd kg) =? 0)) (combine labels (map recs rows))).
Proof. exact pack_flatten. Qed.
Print Assumptions C02_pack_of_flatten.

Theorem C02_sort_is_permutation : forall t, Permutation (stable_sort_key t) t.
Proof. exact stable_sort_perm. Qed.
Print Assumptions C02_sort_is_permutation.

Theorem C02_sort_is_sorted : forall t, is_mono_inc (map fst (stable_sort_key t)) = true.
Proof. exact stable_sort_sorted. Qed.
Print Assumptions C02_sort_is_sorted.

Theorem C02_order_inside_a_label_kept : forall t l,
  filter (has_key l) (stable_sort_key t) = filter (has_key l) t.
Proof. exact stable_sort_stable. Qed.
Print Assumptions C02_order_inside_a_label_kept.

Theorem C02_pack_sorted_lossless : forall t, is_mono_inc (map fst t) = true ->
  exists g, m_pack_sorted t = Ok g /\ flatten_packed g = t /\ strict_inc (map fst g) = true
            /\ Forall (fun kg : Z * list record => snd kg <> []) g.
Proof. exact pack_sorted_ok. Qed.
Print Assumptions C02_pack_sorted_lossless.

Theorem C02_unsorted_refused : forall t, is_mono_inc (map fst t) = false -> m_pack_sorted t = Err.
Proof. exact pack_sorted_err. Qed.
Print Assumptions C02_unsorted_refused.

(* the list view: packing list-valued columns (packer.pack_lists) on the PHYSICAL level gives, row by row, exactly the offered
   lists with no row missing - in the chunk-aligned branch and in the combine branch alike - and refuses ragged columns *)
Theorem C02_pack_lists_any_chunking : forall cols n, cols <> [] ->
  forallb (lcolumn_ok n) cols = true ->
  (forall c, In c cols -> map (fun o => length (olist o)) (column_rows c)
                          = map (fun o => length (olist o)) (column_rows (hd (EmptyString, TI64, []) cols))) ->
  exists p, m_pack_lists cols true = Ok p /\
            lvalidity (abs p) = repeat true n /\
            lcols (abs p) = map (fun c => map (@olist val) (column_rows c)) cols /\
            lsch (abs p) = map (fun c => (fst (fst c), snd (fst c))) cols.
Proof. exact pack_lists_abs. Qed.
Print Assumptions C02_pack_lists_any_chunking.

Theorem C02_pack_lists_ragged_refused : forall cols n, cols <> [] ->
  forallb (lcolumn_ok n) cols = true ->
  (exists c, In c cols /\ map (fun o => length (olist o)) (column_rows c)
                         <> map (fun o => length (olist o)) (column_rows (hd (EmptyString, TI64, []) cols))) ->
  m_pack_lists cols true = Err.
Proof. exact pack_lists_ragged_refused. Qed.
Print Assumptions C02_pack_lists_ragged_refused.

Example C02_nonvacuous :
  m_pack_flat [(3%Z, [VInt 1]); (1%Z, [VInt 2]); (3%Z, [VInt 3]); (2%Z, [VNull]); (1%Z, [VInt 5])]
  = Ok [(1%Z, [[VInt 2]; [VInt 5]]); (2%Z, [[VNull]]); (3%Z, [[VInt 1]; [VInt 3]])].
Proof. vm_compute. reflexivity. Qed.
