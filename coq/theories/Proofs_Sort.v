(* Proofs_Sort.v — sort_values on a nested layer (C11). The pandas sort is a PARAMETER: any function that returns
   a permutation of the flat table whose ordinal keys are ascending (the ordinal row number is the leading sort key).
   No stability is assumed. Result: every row's table is a permutation of its own records (none lost, duplicated or
   moved to another row), rows without records come back missing; if the sorter's output is sorted by
   (ordinal, rec_le) then every row's records are sorted by rec_le. *)
From Coq Require Import String List Arith Bool ZArith Lia Permutation.
Import ListNotations.
From NP Require Import Base Values Arrow Frame Proofs_Pack.

Definition sorted_flat (rec_le : record -> record -> bool) : ftable -> bool :=
  fix go (t : ftable) : bool :=
    match t with a :: ((b :: _) as r) => key_rec_le rec_le a b && go r | _ => true end.

(* ---------- two-at-a-time equations ---------- *)
Lemma sorted_flat_cons2 rec_le a b r :
  sorted_flat rec_le (a :: b :: r) = key_rec_le rec_le a b && sorted_flat rec_le (b :: r).
Proof. reflexivity. Qed.
Lemma is_mono_inc_cons2 a b t : is_mono_inc (a :: b :: t) = (a <=? b)%Z && is_mono_inc (b :: t).
Proof. reflexivity. Qed.
Lemma strict_inc_cons2 a b t : strict_inc (a :: b :: t) = (a <? b)%Z && strict_inc (b :: t).
Proof. reflexivity. Qed.
Lemma sorted_recs_cons2 rec_le a b t :
  sorted_recs rec_le (a :: b :: t) = rec_le a b && sorted_recs rec_le (b :: t).
Proof. reflexivity. Qed.
Lemma flatten_packed_cons j xs g : flatten_packed ((j, xs) :: g) = map (pair j) xs ++ flatten_packed g.
Proof. reflexivity. Qed.

(* ---------- the canonical sorter ---------- *)
Lemma ins_sorted_perm rec_le x l : Permutation (ins_sorted rec_le x l) (x :: l).
Proof.
  induction l as [|y t IH]; cbn [ins_sorted]; [reflexivity|].
  destruct (key_rec_le rec_le x y); [reflexivity|].
  etransitivity; [apply perm_skip, IH|apply perm_swap].
Qed.

Lemma key_rec_le_total rec_le : (forall a b, rec_le a b || rec_le b a = true) ->
  forall x y, key_rec_le rec_le x y = false -> key_rec_le rec_le y x = true.
Proof.
  intros Htot x y H. unfold key_rec_le in *.
  apply orb_false_iff in H as [H1 H2]. apply Z.ltb_ge in H1.
  destruct (Z.eqb_spec (fst x) (fst y)) as [e|ne].
  - simpl in H2. rewrite e, Z.eqb_refl. specialize (Htot (snd x) (snd y)).
    rewrite H2 in Htot. simpl in Htot. rewrite Htot. simpl. apply orb_true_r.
  - assert (Hlt : (fst y < fst x)%Z) by lia. apply Z.ltb_lt in Hlt. rewrite Hlt. reflexivity.
Qed.

Lemma ins_sorted_sorted rec_le : (forall a b, rec_le a b || rec_le b a = true) ->
  forall x l, sorted_flat rec_le l = true -> sorted_flat rec_le (ins_sorted rec_le x l) = true.
Proof.
  intros Htot x l. induction l as [|y t IH]; intro H; [reflexivity|].
  cbn [ins_sorted]. destruct (key_rec_le rec_le x y) eqn:E.
  - rewrite sorted_flat_cons2, E. exact H.
  - pose proof (key_rec_le_total rec_le Htot x y E) as Eyx.
    destruct t as [|z t'].
    + cbn [ins_sorted]. rewrite sorted_flat_cons2, Eyx. reflexivity.
    + rewrite sorted_flat_cons2 in H. apply andb_true_iff in H as [Hyz Ht].
      specialize (IH Ht). cbn [ins_sorted] in *.
      destruct (key_rec_le rec_le x z).
      * rewrite sorted_flat_cons2, Eyx. exact IH.
      * rewrite sorted_flat_cons2, Hyz. exact IH.
Qed.

(* ---------- sorted_flat: pieces ---------- *)
Lemma sorted_flat_tail rec_le a l : sorted_flat rec_le (a :: l) = true -> sorted_flat rec_le l = true.
Proof.
  destruct l as [|b l]; [reflexivity|]. rewrite sorted_flat_cons2. intro H.
  apply andb_true_iff in H. tauto.
Qed.

Lemma sorted_flat_app rec_le l1 l2 : sorted_flat rec_le (l1 ++ l2) = true ->
  sorted_flat rec_le l1 = true /\ sorted_flat rec_le l2 = true.
Proof.
  induction l1 as [|a l1 IH]; intro H; [split; [reflexivity|exact H]|].
  change ((a :: l1) ++ l2) with (a :: (l1 ++ l2)) in H.
  pose proof (sorted_flat_tail _ _ _ H) as Ht. destruct (IH Ht) as [H1 H2]. split; [|exact H2].
  destruct l1 as [|b l1]; [reflexivity|].
  change (a :: (b :: l1) ++ l2) with (a :: b :: (l1 ++ l2)) in H.
  rewrite sorted_flat_cons2 in H. apply andb_true_iff in H as [Hab _].
  rewrite sorted_flat_cons2, Hab. exact H1.
Qed.

Lemma sorted_flat_group rec_le k xs : sorted_flat rec_le (map (pair k) xs) = sorted_recs rec_le xs.
Proof.
  induction xs as [|a xs IH]; [reflexivity|]. destruct xs as [|b xs]; [reflexivity|].
  cbn [map] in *. rewrite sorted_flat_cons2, sorted_recs_cons2, IH.
  unfold key_rec_le. cbn [fst snd]. rewrite Z.ltb_irrefl, Z.eqb_refl. reflexivity.
Qed.

Lemma sorted_flat_groups rec_le g k xs : sorted_flat rec_le (flatten_packed g) = true ->
  In (k, xs) g -> sorted_recs rec_le xs = true.
Proof.
  induction g as [|[j ys] g IH]; intros H Hin; [destruct Hin|].
  rewrite flatten_packed_cons in H. apply sorted_flat_app in H as [H1 H2].
  destruct Hin as [E|Hin].
  - inversion E; subst. rewrite sorted_flat_group in H1. exact H1.
  - apply IH; assumption.
Qed.

(* ---------- packed column: lookup by label = filter of the flattening ---------- *)
Lemma strict_inc_tail j l : strict_inc (j :: l) = true -> strict_inc l = true.
Proof.
  destruct l as [|a l]; [reflexivity|]. rewrite strict_inc_cons2. intro H.
  apply andb_true_iff in H. tauto.
Qed.

Lemma strict_inc_lt : forall l j, strict_inc (j :: l) = true -> Forall (fun x => (j < x)%Z) l.
Proof.
  induction l as [|a l IH]; intros j H; [constructor|].
  rewrite strict_inc_cons2 in H. apply andb_true_iff in H as [H1 H2]. apply Z.ltb_lt in H1.
  constructor; [exact H1|]. specialize (IH a H2).
  eapply Forall_impl; [|exact IH]. cbv beta. intros; lia.
Qed.

Lemma filter_key_same k xs : map snd (filter (has_key k) (map (pair k) xs)) = xs.
Proof.
  induction xs as [|x xs IH]; [reflexivity|]. cbn [map filter]. unfold has_key at 1. cbn [fst].
  rewrite Z.eqb_refl. cbn [map snd]. rewrite IH. reflexivity.
Qed.

Lemma filter_key_diff k j xs : j <> k -> filter (has_key k) (map (pair j) xs) = [].
Proof.
  intro Hne. induction xs as [|x xs IH]; [reflexivity|]. cbn [map filter]. unfold has_key at 1. cbn [fst].
  destruct (Z.eqb_spec j k); [contradiction|]. exact IH.
Qed.

Lemma filter_flatten_none k g : Forall (fun x => x <> k) (map fst g) ->
  filter (has_key k) (flatten_packed g) = [].
Proof.
  induction g as [|[j xs] g IH]; intro H; [reflexivity|].
  rewrite flatten_packed_cons, filter_app. cbn [map fst] in H. inversion H; subst.
  rewrite filter_key_diff by assumption. rewrite IH by assumption. reflexivity.
Qed.

Lemma lookup_filter g k : strict_inc (map fst g) = true ->
  map snd (filter (has_key k) (flatten_packed g)) = recs (lookup_key k g).
Proof.
  induction g as [|[j xs] g IH]; intro H; [reflexivity|].
  rewrite flatten_packed_cons, filter_app, map_app. cbn [lookup_key]. cbn [map fst] in H.
  destruct (Z.eqb_spec k j) as [e|ne].
  - subst j. rewrite filter_key_same. rewrite filter_flatten_none.
    + cbn [map recs]. apply app_nil_r.
    + apply strict_inc_lt in H. eapply Forall_impl; [|exact H]. cbv beta. intros; lia.
  - rewrite filter_key_diff by congruence. cbn [map app]. apply IH. eapply strict_inc_tail; exact H.
Qed.

Lemma lookup_in k g xs : lookup_key k g = Some xs -> In (k, xs) g.
Proof.
  induction g as [|[j ys] g IH]; intro H; [discriminate|]. cbn [lookup_key] in H.
  destruct (Z.eqb_spec k j) as [e|ne].
  - inversion H; subst. left; reflexivity.
  - right. apply IH. exact H.
Qed.

Lemma lookup_none_iff k g : Forall (fun kg : Z * list record => snd kg <> []) g ->
  (lookup_key k g = None <-> recs (lookup_key k g) = []).
Proof.
  intro Hne. split; intro H; [rewrite H; reflexivity|].
  destruct (lookup_key k g) as [xs|] eqn:E; [|reflexivity]. exfalso.
  apply lookup_in in E. rewrite Forall_forall in Hne. apply (Hne _ E). exact H.
Qed.

(* ---------- the ordinal flat view: records of row i carry label i ---------- *)
Definition lab (b : nat) (rows : list nrow) : ftable :=
  combine (flat_repeat (map Z.of_nat (seq b (length rows))) (row_lens rows)) (m_flat rows).

Lemma m_ordinal_flat_lab rows : m_ordinal_flat rows = lab 0 rows.
Proof. reflexivity. Qed.

Lemma combine_app' {A B} : forall (l1 : list A) (l1' : list B) l2 l2', length l1 = length l1' ->
  combine (l1 ++ l2) (l1' ++ l2') = combine l1 l1' ++ combine l2 l2'.
Proof.
  induction l1 as [|x l1 IH]; intros [|y l1'] l2 l2' H; simpl in H; try discriminate; [reflexivity|].
  cbn [app combine]. rewrite IH by lia. reflexivity.
Qed.

Lemma combine_repeat_pair {A} (k : Z) (xs : list A) : combine (repeat k (length xs)) xs = map (pair k) xs.
Proof. induction xs as [|x xs IH]; [reflexivity|]. cbn [length repeat combine map]. rewrite IH. reflexivity. Qed.

Lemma lab_cons b r rs : lab b (r :: rs) = map (pair (Z.of_nat b)) (recs r) ++ lab (S b) rs.
Proof.
  unfold lab, row_lens, m_flat. cbn [length seq map flat_repeat concat].
  rewrite combine_app' by apply repeat_length. rewrite combine_repeat_pair. reflexivity.
Qed.

Lemma lab_filter : forall rows b i,
  map snd (filter (has_key (Z.of_nat i)) (lab b rows))
  = if i <? b then [] else recs (nth (i - b) rows None).
Proof.
  induction rows as [|r rs IH]; intros b i.
  - unfold lab. cbn [length seq map flat_repeat combine filter].
    destruct (i <? b); [reflexivity|]. destruct (i - b); reflexivity.
  - rewrite lab_cons, filter_app, map_app, IH.
    destruct (Nat.ltb_spec i b) as [Hlt|Hge].
    + rewrite filter_key_diff by lia. destruct (Nat.ltb_spec i (S b)); [reflexivity|lia].
    + destruct (Nat.eq_dec i b) as [e|ne].
      * subst i. rewrite filter_key_same. destruct (Nat.ltb_spec b (S b)); [|lia].
        rewrite Nat.sub_diag. cbn [nth]. apply app_nil_r.
      * rewrite filter_key_diff by lia. destruct (Nat.ltb_spec i (S b)); [lia|].
        replace (i - b) with (S (i - S b)) by lia. reflexivity.
Qed.

Lemma ordinal_flat_filter rows i :
  map snd (filter (has_key (Z.of_nat i)) (m_ordinal_flat rows)) = recs (nth i rows None).
Proof. rewrite m_ordinal_flat_lab, lab_filter. change (i <? 0) with false. rewrite Nat.sub_0_r. reflexivity. Qed.

(* ---------- aligned write-back ---------- *)
Lemma length_m_align n g : length (m_align n g) = n.
Proof. unfold m_align, ordinals. rewrite !map_length. apply seq_length. Qed.

Lemma nth_m_align n g i : i < n -> nth i (m_align n g) None = lookup_key (Z.of_nat i) g.
Proof.
  intro Hi. unfold m_align, ordinals. rewrite map_map.
  rewrite (nth_indep _ None (lookup_key (Z.of_nat 0) g)) by (rewrite map_length, seq_length; exact Hi).
  rewrite (map_nth (fun x => lookup_key (Z.of_nat x) g)). rewrite seq_nth by exact Hi. reflexivity.
Qed.

Lemma Permutation_filter' {A} (f : A -> bool) l l' : Permutation l l' -> Permutation (filter f l) (filter f l').
Proof.
  induction 1 as [|x l l' HP IH|x y l|l l' l'' H1 IH1 H2 IH2]; cbn [filter].
  - constructor.
  - destruct (f x); [constructor|]; exact IH.
  - destruct (f x), (f y); try reflexivity. apply perm_swap.
  - etransitivity; eassumption.
Qed.

(* ---------- the theorems ---------- *)
Theorem sort_nested_permutes sorter rows :
  Permutation (sorter (m_ordinal_flat rows)) (m_ordinal_flat rows) ->
  is_mono_inc (map fst (sorter (m_ordinal_flat rows))) = true ->
  exists rows', m_sort_nested_with sorter rows = Ok rows' /\ length rows' = length rows
    /\ forall i, i < length rows ->
         Permutation (recs (nth i rows' None)) (recs (nth i rows None))
         /\ (nth i rows' None = None <-> recs (nth i rows None) = []).
Proof.
  intros HP HM.
  destruct (pack_sorted_ok _ HM) as (g & Hg & Hf & Hs & Hne).
  exists (m_align (length rows) g). split; [|split].
  - unfold m_sort_nested_with, m_set_filtered. rewrite Hg. reflexivity.
  - apply length_m_align.
  - intros i Hi. rewrite nth_m_align by exact Hi.
    assert (HPi : Permutation (recs (lookup_key (Z.of_nat i) g)) (recs (nth i rows None))).
    { rewrite <- lookup_filter by exact Hs. rewrite Hf. rewrite <- ordinal_flat_filter.
      apply Permutation_map, Permutation_filter'. exact HP. }
    split; [exact HPi|].
    rewrite (lookup_none_iff _ _ Hne). split; intro H.
    + rewrite H in HPi. apply Permutation_nil in HPi. exact HPi.
    + rewrite H in HPi. apply Permutation_sym, Permutation_nil in HPi. exact HPi.
Qed.

Lemma sorted_flat_mono rec_le t : sorted_flat rec_le t = true -> is_mono_inc (map fst t) = true.
Proof.
  induction t as [|a t IH]; intro H; [reflexivity|]. destruct t as [|b t]; [reflexivity|].
  rewrite sorted_flat_cons2 in H. apply andb_true_iff in H as [Hab Ht].
  cbn [map] in *. rewrite is_mono_inc_cons2, (IH Ht), andb_true_r.
  apply Z.leb_le. unfold key_rec_le in Hab. apply orb_true_iff in Hab as [Hlt|Heq].
  - apply Z.ltb_lt in Hlt. lia.
  - apply andb_true_iff in Heq as [Heq _]. apply Z.eqb_eq in Heq. lia.
Qed.

Theorem sort_nested_sorted rec_le sorter rows rows' :
  Permutation (sorter (m_ordinal_flat rows)) (m_ordinal_flat rows) ->
  sorted_flat rec_le (sorter (m_ordinal_flat rows)) = true ->
  m_sort_nested_with sorter rows = Ok rows' ->
  forall i, i < length rows -> sorted_recs rec_le (recs (nth i rows' None)) = true.
Proof.
  intros _ HS Hm i Hi.
  destruct (pack_sorted_ok _ (sorted_flat_mono _ _ HS)) as (g & Hg & Hf & _ & _).
  unfold m_sort_nested_with, m_set_filtered in Hm. rewrite Hg in Hm. cbn [res_map] in Hm.
  inversion Hm; subst rows'. rewrite nth_m_align by exact Hi.
  destruct (lookup_key (Z.of_nat i) g) as [xs|] eqn:E; [|reflexivity].
  cbn [recs]. apply lookup_in in E. rewrite <- Hf in HS.
  eapply sorted_flat_groups; eassumption.
Qed.

(* the sorter that does not put the ordinal first is refused or moves records across rows: the ordinal order
   is what makes the re-pack possible (a sorter whose output is not ordinal-ascending is rejected) *)
Theorem sort_nested_unsorted_refused sorter rows :
  is_mono_inc (map fst (sorter (m_ordinal_flat rows))) = false -> m_sort_nested_with sorter rows = Err.
Proof.
  intro H. unfold m_sort_nested_with, m_set_filtered. rewrite (pack_sorted_err _ H). reflexivity.
Qed.

(* the canonical sorter meets the contract, for any total rec_le *)
Lemma sort_flat_perm rec_le t : Permutation (sort_flat rec_le t) t.
Proof.
  induction t as [|x t IH]; [constructor|]. unfold sort_flat in *. cbn [fold_right].
  etransitivity; [apply ins_sorted_perm|]. constructor. exact IH.
Qed.
Lemma sort_flat_sorted rec_le t : (forall a b, rec_le a b || rec_le b a = true) ->
  sorted_flat rec_le (sort_flat rec_le t) = true.
Proof.
  intro Htot. induction t as [|x t IH]; [reflexivity|]. unfold sort_flat in *. cbn [fold_right].
  apply ins_sorted_sorted; assumption.
Qed.

Print Assumptions sort_nested_permutes.
Print Assumptions sort_nested_sorted.
Print Assumptions sort_nested_unsorted_refused.
Print Assumptions sort_flat_perm.
Print Assumptions sort_flat_sorted.
Print Assumptions sorted_flat_mono.
