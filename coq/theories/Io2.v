(* Io2.v — the CONTENT of a partially loaded nested column (nestedframe/io.py, read_parquet with columns=['n.a', ...]).
   Io.v says which requested names are regrouped into which struct; this file says what the struct holds.

   A parquet file stores one column per LEAF; a leaf of the struct-of-lists column n carries, row for row, the validity
   of the struct ANDed with the validity of its own list (that is what the definition levels encode and what pyarrow
   returns for the request 'n.a': the list column a, null where n is missing) - here: sc_flatten of the chunk, the model of
   StructArray.flatten().  The reader then
     leaves   = table.select(indices)                   the requested leaves, in REQUEST order
     struct   = leaves.to_struct_array()                every row present
     all_null = is_null(leaf_0) and is_null(leaf_1) ... a row whose every requested list is null
     result   = if_else(all_null, null, struct)         such a row is missing
   chunk by chunk (row groups).  Definitions only. *)
From Coq Require Import String List Arith Bool.
Import ListNotations.
From NP Require Import Base Values Arrow Abs Kernels Logical ExtArray.

(* the leaf of that name as the file returns it *)
Definition leaf_of (c : schunk) (nm : string) : option field :=
  find (fun f => String.eqb (fname f) nm) (sc_flatten c).

Fixpoint all_some {A} (l : list (option A)) : option (list A) :=
  match l with
  | [] => Some []
  | Some x :: t => match all_some t with Some r => Some (x :: r) | None => None end
  | None :: _ => None
  end.

(* is_null(leaf_0) and is_null(leaf_1) and ... over n rows *)
Definition all_null_mask (n : nat) (leaves : list field) : list bool :=
  fold_left (fun acc f => map2 andb acc (map negb (lvalid (farr f)))) leaves (repeat true n).

Definition m_partial_chunk (c : schunk) (sel : list string) : res schunk :=
  match all_some (map (leaf_of c) sel) with
  | None => Err                                   (* pyarrow: no match for the field *)
  | Some [] => Err
  | Some leaves => Ok (sc_from_arrays leaves (Some (all_null_mask (sc_len c) leaves)))
  end.

Fixpoint res_all {A} (l : list (res A)) : res (list A) :=
  match l with
  | [] => Ok []
  | Ok x :: t => match res_all t with Ok r => Ok (x :: r) | Err => Err end
  | Err :: _ => Err
  end.

(* the whole column: every chunk (row group) on its own; the element types are those of the file *)
Definition m_partial_load (p : chunked) (sel : list string) : res chunked :=
  if negb (nodupb sel) then Err else
  match res_all (map (fun c => m_partial_chunk c sel) (chunks p)) with
  | Err => Err
  | Ok cs => Ok {| ctype := select_schema (ctype p) sel; chunks := cs |}
  end.
