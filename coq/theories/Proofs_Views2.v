(* Proofs_Views2.v — the remaining views of C03 (list view, element view) and the import of list-of-structs input (C19). *)
From Coq Require Import String List Arith Bool ZArith Lia.
Import ListNotations.
From NP Require Import Base Values Arrow Abs Kernels Logical ExtArray Codec Steps Proofs_Views Proofs_Codec Proofs_Transpose.
From NP Require Import Proofs_Fields.

Local Open Scope nat_scope.

(* ---------- helpers: names and their positions ---------- *)

Lemma field_names_ok p : chunks p <> [] -> m_field_names p = Ok (map fst (ctype p)).
Proof. intros H. unfold m_field_names. destruct (chunks p); [congruence|reflexivity]. Qed.

(* a name that occurs in the schema has a position, and the schema entry there carries that name *)
Lemma has_name_pos (sch : schema) nm : has_name (map fst sch) nm = true ->
  exists k nt, field_pos sch nm = Some k /\ nth_error sch k = Some nt /\ fst nt = nm.
Proof.
  intros H. unfold has_name in H. rewrite (fpos_has fst nm sch) in H.
  rewrite field_pos_fpos. destruct (fpos fst nm sch) as [k|] eqn:E; [|discriminate].
  destruct (fpos_some fst nm sch k E) as (nt & Hnt & Hnm). exists k, nt. auto.
Qed.

Lemma nth_error_lt {A} (l : list A) k x : nth_error l k = Some x -> k < length l.
Proof. intros H. apply nth_error_Some. congruence. Qed.

(* ---------- per field: the list view chunk by chunk = the field of the logical column ---------- *)

Lemma lists_col_refines p k nt : col_ok p -> NoDup (map fst (ctype p)) -> nth_error (ctype p) k = Some nt ->
  map (@olist val)
      (concat (map (fun c => match sc_field c (fst nt) with Some f => la_lists (farr f) | None => [] end) (chunks p)))
  = nth k (lcols (abs p)) [].
Proof.
  intros (Hne & Hall) Hnd Hk.
  rewrite (abs_col_k p k (nth_error_lt _ _ _ Hk)).
  rewrite concat_map_map, map_map. f_equal.
  apply map_ext_in. intros c Hc. rewrite Forall_forall in Hall. specialize (Hall c Hc).
  pose proof Hall as (Hwf & _).
  destruct (chunk_field_lookup (ctype p) c k nt Hwf Hnd Hk) as (f & Hf & Hn & Hcol).
  rewrite Hf, Hcol.
  assert (Hfo : field_ok (svalid c) (farr f))
    by (apply (chunk_field_ok (ctype p) c f Hall); eapply nth_error_In; eauto).
  rewrite (olists_cuts _ _ Hfo), (field_rows_cuts _ _ Hfo). reflexivity.
Qed.

Lemma flat_col_refines' p k nt : col_ok p -> NoDup (map fst (ctype p)) -> nth_error (ctype p) k = Some nt ->
  concat (map (fun c => match sc_field c (fst nt) with Some f => la_flatten (farr f) | None => [] end) (chunks p))
  = concat (nth k (lcols (abs p)) []).
Proof.
  intros Hok Hnd Hk. rewrite (flat_col_refines p k nt Hok Hnd Hk).
  rewrite (abs_col_k p k (nth_error_lt _ _ _ Hk)). reflexivity.
Qed.

(* all fields in schema order: the selection is the whole list of fields *)
Lemma spec_lists_fields_all p : NoDup (map fst (ctype p)) ->
  spec_lists_fields (abs p) (map fst (ctype p)) = lcols (abs p).
Proof.
  intros Hnd. unfold spec_lists_fields. change (lsch (abs p)) with (ctype p). rewrite map_map.
  assert (Hlen : length (lcols (abs p)) = length (ctype p))
    by (unfold abs; cbn [lcols]; rewrite map_length, seq_length; reflexivity).
  etransitivity; [|apply (map_nth_seq_id [] (lcols (abs p)))]. rewrite Hlen.
  rewrite (map_nth_seq _ (EmptyString, TI64) (ctype p)).
  apply map_ext_in. intros k Hk. apply in_seq in Hk.
  destruct (nth_error (ctype p) k) as [nt|] eqn:E.
  - rewrite (nth_error_nth _ _ _ E). rewrite field_pos_fpos.
    rewrite (fpos_nth_nodup fst (ctype p) k nt Hnd E). reflexivity.
  - apply nth_error_None in E. lia.
Qed.

(* ---------- the exact list view of one field of one chunk ---------- *)

Lemma flat_lists_gen : forall (sv lv : list bool) (cs : list (list val)),
  forallb2 (fun (s l : bool) => implb s l) sv lv = true -> length cs = length sv ->
  map2 (fun c (v : bool) => if v then Some c else None) cs (map2 andb sv lv)
  = with_missing sv (mask_rows sv (map (@olist val) (map2 (fun c (v : bool) => if v then Some c else None) cs lv))).
Proof.
  induction sv as [|s sv IH]; intros [|l lv] [|c cs] H1 H2; cbn [forallb2 length] in *; try discriminate; try reflexivity.
  apply andb_true_iff in H1 as [H1a H1]. injection H2 as H2.
  unfold with_missing, mask_rows in *. rewrite !map2_cons. cbn [map]. rewrite !map2_cons. f_equal.
  - destruct s, l; try reflexivity. discriminate.
  - apply IH; assumption.
Qed.

Lemma length_mask_lists : forall (sv lv : list bool) (cs : list (list val)),
  length lv = length sv -> length cs = length sv ->
  length (mask_rows sv (map (@olist val) (map2 (fun c (v : bool) => if v then Some c else None) cs lv))) = length sv.
Proof.
  intros sv lv cs H1 H2. unfold mask_rows. rewrite map2_length; [reflexivity|].
  rewrite map_length, map2_length; lia.
Qed.

(* reading a null list as [] undoes with_missing on a masked column *)
Lemma olist_with_missing_gen : forall (sv : list bool) (xs : list (list val)),
  map (@olist val) (with_missing sv (mask_rows sv xs)) = mask_rows sv xs.
Proof.
  unfold with_missing, mask_rows.
  induction sv as [|s sv IH]; intros [|x xs]; try reflexivity.
  rewrite !map2_cons. cbn [map]. rewrite IH. f_equal. destruct s; reflexivity.
Qed.

Lemma map2_app {A B C} (f : A -> B -> C) : forall l1 m1 l2 m2, length l1 = length m1 ->
  map2 f (l1 ++ l2) (m1 ++ m2) = map2 f l1 m1 ++ map2 f l2 m2.
Proof.
  induction l1 as [|x l1 IH]; intros [|y m1] l2 m2 H; cbn [length] in H; try discriminate; [reflexivity|].
  cbn [app]. rewrite !map2_cons. cbn [app]. f_equal. apply IH. lia.
Qed.

Lemma map2_concat {A B C X} (f : A -> B -> C) (g : X -> list A) (h : X -> list B) : forall l,
  (forall x, In x l -> length (g x) = length (h x)) ->
  map2 f (concat (map g l)) (concat (map h l)) = concat (map (fun x => map2 f (g x) (h x)) l).
Proof.
  induction l as [|x l IH]; intro H; [reflexivity|].
  cbn [map concat]. rewrite map2_app by (apply H; left; reflexivity).
  f_equal. apply IH. intros y Hy. apply H. right. exact Hy.
Qed.

Lemma find_map_key {A} (g : A -> A) (key : A -> string) nm : (forall x, key (g x) = key x) -> forall l,
  find (fun y => String.eqb (key y) nm) (map g l) = option_map g (find (fun y => String.eqb (key y) nm) l).
Proof.
  intros Hk. induction l as [|x l IH]; [reflexivity|].
  cbn [map find]. rewrite Hk. destruct (String.eqb (key x) nm); [reflexivity|exact IH].
Qed.

Definition wfl_chunk (sch : schema) (c : schunk) : Prop :=
  wf_chunk_b sch c = true /\ lists_valid_b c = true.

Lemma chunk_flat_lists sch c k nt : wfl_chunk sch c -> NoDup (map fst sch) -> nth_error sch k = Some nt ->
  match find (fun f => String.eqb (fname f) (fst nt)) (sc_flatten c) with
  | Some f => la_lists (farr f) | None => [] end
  = with_missing (svalid c) (nth k (chunk_cols c) [])
  /\ length (nth k (chunk_cols c) []) = length (svalid c)
  /\ map (@olist val) (with_missing (svalid c) (nth k (chunk_cols c) [])) = nth k (chunk_cols c) [].
Proof.
  intros (Hwf & Hlv) Hnd Hk.
  destruct (chunk_field_lookup sch c k nt Hwf Hnd Hk) as (f & Hf & Hn & Hcol).
  assert (Hin : In f (sfields c)) by (eapply nth_error_In; eauto).
  unfold wf_chunk_b in Hwf. apply andb_true_iff in Hwf as [_ Hwf].
  rewrite forallb_forall in Hwf. specialize (Hwf f Hin).
  apply wf_larr_b_spec in Hwf as (Ho & Hv & Hm & Hl). unfold sc_len in *.
  unfold lists_valid_b in Hlv. rewrite forallb_forall in Hlv. specialize (Hlv f Hin).
  assert (Hc : length (cuts (offs (farr f)) (child (farr f))) = length (svalid c))
    by (rewrite length_cuts, Ho; lia).
  rewrite Hcol. unfold field_rows. split; [|split].
  - unfold sc_flatten.
    rewrite (find_map_key _ fname (fst nt)) by reflexivity.
    unfold sc_field in Hf. rewrite Hf. cbn [option_map farr]. unfold la_lists at 1. cbn [offs lvalid child].
    apply flat_lists_gen; assumption.
  - unfold la_lists. apply length_mask_lists; assumption.
  - apply olist_with_missing_gen.
Qed.

Lemma wf_b_chunks p : wf_b p = true -> ctype p <> [] /\ forall c, In c (chunks p) -> wfl_chunk (ctype p) c.
Proof.
  unfold wf_b. intro H. apply andb_true_iff in H as [H1 H2]. split.
  - destruct (ctype p); [discriminate|congruence].
  - intros c Hc. rewrite forallb_forall in H2. specialize (H2 c Hc).
    apply andb_true_iff in H2 as [H2 H3]. apply andb_true_iff in H2 as [H2 _]. split; assumption.
Qed.

(* with_missing distributes over the chunks *)
Lemma with_missing_col p k nt : wf_b p = true -> NoDup (map fst (ctype p)) -> nth_error (ctype p) k = Some nt ->
  with_missing (lvalidity (abs p)) (nth k (lcols (abs p)) [])
  = concat (map (fun c => with_missing (svalid c) (nth k (chunk_cols c) [])) (chunks p)).
Proof.
  intros Hwf Hnd Hk. destruct (wf_b_chunks p Hwf) as (_ & Hall).
  rewrite (abs_col_k p k (nth_error_lt _ _ _ Hk)). unfold abs. cbn [lvalidity].
  unfold with_missing. apply map2_concat. intros c Hc.
  destruct (chunk_flat_lists (ctype p) c k nt (Hall c Hc) Hnd Hk) as (_ & Hlen & _). symmetry. exact Hlen.
Qed.

(* per field: the list view with the validity of the struct applied, chunk by chunk = the field of the logical column
   with the missing rows marked *)
Lemma lists_col_exact p k nt : wf_b p = true -> NoDup (map fst (ctype p)) -> nth_error (ctype p) k = Some nt ->
  concat (map (fun c => match find (fun f => String.eqb (fname f) (fst nt)) (sc_flatten c) with
                        | Some f => la_lists (farr f) | None => [] end) (chunks p))
  = with_missing (lvalidity (abs p)) (nth k (lcols (abs p)) []).
Proof.
  intros Hwf Hnd Hk. destruct (wf_b_chunks p Hwf) as (_ & Hall).
  rewrite (with_missing_col p k nt Hwf Hnd Hk). f_equal.
  apply map_ext_in. intros c Hc.
  destruct (chunk_flat_lists (ctype p) c k nt (Hall c Hc) Hnd Hk) as (H & _). exact H.
Qed.

(* ---------- the theorems ---------- *)


(* NEW (m_to_lists now applies the validity of the struct): the list view EXACTLY - a missing row is a null list, a
   present row holds its list - from well-formedness alone (wf_b: no assumption on what the children of a missing row
   hold, so this covers the hidden-children layout too) *)
Theorem to_lists_fields_exact p fields : wf_b p = true -> chunks p <> [] -> NoDup (map fst (ctype p)) -> fields <> [] ->
  forallb (has_name (map fst (ctype p))) fields = true ->
  m_to_lists p fields = Ok (spec_lists_opt_fields (abs p) fields).
Proof.
  intros Hwf Hch Hnd Hne Hhas.
  unfold m_to_lists. rewrite (field_names_ok p Hch).
  destruct (length fields =? 0) eqn:El.
  { apply Nat.eqb_eq in El. destruct fields; [congruence|discriminate]. }
  rewrite Hhas. cbn [negb]. f_equal.
  unfold spec_lists_opt_fields, spec_lists_fields. change (lsch (abs p)) with (ctype p). rewrite map_map.
  rewrite forallb_forall in Hhas.
  apply map_ext_in. intros nm Hin.
  destruct (has_name_pos (ctype p) nm (Hhas nm Hin)) as (k & nt & Hfp & Hk & Hnt).
  rewrite Hfp. subst nm. apply (lists_col_exact p k nt Hwf Hnd Hk).
Qed.

Theorem to_lists_exact p : wf_b p = true -> chunks p <> [] -> NoDup (map fst (ctype p)) ->
  m_to_lists p (map fst (ctype p)) = Ok (map (with_missing (lvalidity (abs p))) (lcols (abs p))).
Proof.
  intros Hwf Hch Hnd. destruct (wf_b_chunks p Hwf) as (Hne & _).
  rewrite (to_lists_fields_exact p (map fst (ctype p)) Hwf Hch Hnd).
  - unfold spec_lists_opt_fields. rewrite (spec_lists_fields_all p Hnd). reflexivity.
  - destruct (ctype p); [congruence|discriminate].
  - apply has_name_all.
Qed.

(* reading a null list as [] gives back the logical lists (abs keeps [] for a missing row) *)
Lemma olist_with_missing p k : wf_b p = true -> k < length (ctype p) ->
  map (@olist val) (with_missing (lvalidity (abs p)) (nth k (lcols (abs p)) [])) = nth k (lcols (abs p)) [].
Proof.
  intros Hwf Hk. destruct (wf_b_chunks p Hwf) as (_ & Hall).
  rewrite (abs_col_k p k Hk). unfold abs. cbn [lvalidity].
  assert (Hc : forall c, In c (chunks p) ->
            length (svalid c) = length (nth k (chunk_cols c) [])
            /\ map (@olist val) (with_missing (svalid c) (nth k (chunk_cols c) [])) = nth k (chunk_cols c) []).
  { intros c Hin. destruct (Hall c Hin) as (Hw & Hlv).
    pose proof (chunk_nfields _ _ Hw) as Hn.
    destruct (nth_error (sfields c) k) as [f|] eqn:Ef; [|apply nth_error_None in Ef; lia].
    assert (Hf : In f (sfields c)) by (eapply nth_error_In; eauto).
    unfold chunk_cols. rewrite (nth_error_nth _ _ _ (map_nth_error _ _ _ Ef)).
    unfold wf_chunk_b in Hw. apply andb_true_iff in Hw as [_ Hw].
    rewrite forallb_forall in Hw. specialize (Hw f Hf).
    apply wf_larr_b_spec in Hw as (Ho & Hv & _ & _). unfold sc_len in *.
    unfold field_rows, la_lists. split.
    - symmetry. apply length_mask_lists; [exact Hv|]. rewrite length_cuts, Ho. lia.
    - apply olist_with_missing_gen. }
  unfold with_missing. rewrite map2_concat by (intros c Hin; apply (Hc c Hin)).
  rewrite concat_map_map, map_map. f_equal.
  apply map_ext_in. intros c Hin. apply (Hc c Hin).
Qed.

(* any subset of the fields in any order: the list view of the selected fields *)
Theorem to_lists_fields_refines p fields : inv_b p = true -> fields <> [] ->
  forallb (has_name (map fst (ctype p))) fields = true ->
  res_map (map (map (@olist val))) (m_to_lists p fields) = Ok (spec_lists_fields (abs p) fields).
Proof.
  intros Hinv Hne Hhas.
  destruct (inv_b_parts p Hinv) as (Hwf & _ & Hch & Hnd & _).
  rewrite (to_lists_fields_exact p fields Hwf Hch Hnd Hne Hhas). cbn [res_map]. f_equal.
  unfold spec_lists_opt_fields, spec_lists_fields. change (lsch (abs p)) with (ctype p). rewrite !map_map.
  rewrite forallb_forall in Hhas.
  apply map_ext_in. intros nm Hin.
  destruct (has_name_pos (ctype p) nm (Hhas nm Hin)) as (k & nt & Hfp & Hk & Hnt).
  rewrite Hfp. apply (olist_with_missing p k Hwf (nth_error_lt _ _ _ Hk)).
Qed.


(* the list view: per field, per row the list of that row (nothing for a missing row) *)
Theorem to_lists_refines p : inv_b p = true ->
  res_map (map (map (@olist val))) (m_to_lists p (map fst (ctype p))) = Ok (lcols (abs p)).
Proof.
  intros Hinv.
  destruct (inv_b_parts p Hinv) as (Hwf & _ & Hch & Hnd & (Hne & _)).
  rewrite <- (spec_lists_fields_all p Hnd).
  apply to_lists_fields_refines; [exact Hinv| |apply has_name_all].
  destruct (ctype p); [congruence|discriminate].
Qed.


(* the element view (iteration, to_numpy, item access): the rows of the logical column *)
Theorem rows_refines p : inv_b p = true -> m_rows p = rows_of (abs p).
Proof.
  intros H. pose proof (inv_wf p H) as Hwf.
  rewrite (abs_decode p Hwf), m_rows_dec.
  symmetry. apply rows_of_dec; [apply decode_shape|apply decode_valid]; exact Hwf.
Qed.

(* the flat view of any subset of the fields *)
Theorem to_flat_fields_refines p fields : inv_b p = true -> fields <> [] ->
  forallb (has_name (map fst (ctype p))) fields = true ->
  m_to_flat p fields = Ok (spec_offset_diffs (abs p), spec_flat_fields (abs p) fields).
Proof.
  intros Hinv Hne Hhas.
  destruct (inv_b_parts p Hinv) as (Hwf & Hnm & Hch & Hnd & Hok).
  pose proof Hok as (Hne' & Hall).
  assert (H0 : 0 < length (ctype p)) by (destruct (ctype p); [congruence|simpl; lia]).
  unfold m_to_flat. rewrite (field_names_ok p Hch).
  destruct (length fields =? 0) eqn:El.
  { apply Nat.eqb_eq in El. destruct fields; [congruence|discriminate]. }
  rewrite Hhas. cbn [negb].
  unfold m_flat_index_counts. pose proof (list_offsets_refines p Hok Hch) as HO.
  destruct (m_list_offsets p) as [lo|]; [|discriminate]. cbn [res_map] in HO. inversion HO as [HO'].
  cbn [res_map]. rewrite HO'.
  rewrite forallb_forall in Hhas.
  assert (Hcols : map (fun nm => concat (map (fun c => match sc_field c nm with
                                                        | Some f => la_flatten (farr f)
                                                        | None => [] end) (chunks p))) fields
                  = spec_flat_fields (abs p) fields).
  { unfold spec_flat_fields. change (lsch (abs p)) with (ctype p).
    apply map_ext_in. intros nm Hin.
    destruct (has_name_pos (ctype p) nm (Hhas nm Hin)) as (k & nt & Hfp & Hk & Hnt).
    rewrite Hfp. subst nm. apply (flat_col_refines' p k nt Hok Hnd Hk). }
  rewrite Hcols.
  assert (Hlen : length (spec_offset_diffs (abs p)) = m_len p).
  { unfold spec_offset_diffs. rewrite <- (abs_col_lengths p 0 Hok H0), map_length.
    rewrite (length_abs_col p 0 Hok H0), len_refines. reflexivity. }
  rewrite Hlen, Nat.eqb_refl. cbn [negb].
  assert (Hall' : forallb (fun col : list val => length col =? sum (spec_offset_diffs (abs p)))
                          (spec_flat_fields (abs p) fields) = true).
  { apply forallb_forall. intros col Hcol. apply Nat.eqb_eq.
    unfold spec_flat_fields in Hcol. change (lsch (abs p)) with (ctype p) in Hcol.
    apply in_map_iff in Hcol as (nm & <- & Hin).
    destruct (has_name_pos (ctype p) nm (Hhas nm Hin)) as (k & nt & Hfp & Hk & Hnt).
    rewrite Hfp. rewrite length_concat. f_equal.
    apply (abs_col_lengths p k Hok (nth_error_lt _ _ _ Hk)). }
  rewrite Hall'. reflexivity.
Qed.

(* ---------- import of list-of-structs chunks ---------- *)

(* constructor from list-of-structs chunks (also ones built by plain Arrow, sliced): one row per list, missing where the list
   is null; the result satisfies the invariant *)
Definition ls_schema_ok (sch : schema) (a : lsarr) : bool :=
  schema_eqb sch (map fst (ls_children a)).

Lemma svalid_transpose_ls a : svalid (m_transpose_ls a) = ls_valid a.
Proof.
  unfold m_transpose_ls, sc_from_arrays. cbn [svalid]. apply map_negb_negb.
Qed.

Lemma wf_ls_len a : wf_ls_b a = true -> length (ls_offs a) = S (length (ls_valid a)).
Proof.
  unfold wf_ls_b. rewrite !andb_true_iff. intros (((Hlen & _) & _) & _). apply Nat.eqb_eq. exact Hlen.
Qed.

(* the per-row reading of an imported chunk is the per-row reading of the list-of-structs chunk *)
Lemma chunk_rows_import a : wf_ls_b a = true -> chunk_rows (m_transpose_ls a) = ls_rows a.
Proof.
  intros H. rewrite <- (import_rows a H _ eq_refl).
  unfold chunk_rows, sc_len. symmetry.
  apply (map2_map_seq (fun (s : bool) (r : list (list val)) => if s then Some r else None) false
           (svalid (m_transpose_ls a))
           (fun i => map (fun col => nth i col []) (chunk_cols (m_transpose_ls a)))).
Qed.

Lemma import_cols_shape sch a : wf_ls_b a = true -> ls_schema_ok sch a = true ->
  cols_shape (length sch) (m_transpose_ls a).
Proof.
  intros Hwf Hs. pose proof (wf_ls_len a Hwf) as Hlen. split.
  - unfold ls_schema_ok, schema_eqb in Hs.
    apply (list_eqb_spec sfield_eqb sfield_eqb_spec) in Hs. rewrite Hs.
    unfold chunk_cols, m_transpose_ls, sc_from_arrays. cbn [sfields]. rewrite !map_length. reflexivity.
  - intros col Hin. unfold chunk_cols, sc_len in *. rewrite svalid_transpose_ls in *.
    unfold m_transpose_ls, sc_from_arrays in Hin. cbn [sfields] in Hin. rewrite !map_map in Hin.
    apply in_map_iff in Hin as (k & <- & Hk). cbn [farr fst snd].
    rewrite (field_rows_from_arrays _ _ _ Hlen).
    apply length_mask_rows. rewrite length_cuts, Hlen. lia.
Qed.

Theorem init_from_ls_rows sch cs : sch <> [] -> nodupb (map fst sch) = true -> cs <> [] ->
  forallb (fun a => wf_ls_b a && ls_schema_ok sch a) cs = true ->
  exists q, m_init_from_ls sch cs = Ok q /\ rows_of (abs q) = concat (map ls_rows cs).
Proof.
  intros Hne Hnd Hcs Hall. rewrite forallb_forall in Hall.
  exists {| ctype := sch; chunks := map m_transpose_ls cs |}. split.
  - unfold m_init_from_ls. apply m_init_false. cbn [chunks].
    destruct cs; [congruence|discriminate].
  - rewrite rows_of_abs_chunks.
    + rewrite map_map. f_equal. apply map_ext_in. intros a Ha.
      specialize (Hall a Ha). apply andb_true_iff in Hall as [Hw _].
      apply chunk_rows_import, Hw.
    + apply Forall_forall. intros c Hc. apply in_map_iff in Hc as (a & <- & Ha).
      specialize (Hall a Ha). apply andb_true_iff in Hall as [Hw Hs].
      apply import_cols_shape; assumption.
Qed.

Print Assumptions to_lists_refines.
Print Assumptions rows_refines.
Print Assumptions to_lists_fields_refines.
Print Assumptions to_lists_fields_exact.
Print Assumptions to_lists_exact.
Print Assumptions olist_with_missing.
Print Assumptions to_flat_fields_refines.
Print Assumptions init_from_ls_rows.
