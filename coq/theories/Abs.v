(* Abs.v — the logical object a nested column denotes, the abstraction function from the
   physical model, and the (boolean, executable) well-formedness predicates. *)
From Coq Require Import String List Arith Bool.
Import ListNotations.
From NP Require Import Base Values Arrow.

(* Logical nested column, field-major:
   lvalidity  : per row, is the row present (true) or missing (false)
   lcols      : per field (schema order), per row, the list of that row's values.
   A missing row holds [] in every field (canonical form). The per-row table of row i has
   record j = map (fun col => nth j (nth i col [])) lcols. *)
Record lcol := { lsch : schema; lvalidity : list bool; lcols : list (list (list val)) }.

Definition mask_rows (v : list bool) (ls : list (list val)) : list (list val) :=
  map2 (fun (b : bool) l => if b then l else []) v ls.

(* the rows of one field inside one chunk, missing rows blanked *)
Definition field_rows (sv : list bool) (l : larr) : list (list val) :=
  mask_rows sv (map olist (la_lists l)).

Definition chunk_cols (c : schunk) : list (list (list val)) :=
  map (fun f => field_rows (svalid c) (farr f)) (sfields c).

Definition abs (p : chunked) : lcol :=
  {| lsch := ctype p;
     lvalidity := concat (map svalid (chunks p));
     lcols := map (fun k => concat (map (fun c => nth k (chunk_cols c) []) (chunks p)))
                  (seq 0 (length (ctype p))) |}.

Definition lcol_eqb (a b : lcol) : bool :=
  schema_eqb (lsch a) (lsch b) && list_eqb Bool.eqb (lvalidity a) (lvalidity b)
  && list_eqb vll_eqb (lcols a) (lcols b).

(* per-row lengths of a logical column (first field; 0 when there is no field) *)
Definition lrow_lengths (c : lcol) : list nat :=
  match lcols c with col :: _ => map (@length val) col | [] => map (fun _ => 0) (lvalidity c) end.

Definition lcol_nrows (c : lcol) : nat := length (lvalidity c).

(* logical well-formedness: every field has one list per row, all fields agree on every
   row's length, missing rows hold nothing *)
Definition lcol_wf_b (c : lcol) : bool :=
  (length (lsch c) =? length (lcols c))
  && forallb (fun col => length col =? length (lvalidity c)) (lcols c)
  && forallb (fun col => list_eqb Nat.eqb (map (@length val) col) (lrow_lengths c)) (lcols c)
  && forallb (fun col => forallb2 (fun (b : bool) (l : list val) => b || (length l =? 0)) (lvalidity c) col) (lcols c).

(* ---------- physical well-formedness (boolean) ---------- *)

Definition wf_larr_b (n : nat) (l : larr) : bool :=
  (length (offs l) =? S n) && (length (lvalid l) =? n) && monob (offs l)
  && (last (offs l) 0 <=? length (child l)).

Definition wf_chunk_b (sch : schema) (c : schunk) : bool :=
  schema_eqb sch (sc_schema c) && forallb (fun f => wf_larr_b (sc_len c) (farr f)) (sfields c).

(* offsets counted from the first one (what the validator compares, what list_offsets returns) *)
Definition rebase (o : list nat) : list nat := map (fun x => x - hd 0 o) o.

(* what the library's validator checks: the offsets windows of all fields agree up to their base *)
Definition same_offsets_b (c : schunk) : bool :=
  match sfields c with
  | [] => true
  | f0 :: t => forallb (fun f => list_eqb Nat.eqb (rebase (offs (farr f0))) (rebase (offs (farr f)))) t
  end.

(* a present row has a valid (non-null) list in every field *)
Definition lists_valid_b (c : schunk) : bool :=
  forallb (fun f => forallb2 (fun (sv lv : bool) => implb sv lv) (svalid c) (lvalid (farr f))) (sfields c).

(* rows have the same length in every field, reading a null list and a missing row as 0 *)
Definition rect_b (c : schunk) : bool :=
  match chunk_cols c with
  | [] => true
  | c0 :: t => forallb (fun ci => list_eqb Nat.eqb (map (@length val) c0) (map (@length val) ci)) t
  end.

(* layout fact, NOT part of wf: a missing row has zero-length windows everywhere *)
Definition norm_missing_b (c : schunk) : bool :=
  forallb (fun f => forallb2 (fun (sv : bool) d => sv || (d =? 0)) (svalid c) (diffs (offs (farr f)))) (sfields c).

Definition wf_b (p : chunked) : bool :=
  negb (length (ctype p) =? 0)
  && forallb (fun c => wf_chunk_b (ctype p) c && same_offsets_b c && lists_valid_b c) (chunks p).

(* the weaker invariant that only demands rectangular rows (C01's reading) *)
Definition wf_rect_b (p : chunked) : bool :=
  negb (length (ctype p) =? 0)
  && forallb (fun c => wf_chunk_b (ctype p) c && rect_b c && lists_valid_b c) (chunks p).

Definition norm_missing_all_b (p : chunked) : bool := forallb norm_missing_b (chunks p).
