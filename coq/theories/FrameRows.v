(* FrameRows.v — a NestedFrame as pandas moves it: a list of columns, each taken / filtered / concatenated with the SAME
   indexer (that pandas implements every row selection and reordering - iloc, loc, boolean masks, sort_values on base
   columns, sort_index, head / tail, reindex, concat - by calling take / __getitem__ / _concat_same_type on every column with
   one indexer is the pandas contract).  A row of the frame = its base values together with its nested tables.
   Definitions only. *)
From Coq Require Import String List Arith Bool ZArith.
Import ListNotations.
From NP Require Import Base Values Arrow Abs Kernels Logical ExtArray.

Inductive fcolumn := FBase (vs : list val) | FNested (p : chunked).
Definition fframe := list (string * fcolumn).

(* one cell of one row *)
Inductive fcell := CVal (v : val) | CRow (r : lrow).
Definition col_cell (c : fcolumn) (i : nat) : fcell :=
  match c with
  | FBase vs => CVal (nth i vs VNull)
  | FNested p => CRow (nth i (rows_of (abs p)) None)
  end.
Definition frame_row (F : fframe) (i : nat) : list (string * fcell) := map (fun nc => (fst nc, col_cell (snd nc) i)) F.
Definition col_len (c : fcolumn) : nat := match c with FBase vs => length vs | FNested p => m_len p end.

(* take with in-range positions on every column *)
Definition col_take (c : fcolumn) (pos : list nat) : fcolumn :=
  match c with
  | FBase vs => FBase (map (fun i => nth i vs VNull) pos)
  | FNested p => FNested (k_take p (map Some pos))
  end.
Definition f_take (F : fframe) (pos : list nat) : fframe := map (fun nc => (fst nc, col_take (snd nc) pos)) F.

(* boolean selection *)
Definition col_filter (c : fcolumn) (m : list bool) : fcolumn :=
  match c with
  | FBase vs => FBase (mask_filter m vs)
  | FNested p => FNested (k_filter p m)
  end.
Definition f_filter (F : fframe) (m : list bool) : fframe := map (fun nc => (fst nc, col_filter (snd nc) m)) F.

Definition frame_ok (n : nat) (F : fframe) : bool :=
  forallb (fun nc => (col_len (snd nc) =? n) && match snd nc with FNested p => wf_b p && negb (length (chunks p) =? 0) | FBase _ => true end) F.
