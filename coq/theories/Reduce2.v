(* Reduce2.v — NestedFrame.reduce around the per-row calls (those are in Frame.v: m_reduce_calls), and the value
   dispatch of NestedFrame.__setitem__ for a dotted key.  Definitions only.

   reduce (nestedframe/core.py):
     * the ARGUMENT SCAN: the leading positional arguments that are strings naming a known column are the requested
       columns; the scan stops at the first argument that is not (not a string, or not a known column); everything
       from there on is handed to the user function unchanged, also a later string that spells a column;
     * INFER_NESTING: output columns named 'x.y' are packed: layers = np.unique of the text before the FIRST dot of
       every column holding a dot (sorted, distinct); for each layer in that order the columns starting with
       layer + '.' become the fields (text after the first dot, in column order) of ONE nested column, which is
       assigned under the layer's name (replacing a column of that name, else appended at the end); the other
       columns stay.
   __setitem__ with key 'nest.field' (core.py): a pandas Series that was not computed from a nest and whose index
   equals the frame's index is taken for ONE VALUE PER ROW (with_filled_field); every other value is flat
   (with_flat_field). *)
From Coq Require Import String List Arith Bool.
Import ListNotations.
From NP Require Import Base Values Dtype Names.

(* ---------- the argument scan ---------- *)
Inductive parg := AStr (s : str) | AOther (tag : nat).        (* a string, or any other object *)
Definition parg_eqb (a b : parg) : bool :=
  match a, b with AStr x, AStr y => str_eqb x y | AOther x, AOther y => x =? y | _, _ => false end.

Section Scan.
Variable known : str -> bool.       (* _is_known_column (_parse_hierarchical_components arg) *)
Fixpoint scan_args (args : list parg) : list str :=
  match args with
  | AStr s :: t => if known s then s :: scan_args t else []
  | _ => []
  end.
(* (requested columns, extra arguments); no requested column: ValueError *)
Definition m_reduce_split (args : list parg) : res (list str * list parg) :=
  match scan_args args with
  | [] => Err
  | cols => Ok (cols, skipn (length cols) args)
  end.
(* the specification: the longest prefix of known-column strings *)
Definition is_known_str (a : parg) : bool := match a with AStr s => known s | AOther _ => false end.
End Scan.

(* ---------- packing of dotted outputs ---------- *)
Definition layer_of (c : str) : str := hd [] (split1 DOT c []).          (* column.split('.', 1)[0] *)
Fixpoint after_dot (c : str) : str :=                                     (* column.split('.', 1)[1] *)
  match c with [] => [] | x :: t => if x =? DOT then t else after_dot t end.
Fixpoint starts_with (p s : str) : bool :=
  match p, s with
  | [], _ => true
  | a :: p', b :: s' => (a =? b) && starts_with p' s'
  | _ :: _, [] => false
  end.
(* np.unique on strings: ascending by code points, distinct *)
Fixpoint str_ltb (a b : str) : bool :=
  match a, b with
  | [], [] => false
  | [], _ :: _ => true
  | _ :: _, [] => false
  | x :: a', y :: b' => (x <? y) || ((x =? y) && str_ltb a' b')
  end.
Fixpoint ins_uniq (x : str) (l : list str) : list str :=
  match l with
  | [] => [x]
  | y :: t => if str_eqb x y then l else if str_ltb x y then x :: l else y :: ins_uniq x t
  end.
Definition np_unique (l : list str) : list str := fold_right ins_uniq [] l.

Inductive ocol := OBase (name : str) | ONest (layer : str) (fields : list str).
Definition ocol_name (c : ocol) : str := match c with OBase n => n | ONest l _ => l end.
Definition ocol_eqb (a b : ocol) : bool :=
  match a, b with
  | OBase x, OBase y => str_eqb x y
  | ONest l f, ONest l' f' => str_eqb l l' && list_eqb str_eqb f f'
  | _, _ => false
  end.

Definition pack_layer (cols : list ocol) (layer : str) : list ocol :=
  let pre := layer ++ [DOT] in
  let layer_cols := filter (fun c => starts_with pre (ocol_name c)) cols in
  let others := filter (fun c => negb (starts_with pre (ocol_name c))) cols in
  let nested := ONest layer (map (fun c => after_dot (ocol_name c)) layer_cols) in
  if existsb (fun c => str_eqb (ocol_name c) layer) others
  then map (fun c => if str_eqb (ocol_name c) layer then nested else c) others
  else others ++ [nested].
Definition layers (cols : list str) : list str := np_unique (map layer_of (filter (has_char DOT) cols)).
Definition m_infer_nesting (cols : list str) : list ocol := fold_left pack_layer (layers cols) (map OBase cols).

(* the specification, from the property: the plain outputs stay as they are, in order; every layer x (sorted) becomes
   one nested column holding, in column order, the fields y of the outputs 'x.y' *)
Definition fields_of_layer (cols : list str) (l : str) : list str :=
  map after_dot (filter (fun c => has_char DOT c && str_eqb (layer_of c) l) cols).
Definition spec_infer_nesting (cols : list str) : list ocol :=
  map OBase (filter (fun c => negb (has_char DOT c)) cols) ++ map (fun l => ONest l (fields_of_layer cols l)) (layers cols).

(* ---------- the value dispatch of frame['nest.field'] = value ---------- *)
Inductive route := RFilled | RFlat.
Definition m_setitem_route (is_series from_nest index_equal : bool) : route :=
  if is_series && negb from_nest && index_equal then RFilled else RFlat.
