(* Proofs_Norm.v — "a missing row holds nothing": what _drop_hidden_elements (m_drop_hidden, ExtArray.v) does.

   N1  drop_hidden_id (Proofs_Codec.v): a column whose missing rows hold nothing is left as it is.
   N2  drop_hidden_sound: for EVERY well-formed column the result is well-formed and normalised, denotes the same logical
       column and has as many chunks.  The parts: drop_hidden_abs_gen (only the schema of the chunks is needed),
       drop_hidden_norm_gen (schema + agreeing offsets; the lists of present rows may even be null),
       drop_hidden_inv (inv_b, given distinct field names and a chunk).
   A chunk with hidden elements is re-encoded from its decoded rows MASKED by the row validity (mask_rowsd:
   pc.if_else(valid, chunk, null) gives a missing row a null list in every field, whatever its lists were). *)
From Coq Require Import String List Arith Bool ZArith Lia.
Import ListNotations.
From NP Require Import Base Values Arrow Abs Kernels Logical ExtArray Codec Steps Proofs_Views Proofs_Codec.

(* ---------- a chunk without hidden elements (first field) is normalised (every field) ---------- *)

Lemma masked_sum_zero : forall (sv : list bool) ds, length sv = length ds ->
  sum (map2 (fun (s : bool) d => if s then 0 else d) sv ds) = 0 ->
  forallb2 (fun (s : bool) d => s || (d =? 0)) sv ds = true.
Proof.
  induction sv as [|s sv IH]; intros [|d ds] Hl H; cbn [length] in Hl; try discriminate; [reflexivity|].
  rewrite map2_cons in H. cbn [sum] in H. cbn [forallb2]. apply andb_true_iff. split.
  - destruct s; [reflexivity|]. cbn [orb]. apply Nat.eqb_eq. lia.
  - apply IH; lia.
Qed.

Lemma length_diffs o : length (diffs o) = length o - 1.
Proof. unfold diffs. rewrite map_length. apply length_adj. Qed.

Lemma field_diffs sch c f0 t f : wf_chunk_b sch c = true -> same_offsets_b c = true ->
  sfields c = f0 :: t -> In f (sfields c) -> diffs (offs (farr f)) = diffs (offs (farr f0)).
Proof.
  intros Hwf Hso Ef Hf.
  assert (Hf0 : In f0 (sfields c)) by (rewrite Ef; left; reflexivity).
  pose proof (wf_chunk_field sch c f Hwf Hf) as Hw. apply wf_larr_b_spec in Hw as (_ & _ & Hm & _).
  pose proof (wf_chunk_field sch c f0 Hwf Hf0) as Hw0. apply wf_larr_b_spec in Hw0 as (_ & _ & Hm0 & _).
  rewrite <- (diffs_rebase _ Hm), <- (diffs_rebase _ Hm0), (same_offsets_spec c f0 t f Ef Hso Hf). reflexivity.
Qed.

Lemma hidden_count_norm sch c : wf_chunk_b sch c = true -> same_offsets_b c = true ->
  hidden_count c = 0 -> norm_missing_b c = true.
Proof.
  intros Hwf Hso H. unfold hidden_count in H. unfold norm_missing_b.
  destruct (sfields c) as [|f0 t] eqn:Ef; [reflexivity|]. rewrite <- Ef.
  apply forallb_forall. intros f Hf. rewrite (field_diffs sch c f0 t f Hwf Hso Ef Hf).
  apply masked_sum_zero; [|exact H].
  assert (Hf0 : In f0 (sfields c)) by (rewrite Ef; left; reflexivity).
  pose proof (wf_chunk_field sch c f0 Hwf Hf0) as Hw0. apply wf_larr_b_spec in Hw0 as (Ho & _).
  rewrite length_diffs, Ho. lia.
Qed.

(* ---------- masking a decoded field by the row validity ---------- *)

Definition mask_col (sv : list bool) (col : list (option (list val))) : list (option (list val)) :=
  map2 (fun (b : bool) (o : option (list val)) => if b then o else None) sv col.

Lemma mask_rowsd_eq sv cols : mask_rowsd (sv, cols) = (sv, map (mask_col sv) cols).
Proof. reflexivity. Qed.

Lemma mask_col_cons b sv o col : mask_col (b :: sv) (o :: col) = (if b then o else None) :: mask_col sv col.
Proof. reflexivity. Qed.

Lemma length_mask_col sv col : length col = length sv -> length (mask_col sv col) = length sv.
Proof. intros H. unfold mask_col. apply map2_length. lia. Qed.

(* the logical column does not see the mask *)
Lemma mask_rows_mask_col : forall sv col,
  mask_rows sv (map (@olist val) (mask_col sv col)) = mask_rows sv (map (@olist val) col).
Proof.
  induction sv as [|b sv IH]; intros [|o col]; try reflexivity.
  rewrite mask_col_cons. cbn [map]. rewrite !mask_rows_cons, IH. destruct b; reflexivity.
Qed.

Lemma mask_col_valid : forall sv col,
  forallb2 (fun (s : bool) (o : option (list val)) => implb s (some_b o)) sv col = true ->
  forallb2 (fun (s : bool) (o : option (list val)) => implb s (some_b o)) sv (mask_col sv col) = true.
Proof.
  induction sv as [|b sv IH]; intros [|o col] H; cbn [forallb2] in H; try discriminate; [reflexivity|].
  apply andb_true_iff in H as [Ha H]. rewrite mask_col_cons. cbn [forallb2]. rewrite (IH col H), andb_true_r.
  destruct b; [exact Ha|reflexivity].
Qed.

Lemma mask_col_norm : forall sv col, length col = length sv ->
  forallb2 (fun (s : bool) (o : option (list val)) => s || (length (olist o) =? 0)) sv (mask_col sv col) = true.
Proof.
  induction sv as [|b sv IH]; intros [|o col] H; cbn [length] in H; try discriminate; [reflexivity|].
  rewrite mask_col_cons. cbn [forallb2]. rewrite IH by lia. destruct b; reflexivity.
Qed.

(* the per-row lengths of a masked field: the window's length for a present row, 0 for a missing one *)
Lemma dec_lens_masked : forall (sv lv : list bool) (cs : list (list val)),
  forallb2 (fun s l : bool => implb s l) sv lv = true -> length cs = length sv ->
  dec_lens (mask_col sv (map2 (fun c (v : bool) => if v then Some c else None) cs lv))
  = map2 (fun (s : bool) d => if s then d else 0) sv (map (@length val) cs).
Proof.
  induction sv as [|s sv IH]; intros [|l lv] [|c cs] H1 Hl; cbn [forallb2 length] in *; try discriminate; try reflexivity.
  apply andb_true_iff in H1 as [H1a H1]. rewrite map2_cons, mask_col_cons. unfold dec_lens in *. cbn [map].
  rewrite map2_cons. f_equal.
  - destruct s; [|reflexivity]. destruct l; [reflexivity|discriminate].
  - apply IH; [exact H1|lia].
Qed.

(* ---------- the re-encoded chunk ---------- *)

Definition one (sch : schema) (c : schunk) : chunked := {| ctype := sch; chunks := [c] |}.
Definition reenc (sch : schema) (c : schunk) : schunk :=
  {| svalid := svalid c; sfields := map2 mkf sch (map (mask_col (svalid c)) (decode_chunk c)) |}.

Lemma decode_one sch c : wf_chunk_b sch c = true -> decode (one sch c) = (svalid c, decode_chunk c).
Proof.
  intros Hwf. unfold decode, one. cbn [ctype chunks map concat]. rewrite app_nil_r. f_equal.
  rewrite <- (chunk_nfields sch c Hwf).
  replace (length (sfields c)) with (length (decode_chunk c)) by (unfold decode_chunk; apply map_length).
  etransitivity; [|apply (map_nth_seq_id [])]. apply map_ext. intros k. apply app_nil_r.
Qed.

Lemma renorm_chunk_eq sch c : wf_chunk_b sch c = true ->
  renorm_chunk sch c = [if hidden_count c =? 0 then c else reenc sch c].
Proof.
  intros Hwf. unfold renorm_chunk. destruct (hidden_count c =? 0); [reflexivity|].
  change {| ctype := sch; chunks := [c] |} with (one sch c). rewrite (decode_one sch c Hwf). reflexivity.
Qed.

(* what the logical column sees of the re-encoded chunk is what it saw of the original *)
Lemma reenc_cols sch c : wf_chunk_b sch c = true -> chunk_cols (reenc sch c) = chunk_cols c.
Proof.
  intros Hwf. unfold chunk_cols, reenc. cbn [sfields svalid].
  rewrite (map_map2_snd mkf (fun f => field_rows (svalid c) (farr f))
                        (fun ls => mask_rows (svalid c) (map (@olist val) ls))).
  - unfold decode_chunk. rewrite !map_map. apply map_ext. intros f. apply mask_rows_mask_col.
  - intros a b. unfold field_rows, mkf. cbn [farr]. rewrite la_lists_of_lists. reflexivity.
  - unfold decode_chunk. rewrite !map_length. symmetry. apply (chunk_nfields sch c Hwf).
Qed.

Lemma renorm_view sch c : wf_chunk_b sch c = true ->
  exists c', renorm_chunk sch c = [c'] /\ svalid c' = svalid c /\ chunk_cols c' = chunk_cols c.
Proof.
  intros Hwf. rewrite (renorm_chunk_eq sch c Hwf). destruct (hidden_count c =? 0).
  - exists c. auto.
  - exists (reenc sch c). split; [reflexivity|]. split; [reflexivity|]. apply (reenc_cols sch c Hwf).
Qed.

Lemma map_flat_map_single {A B} (g : A -> list A) (F : A -> B) : forall l,
  (forall x, In x l -> exists x', g x = [x'] /\ F x' = F x) -> map F (flat_map g l) = map F l.
Proof.
  induction l as [|x l IH]; intros H; [reflexivity|]. cbn [flat_map].
  destruct (H x (or_introl eq_refl)) as (x' & E1 & E2). rewrite E1. cbn [app map]. rewrite E2. f_equal.
  apply IH. intros y Hy. apply H. right. exact Hy.
Qed.

(* N2, the part that needs nothing but the shape of the chunks: the logical column does not change *)
Lemma drop_hidden_abs_gen p : (forall c, In c (chunks p) -> wf_chunk_b (ctype p) c = true) ->
  abs (m_drop_hidden p) = abs p.
Proof.
  intros Hc. unfold abs, m_drop_hidden. cbn [ctype chunks]. f_equal.
  - f_equal. apply map_flat_map_single. intros c Hin.
    destruct (renorm_view (ctype p) c (Hc c Hin)) as (c' & E1 & E2 & _). exists c'. auto.
  - apply map_ext. intros k. f_equal. apply map_flat_map_single. intros c Hin.
    destruct (renorm_view (ctype p) c (Hc c Hin)) as (c' & E1 & _ & E3). exists c'. rewrite E3. auto.
Qed.

Lemma drop_hidden_abs p : wf_b p = true -> abs (m_drop_hidden p) = abs p.
Proof.
  intros H. apply wf_b_spec in H as [_ Hc]. apply drop_hidden_abs_gen. intros c Hin. apply (Hc c Hin).
Qed.

Lemma drop_hidden_ctype p : ctype (m_drop_hidden p) = ctype p.
Proof. reflexivity. Qed.

Lemma drop_hidden_nchunks p : length (chunks (m_drop_hidden p)) = length (chunks p).
Proof.
  unfold m_drop_hidden. cbn [chunks]. induction (chunks p) as [|c cs IH]; [reflexivity|].
  cbn [flat_map]. rewrite app_length, IH. unfold renorm_chunk. destruct (hidden_count c =? 0); reflexivity.
Qed.

Lemma drop_hidden_chunks p : chunks p <> [] -> chunks (m_drop_hidden p) <> [].
Proof.
  intros H E. apply (f_equal (@length schunk)) in E. rewrite drop_hidden_nchunks in E.
  destruct (chunks p); [congruence|discriminate].
Qed.

Lemma drop_hidden_len p : m_len (m_drop_hidden p) = m_len p.
Proof.
  unfold m_len, ca_len, m_drop_hidden. cbn [chunks]. induction (chunks p) as [|c cs IH]; [reflexivity|].
  cbn [flat_map map sum]. rewrite map_app, sum_app, IH. f_equal.
  unfold renorm_chunk. destruct (hidden_count c =? 0); cbn [map sum]; [apply Nat.add_0_r|].
  unfold sc_len, encode, mask_rowsd, decode. cbn [chunks svalid fst map concat sum]. rewrite app_nil_r. apply Nat.add_0_r.
Qed.

(* ---------- the masked decoded chunk ---------- *)

Section ReEncode.
Variables (sch : schema) (c : schunk).
Hypothesis Hwf : wf_chunk_b sch c = true.

Let dm : rowsd := (svalid c, map (mask_col (svalid c)) (decode_chunk c)).

Lemma length_dec_field f : In f (sfields c) -> length (la_lists (farr f)) = length (svalid c).
Proof. intros Hf. apply length_la_lists. apply (wf_chunk_field sch c f Hwf Hf). Qed.

Lemma dm_shape : dec_shape_b (length sch) dm = true.
Proof.
  unfold dec_shape_b, dm, decode_chunk. cbn [fst snd]. rewrite !map_length, (chunk_nfields sch c Hwf), Nat.eqb_refl.
  cbn [andb]. rewrite map_map. rewrite forallb_map. apply forallb_forall. intros f Hf.
  apply Nat.eqb_eq. apply length_mask_col. apply (length_dec_field f Hf).
Qed.

Lemma dm_len : length sch = length (snd dm).
Proof. destruct (dec_shape_spec _ _ dm_shape) as [H _]. symmetry. exact H. Qed.

Lemma dm_norm : dec_norm_b dm = true.
Proof.
  unfold dec_norm_b, dm, decode_chunk. cbn [fst snd]. rewrite map_map, forallb_map. apply forallb_forall. intros f Hf.
  apply mask_col_norm. apply (length_dec_field f Hf).
Qed.

(* the re-encoded chunk has the declared schema and holds nothing under its missing rows: no premise but the schema *)
Lemma reenc_shape_norm : wf_chunk_b sch (reenc sch c) = true /\ norm_missing_b (reenc sch c) = true.
Proof.
  split.
  - apply (encode_wf_chunk sch dm dm_shape).
  - apply (encode_norm_missing sch dm dm_len dm_norm).
Qed.

Hypothesis Hso : same_offsets_b c = true.
Hypothesis Hlv : lists_valid_b c = true.

Lemma dm_valid : dec_valid_b dm = true.
Proof.
  unfold dec_valid_b, dm, decode_chunk. cbn [fst snd]. rewrite map_map, forallb_map. apply forallb_forall. intros f Hf.
  apply mask_col_valid. unfold la_lists.
  pose proof (wf_chunk_field sch c f Hwf Hf) as Hw. apply wf_larr_b_spec in Hw as (Ho & Hv & _).
  apply valid_lists; [|rewrite length_cuts; lia].
  unfold lists_valid_b in Hlv. rewrite forallb_forall in Hlv. apply (Hlv f Hf).
Qed.

Lemma dec_lens_field f : In f (sfields c) ->
  dec_lens (mask_col (svalid c) (la_lists (farr f)))
  = map2 (fun (s : bool) d => if s then d else 0) (svalid c) (diffs (offs (farr f))).
Proof.
  intros Hf. pose proof (wf_chunk_field sch c f Hwf Hf) as Hw. apply wf_larr_b_spec in Hw as (Ho & Hv & Hm & Hl).
  unfold la_lists. rewrite (dec_lens_masked (svalid c)).
  - rewrite (lengths_cuts _ _ Hm Hl). reflexivity.
  - unfold lists_valid_b in Hlv. rewrite forallb_forall in Hlv. apply (Hlv f Hf).
  - rewrite length_cuts, Ho. lia.
Qed.

Lemma dm_rect : dec_rect_b dm = true.
Proof.
  unfold dec_rect_b, dm, decode_chunk. cbn [snd].
  destruct (sfields c) as [|f0 t] eqn:Ef; [reflexivity|]. cbn [map].
  apply forallb_forall. intros col Hin. rewrite map_map in Hin. apply in_map_iff in Hin as (f & <- & Hf).
  assert (Hf0 : In f0 (sfields c)) by (rewrite Ef; left; reflexivity).
  assert (Hf' : In f (sfields c)) by (rewrite Ef; right; exact Hf).
  rewrite (dec_lens_field f0 Hf0), (dec_lens_field f Hf'), (field_diffs sch c f0 t f Hwf Hso Ef Hf').
  apply list_eqb_nat_refl.
Qed.

Lemma reenc_ok : wf_chunk_b sch (reenc sch c) = true /\ same_offsets_b (reenc sch c) = true
  /\ lists_valid_b (reenc sch c) = true /\ norm_missing_b (reenc sch c) = true.
Proof.
  destruct reenc_shape_norm as (R1 & R4). repeat split; try assumption.
  - apply (encode_same_offsets sch dm dm_rect).
  - apply (encode_lists_valid sch dm dm_len dm_valid).
Qed.

End ReEncode.

(* ---------- N2 ---------- *)

(* normalisation needs the schema and the agreement of the offsets only (what pyarrow and the validator give) *)
Lemma drop_hidden_norm_gen p :
  (forall c, In c (chunks p) -> wf_chunk_b (ctype p) c = true /\ same_offsets_b c = true) ->
  norm_missing_all_b (m_drop_hidden p) = true.
Proof.
  intros Hc. unfold norm_missing_all_b. apply forallb_forall. intros c' Hin.
  unfold m_drop_hidden in Hin. cbn [chunks] in Hin. apply in_flat_map in Hin as (c & Hcin & Hin).
  destruct (Hc c Hcin) as (H1 & H2).
  rewrite (renorm_chunk_eq (ctype p) c H1) in Hin. destruct Hin as [<-|[]].
  destruct (hidden_count c =? 0) eqn:E.
  - apply Nat.eqb_eq in E. apply (hidden_count_norm (ctype p) c H1 H2 E).
  - apply (reenc_shape_norm (ctype p) c H1).
Qed.

Theorem drop_hidden_sound p : wf_b p = true ->
  wf_b (m_drop_hidden p) = true /\ norm_missing_all_b (m_drop_hidden p) = true
  /\ abs (m_drop_hidden p) = abs p /\ (chunks p <> [] -> chunks (m_drop_hidden p) <> []).
Proof.
  intros Hwf. pose proof (drop_hidden_abs p Hwf) as Habs.
  pose proof (wf_b_spec p Hwf) as [Hne Hc].
  repeat split.
  - unfold wf_b. rewrite drop_hidden_ctype. apply andb_true_iff. split.
    + destruct (ctype p); [congruence|reflexivity].
    + apply forallb_forall. intros c' Hin.
      unfold m_drop_hidden in Hin. cbn [chunks] in Hin. apply in_flat_map in Hin as (c & Hcin & Hin).
      destruct (Hc c Hcin) as (H1 & H2 & H3).
      rewrite (renorm_chunk_eq (ctype p) c H1) in Hin. destruct Hin as [<-|[]].
      destruct (hidden_count c =? 0).
      * rewrite H1, H2, H3. reflexivity.
      * destruct (reenc_ok (ctype p) c H1 H2 H3) as (R1 & R2 & R3 & _). rewrite R1, R2, R3. reflexivity.
  - apply drop_hidden_norm_gen. intros c Hin. destruct (Hc c Hin) as (H1 & H2 & _). auto.
  - exact Habs.
  - apply drop_hidden_chunks.
Qed.

(* with distinct field names and a chunk: the whole invariant *)
Lemma drop_hidden_inv p : wf_b p = true -> chunks p <> [] ->
  nodupb (map fst (ctype p)) = true -> inv_b (m_drop_hidden p) = true.
Proof.
  intros Hwf Hch Hnd. destruct (drop_hidden_sound p Hwf) as (H1 & H2 & _ & H4).
  unfold inv_b. rewrite H1, H2, drop_hidden_ctype, Hnd. cbn [andb]. rewrite andb_true_r.
  specialize (H4 Hch). destruct (chunks (m_drop_hidden p)); [congruence|reflexivity].
Qed.

(* ---------- the inputs that the first model of the repair (re-encoding WITHOUT the mask) did not normalise ----------
   a missing row hiding a VALID non-empty list, and one hiding a valid list in one field and a null list in another:
   both are now re-encoded into a well-formed, normalised chunk denoting the same logical column *)
Definition cx_hidden_valid : chunked :=
  {| ctype := [("a"%string, TI64)];
     chunks := [ {| svalid := [false];
                    sfields := [ {| fname := "a"%string; fty := TI64;
                                    farr := {| offs := [0; 2]; lvalid := [true]; child := [VInt 1; VInt 2] |} |} ] |} ] |}.
Definition cx_hidden_mixed : chunked :=
  {| ctype := [("a"%string, TI64); ("b"%string, TI64)];
     chunks := [ {| svalid := [false];
                    sfields := [ {| fname := "a"%string; fty := TI64;
                                    farr := {| offs := [0; 2]; lvalid := [true]; child := [VInt 1; VInt 2] |} |};
                                 {| fname := "b"%string; fty := TI64;
                                    farr := {| offs := [0; 2]; lvalid := [false]; child := [VInt 1; VInt 2] |} |} ] |} ] |}.
Example hidden_valid_list_dropped :
  wf_b cx_hidden_valid = true /\ norm_missing_all_b cx_hidden_valid = false
  /\ m_init cx_hidden_valid true = Ok (m_drop_hidden cx_hidden_valid)
  /\ wf_b (m_drop_hidden cx_hidden_valid) = true /\ norm_missing_all_b (m_drop_hidden cx_hidden_valid) = true
  /\ abs (m_drop_hidden cx_hidden_valid) = abs cx_hidden_valid.
Proof. repeat split; reflexivity. Qed.
Example hidden_mixed_lists_dropped :
  wf_b cx_hidden_mixed = true /\ norm_missing_all_b cx_hidden_mixed = false
  /\ m_init cx_hidden_mixed true = Ok (m_drop_hidden cx_hidden_mixed)
  /\ wf_b (m_drop_hidden cx_hidden_mixed) = true /\ norm_missing_all_b (m_drop_hidden cx_hidden_mixed) = true
  /\ abs (m_drop_hidden cx_hidden_mixed) = abs cx_hidden_mixed.
Proof. repeat split; reflexivity. Qed.

(* why m_init_chunks (Proofs_Codec.v) asks for a normalised column: validation alone does not mean "kept as it is" *)
Example m_init_chunks_needs_norm :
  chunks cx_hidden_valid <> [] /\ m_validate cx_hidden_valid = true /\ m_init cx_hidden_valid true <> Ok cx_hidden_valid.
Proof. split; [discriminate|]. split; [reflexivity|]. vm_compute. discriminate. Qed.

Print Assumptions drop_hidden_id.
Print Assumptions drop_hidden_abs.
Print Assumptions drop_hidden_norm_gen.
Print Assumptions drop_hidden_sound.
Print Assumptions drop_hidden_inv.
