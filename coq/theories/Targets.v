(* Targets.v — which layer dropna and sort_values work on (nestedframe/core.py: _resolve_dropna_target, the head of
   sort_values), as a function of what the path arguments resolve to.  A layer is the base layer or the k-th nested
   column.  Definitions only.

   dropna(on_nested=..., subset=...):
     * every subset entry is parsed: a path without '.' belongs to the base layer; a dotted path belongs to the nested
       column named by its first component - if that is not a nested column the call is refused AT THAT ENTRY;
     * np.unique of the entries' layers: more than one layer is refused; an EMPTY list given as subset is falsy and counts
       as "no subset";
     * on_nested naming something that is not a nested column is refused;
     * both given: they must agree; one given: that one; none: the base layer.
   sort_values(by=...): a key that is a known 'nest.field' path belongs to that nest, any other key to the base layer;
   np.unique of the layers: more than one is refused.  For a nested layer the ordinal row number is added as the FIRST key,
   always ascending: ascending=b becomes [True, b, b, ...], ascending=[b1, ...] becomes [True, b1, ...]. *)
From Coq Require Import List Arith Bool.
Import ListNotations.
From NP Require Import Base Values.

Inductive layer := LBase | LNest (k : nat).
Definition layer_eqb (a b : layer) : bool :=
  match a, b with LBase, LBase => true | LNest x, LNest y => x =? y | _, _ => false end.

(* a subset entry as the parser sees it: Some layer, or None = dotted path whose first component is no nested column *)
Definition sentry := option layer.

Fixpoint entries_layers (es : list sentry) : res (list layer) :=
  match es with
  | [] => Ok []
  | None :: _ => Err
  | Some l :: t => match entries_layers t with Ok r => Ok (l :: r) | Err => Err end
  end.
Fixpoint dedupe_layers (l : list layer) : list layer :=
  match l with [] => [] | x :: t => x :: filter (fun y => negb (layer_eqb x y)) (dedupe_layers t) end.

(* on_nested: None = not given (False); Some None = given, not a nested column; Some (Some k) = the k-th nested column *)
Definition m_dropna_target (on_nested : option (option nat)) (subset : option (list sentry)) : res layer :=
  let st : res (option layer) :=
    match subset with
    | None | Some [] => Ok None
    | Some es => match entries_layers es with
                 | Err => Err
                 | Ok ls => match dedupe_layers ls with [l] => Ok (Some l) | _ => Err end
                 end
    end in
  match st with
  | Err => Err
  | Ok st =>
      match on_nested with
      | Some None => Err
      | Some (Some k) => match st with
                         | Some l => if layer_eqb l (LNest k) then Ok l else Err
                         | None => Ok (LNest k)
                         end
      | None => match st with Some l => Ok l | None => Ok LBase end
      end
  end.

Definition m_sort_target (keys : list layer) : res layer :=
  match dedupe_layers keys with [l] => Ok l | _ => Err end.

Inductive asc := AscBool (b : bool) | AscList (bs : list bool).
(* the ascending flags handed to pandas for a NESTED layer, n keys *)
Definition m_sort_ascending (a : asc) (n : nat) : list bool :=
  match a with AscBool b => true :: repeat b n | AscList bs => true :: bs end.
