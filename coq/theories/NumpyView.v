(* NumpyView.v — NestedExtensionArray.iter_field_lists (series/ext_array.py): the per-row numpy arrays that
   NestedFrame.reduce hands to the user function.  Definitions only.

   For every chunk: pa.compute.struct_field(chunk, field) (the list child WITH the validity of the struct), then for
   every list scalar np.asarray(list_scalar.values).  What numpy makes of ONE Arrow list (pyarrow 25 to_numpy with
   zero_copy_only=False):
     list<int64>      no null -> int64          a null -> float64 (null = NaN, integers rounded to doubles)
     list<double>     float64 (null = NaN)
     list<bool>       no null -> bool           a null -> object (None)
     list<string>     object
     list<timestamp>  datetime64[ns] (null = NaT)
   and a NULL list (a missing row) is np.asarray(None): a 0-d object array.  The dtype of a row is decided by THAT row
   alone: a conversion of the whole chunk at once (list_array.to_numpy(), or values converted once and sliced) lets a
   null anywhere in the chunk decide the dtype of every row of the chunk - m_iter_chunkwise below, refuted as a
   layout dependence in Proofs_NumpyView. *)
From Coq Require Import String List Arith Bool ZArith.
Import ListNotations.
From NP Require Import Base Values Arrow Abs ExtArray Logical.

Inductive npdtype := DInt64 | DFloat64 | DBool | DObject | DDatetime | DOtherT.
Definition npdtype_eqb (a b : npdtype) : bool :=
  match a, b with
  | DInt64, DInt64 | DFloat64, DFloat64 | DBool, DBool | DObject, DObject | DDatetime, DDatetime | DOtherT, DOtherT => true
  | _, _ => false
  end.

Definition has_null (vs : list val) : bool := existsb is_null vs.
Definition np_dtype (t : ety) (nulls : bool) : npdtype :=
  match t with
  | TI64 => if nulls then DFloat64 else DInt64
  | TF64 => DFloat64
  | TBool => if nulls then DObject else DBool
  | TStr => DObject
  | TTs => DDatetime
  | TOther _ => DOtherT
  end.

(* an integer that went through a double: exact below 2^53, otherwise only "some rounded double" is known *)
Definition ROUNDED : Z := (2 ^ 67)%Z.
Definition via_double (v : val) : val :=
  match v with
  | VInt z => if (Z.abs z <? 2 ^ 53)%Z then VInt z else VTok ROUNDED
  | _ => v
  end.
Definition np_values (t : ety) (nulls : bool) (vs : list val) : list val :=
  match t with
  | TI64 => if nulls then map via_double vs else vs
  | _ => vs
  end.

(* one row as numpy: None = the 0-d object array holding None *)
Definition nprow := option (npdtype * list val).
Definition np_row_with (t : ety) (nulls : bool) (vs : list val) : npdtype * list val := (np_dtype t nulls, np_values t nulls vs).
Definition np_row (t : ety) (o : option (list val)) : nprow := option_map (fun vs => np_row_with t (has_null vs) vs) o.

Definition field_type (sch : schema) (nm : string) : option ety :=
  option_map snd (find (fun nt => String.eqb (fst nt) nm) sch).

(* the generator of the library; an unknown field raises at the first chunk *)
Definition m_iter_field_lists (p : chunked) (nm : string) : res (list nprow) :=
  match m_to_lists p [nm], field_type (ctype p) nm with
  | Ok [col], Some t => Ok (map (np_row t) col)
  | _, _ => Err
  end.

(* the specification: row by row from the logical column *)
Definition spec_iter_field_lists (L : lcol) (nm : string) : res (list nprow) :=
  match field_pos (lsch L) nm, field_type (lsch L) nm with
  | Some k, Some t => Ok (map (np_row t) (with_missing (lvalidity L) (nth k (lcols L) [])))
  | _, _ => Err
  end.

(* ---- the whole-chunk conversion (NOT what the library does): one dtype per chunk ---- *)
Definition chunk_rows (c : schunk) (nm : string) : list (option (list val)) :=
  match find (fun f => String.eqb (fname f) nm) (sc_flatten c) with
  | Some f => la_lists (farr f)
  | None => []
  end.
Definition m_iter_chunkwise (p : chunked) (nm : string) : res (list nprow) :=
  match field_type (ctype p) nm with
  | None => Err
  | Some t =>
      Ok (concat (map (fun c => let rows := chunk_rows c nm in
                                let nulls := has_null (concat (map (@olist val) rows)) in
                                map (option_map (np_row_with t nulls)) rows) (chunks p)))
  end.
