(* Box.v — how ONE offered table becomes a row of a nested column (NestedExtensionArray._box_pa_scalar /
   convert_df_to_pa_scalar: pa.scalar(dict, type=struct)): the table's columns are matched to the fields of the column BY NAME;
   the order of the table's columns does not matter; a missing column, an extra column, a repeated column: refused.
   Definitions only. *)
From Coq Require Import String List Arith Bool.
Import ListNotations.
From NP Require Import Base Values.

Definition table := list (string * list val).        (* the offered columns, in the order they were offered *)

Fixpoint lookup (nm : string) (t : table) : option (list val) :=
  match t with
  | [] => None
  | (k, v) :: r => if String.eqb k nm then Some v else lookup nm r
  end.
Fixpoint all_some {A} (l : list (option A)) : option (list A) :=
  match l with
  | [] => Some []
  | None :: _ => None
  | Some x :: r => option_map (cons x) (all_some r)
  end.
Fixpoint nodup_names (l : list string) : bool :=
  match l with [] => true | x :: r => negb (existsb (String.eqb x) r) && nodup_names r end.

(* the boxed row: per field of the column (in the column's order) the values offered under that name *)
Definition m_box (fields : list string) (t : table) : res (list (list val)) :=
  if negb (length t =? length fields) || negb (nodup_names (map fst t)) then Err else
  match all_some (map (fun f => lookup f t) fields) with
  | Some row => Ok row
  | None => Err
  end.

(* what boxing by POSITION would do (not what the library does) *)
Definition m_box_positional (fields : list string) (t : table) : res (list (list val)) :=
  if negb (length t =? length fields) then Err else Ok (map snd t).
