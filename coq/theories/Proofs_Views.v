(* Proofs_Views.v — refinement lemmas behind C03: each modelled view of a physical column
   equals the corresponding function of the logical column abs p, for every well-formed
   layout (any number of chunks, any offsets base, any size). *)
From Coq Require Import String List Arith Bool ZArith Lia.
Import ListNotations.
From NP Require Import Base Values Arrow Abs Kernels ExtArray Logical.

(* ---------- generic list facts ---------- *)

Lemma map2_nil_l {A B C} (f : A -> B -> C) l : map2 f [] l = [].
Proof. reflexivity. Qed.
Lemma map2_cons {A B C} (f : A -> B -> C) x l y m : map2 f (x :: l) (y :: m) = f x y :: map2 f l m.
Proof. reflexivity. Qed.
Lemma map2_length {A B C} (f : A -> B -> C) : forall l m, length l = length m -> length (map2 f l m) = length l.
Proof. intros l m H. unfold map2. rewrite map_length, combine_length. lia. Qed.

Lemma forallb2_length {A B} (f : A -> B -> bool) : forall l m, forallb2 f l m = true -> length l = length m.
Proof.
  induction l as [|x l IH]; intros [|y m] H; simpl in *; try discriminate; [reflexivity|].
  apply andb_true_iff in H as [_ H]. f_equal. apply IH, H.
Qed.

Lemma concat_map_map {A B} (f : A -> B) (ll : list (list A)) :
  map f (concat ll) = concat (map (map f) ll).
Proof. apply concat_map. Qed.

Lemma sum_app l1 l2 : sum (l1 ++ l2) = sum l1 + sum l2.
Proof. induction l1; simpl; lia. Qed.

Lemma sum_concat ll : sum (concat ll) = sum (map sum ll).
Proof. induction ll as [|l t IH]; simpl; [reflexivity|]. rewrite sum_app, IH. reflexivity. Qed.

Lemma length_concat {A} (ll : list (list A)) : length (concat ll) = sum (map (@length A) ll).
Proof. induction ll as [|l t IH]; simpl; [reflexivity|]. rewrite app_length, IH. reflexivity. Qed.

(* ---------- offsets windows ---------- *)

Lemma adj_bounds : forall o m, mono o -> last o 0 <= m ->
  Forall (fun w => fst w <= snd w /\ snd w <= m) (adj o).
Proof.
  induction o as [|a [|b t] IH]; intros m Hm Hl; simpl; try constructor.
  - simpl in Hm. destruct Hm as [Hab Hm]. simpl. split; [exact Hab|].
    assert (Hb : b <= last t b) by (apply mono_le_last; exact Hm).
    change (last (a :: b :: t) 0) with (last (b :: t) 0) in Hl.
    rewrite last_cons_default in Hl. lia.
  - apply IH.
    + simpl in Hm. tauto.
    + exact Hl.
Qed.

Lemma lengths_cuts : forall o (child : list val), mono o -> last o 0 <= length child ->
  map (@length val) (cuts o child) = diffs o.
Proof.
  intros o child Hm Hl. unfold cuts, diffs. rewrite map_map.
  apply map_ext_in. intros [a b] Hin.
  pose proof (adj_bounds o (length child) Hm Hl) as HB. rewrite Forall_forall in HB.
  specialize (HB _ Hin). simpl in *. apply length_slice; tauto.
Qed.

Lemma mono_ge_hd : forall t a x, mono (a :: t) -> In x (a :: t) -> a <= x.
Proof.
  induction t as [|b t IH]; intros a x Hm [<-|Hin]; try lia; [destruct Hin|].
  destruct Hm as [Hab Hm]. specialize (IH b x Hm Hin). lia.
Qed.

Lemma diffs_map_sub : forall o h, mono o -> (forall x, In x o -> h <= x) ->
  diffs (map (fun x => x - h) o) = diffs o.
Proof.
  induction o as [|a [|b t] IH]; intros h Hm Hge; try reflexivity.
  change (map (fun x => x - h) (a :: b :: t)) with ((a - h) :: (b - h) :: map (fun x => x - h) t).
  rewrite !diffs_cons2. f_equal.
  - assert (h <= a) by (apply Hge; left; reflexivity).
    assert (h <= b) by (apply Hge; right; left; reflexivity). destruct Hm as [Hab _]. lia.
  - apply (IH h); [apply (mono_tail _ _ Hm)|]. intros x Hx. apply Hge. right. exact Hx.
Qed.

Lemma diffs_rebase o : mono o -> diffs (rebase o) = diffs o.
Proof.
  intros Hm. unfold rebase. destruct o as [|a t]; [reflexivity|].
  apply diffs_map_sub; [exact Hm|]. intros x Hx. simpl hd. apply (mono_ge_hd t a x Hm Hx).
Qed.

Lemma wf_larr_b_spec n l : wf_larr_b n l = true ->
  length (offs l) = S n /\ length (lvalid l) = n /\ mono (offs l) /\ last (offs l) 0 <= length (child l).
Proof.
  unfold wf_larr_b. rewrite !andb_true_iff, !Nat.eqb_eq, Nat.leb_le, monob_spec. tauto.
Qed.

(* ---------- one field of one chunk ---------- *)

(* under lists_valid and norm_missing, the masked python rows are exactly the cuts *)
Lemma mask_rows_cuts : forall (sv lv : list bool) (cs : list (list val)),
  forallb2 (fun (s l : bool) => implb s l) sv lv = true ->
  forallb2 (fun (s : bool) (c : list val) => s || (length c =? 0)) sv cs = true ->
  mask_rows sv (map (@olist val) (map2 (fun c (v : bool) => if v then Some c else None) cs lv)) = cs.
Proof.
  induction sv as [|s sv IH]; intros [|l lv] [|c cs] H1 H2; cbn [forallb2] in *; try discriminate; try reflexivity.
  apply andb_true_iff in H1 as [H1a H1]. apply andb_true_iff in H2 as [H2a H2].
  rewrite map2_cons. cbn [map]. unfold mask_rows in *. rewrite map2_cons. f_equal.
  - destruct s; simpl in *.
    + destruct l; [reflexivity|discriminate].
    + apply Nat.eqb_eq in H2a. destruct c; [reflexivity|discriminate].
  - apply IH; assumption.
Qed.

Definition field_ok (sv : list bool) (l : larr) : Prop :=
  wf_larr_b (length sv) l = true
  /\ forallb2 (fun (s v : bool) => implb s v) sv (lvalid l) = true
  /\ forallb2 (fun (s : bool) d => s || (d =? 0)) sv (diffs (offs l)) = true.

Lemma forallb2_map_r {A B C} (f : A -> C -> bool) (g : B -> C) : forall l m,
  forallb2 f l (map g m) = forallb2 (fun a b => f a (g b)) l m.
Proof.
  induction l as [|x l IH]; intros [|y m]; simpl; try reflexivity. rewrite IH. reflexivity.
Qed.

Lemma field_rows_cuts sv l : field_ok sv l ->
  field_rows sv l = cuts (offs l) (child l).
Proof.
  intros (Hwf & Hlv & Hnm). apply wf_larr_b_spec in Hwf as (Ho & Hv & Hm & Hl).
  unfold field_rows, la_lists. apply mask_rows_cuts; [exact Hlv|].
  rewrite <- (lengths_cuts (offs l) (child l) Hm Hl) in Hnm.
  rewrite forallb2_map_r in Hnm. exact Hnm.
Qed.

Lemma field_rows_lengths sv l : field_ok sv l ->
  map (@length val) (field_rows sv l) = diffs (offs l).
Proof.
  intros H. rewrite (field_rows_cuts sv l H).
  destruct H as (Hwf & _). apply wf_larr_b_spec in Hwf as (_ & _ & Hm & Hl).
  apply lengths_cuts; assumption.
Qed.

Lemma length_field_rows sv l : field_ok sv l -> length (field_rows sv l) = length sv.
Proof.
  intros H. rewrite (field_rows_cuts sv l H). destruct H as (Hwf & _).
  apply wf_larr_b_spec in Hwf as (Ho & _). rewrite length_cuts, Ho. lia.
Qed.

(* flatten of a ListArray = concatenation of its python lists (null lists contribute nothing) *)
Lemma la_flatten_spec l n : wf_larr_b n l = true ->
  la_flatten l = concat (map (@olist val) (la_lists l)).
Proof.
  intros Hwf. apply wf_larr_b_spec in Hwf as (Ho & Hv & Hm & Hl).
  unfold la_flatten, la_lists.
  destruct (forallb (fun b : bool => b) (lvalid l)) eqn:Hall.
  - (* no null list: the plain slice *)
    assert (E : map (@olist val) (map2 (fun c (v : bool) => if v then Some c else None) (cuts (offs l) (child l)) (lvalid l))
                = cuts (offs l) (child l)).
    { assert (Hlen : length (cuts (offs l) (child l)) = length (lvalid l)) by (rewrite length_cuts; lia).
      revert Hlen Hall. generalize (cuts (offs l) (child l)) as cs. generalize (lvalid l) as lv.
      induction lv as [|v lv IH]; intros [|c cs] Hlen Hall; cbn [forallb length] in *; try discriminate; try reflexivity.
      apply andb_true_iff in Hall as [Hv' Hall]. subst v. rewrite map2_cons. cbn [map olist]. f_equal.
      apply IH; [lia|exact Hall]. }
    rewrite E. destruct (offs l) as [|a o] eqn:Eo; [simpl in Ho; lia|].
    rewrite concat_cuts by exact Hm. simpl hd.
    replace (last (a :: o) 0) with (last o a); [reflexivity|].
    destruct o; [reflexivity|]. symmetry. apply last_cons_default.
  - (* some null list: concatenation of the valid ranges *)
    f_equal.
    generalize (cuts (offs l) (child l)) as cs. generalize (lvalid l) as lv.
    induction lv as [|v lv IH]; intros [|c cs]; try reflexivity.
    rewrite !map2_cons. simpl. f_equal; [destruct v; reflexivity|apply IH].
Qed.

(* ---------- chunks ---------- *)

Definition chunk_ok (sch : schema) (c : schunk) : Prop :=
  wf_chunk_b sch c = true /\ same_offsets_b c = true /\ lists_valid_b c = true /\ norm_missing_b c = true.

Lemma chunk_field_ok sch c f : chunk_ok sch c -> In f (sfields c) -> field_ok (svalid c) (farr f).
Proof.
  intros (Hwf & _ & Hlv & Hnm) Hin. unfold wf_chunk_b in Hwf. apply andb_true_iff in Hwf as [_ Hwf].
  unfold field_ok, sc_len, lists_valid_b, norm_missing_b in *.
  rewrite forallb_forall in Hwf, Hlv, Hnm. auto.
Qed.

Lemma chunk_schema sch c : wf_chunk_b sch c = true -> sc_schema c = sch.
Proof.
  unfold wf_chunk_b. intros H. apply andb_true_iff in H as [H _].
  symmetry. apply (list_eqb_spec sfield_eqb sfield_eqb_spec). exact H.
Qed.

Lemma chunk_nfields sch c : wf_chunk_b sch c = true -> length (sfields c) = length sch.
Proof. intros H. rewrite <- (chunk_schema sch c H). unfold sc_schema. rewrite map_length. reflexivity. Qed.

Definition col_ok (p : chunked) : Prop :=
  ctype p <> [] /\ Forall (chunk_ok (ctype p)) (chunks p).

Lemma wf_b_col_ok p : wf_b p = true -> norm_missing_all_b p = true -> col_ok p.
Proof.
  unfold wf_b, norm_missing_all_b, col_ok. intros H N. apply andb_true_iff in H as [H1 H2].
  split.
  - destruct (ctype p); [discriminate|congruence].
  - apply Forall_forall. intros c Hc. rewrite forallb_forall in H2, N.
    specialize (H2 c Hc). specialize (N c Hc). apply andb_true_iff in H2 as [H2 H3].
    apply andb_true_iff in H2 as [H2 H4]. unfold chunk_ok. tauto.
Qed.

(* the first field of a well-formed chunk exists *)
Lemma chunk_first_field sch c : sch <> [] -> wf_chunk_b sch c = true ->
  exists f0 t, sfields c = f0 :: t.
Proof.
  intros Hne Hwf. pose proof (chunk_nfields sch c Hwf) as Hn.
  destruct (sfields c) as [|f0 t]; [destruct sch; [congruence|discriminate]|eauto].
Qed.

(* ---------- C03 theorems on the model ---------- *)

Lemma len_refines p : m_len p = spec_len (abs p).
Proof.
  unfold m_len, ca_len, spec_len, lcol_nrows, abs. simpl.
  rewrite length_concat, map_map. reflexivity.
Qed.

Lemma isna_refines p : m_isna p = spec_isna (abs p).
Proof. reflexivity. Qed.

Lemma masked_diffs : forall (sv : list bool) ds,
  forallb2 (fun (s : bool) d => s || (d =? 0)) sv ds = true ->
  map2 (fun d (v : bool) => if v then d else 0) ds sv = ds.
Proof.
  induction sv as [|s sv IH]; intros [|d ds] H; cbn [forallb2] in H; try discriminate; try reflexivity.
  apply andb_true_iff in H as [H1 H]. rewrite map2_cons, (IH ds H). f_equal.
  destruct s; [reflexivity|]. simpl in H1. apply Nat.eqb_eq in H1. congruence.
Qed.

Lemma fold_lengths_ok : forall cs sch, sch <> [] -> Forall (chunk_ok sch) cs ->
  fold_right (fun c acc => res_bind (m_transpose_sl c) (fun a => res_bind acc (fun t =>
                Ok (map2 (fun d (v : bool) => if v then d else 0) (diffs (ls_offs a)) (ls_valid a) ++ t))))
             (Ok []) cs
  = Ok (concat (map (fun c => map (@length val) (nth 0 (chunk_cols c) [])) cs)).
Proof.
  induction cs as [|c cs IH]; intros sch Hne Hall; [reflexivity|].
  inversion Hall as [|? ? Hc Hcs]; subst. simpl. rewrite (IH sch Hne Hcs).
  destruct Hc as (Hwf & Hrest).
  destruct (chunk_first_field sch c Hne Hwf) as (f0 & t & Ef).
  assert (Hf0 : field_ok (svalid c) (farr f0))
    by (apply (chunk_field_ok sch c f0); [unfold chunk_ok; tauto|rewrite Ef; left; reflexivity]).
  unfold m_transpose_sl. rewrite Ef. cbn [res_bind ls_offs ls_valid]. f_equal. f_equal.
  unfold chunk_cols. rewrite Ef. cbn [map nth]. rewrite (field_rows_lengths _ _ Hf0).
  destruct Hf0 as (Hw & _ & Hnm). apply wf_larr_b_spec in Hw as (_ & _ & Hm & _).
  rewrite (diffs_rebase _ Hm). apply masked_diffs. exact Hnm.
Qed.

Lemma first_col_abs p : ctype p <> [] ->
  exists rest, lcols (abs p) = concat (map (fun c => nth 0 (chunk_cols c) []) (chunks p)) :: rest.
Proof.
  intros Hne. unfold abs. simpl. destruct (ctype p) as [|nt sch]; [congruence|]. simpl. eauto.
Qed.

Theorem list_lengths_refines p : col_ok p -> chunks p <> [] ->
  m_list_lengths p = Ok (spec_list_lengths (abs p)).
Proof.
  intros (Hne & Hall) Hch. unfold m_list_lengths.
  destruct (chunks p) as [|c0 cs] eqn:Ec; [congruence|].
  rewrite (fold_lengths_ok (c0 :: cs) (ctype p) Hne Hall).
  unfold spec_list_lengths, lrow_lengths.
  destruct (first_col_abs p Hne) as (rest & E). rewrite E, Ec.
  rewrite concat_map_map, map_map. reflexivity.
Qed.

Theorem flat_length_refines p : col_ok p -> chunks p <> [] ->
  m_flat_length p = Ok (spec_flat_length (abs p)).
Proof. intros H1 H2. unfold m_flat_length. rewrite (list_lengths_refines p H1 H2). reflexivity. Qed.

Theorem get_list_index_refines p : col_ok p -> chunks p <> [] ->
  m_get_list_index p = Ok (spec_list_index (abs p)).
Proof.
  intros H1 H2. unfold m_get_list_index, spec_list_index. rewrite (list_lengths_refines p H1 H2).
  rewrite len_refines. unfold spec_len.
  destruct (lcol_nrows (abs p) =? 0) eqn:E; [|reflexivity].
  apply Nat.eqb_eq in E. rewrite E. reflexivity.
Qed.

(* np.diff(list_offsets) = per-row lengths, in BOTH branches of list_offsets *)
Theorem list_offsets_refines p : col_ok p -> chunks p <> [] ->
  res_map diffs (m_list_offsets p) = Ok (spec_offset_diffs (abs p)).
Proof.
  intros H1 H2. pose proof (list_lengths_refines p H1 H2) as HL.
  unfold m_list_offsets, spec_offset_diffs.
  destruct (chunks p) as [|c [|c' cs]] eqn:Ec; [congruence| |].
  - (* single chunk: raw offsets of the first field *)
    destruct H1 as (Hne & Hall). rewrite Ec in Hall. inversion Hall as [|? ? Hc _]; subst.
    destruct Hc as (Hwf & Hrest).
    destruct (chunk_first_field (ctype p) c Hne Hwf) as (f0 & t & Ef). rewrite Ef. simpl.
    unfold spec_list_lengths in HL. unfold m_list_lengths in HL. rewrite Ec in HL. simpl in HL.
    unfold m_transpose_sl in HL. rewrite Ef in HL. simpl in HL. rewrite app_nil_r in HL.
    rewrite masked_diffs in HL; [exact HL|].
    assert (Hf0 : field_ok (svalid c) (farr f0))
      by (apply (chunk_field_ok (ctype p) c f0); [unfold chunk_ok; tauto|rewrite Ef; left; reflexivity]).
    destruct Hf0 as (Hw & _ & Hnm). apply wf_larr_b_spec in Hw as (_ & _ & Hm & _).
    rewrite (diffs_rebase _ Hm). exact Hnm.
  - (* several chunks: cumulative sum of the lengths *)
    rewrite HL. simpl. rewrite diffs_cumsum. reflexivity.
Qed.

Theorem field_names_refines p : chunks p <> [] -> m_field_names p = Ok (spec_field_names (abs p)).
Proof. intros H. unfold m_field_names. destruct (chunks p); [congruence|reflexivity]. Qed.

(* ---------- flat view and list view ---------- *)

Lemma olists_cuts_gen : forall (sv lv : list bool) (cs : list (list val)),
  forallb2 (fun (s l : bool) => implb s l) sv lv = true ->
  forallb2 (fun (s : bool) (c : list val) => s || (length c =? 0)) sv cs = true ->
  map (@olist val) (map2 (fun c (v : bool) => if v then Some c else None) cs lv) = cs.
Proof.
  induction sv as [|s sv IH]; intros [|l lv] [|c cs] H1 H2; cbn [forallb2] in *; try discriminate; try reflexivity.
  apply andb_true_iff in H1 as [H1a H1]. apply andb_true_iff in H2 as [H2a H2].
  rewrite map2_cons. cbn [map]. f_equal.
  - destruct l; [reflexivity|]. destruct s; [discriminate|]. simpl in H2a.
    apply Nat.eqb_eq in H2a. destruct c; [reflexivity|discriminate].
  - apply IH; assumption.
Qed.

Lemma olists_cuts sv l : field_ok sv l -> map (@olist val) (la_lists l) = cuts (offs l) (child l).
Proof.
  intros (Hwf & Hlv & Hnm). apply wf_larr_b_spec in Hwf as (Ho & Hv & Hm & Hl).
  unfold la_lists. apply (olists_cuts_gen sv); [exact Hlv|].
  rewrite <- (lengths_cuts (offs l) (child l) Hm Hl) in Hnm.
  rewrite forallb2_map_r in Hnm. exact Hnm.
Qed.

Lemma flatten_field_rows sv l : field_ok sv l -> la_flatten l = concat (field_rows sv l).
Proof.
  intros H. destruct H as (Hwf & Hrest) eqn:E. clear E.
  rewrite (la_flatten_spec l (length sv) Hwf).
  rewrite (olists_cuts sv l), (field_rows_cuts sv l); unfold field_ok; tauto.
Qed.

Lemma find_nth_error_nodup {A} (key : A -> string) : forall (l : list A) k x,
  NoDup (map key l) -> nth_error l k = Some x ->
  find (fun y => String.eqb (key y) (key x)) l = Some x.
Proof.
  induction l as [|y l IH]; intros k x Hnd Hk; [destruct k; discriminate|].
  simpl. destruct k as [|k]; simpl in Hk.
  - inversion Hk; subst. rewrite String.eqb_refl. reflexivity.
  - inversion Hnd as [|? ? Hnotin Hnd']; subst.
    destruct (String.eqb_spec (key y) (key x)) as [E|E].
    + exfalso. apply Hnotin. rewrite E. apply in_map. eapply nth_error_In; eauto.
    + eapply IH; eauto.
Qed.

Lemma chunk_field_lookup sch c k nt :
  wf_chunk_b sch c = true -> NoDup (map fst sch) -> nth_error sch k = Some nt ->
  exists f, sc_field c (fst nt) = Some f /\ nth_error (sfields c) k = Some f
            /\ nth k (chunk_cols c) [] = field_rows (svalid c) (farr f).
Proof.
  intros Hwf Hnd Hk. pose proof (chunk_schema sch c Hwf) as Hs. unfold sc_schema in Hs.
  assert (Hk' : nth_error (map (fun f => (fname f, fty f)) (sfields c)) k = Some nt) by (rewrite Hs; exact Hk).
  rewrite nth_error_map in Hk'. destruct (nth_error (sfields c) k) as [f|] eqn:Ef; [|discriminate].
  simpl in Hk'. inversion Hk'; subst nt. exists f. split; [|split; [reflexivity|]].
  - unfold sc_field. simpl.
    replace (fun f0 : field => (fname f0 =? fname f)%string) with (fun y : field => String.eqb (fname y) (fname f)) by reflexivity.
    apply (find_nth_error_nodup fname (sfields c) k f); [|exact Ef].
    assert (Hm : map fname (sfields c) = map fst sch).
    { rewrite <- Hs, map_map. reflexivity. }
    rewrite Hm. exact Hnd.
  - unfold chunk_cols. apply nth_error_nth.
    rewrite nth_error_map, Ef. reflexivity.
Qed.

Lemma map_nth_seq {A B} (f : A -> B) (d : A) : forall l,
  map f l = map (fun k => f (nth k l d)) (seq 0 (length l)).
Proof.
  intros l. induction l as [|x l IH]; [reflexivity|].
  simpl. f_equal. rewrite IH, <- seq_shift, map_map. reflexivity.
Qed.

Lemma concat_concat_map {A B} (f : A -> list (list B)) (l : list A) :
  concat (concat (map f l)) = concat (map (fun x => concat (f x)) l).
Proof. induction l as [|x l IH]; simpl; [reflexivity|]. rewrite concat_app, IH. reflexivity. Qed.

(* per field: flattening chunk by chunk = the flat reading of the logical column *)
Lemma flat_col_refines p k nt : col_ok p -> NoDup (map fst (ctype p)) -> nth_error (ctype p) k = Some nt ->
  concat (map (fun c => match sc_field c (fst nt) with Some f => la_flatten (farr f) | None => [] end) (chunks p))
  = concat (concat (map (fun c => nth k (chunk_cols c) []) (chunks p))).
Proof.
  intros (Hne & Hall) Hnd Hk. rewrite concat_concat_map. f_equal.
  apply map_ext_in. intros c Hc. rewrite Forall_forall in Hall. specialize (Hall c Hc).
  destruct Hall as (Hwf & Hrest) eqn:E. clear E.
  destruct (chunk_field_lookup (ctype p) c k nt Hwf Hnd Hk) as (f & Hf & Hn & Hcol).
  rewrite Hf, Hcol. apply flatten_field_rows.
  apply (chunk_field_ok (ctype p) c f); [unfold chunk_ok; tauto|]. eapply nth_error_In; eauto.
Qed.

Lemma to_flat_cols_refines p : col_ok p -> NoDup (map fst (ctype p)) ->
  map (fun nm => concat (map (fun c => match sc_field c nm with Some f => la_flatten (farr f) | None => [] end) (chunks p)))
      (map fst (ctype p))
  = spec_flat (abs p).
Proof.
  intros Hok Hnd. unfold spec_flat, abs. cbn [lcols]. rewrite !map_map.
  rewrite (map_nth_seq _ (EmptyString, TI64) (ctype p)).
  apply map_ext_in. intros k Hk. apply in_seq in Hk.
  destruct (nth_error (ctype p) k) as [nt|] eqn:E.
  - rewrite (nth_error_nth _ _ _ E). apply (flat_col_refines p k nt Hok Hnd E).
  - apply nth_error_None in E. lia.
Qed.

Lemma has_name_all names : forallb (has_name names) names = true.
Proof.
  apply forallb_forall. intros x Hx. unfold has_name. apply existsb_exists. exists x.
  split; [exact Hx|apply String.eqb_refl].
Qed.

Lemma abs_col_k p k : k < length (ctype p) ->
  nth k (lcols (abs p)) [] = concat (map (fun c => nth k (chunk_cols c) []) (chunks p)).
Proof.
  intros Hk. unfold abs. cbn [lcols].
  rewrite (nth_indep _ [] (concat (map (fun c => nth 0 (chunk_cols c) []) (chunks p))))
    by (rewrite map_length, seq_length; exact Hk).
  rewrite (map_nth (fun k => concat (map (fun c => nth k (chunk_cols c) []) (chunks p))) (seq 0 (length (ctype p))) 0 k).
  rewrite seq_nth by exact Hk. reflexivity.
Qed.

Lemma length_abs_col p k : col_ok p -> k < length (ctype p) ->
  length (nth k (lcols (abs p)) []) = lcol_nrows (abs p).
Proof.
  intros (Hne & Hall) Hk. unfold abs, lcol_nrows. cbn [lcols lvalidity].
  rewrite (nth_indep _ [] (concat (map (fun c => nth 0 (chunk_cols c) []) (chunks p))))
    by (rewrite map_length, seq_length; exact Hk).
  rewrite (map_nth (fun k => concat (map (fun c => nth k (chunk_cols c) []) (chunks p))) (seq 0 (length (ctype p))) 0 k).
  rewrite seq_nth by exact Hk. simpl.
  rewrite !length_concat, !map_map. f_equal. apply map_ext_in. intros c Hc.
  rewrite Forall_forall in Hall. specialize (Hall c Hc). destruct Hall as (Hwf & Hrest) eqn:E. clear E.
  destruct (nth_error (sfields c) k) as [f|] eqn:Ef.
  - unfold chunk_cols. erewrite nth_error_nth by (rewrite nth_error_map, Ef; reflexivity).
    apply length_field_rows. apply (chunk_field_ok (ctype p) c f); [unfold chunk_ok; tauto|eapply nth_error_In; eauto].
  - apply nth_error_None in Ef. rewrite (chunk_nfields _ _ Hwf) in Ef. lia.
Qed.

Lemma same_offsets_spec c f0 t f : sfields c = f0 :: t -> same_offsets_b c = true -> In f (sfields c) ->
  rebase (offs (farr f)) = rebase (offs (farr f0)).
Proof.
  intros E H Hin. unfold same_offsets_b in H. rewrite E in H, Hin. destruct Hin as [<-|Hin]; [reflexivity|].
  rewrite forallb_forall in H. specialize (H f Hin).
  symmetry. apply (list_eqb_spec Nat.eqb Nat.eqb_eq). exact H.
Qed.

(* rectangularity of the logical column: every field has the per-row lengths of the first *)
Lemma abs_col_lengths p k : col_ok p -> k < length (ctype p) ->
  map (@length val) (nth k (lcols (abs p)) []) = lrow_lengths (abs p).
Proof.
  intros Hok Hk. destruct Hok as (Hne & Hall) eqn:E. clear E.
  assert (H0 : lrow_lengths (abs p) = map (@length val) (concat (map (fun c => nth 0 (chunk_cols c) []) (chunks p)))).
  { unfold lrow_lengths. destruct (first_col_abs p Hne) as (rest & Ec). rewrite Ec. reflexivity. }
  rewrite H0. clear H0.
  unfold abs. cbn [lcols].
  rewrite (nth_indep _ [] (concat (map (fun c => nth 0 (chunk_cols c) []) (chunks p))))
    by (rewrite map_length, seq_length; exact Hk).
  rewrite (map_nth (fun k => concat (map (fun c => nth k (chunk_cols c) []) (chunks p))) (seq 0 (length (ctype p))) 0 k).
  rewrite seq_nth by exact Hk. simpl.
  rewrite !concat_map_map, !map_map. f_equal. apply map_ext_in. intros c Hc.
  rewrite Forall_forall in Hall. specialize (Hall c Hc). destruct Hall as (Hwf & Hso & Hrest) eqn:E. clear E.
  destruct (chunk_first_field (ctype p) c Hne Hwf) as (f0 & t & Ef0).
  assert (Hck : chunk_ok (ctype p) c) by (unfold chunk_ok; tauto).
  destruct (nth_error (sfields c) k) as [f|] eqn:Ef.
  - unfold chunk_cols.
    erewrite (nth_error_nth (map _ (sfields c)) k) by (rewrite nth_error_map, Ef; reflexivity).
    erewrite (nth_error_nth (map _ (sfields c)) 0) by (rewrite nth_error_map, Ef0; reflexivity).
    assert (Hf0 : field_ok (svalid c) (farr f0)) by (apply (chunk_field_ok (ctype p) c f0 Hck); rewrite Ef0; left; reflexivity).
    assert (Hf : field_ok (svalid c) (farr f)) by (apply (chunk_field_ok (ctype p) c f Hck); eapply nth_error_In; eauto).
    rewrite (field_rows_lengths _ _ Hf0), (field_rows_lengths _ _ Hf).
    destruct Hf0 as (Hw0 & _). apply wf_larr_b_spec in Hw0 as (_ & _ & Hm0 & _).
    destruct Hf as (Hw & _). apply wf_larr_b_spec in Hw as (_ & _ & Hm & _).
    rewrite <- (diffs_rebase _ Hm0), <- (diffs_rebase _ Hm). f_equal.
    apply (same_offsets_spec c f0 t f Ef0 Hso). eapply nth_error_In; eauto.
  - apply nth_error_None in Ef. rewrite (chunk_nfields _ _ Hwf) in Ef. lia.
Qed.

(* to_flat over all fields: the index repeats row i exactly len_i times and every column is the
   concatenation of that field's rows *)
Theorem to_flat_refines p : col_ok p -> chunks p <> [] -> NoDup (map fst (ctype p)) ->
  m_to_flat p (map fst (ctype p)) = Ok (spec_offset_diffs (abs p), spec_flat (abs p)).
Proof.
  intros Hok Hch Hnd. unfold m_to_flat.
  rewrite (field_names_refines p Hch). unfold spec_field_names. cbn [lsch abs].
  destruct Hok as (Hne & Hall) eqn:E. clear E.
  destruct (length (map fst (ctype p)) =? 0) eqn:El.
  { apply Nat.eqb_eq in El. rewrite map_length in El. destruct (ctype p); [congruence|discriminate]. }
  rewrite has_name_all. cbn [negb].
  unfold m_flat_index_counts. pose proof (list_offsets_refines p Hok Hch) as HO.
  destruct (m_list_offsets p) as [lo|]; [|discriminate]. simpl in HO. inversion HO as [HO'].
  cbn [res_map]. rewrite HO'.
  rewrite (to_flat_cols_refines p Hok Hnd).
  unfold spec_offset_diffs, lrow_lengths.
  destruct (first_col_abs p Hne) as (rest & Ec). rewrite Ec.
  assert (Hlen0 : length (concat (map (fun c => nth 0 (chunk_cols c) []) (chunks p))) = m_len p).
  { rewrite len_refines. unfold spec_len.
    assert (H0 : 0 < length (ctype p)) by (destruct (ctype p); [congruence|simpl; lia]).
    pose proof (length_abs_col p 0 Hok H0) as HL. rewrite Ec in HL. exact HL. }
  rewrite map_length, Hlen0, Nat.eqb_refl. cbn [negb].
  assert (Hall' : forallb (fun col : list val => length col =? sum (map (@length val) (concat (map (fun c => nth 0 (chunk_cols c) []) (chunks p)))))
                 (spec_flat (abs p)) = true).
  { apply forallb_forall. intros col Hcol. apply Nat.eqb_eq.
    unfold spec_flat in Hcol. apply in_map_iff in Hcol as (rows & <- & Hrows).
    rewrite length_concat. f_equal.
    unfold abs in Hrows. cbn [lcols] in Hrows. apply in_map_iff in Hrows as (k & <- & Hk). apply in_seq in Hk.
    pose proof (abs_col_lengths p k Hok ltac:(lia)) as HL.
    rewrite (abs_col_k p k) in HL by lia. rewrite HL.
    unfold lrow_lengths. rewrite Ec. reflexivity. }
  rewrite Hall'. reflexivity.
Qed.
