(* Proofs_FromPandas.v — what pa.array(value, from_pandas=True) does to offered flat values (C06). *)
From Coq Require Import String List Arith Bool ZArith Lia.
Import ListNotations.
From NP Require Import Base Values Arrow Abs Kernels Logical ExtArray.

Lemma denan_idem v : denan (denan v) = denan v.
Proof. destruct v as [|z|b|k]; cbn [denan]; try reflexivity. destruct (Z.eqb k NAN_TOKEN) eqn:E; cbn [denan]; [reflexivity|rewrite E; reflexivity]. Qed.

Lemma denan_not_nan v : denan v <> VTok NAN_TOKEN.
Proof.
  destruct v as [|z|b|k]; cbn [denan]; try discriminate.
  destruct (Z.eqb k NAN_TOKEN) eqn:E; [discriminate|]. intro H. inversion H as [Hk]. rewrite Hk, Z.eqb_refl in E. discriminate.
Qed.

(* one value per offered value; Arrow-backed input untouched; numpy-like input: no NaN survives, nulls stay, everything else
   is unchanged; converting twice changes nothing *)
Theorem from_pandas_length b vs : length (from_pandas b vs) = length vs.
Proof. destruct b; cbn [from_pandas]; [apply map_length|reflexivity]. Qed.

Theorem from_pandas_arrow vs : from_pandas false vs = vs.
Proof. reflexivity. Qed.

Theorem from_pandas_no_nan vs : Forall (fun v => v <> VTok NAN_TOKEN) (from_pandas true vs).
Proof. cbn [from_pandas]. apply Forall_forall. intros v Hin. apply in_map_iff in Hin as (w & <- & _). apply denan_not_nan. Qed.

Theorem from_pandas_pointwise vs i : i < length vs ->
  nth i (from_pandas true vs) VNull = (if val_eqb (nth i vs VNull) (VTok NAN_TOKEN) then VNull else nth i vs VNull).
Proof.
  intro Hi. cbn [from_pandas]. change VNull with (denan VNull) at 1. rewrite map_nth.
  destruct (nth i vs VNull) as [|z|b|k]; cbn [denan val_eqb]; reflexivity.
Qed.

Theorem from_pandas_idem b vs : from_pandas b (from_pandas b vs) = from_pandas b vs.
Proof. destruct b; cbn [from_pandas]; [|reflexivity]. rewrite map_map. apply map_ext. apply denan_idem. Qed.

Print Assumptions from_pandas_length.
Print Assumptions from_pandas_arrow.
Print Assumptions from_pandas_no_nan.
Print Assumptions from_pandas_pointwise.
Print Assumptions from_pandas_idem.
