(* Cast.v — series.astype(NestedDtype(...)) on a column that is already nested (ExtensionArray.astype ->
   NestedExtensionArray._from_sequence(self, dtype=...) -> _box_pa_array: pa_array.cast(pa_type) -> the VALIDATING constructor).
   pyarrow's struct cast (pyarrow 25) goes by field NAME: a target field the source has takes the source's list array (the
   element cast is not modelled: element types of kept fields are taken as they are), a target field the source LACKS is
   filled with a NULL list in every row, source fields the target does not name are dropped, the order is the target's.
   Definitions only. *)
From Coq Require Import String List Arith Bool.
Import ListNotations.
From NP Require Import Base Values Arrow Abs Kernels Logical ExtArray.

Definition null_lists (n : nat) : larr := {| offs := repeat 0 (S n); lvalid := repeat false n; child := [] |}.

Definition cast_field (c : schunk) (nt : string * ety) : field :=
  match find (fun f => String.eqb (fname f) (fst nt)) (sfields c) with
  | Some f => {| fname := fst nt; fty := snd nt; farr := farr f |}
  | None => {| fname := fst nt; fty := snd nt; farr := null_lists (sc_len c) |}
  end.
Definition cast_chunk (target : schema) (c : schunk) : schunk :=
  {| svalid := svalid c; sfields := map (cast_field c) target |}.
Definition m_struct_cast (p : chunked) (target : schema) : chunked :=
  {| ctype := target; chunks := map (cast_chunk target) (chunks p) |}.
(* the cast is an entry point like the others: what Arrow made goes through the validator *)
Definition m_astype_nested (p : chunked) (target : schema) : res chunked := m_init (m_struct_cast p target) true.
