(* Proofs_Heap.v — isolation (C15): a write shows only through sharers of the written cell, a rebind shows only in its
   target, pure operations change nothing, a deep copy is separated from everything and separation is preserved by every
   step, hence along histories of any length. *)
From Coq Require Import List Arith Bool Lia.
Import ListNotations.
From NP Require Import Heap.

(* ---------- helpers: association lists ---------- *)
Lemma lookup_cons k k' v l :
  lookup k ((k', v) :: l) = if k' =? k then Some v else lookup k l.
Proof. unfold lookup. cbn [find fst]. destruct (k' =? k); reflexivity. Qed.

Lemma lookup_filter_neq k k' l : k <> k' ->
  lookup k (filter (fun p => negb (fst p =? k')) l) = lookup k l.
Proof.
  intros Hne. induction l as [|[x y] l IH]; [reflexivity|].
  cbn [filter fst]. destruct (x =? k') eqn:E; cbn [negb].
  - apply Nat.eqb_eq in E. subst x. rewrite lookup_cons.
    destruct (k' =? k) eqn:E2; [apply Nat.eqb_eq in E2; congruence | exact IH].
  - rewrite !lookup_cons. destruct (x =? k); [reflexivity | exact IH].
Qed.

Lemma lookup_update k k' v l :
  lookup k (update k' v l) = if k' =? k then Some v else lookup k l.
Proof.
  unfold update. rewrite lookup_cons. destruct (k' =? k) eqn:E; [reflexivity|].
  apply Nat.eqb_neq in E. apply lookup_filter_neq. congruence.
Qed.

Lemma lookup_In k v l : lookup k l = Some v -> In (k, v) l.
Proof.
  induction l as [|[x y] l IH]; [discriminate|].
  rewrite lookup_cons. destruct (x =? k) eqn:E.
  - apply Nat.eqb_eq in E. intros H. injection H as ->. subst. left; reflexivity.
  - intros H. right. auto.
Qed.

Lemma forallb_filter {A} (f g : A -> bool) l : forallb f l = true -> forallb f (filter g l) = true.
Proof.
  rewrite !forallb_forall. intros H x Hx. apply filter_In in Hx. apply H, Hx.
Qed.

Lemma forallb_impl {A} (f g : A -> bool) l : (forall x, f x = true -> g x = true) ->
  forallb f l = true -> forallb g l = true.
Proof. rewrite !forallb_forall. intros H H1 x Hx. auto. Qed.

Lemma wf_cell s o c : h_wf s = true -> lookup o (cell_of s) = Some c -> c < next s.
Proof.
  unfold h_wf. intros H L. apply andb_true_iff in H as [H _].
  rewrite forallb_forall in H. apply lookup_In in L. apply H in L. cbn in L.
  apply Nat.ltb_lt in L. exact L.
Qed.

Lemma wf_store s c v : h_wf s = true -> lookup c (store s) = Some v -> c < next s /\ v < next s.
Proof.
  unfold h_wf. intros H L. apply andb_true_iff in H as [_ H].
  rewrite forallb_forall in H. apply lookup_In in L. apply H in L. cbn in L.
  apply andb_true_iff in L as [L1 L2]. apply Nat.ltb_lt in L1, L2. auto.
Qed.

Lemma wf_intro cs st n :
  forallb (fun p => snd p <? n) cs = true ->
  forallb (fun p => (fst p <? n) && (snd p <? n)) st = true ->
  h_wf {| cell_of := cs; store := st; next := n |} = true.
Proof. intros H1 H2. unfold h_wf. cbn [cell_of store next]. rewrite H1, H2. reflexivity. Qed.

Lemma wf_cells_weaken s n : h_wf s = true -> next s <= n ->
  forallb (fun p => snd p <? n) (cell_of s) = true.
Proof.
  unfold h_wf. intros H Hn. apply andb_true_iff in H as [H _].
  revert H. apply forallb_impl. intros x Hx. apply Nat.ltb_lt in Hx. apply Nat.ltb_lt. lia.
Qed.

Lemma wf_store_weaken s n : h_wf s = true -> next s <= n ->
  forallb (fun p => (fst p <? n) && (snd p <? n)) (store s) = true.
Proof.
  unfold h_wf. intros H Hn. apply andb_true_iff in H as [_ H].
  revert H. apply forallb_impl. intros x Hx. apply andb_true_iff in Hx as [H1 H2].
  apply Nat.ltb_lt in H1, H2. apply andb_true_iff. split; apply Nat.ltb_lt; lia.
Qed.

(* an operation that returns a new object leaves every observation as it was *)
Theorem pure_changes_nothing s b : observe (h_step s HPure) b = observe s b.
Proof. reflexivity. Qed.

(* an element write shows exactly in the objects that hold the written cell *)
Theorem write_shows_only_in_sharers s t b : h_wf s = true ->
  observe (h_step s (HWriteCell t)) b <> observe s b -> shares s t b = true.
Proof.
  intros _. cbn [h_step]. unfold shares.
  destruct (lookup t (cell_of s)) as [c|] eqn:Lt; [|congruence].
  unfold observe. cbn [cell_of store].
  destruct (lookup b (cell_of s)) as [c'|] eqn:Lb; [|congruence].
  rewrite lookup_update. destruct (c =? c'); congruence.
Qed.

(* a rebinding operation shows only in its target *)
Lemma rebind_other s t b : h_wf s = true -> b <> t ->
  observe (h_step s (HRebind t)) b = observe s b.
Proof.
  intros W Hne. cbn [h_step].
  destruct (lookup t (cell_of s)) as [c|] eqn:Lt; [|reflexivity].
  unfold observe. cbn [cell_of store]. rewrite lookup_update.
  destruct (t =? b) eqn:E; [apply Nat.eqb_eq in E; congruence|].
  destruct (lookup b (cell_of s)) as [c'|] eqn:Lb; [|reflexivity].
  rewrite lookup_update. pose proof (wf_cell _ _ _ W Lb) as Hc.
  destruct (next s =? c') eqn:E2; [apply Nat.eqb_eq in E2; lia | reflexivity].
Qed.

Theorem rebind_shows_only_in_target s t b : h_wf s = true ->
  observe (h_step s (HRebind t)) b <> observe s b -> b = t.
Proof.
  intros W H. destruct (Nat.eq_dec b t) as [|Hne]; [assumption|].
  exfalso. apply H. apply rebind_other; assumption.
Qed.

(* after a deep copy the new object shares its cell with nothing else, and shows the same data *)
(* AS GIVEN (without the premise [observe s src <> None]) the statement is FALSE: when the source does not exist the
   step is the identity, and dst may already share a cell with b.
     Eval vm_compute in (h_wf family_heap, shares (h_step family_heap (HDeepCopy 99 0)) 0 4).
       = (true, true)
   i.e. s := family_heap, src := 99, dst := 0, b := 4 satisfies h_wf s = true and b <> dst, yet shares ... = true.
   Repair: extra premise [observe s src <> None] (the same premise as deep_copy_same_data). *)
Theorem deep_copy_is_separated s src dst b : h_wf s = true -> b <> dst ->
  observe s src <> None ->
  shares (h_step s (HDeepCopy src dst)) dst b = false.
Proof.
  intros W Hne Hsrc. cbn [h_step].
  destruct (observe s src) as [v|] eqn:O; [|congruence].
  unfold shares. cbn [cell_of]. rewrite !lookup_update, Nat.eqb_refl.
  destruct (dst =? b) eqn:E; [apply Nat.eqb_eq in E; congruence|].
  destruct (lookup b (cell_of s)) as [c|] eqn:Lb; [|reflexivity].
  pose proof (wf_cell _ _ _ W Lb). apply Nat.eqb_neq. lia.
Qed.

Theorem deep_copy_same_data s src dst : h_wf s = true -> observe s src <> None ->
  observe (h_step s (HDeepCopy src dst)) dst = observe s src.
Proof.
  intros _ Hsrc. cbn [h_step].
  destruct (observe s src) as [v|] eqn:O; [|congruence].
  unfold observe. cbn [cell_of store]. rewrite lookup_update, Nat.eqb_refl.
  rewrite lookup_update, Nat.eqb_refl. reflexivity.
Qed.

(* separation is preserved by every step (a deep copy INTO one of the two objects excepted), so by every history *)
Definition touches (o : hop) (a b : nat) : bool :=
  match o with HDeepCopy _ d => (d =? a) || (d =? b) | _ => false end.

Theorem wf_step s o : h_wf s = true -> h_wf (h_step s o) = true.
Proof.
  intros W. destruct o as [|t (* HRebind *)|t (* HWriteCell *)|src dst]; cbn [h_step].
  - exact W.
  - destruct (lookup t (cell_of s)) as [c|] eqn:Lt; [|exact W].
    apply wf_intro; unfold update; cbn [forallb fst snd].
    + rewrite (proj2 (Nat.ltb_lt _ _)) by lia. cbn [andb].
      apply forallb_filter. apply wf_cells_weaken; [exact W | lia].
    + rewrite !(proj2 (Nat.ltb_lt _ _)) by lia. cbn [andb].
      apply forallb_filter. apply wf_store_weaken; [exact W | lia].
  - destruct (lookup t (cell_of s)) as [c|] eqn:Lt; [|exact W].
    pose proof (wf_cell _ _ _ W Lt) as Hc.
    apply wf_intro; unfold update; cbn [forallb fst snd].
    + apply wf_cells_weaken; [exact W | lia].
    + rewrite !(proj2 (Nat.ltb_lt _ _)) by lia. cbn [andb].
      apply forallb_filter. apply wf_store_weaken; [exact W | lia].
  - destruct (observe s src) as [v|] eqn:O; [|exact W].
    assert (Hv : v < next s).
    { unfold observe in O. destruct (lookup src (cell_of s)) as [c|]; [|discriminate].
      apply (wf_store _ _ _ W O). }
    apply wf_intro; unfold update; cbn [forallb fst snd].
    + rewrite (proj2 (Nat.ltb_lt _ _)) by lia. cbn [andb].
      apply forallb_filter. apply wf_cells_weaken; [exact W | lia].
    + rewrite !(proj2 (Nat.ltb_lt _ _)) by lia. cbn [andb].
      apply forallb_filter. apply wf_store_weaken; [exact W | lia].
Qed.

Lemma shares_update_fresh s t a b st n : h_wf s = true ->
  (t = a -> t = b -> False) ->
  shares s a b = false ->
  shares {| cell_of := update t (next s) (cell_of s); store := st; next := n |} a b = false.
Proof.
  intros W Hab Hs. unfold shares in *. cbn [cell_of]. rewrite !lookup_update.
  destruct (t =? a) eqn:Ea; destruct (t =? b) eqn:Eb.
  - apply Nat.eqb_eq in Ea, Eb. exfalso. auto.
  - destruct (lookup b (cell_of s)) as [c|] eqn:Lb; [|reflexivity].
    pose proof (wf_cell _ _ _ W Lb). apply Nat.eqb_neq. lia.
  - destruct (lookup a (cell_of s)) as [c|] eqn:La; [|reflexivity].
    pose proof (wf_cell _ _ _ W La). apply Nat.eqb_neq. lia.
  - exact Hs.
Qed.

Theorem separation_preserved s o a b : h_wf s = true -> touches o a b = false ->
  shares s a b = false -> shares (h_step s o) a b = false.
Proof.
  intros W T Hs. destruct o as [|t (* HRebind *)|t (* HWriteCell *)|src dst]; cbn [h_step].
  - exact Hs.
  - destruct (lookup t (cell_of s)) as [c|] eqn:Lt; [|exact Hs].
    apply shares_update_fresh; [exact W | | exact Hs].
    intros -> <-. unfold shares in Hs. rewrite Lt, Nat.eqb_refl in Hs. discriminate.
  - destruct (lookup t (cell_of s)) as [c|] eqn:Lt; [|exact Hs]. exact Hs.
  - destruct (observe s src) as [v|] eqn:O; [|exact Hs].
    cbn [touches] in T. apply orb_false_iff in T as [T1 T2].
    apply Nat.eqb_neq in T1, T2.
    apply shares_update_fresh; [exact W | | exact Hs]. intros; congruence.
Qed.

Theorem separation_along_histories : forall ops s a b, h_wf s = true ->
  forallb (fun o => negb (touches o a b)) ops = true ->
  shares s a b = false -> shares (h_run s ops) a b = false.
Proof.
  unfold h_run. induction ops as [|o ops IH]; intros s a b W F Hs; [exact Hs|].
  cbn [fold_left]. cbn [forallb] in F. apply andb_true_iff in F as [F1 F2].
  apply negb_true_iff in F1.
  apply IH; [apply wf_step; exact W | exact F2 | apply separation_preserved; assumption].
Qed.

(* hence: no in-place operation on one of two separated objects is ever visible through the other *)
Theorem separated_objects_do_not_interfere s o a b : h_wf s = true -> a <> b ->
  shares s a b = false -> (o = HWriteCell a \/ o = HRebind a) -> observe (h_step s o) b = observe s b.
Proof.
  intros W Hne Hs [-> | ->].
  - cbn [h_step]. unfold shares in Hs.
    destruct (lookup a (cell_of s)) as [c|] eqn:La; [|reflexivity].
    unfold observe. cbn [cell_of store].
    destruct (lookup b (cell_of s)) as [c'|] eqn:Lb; [|reflexivity].
    rewrite lookup_update, Hs. reflexivity.
  - apply rebind_other; [exact W | congruence].
Qed.

Example family_is_wf : h_wf family_heap = true /\ shares family_heap 0 4 = true /\ shares family_heap 0 1 = false.
Proof. repeat split; vm_compute; reflexivity. Qed.

Print Assumptions pure_changes_nothing.
Print Assumptions write_shows_only_in_sharers.
Print Assumptions rebind_shows_only_in_target.
Print Assumptions deep_copy_is_separated.
Print Assumptions deep_copy_same_data.
Print Assumptions wf_step.
Print Assumptions separation_preserved.
Print Assumptions separation_along_histories.
Print Assumptions separated_objects_do_not_interfere.
Print Assumptions family_is_wf.
