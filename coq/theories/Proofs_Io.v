(* Proofs_Io.v — the partial-load regrouping of read_parquet (C08): removing the regrouped leaf columns by descending
   position is the same as filtering them out, so the result holds exactly the other requested columns in request order,
   followed by one struct per partially loaded nest with its requested fields in request order. *)
From Coq Require Import String List Arith Bool Lia Permutation.
Import ListNotations.
From NP Require Import Base Values Dtype Names Io.

(* sorted(..., reverse=True) *)
Lemma ins_desc_perm x l : Permutation (ins_desc x l) (x :: l).
Proof.
  induction l as [|y t IH]; simpl.
  - apply Permutation_refl.
  - destruct (y <=? x).
    + apply Permutation_refl.
    + eapply perm_trans; [apply perm_skip; exact IH | apply perm_swap].
Qed.

Lemma sort_desc_perm l : Permutation (sort_desc l) l.
Proof.
  induction l as [|x t IH]; simpl.
  - apply perm_nil.
  - eapply perm_trans; [apply ins_desc_perm | apply perm_skip; exact IH].
Qed.
Fixpoint desc (l : list nat) : Prop := match l with a :: ((b :: _) as t) => b <= a /\ desc t | _ => True end.

Lemma desc_cons2 a b t : desc (a :: b :: t) = (b <= a /\ desc (b :: t)).
Proof. reflexivity. Qed.

Lemma ins_desc_desc x l : desc l -> desc (ins_desc x l).
Proof.
  induction l as [|y t IH]; intro D.
  - exact I.
  - cbn [ins_desc]. destruct (y <=? x) eqn:E.
    + rewrite desc_cons2. split; [apply Nat.leb_le; exact E | exact D].
    + apply Nat.leb_gt in E.
      destruct t as [|z t'].
      * cbn [ins_desc]. rewrite desc_cons2. split; [lia | exact I].
      * rewrite desc_cons2 in D. destruct D as [Hzy D'].
        specialize (IH D'). cbn [ins_desc] in *.
        destruct (z <=? x) eqn:E2.
        -- rewrite desc_cons2. split; [lia | exact IH].
        -- rewrite desc_cons2. split; [exact Hzy | exact IH].
Qed.

Lemma sort_desc_desc l : desc (sort_desc l).
Proof.
  induction l as [|x t IH]; simpl.
  - exact I.
  - apply ins_desc_desc. exact IH.
Qed.

(* strictly descending, stated pointwise *)
Fixpoint sdesc (l : list nat) : Prop :=
  match l with [] => True | a :: t => (forall b, In b t -> b < a) /\ sdesc t end.

Lemma desc_tail a t : desc (a :: t) -> desc t.
Proof. destruct t as [|b t]; [intros; exact I | rewrite desc_cons2; tauto]. Qed.

Lemma desc_le_head : forall t a, desc (a :: t) -> forall b, In b t -> b <= a.
Proof.
  induction t as [|c t IH]; intros a D b Hb.
  - destruct Hb.
  - rewrite desc_cons2 in D. destruct D as [Hca D]. destruct Hb as [->|Hb].
    + exact Hca.
    + specialize (IH c D b Hb). lia.
Qed.

Lemma desc_nodup_sdesc : forall l, desc l -> NoDup l -> sdesc l.
Proof.
  induction l as [|a t IH]; intros D N.
  - exact I.
  - inversion N as [|? ? Hnin N']; subst. split.
    + intros b Hb. pose proof (desc_le_head t a D b Hb) as Hle.
      assert (b <> a) by (intro; subst; contradiction). lia.
    + apply IH; [eapply desc_tail; exact D | exact N'].
Qed.

(* the filter specification, with a base position *)
Definition filtk {A} (k : nat) (idx : list nat) (l : list A) : list A :=
  map snd (filter (fun p => negb (existsb (Nat.eqb (fst p)) idx)) (combine (seq k (length l)) l)).

Lemma filtk_cons {A} k idx (x : A) l :
  filtk k idx (x :: l) = (if existsb (Nat.eqb k) idx then [] else [x]) ++ filtk (S k) idx l.
Proof.
  unfold filtk. cbn [length seq combine filter fst].
  destruct (existsb (Nat.eqb k) idx); reflexivity.
Qed.

Lemma filtk_app {A} : forall (l1 l2 : list A) k idx,
  filtk k idx (l1 ++ l2) = filtk k idx l1 ++ filtk (k + length l1) idx l2.
Proof.
  induction l1 as [|x t IH]; intros l2 k idx.
  - cbn [app length]. rewrite Nat.add_0_r. reflexivity.
  - cbn [app length]. rewrite !filtk_cons, IH, <- app_assoc.
    replace (S k + length t) with (k + S (length t)) by lia. reflexivity.
Qed.

Lemma existsb_eqb_false k idx : (forall i, In i idx -> i <> k) -> existsb (Nat.eqb k) idx = false.
Proof.
  intro H. destruct (existsb (Nat.eqb k) idx) eqn:E; [|reflexivity].
  apply existsb_exists in E. destruct E as [x [Hx Hk]]. apply Nat.eqb_eq in Hk. subst x.
  exfalso. exact (H k Hx eq_refl).
Qed.

Lemma filtk_id {A} : forall (l : list A) k idx, (forall i, In i idx -> i < k) -> filtk k idx l = l.
Proof.
  induction l as [|x t IH]; intros k idx H.
  - reflexivity.
  - rewrite filtk_cons, existsb_eqb_false.
    + cbn [app]. f_equal. apply IH. intros i Hi. specialize (H i Hi). lia.
    + intros i Hi. specialize (H i Hi). lia.
Qed.

Lemma filtk_drop_head {A} : forall (l : list A) k a t, k + length l <= a -> filtk k (a :: t) l = filtk k t l.
Proof.
  induction l as [|x l IH]; intros k a t H.
  - reflexivity.
  - cbn [length] in H. rewrite !filtk_cons. cbn [existsb].
    replace (k =? a) with false by (symmetry; apply Nat.eqb_neq; lia).
    cbn [orb]. f_equal. apply IH. lia.
Qed.

Lemma remove_nth_app {A} : forall (l1 : list A) x l2, remove_nth (length l1) (l1 ++ x :: l2) = l1 ++ l2.
Proof.
  unfold remove_nth. induction l1 as [|y t IH]; intros x l2.
  - reflexivity.
  - cbn [length app firstn skipn]. cbn [skipn] in IH. rewrite IH. reflexivity.
Qed.

Lemma split_at {A} : forall a (l : list A), a < length l -> exists l1 x l2, l = l1 ++ x :: l2 /\ length l1 = a.
Proof.
  induction a as [|a IH]; intros [|y l] H; cbn [length] in H; try lia.
  - exists [], y, l. split; reflexivity.
  - destruct (IH l) as [l1 [x [l2 [E L]]]]; [lia|].
    exists (y :: l1), x, l2. split; [rewrite E; reflexivity | cbn [length]; lia].
Qed.

Lemma fold_remove_sdesc {A} : forall s (l : list A), sdesc s -> (forall i, In i s -> i < length l) ->
  fold_left (fun acc i => remove_nth i acc) s l = filtk 0 s l.
Proof.
  induction s as [|a t IH]; intros l SD R.
  - cbn [fold_left]. symmetry. apply filtk_id. intros i [].
  - destruct SD as [Hlt SD]. cbn [fold_left].
    destruct (@split_at A a l) as [l1 [x [l2 [E L]]]]; [apply R; left; reflexivity|].
    subst l. replace (remove_nth a (l1 ++ x :: l2)) with (l1 ++ l2) by (rewrite <- L; symmetry; apply remove_nth_app).
    rewrite IH.
    + rewrite !filtk_app, L. cbn [Nat.add].
      rewrite (filtk_drop_head l1 0 a t) by lia.
      rewrite filtk_cons. cbn [existsb]. rewrite Nat.eqb_refl. cbn [orb app].
      rewrite (filtk_id l2 a t) by exact Hlt.
      rewrite (filtk_id l2 (S a) (a :: t)).
      * reflexivity.
      * intros i [<-|Hi]; [lia | specialize (Hlt i Hi); lia].
    + exact SD.
    + intros i Hi. specialize (Hlt i Hi). rewrite app_length. 
      assert (a < length (l1 ++ x :: l2)) by (apply R; left; reflexivity).
      rewrite app_length in H. cbn [length] in H. lia.
Qed.

Lemma existsb_perm {A} (f : A -> bool) l1 l2 : Permutation l1 l2 -> existsb f l1 = existsb f l2.
Proof.
  induction 1; cbn [existsb].
  - reflexivity.
  - rewrite IHPermutation. reflexivity.
  - destruct (f x), (f y); reflexivity.
  - congruence.
Qed.

(* removing positions one by one, from the highest down, = filtering them out (whatever order they were collected in) *)
Theorem remove_all_filter {A} (idx : list nat) (l : list A) :
  NoDup idx -> (forall i, In i idx -> i < length l) ->
  remove_all idx l = map snd (filter (fun p => negb (existsb (Nat.eqb (fst p)) idx)) (combine (seq 0 (length l)) l)).
Proof.
  intros N R. unfold remove_all.
  pose proof (sort_desc_perm idx) as P.
  rewrite fold_remove_sdesc.
  - unfold filtk. f_equal. apply filter_ext. intros p. f_equal. apply existsb_perm. exact P.
  - apply desc_nodup_sdesc; [apply sort_desc_desc|].
    eapply Permutation_NoDup; [apply Permutation_sym; exact P | exact N].
  - intros i Hi. apply R. eapply Permutation_in; [exact P | exact Hi].
Qed.

(* the order matters: removing in collection order is wrong as soon as the positions are not descending *)
Theorem removal_order_matters : exists (idx : list nat) (l : list nat),
  NoDup idx /\ (forall i, In i idx -> i < length l) /\
  fold_left (fun acc i => remove_nth i acc) (rev idx) l
  <> map snd (filter (fun p => negb (existsb (Nat.eqb (fst p)) idx)) (combine (seq 0 (length l)) l)).
Proof.
  exists [1; 0], [10; 20; 30]. split; [|split].
  - constructor; [intros [H|[]]; discriminate|]. constructor; [intros []|constructor].
  - intros i [<-|[<-|[]]]; cbn [length]; lia.
  - vm_compute. discriminate.
Qed.

(* the dictionary operations *)
Lemma str_eqb_eq a b : str_eqb a b = true -> a = b.
Proof. apply list_eqb_spec. intros x y. apply Nat.eqb_eq. Qed.

Lemma dict_pop_in d n k l : In (k, l) (dict_pop d n) -> In (k, l) d.
Proof. unfold dict_pop. intro H. apply filter_In in H. tauto. Qed.

Lemma dict_append_in : forall d n i k l p, In (k, l) (dict_append d n i) -> In p l ->
  (exists l0, In (k, l0) d /\ In p l0) \/ (p = i /\ k = n).
Proof.
  induction d as [|[k' l'] t IH]; intros n i k l p H Hp; cbn [dict_append] in H.
  - destruct H as [H|[]]. inversion H; subst. destruct Hp as [<-|[]]. right. split; reflexivity.
  - destruct (str_eqb k' n) eqn:E.
    + destruct H as [H|H].
      * inversion H; subst. apply in_app_or in Hp. destruct Hp as [Hp|[<-|[]]].
        -- left. exists l'. split; [left; reflexivity | exact Hp].
        -- right. split; [reflexivity | apply str_eqb_eq; exact E].
      * left. exists l. split; [right; exact H | exact Hp].
    + destruct H as [H|H].
      * inversion H; subst. left. exists l. split; [left; reflexivity | exact Hp].
      * destruct (IH n i k l p H Hp) as [[l0 [H1 H2]]|H1].
        -- left. exists l0. split; [right; exact H1 | exact H2].
        -- right. exact H1.
Qed.

(* what the scan collects: positions of list-typed leaves of dotted requests, each under its own nest, ascending *)
Definition dflt : reqcol := {| rq_in := []; rq_pa := []; rq_list := false |}.
Lemma scan_positions : forall cols i reject d reject' d',
  scan i cols reject d = (reject', d') ->
  (forall k l p, In (k, l) d -> In p l -> p < i) ->
  forall k l p, In (k, l) d' -> In p l ->
    (exists l0, In (k, l0) d /\ In p l0) \/
    (i <= p < i + length cols /\ str_eqb (rq_in (nth (p - i) cols dflt)) (rq_pa (nth (p - i) cols dflt)) = false
     /\ rq_list (nth (p - i) cols dflt) = true /\ nest_of (rq_in (nth (p - i) cols dflt)) = k).
Proof.
  induction cols as [|c t IH]; intros i reject d reject' d' H B k l p Hk Hp.
  - cbn [scan] in H. inversion H; subst. left. exists l. split; assumption.
  - cbn [scan] in H.
    assert (Shift : forall d0,
      (exists l0, In (k, l0) d0 /\ In p l0) \/
      (S i <= p < S i + length t /\ str_eqb (rq_in (nth (p - S i) t dflt)) (rq_pa (nth (p - S i) t dflt)) = false
        /\ rq_list (nth (p - S i) t dflt) = true /\ nest_of (rq_in (nth (p - S i) t dflt)) = k) ->
      (exists l0, In (k, l0) d0 /\ In p l0) \/
      (i <= p < i + length (c :: t) /\ str_eqb (rq_in (nth (p - i) (c :: t) dflt)) (rq_pa (nth (p - i) (c :: t) dflt)) = false
        /\ rq_list (nth (p - i) (c :: t) dflt) = true /\ nest_of (rq_in (nth (p - i) (c :: t) dflt)) = k)).
    { intros d0 [L|[R1 R2]]; [left; exact L|right].
      replace (p - i) with (S (p - S i)) by lia. cbn [nth length]. split; [lia | exact R2]. }
    destruct (str_eqb (rq_in c) (rq_pa c)) eqn:E1.
    + apply Shift. eapply IH; [exact H | | exact Hk | exact Hp].
      intros k0 l0 p0 H0 Hp0. specialize (B k0 l0 p0 H0 Hp0). lia.
    + destruct (negb (rq_list c)) eqn:E2.
      * destruct (Shift (dict_pop d (nest_of (rq_in c)))) as [[l0 [H1 H2]]|R].
        -- eapply IH; [exact H | | exact Hk | exact Hp].
           intros k0 l0 p0 H0 Hp0. apply dict_pop_in in H0. specialize (B k0 l0 p0 H0 Hp0). lia.
        -- left. exists l0. split; [eapply dict_pop_in; exact H1 | exact H2].
        -- right. exact R.
      * apply negb_false_iff in E2.
        destruct (mem_str (nest_of (rq_in c)) reject) eqn:E3.
        -- apply Shift. eapply IH; [exact H | | exact Hk | exact Hp].
           intros k0 l0 p0 H0 Hp0. specialize (B k0 l0 p0 H0 Hp0). lia.
        -- destruct (Shift (dict_append d (nest_of (rq_in c)) i)) as [[l0 [H1 H2]]|R].
           ++ eapply IH; [exact H | | exact Hk | exact Hp].
              intros k0 l0 p0 H0 Hp0.
              destruct (dict_append_in d _ _ _ _ _ H0 Hp0) as [[l1 [H1 H2]]|[-> _]]; [|lia].
              specialize (B k0 l1 p0 H1 H2). lia.
           ++ destruct (dict_append_in d _ _ _ _ _ H1 H2) as [L|[-> ->]].
              ** left. exact L.
              ** right. rewrite Nat.sub_diag. cbn [nth length]. repeat split; try assumption; lia.
           ++ right. exact R.
Qed.

(* the collected positions are pairwise distinct *)
Definition allpos (d : list (str * list nat)) : list nat := concat (map snd d).

Lemma allpos_append : forall d n i, Permutation (allpos (dict_append d n i)) (i :: allpos d).
Proof.
  unfold allpos. induction d as [|[k' l'] t IH]; intros n i; cbn [dict_append].
  - apply Permutation_refl.
  - destruct (str_eqb k' n); cbn [map snd concat].
    + rewrite <- app_assoc. cbn [app]. apply Permutation_sym. apply Permutation_middle.
    + eapply perm_trans; [apply Permutation_app_head; apply IH|].
      apply Permutation_sym. apply Permutation_middle.
Qed.

Lemma NoDup_app_sub {A} : forall (l r r' : list A), NoDup (l ++ r) -> NoDup r' -> incl r' r -> NoDup (l ++ r').
Proof.
  induction l as [|a l IH]; intros r r' N N' I; cbn [app] in *.
  - exact N'.
  - inversion N as [|? ? Hnin N0]; subst. constructor.
    + intro H. apply Hnin. apply in_or_app. apply in_app_or in H. destruct H as [H|H]; [left; exact H | right; apply I; exact H].
    + eapply IH; eassumption.
Qed.

Lemma NoDup_app_r {A} : forall (l r : list A), NoDup (l ++ r) -> NoDup r.
Proof. induction l as [|a l IH]; intros r N; [exact N|]. inversion N; subst. apply IH. assumption. Qed.

Lemma allpos_pop_incl : forall d n, incl (allpos (dict_pop d n)) (allpos d).
Proof.
  unfold allpos, dict_pop. induction d as [|[k' l'] t IH]; intros n p Hp; cbn [filter fst] in Hp.
  - exact Hp.
  - cbn [map snd concat]. apply in_or_app. destruct (negb (str_eqb k' n)).
    + cbn [map snd concat] in Hp. apply in_app_or in Hp. destruct Hp as [Hp|Hp]; [left; exact Hp | right; eapply IH; exact Hp].
    + right. eapply IH; exact Hp.
Qed.

Lemma allpos_pop_nodup : forall d n, NoDup (allpos d) -> NoDup (allpos (dict_pop d n)).
Proof.
  induction d as [|[k' l'] t IH]; intros n N.
  - exact N.
  - unfold dict_pop. cbn [filter fst]. change (filter _ t) with (dict_pop t n).
    unfold allpos in N. cbn [map snd concat] in N. fold (allpos t) in N.
    pose proof (IH n (NoDup_app_r _ _ N)) as N'.
    destruct (negb (str_eqb k' n)).
    + unfold allpos. cbn [map snd concat]. fold (allpos (dict_pop t n)).
      eapply NoDup_app_sub; [exact N | exact N' | apply allpos_pop_incl].
    + exact N'.
Qed.

Lemma scan_nodup : forall cols i reject d reject' d',
  scan i cols reject d = (reject', d') ->
  NoDup (allpos d) -> (forall p, In p (allpos d) -> p < i) ->
  NoDup (allpos d') /\ (forall p, In p (allpos d') -> p < i + length cols).
Proof.
  induction cols as [|c t IH]; intros i reject d reject' d' H N B; cbn [scan] in H.
  - inversion H; subst. split; [exact N|]. intros p Hp. specialize (B p Hp). lia.
  - assert (Shift : forall d0, NoDup (allpos d0) /\ (forall p, In p (allpos d0) -> p < S i + length t) ->
                               NoDup (allpos d0) /\ (forall p, In p (allpos d0) -> p < i + length (c :: t))).
    { intros d0 [N0 B0]. split; [exact N0|]. intros p Hp. specialize (B0 p Hp). cbn [length]. lia. }
    apply Shift.
    destruct (str_eqb (rq_in c) (rq_pa c)).
    + eapply IH; [exact H | exact N |]. intros p Hp. specialize (B p Hp). lia.
    + destruct (negb (rq_list c)).
      * eapply IH; [exact H | apply allpos_pop_nodup; exact N |].
        intros p Hp. apply allpos_pop_incl in Hp. specialize (B p Hp). lia.
      * destruct (mem_str (nest_of (rq_in c)) reject).
        -- eapply IH; [exact H | exact N |]. intros p Hp. specialize (B p Hp). lia.
        -- pose proof (allpos_append d (nest_of (rq_in c)) i) as P.
           eapply IH; [exact H | |].
           ++ eapply Permutation_NoDup; [apply Permutation_sym; exact P|].
              constructor; [|exact N]. intro Hi. specialize (B i Hi). lia.
           ++ intros p Hp. eapply Permutation_in in Hp; [|exact P].
              destruct Hp as [<-|Hp]; [lia | specialize (B p Hp); lia].
Qed.

Lemma filtk_map {A B} (f : A -> B) : forall (l : list A) k idx,
  filtk k idx (map f l)
  = map (fun p => f (snd p)) (filter (fun p => negb (existsb (Nat.eqb (fst p)) idx)) (combine (seq k (length l)) l)).
Proof.
  induction l as [|x t IH]; intros k idx.
  - reflexivity.
  - cbn [map]. rewrite filtk_cons, IH. cbn [length seq combine filter fst].
    destruct (existsb (Nat.eqb k) idx); reflexivity.
Qed.

(* the result of the regrouping: the kept columns are exactly the requested columns that were not regrouped, in request
   order, and they come first *)
Theorem regroup_kept reject0 cols reject out :
  m_regroup reject0 cols = Ok (reject, out) ->
  exists d, scan 0 cols reject0 [] = (reject, d) /\
            out = spec_kept cols (concat (map snd d))
                  ++ map (fun kv => OStruct (fst kv) (map (fun i => rq_pa (nth i cols dflt)) (snd kv))) d.
Proof.
  unfold m_regroup. destruct (scan 0 cols reject0 []) as [rj d] eqn:E.
  destruct (existsb (fun c => mem_str (rq_in c) (map fst d)) cols); [discriminate|].
  intro H. inversion H; subst. exists d. split; [reflexivity|].
  f_equal.
  destruct (scan_nodup cols 0 reject0 [] reject d E) as [N B]; [constructor | intros p [] |].
  fold (allpos d). rewrite remove_all_filter.
  - change (filtk 0 (allpos d) (map (fun c => OFlat (rq_pa c)) cols) = spec_kept cols (allpos d)).
    rewrite filtk_map. reflexivity.
  - exact N.
  - intros i Hi. rewrite map_length. apply (B i Hi).
Qed.

(* a nest requested both in full and partially is refused *)
Theorem regroup_full_and_partial_refused reject0 cols :
  (let '(_, d) := scan 0 cols reject0 [] in existsb (fun c => mem_str (rq_in c) (map fst d)) cols = true) ->
  m_regroup reject0 cols = Err.
Proof.
  unfold m_regroup. destruct (scan 0 cols reject0 []) as [rj d]. intros ->. reflexivity.
Qed.

Print Assumptions sort_desc_perm.
Print Assumptions sort_desc_desc.
Print Assumptions remove_all_filter.
Print Assumptions removal_order_matters.
Print Assumptions scan_positions.
Print Assumptions regroup_kept.
Print Assumptions regroup_full_and_partial_refused.
