(* Proofs_NumpyView.v — the per-row numpy view (iter_field_lists / the arguments of reduce) is a function of the
   logical column alone; a whole-chunk conversion is not. *)
From Coq Require Import String List Arith Bool ZArith Lia.
Import ListNotations.
From NP Require Import Base Values Arrow Abs ExtArray Logical Steps NumpyView Proofs_Views2 Proofs_Codec.

Lemma field_type_pos (sch : schema) nm k nt : NoDup (map fst sch) ->
  nth_error sch k = Some nt -> fst nt = nm -> field_type sch nm = Some (snd nt).
Proof.
  unfold field_type. revert k. induction sch as [|a t IH]; intros k Hnd Hk Hnm.
  - destruct k; discriminate.
  - cbn [find]. destruct k as [|k].
    + cbn in Hk. inversion Hk; subst a. rewrite Hnm, String.eqb_refl. reflexivity.
    + cbn in Hk. cbn [map] in Hnd. inversion Hnd as [|x l Hnot Hnd']; subst.
      destruct (String.eqb (fst a) (fst nt)) eqn:E.
      * apply String.eqb_eq in E. exfalso. apply Hnot. rewrite E. apply in_map. eapply nth_error_In; eauto.
      * apply (IH k Hnd' Hk eq_refl).
Qed.

(* the generator yields, row by row, what the logical column says - whatever the layout *)
Theorem iter_field_lists_exact p nm : wf_b p = true -> chunks p <> [] -> NoDup (map fst (ctype p)) ->
  has_name (map fst (ctype p)) nm = true ->
  m_iter_field_lists p nm = spec_iter_field_lists (abs p) nm /\ exists rows, m_iter_field_lists p nm = Ok rows.
Proof.
  intros Hwf Hch Hnd Hhas.
  assert (Hl : m_to_lists p [nm] = Ok (spec_lists_opt_fields (abs p) [nm])).
  { apply to_lists_fields_exact; auto; [discriminate|]. cbn [forallb]. rewrite Hhas. reflexivity. }
  destruct (has_name_pos (ctype p) nm Hhas) as (k & nt & Hfp & Hk & Hnt).
  pose proof (field_type_pos (ctype p) nm k nt Hnd Hk Hnt) as Hft.
  unfold m_iter_field_lists, spec_iter_field_lists. rewrite Hl.
  change (lsch (abs p)) with (ctype p). rewrite Hft, Hfp.
  unfold spec_lists_opt_fields, spec_lists_fields. cbn [map]. change (lsch (abs p)) with (ctype p). rewrite Hfp.
  split; [reflexivity|eexists; reflexivity].
Qed.

Corollary iter_field_lists_layout_independent p q nm :
  wf_b p = true -> chunks p <> [] -> NoDup (map fst (ctype p)) ->
  wf_b q = true -> chunks q <> [] -> abs p = abs q ->
  has_name (map fst (ctype p)) nm = true ->
  m_iter_field_lists p nm = m_iter_field_lists q nm.
Proof.
  intros Hwf Hch Hnd Hwfq Hchq Habs Hhas.
  assert (Hty : ctype p = ctype q) by (change (lsch (abs p) = lsch (abs q)); rewrite Habs; reflexivity).
  destruct (iter_field_lists_exact p nm Hwf Hch Hnd Hhas) as (Hp & _).
  destruct (iter_field_lists_exact q nm Hwfq Hchq) as (Hq & _); [rewrite <- Hty; exact Hnd|rewrite <- Hty; exact Hhas|].
  rewrite Hp, Hq, Habs. reflexivity.
Qed.

(* the dtype of a row is decided by that row alone: by the element type and whether THIS row holds a null *)
Lemma has_null_np_values t b l : has_null (np_values t b l) = has_null l.
Proof.
  unfold np_values, has_null. destruct t; try reflexivity. destruct b; [|reflexivity].
  induction l as [|v l IH]; [reflexivity|]. cbn [map existsb]. rewrite IH. f_equal.
  destruct v as [|z|x|k]; cbn [via_double is_null]; try reflexivity. destruct (Z.abs z <? 2 ^ 53)%Z; reflexivity.
Qed.

Theorem row_dtype_local L nm rows i t d vs : spec_iter_field_lists L nm = Ok rows -> field_type (lsch L) nm = Some t ->
  nth_error rows i = Some (Some (d, vs)) -> d = np_dtype t (has_null vs).
Proof.
  intros Hs Ht Hn. unfold spec_iter_field_lists in Hs. rewrite Ht in Hs.
  destruct (field_pos (lsch L) nm) as [k|]; [|discriminate]. inversion Hs; subst rows; clear Hs.
  rewrite nth_error_map in Hn. destruct (nth_error _ i) as [o|]; [|discriminate]. cbn [option_map] in Hn.
  inversion Hn as [Hr]. destruct o as [l|]; [|discriminate]. cbn [np_row option_map] in Hr.
  unfold np_row_with in Hr. inversion Hr; subst d vs. rewrite has_null_np_values. reflexivity.
Qed.

(* ---- the whole-chunk conversion depends on the layout: same logical column, two chunkings, different arrays ---- *)
Definition cx_one : chunked :=
  {| ctype := [("a"%string, TI64)];
     chunks := [ {| svalid := [true; true];
                    sfields := [ {| fname := "a"%string; fty := TI64;
                                    farr := {| offs := [0; 2; 4]; lvalid := [true; true];
                                               child := [VInt 1; VInt 2; VInt 3; VNull] |} |} ] |} ] |}.
Definition cx_two : chunked :=
  {| ctype := [("a"%string, TI64)];
     chunks := [ {| svalid := [true];
                    sfields := [ {| fname := "a"%string; fty := TI64;
                                    farr := {| offs := [0; 2]; lvalid := [true]; child := [VInt 1; VInt 2] |} |} ] |};
                 {| svalid := [true];
                    sfields := [ {| fname := "a"%string; fty := TI64;
                                    farr := {| offs := [0; 2]; lvalid := [true]; child := [VInt 3; VNull] |} |} ] |} ] |}.

Theorem chunkwise_conversion_refuted :
  inv_b cx_one = true /\ inv_b cx_two = true /\ abs cx_one = abs cx_two
  /\ m_iter_chunkwise cx_one "a" <> m_iter_chunkwise cx_two "a"
  /\ m_iter_field_lists cx_one "a" = m_iter_field_lists cx_two "a".
Proof. repeat split; try (vm_compute; reflexivity). vm_compute. intro H. discriminate H. Qed.

(* ... and where a chunk holds no null at all (or one row), both conversions agree: what the existing tests see *)
Theorem chunkwise_agrees_without_nulls :
  m_iter_chunkwise cx_two "a" = m_iter_field_lists cx_two "a".
Proof. vm_compute. reflexivity. Qed.

Example iter_field_lists_nonvacuous :
  wf_b cx_one = true /\ chunks cx_one <> [] /\ NoDup (map fst (ctype cx_one)) /\ has_name (map fst (ctype cx_one)) "a" = true
  /\ m_iter_field_lists cx_one "a" = Ok [Some (DInt64, [VInt 1; VInt 2]); Some (DFloat64, [VInt 3; VNull])].
Proof.
  repeat split; try (vm_compute; reflexivity); try discriminate.
  cbn. constructor; [intros []|constructor].
Qed.

Print Assumptions iter_field_lists_exact.
Print Assumptions iter_field_lists_layout_independent.
Print Assumptions row_dtype_local.
Print Assumptions chunkwise_conversion_refuted.
