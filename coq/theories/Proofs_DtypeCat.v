(* Proofs_DtypeCat.v — the finite facts about the alias catalogue of the installed pyarrow (gen/AliasTable.v,
   regenerated on every run), by computation, and their use in the round-trip theorem. *)
From Coq Require Import String List Arith Bool.
Import ListNotations.
From NP Require Import Base Values Dtype Proofs_Dtype.
From NPgen Require Import AliasTable.

Lemma catalogue_is_simple : forallb (fun kv => type_simple alias_table (snd kv)) alias_table = true.
Proof. vm_compute. reflexivity. Qed.

Lemma catalogue_roundtrip d :
  negb (length d =? 0) = true -> names_distinct (map fst d) = true -> forallb name_ok (map fst d) = true ->
  (forall t, In t (map snd d) -> In t (map snd alias_table)) ->
  parse_name alias_table (render_name d) = Ok d.
Proof.
  intros H1 H2 H3 H4. apply parse_render. unfold dtype_ok.
  rewrite !andb_true_iff. repeat split; try assumption.
  apply forallb_forall. intros t Ht. specialize (H4 t Ht). apply in_map_iff in H4 as [kv [<- Hin]].
  pose proof catalogue_is_simple as HC. rewrite forallb_forall in HC. exact (HC kv Hin).
Qed.
