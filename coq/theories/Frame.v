(* Frame.v — the frame-level mechanisms of nested-pandas on LOGICAL values: rows are
   optional lists of records (one val per field), a flat table is a list of (key, record).
   What the Python does through pandas / the packer is mirrored statement by statement:

     nest.to_flat + get_list_index          m_ordinal_flat        (views: refined in C03)
     packer.calculate_sorted_index_offsets  calc_offsets          (first occurrences ++ [len])
     packer.pack_sorted_df_into_struct      m_pack_sorted         (monotone check, unique index, list views)
     packer.pack_flat                       m_pack_flat           (stable sort by key, then pack_sorted)
     NestedFrame._set_filtered_flat_df      m_set_filtered        (re-pack, aligned write-back on 0..n-1)
     NestedFrame.query (nested branch)      m_query_nested
     NestedFrame.dropna (nested branch)     m_dropna_nested
     NestedFrame.sort_values (nested)       m_sort_nested_with    (the pandas sort is a parameter: any sorted permutation)
     NestedFrame.add_nested (left join)     m_add_nested_left
     NestedFrame.from_flat                  m_from_flat
     NestedFrame.reduce                     m_reduce_calls
     count_nested                           m_count_nested

   The specifications (names spec_...) are written from the property sentences.  Definitions only. *)
From Coq Require Import String List Arith Bool ZArith.
Import ListNotations.
From NP Require Import Base Values Arrow.

Definition record := list val.
Definition nrow := option (list record).
Definition recs (r : nrow) : list record := match r with Some l => l | None => [] end.
Definition nonempty_or_missing (l : list record) : nrow := match l with [] => None | _ => Some l end.
Definition ftable := list (Z * record).

(* ---------- views of one nested column (C03) ---------- *)
Definition row_lens (rows : list nrow) : list nat := map (fun r => length (recs r)) rows.
Definition ordinals (n : nat) : list Z := map Z.of_nat (seq 0 n).
Definition m_list_index (rows : list nrow) : list Z := flat_repeat (ordinals (length rows)) (row_lens rows).
Definition m_flat (rows : list nrow) : list record := concat (map recs rows).
Definition m_ordinal_flat (rows : list nrow) : ftable := combine (m_list_index rows) (m_flat rows).
Definition m_labelled_flat (labels : list Z) (rows : list nrow) : ftable :=
  combine (flat_repeat labels (row_lens rows)) (m_flat rows).

(* ---------- packer.py ---------- *)
Fixpoint is_mono_inc (l : list Z) : bool :=
  match l with a :: ((b :: _) as t) => (a <=? b)%Z && is_mono_inc t | _ => true end.

(* Index.duplicated(keep="first"): has this value occurred before *)
Fixpoint dup_first_from (seen : list Z) (l : list Z) : list bool :=
  match l with [] => [] | x :: t => existsb (Z.eqb x) seen :: dup_first_from (x :: seen) t end.
Definition duplicated_first : list Z -> list bool := dup_first_from [].

(* np.append(np.nonzero(~index.duplicated(keep="first"))[0], len(index)) *)
Definition calc_offsets (idx : list Z) : list nat :=
  true_positions (map negb (duplicated_first idx)) ++ [length idx].

(* pack_sorted_df_into_struct: (unique index, per-row list views of the flat columns) *)
Definition m_pack_sorted (t : ftable) : res (list (Z * list record)) :=
  let idx := map fst t in
  if is_mono_inc idx then
    let offs := calc_offsets idx in
    Ok (combine (map (fun o => nth o idx 0%Z) (removelast offs)) (cuts offs (map snd t)))
  else Err.

(* DataFrame.sort_index(kind="stable"): canonical instance of the contract = stable insertion sort *)
Fixpoint ins_by_key (x : Z * record) (l : ftable) : ftable :=
  match l with
  | [] => [x]
  | y :: t => if (fst x <=? fst y)%Z then x :: y :: t else y :: ins_by_key x t
  end.
Definition stable_sort_key (t : ftable) : ftable := fold_right ins_by_key [] t.

Definition m_pack_flat (t : ftable) : res (list (Z * list record)) := m_pack_sorted (stable_sort_key t).

(* flattening a packed column: every record with the label of its row *)
Definition flatten_packed (g : list (Z * list record)) : ftable :=
  concat (map (fun kg => map (pair (fst kg)) (snd kg)) g).

(* ---------- aligned write-back ---------- *)
Fixpoint lookup_key (k : Z) (g : list (Z * list record)) : nrow :=
  match g with
  | [] => None
  | (j, xs) :: t => if (k =? j)%Z then Some xs else lookup_key k t
  end.

(* new_df = self.reset_index(drop=True); new_df[nest] = packed   (Series aligned on 0..n-1) *)
Definition m_align (n : nat) (g : list (Z * list record)) : list nrow :=
  map (fun i => lookup_key i g) (ordinals n).

Definition m_set_filtered (n : nat) (t : ftable) : res (list nrow) :=
  res_map (m_align n) (m_pack_sorted t).

(* ---------- query / dropna on a nested layer ---------- *)
(* mask: one boolean per flat record, as evaluated by pandas on the flat view *)
Definition m_query_nested (rows : list nrow) (mask : list bool) : res (list nrow) :=
  if length mask =? length (m_flat rows) then m_set_filtered (length rows) (mask_filter mask (m_ordinal_flat rows))
  else Err.

Definition spec_filter_rows (keep : record -> bool) (rows : list nrow) : list nrow :=
  map (fun r => nonempty_or_missing (filter keep (recs r))) rows.

(* pandas dropna row predicate *)
Inductive dropna_how := HowAny | HowAll | HowThresh (k : nat).
Definition count_nonnull (r : record) : nat := length (filter (fun v => negb (is_null v)) r).
(* subset: positions of the fields to look at (None = all) *)
Definition sub_record (subset : option (list nat)) (r : record) : record :=
  match subset with None => r | Some ps => map (fun p => nth p r VNull) ps end.
Definition complete (how : dropna_how) (subset : option (list nat)) (r : record) : bool :=
  let s := sub_record subset r in
  match how with
  | HowAny => length s =? count_nonnull s
  | HowAll => negb (count_nonnull s =? 0) || (length s =? 0)
  | HowThresh k => k <=? count_nonnull s
  end.
Definition m_dropna_nested (rows : list nrow) (how : dropna_how) (subset : option (list nat)) : res (list nrow) :=
  m_set_filtered (length rows) (filter (fun kr => complete how subset (snd kr)) (m_ordinal_flat rows)).

(* ---------- sort_values on a nested layer ---------- *)
(* the order of the requested keys, directions and null placement is a parameter: cmp_le a b = "a may
   stand before b"; the pandas sort is ANY function returning a permutation sorted by (ordinal, keys) *)
Definition m_sort_nested_with (sorter : ftable -> ftable) (rows : list nrow) : res (list nrow) :=
  m_set_filtered (length rows) (sorter (m_ordinal_flat rows)).

(* canonical sorter: insertion sort by (ordinal, then cmp_le) *)
Section Sorter.
Variable rec_le : record -> record -> bool.
Definition key_rec_le (x y : Z * record) : bool :=
  (fst x <? fst y)%Z || ((fst x =? fst y)%Z && rec_le (snd x) (snd y)).
Fixpoint ins_sorted (x : Z * record) (l : ftable) : ftable :=
  match l with
  | [] => [x]
  | y :: t => if key_rec_le x y then x :: y :: t else y :: ins_sorted x t
  end.
Definition sort_flat (t : ftable) : ftable := fold_right ins_sorted [] t.
Fixpoint sorted_recs (l : list record) : bool :=
  match l with a :: ((b :: _) as t) => rec_le a b && sorted_recs t | _ => true end.
End Sorter.

(* ---------- add_nested / from_flat ---------- *)
(* base.join(pack_flat(flat), how="left") on the index *)
Definition m_add_nested_left (base_labels : list Z) (t : ftable) : res (list nrow) :=
  res_map (fun g => map (fun l => lookup_key l g) base_labels) (m_pack_flat t).
Definition spec_add_nested_left (base_labels : list Z) (t : ftable) : list nrow :=
  map (fun l => nonempty_or_missing (map snd (filter (fun kr => (fst kr =? l)%Z) t))) base_labels.

(* any join: the pandas join of the base index with the (unique) packed index is a contract; its plan
   says for every result row which packed label (if any) it carries *)
Definition m_join_plan (plan : list (option Z)) (t : ftable) : res (list nrow) :=
  res_map (fun g => map (fun o => match o with Some l => lookup_key l g | None => None end) plan) (m_pack_flat t).
Definition spec_join_plan (plan : list (option Z)) (t : ftable) : list nrow :=
  map (fun o => match o with
                | Some l => nonempty_or_missing (map snd (filter (fun kr => (fst kr =? l)%Z) t))
                | None => None end) plan.

(* from_flat: base rows = first occurrence per label, in first-occurrence order; nested = all records of the label *)
Definition first_occurrences {A} (keys : list Z) (xs : list A) : list (Z * A) :=
  mask_filter (map negb (duplicated_first keys)) (combine keys xs).
Definition m_from_flat (t : ftable) (base : list record) : res (list (Z * record * nrow)) :=
  let firsts := first_occurrences (map fst t) base in
  res_map (fun rows => map2 (fun kb r => (fst kb, snd kb, r)) firsts rows)
          (m_add_nested_left (map fst firsts) t).

(* ---------- reduce / count_nested ---------- *)
(* one call per row, in row order: base values as scalars, nested fields as that row's values *)
Inductive rarg := RBase (v : val) | RNested (vs : list val).
Inductive rcol := CBaseCol (vs : list val) | CNestField (k : nat).   (* k = position of the field in a record *)
Definition field_values (k : nat) (r : nrow) : list val := map (fun rc => nth k rc VNull) (recs r).
(* iter_field_lists yields one array per row; zip stops at the shortest iterator *)
Definition col_iter (rows : list nrow) (c : rcol) : list rarg :=
  match c with
  | CBaseCol vs => map RBase vs
  | CNestField k => map (fun r => RNested (field_values k r)) rows
  end.
Fixpoint zip_all {A} (ls : list (list A)) : list (list A) :=
  match ls with
  | [] => []
  | [l] => map (fun x => [x]) l
  | l :: t => map2 (fun x xs => x :: xs) l (zip_all t)
  end.
Definition m_reduce_calls (rows : list nrow) (cols : list rcol) : list (list rarg) :=
  zip_all (map (col_iter rows) cols).
Definition spec_reduce_calls (rows : list nrow) (cols : list rcol) : list (list rarg) :=
  map (fun i => map (fun c => match c with
                              | CBaseCol vs => RBase (nth i vs VNull)
                              | CNestField k => RNested (field_values k (nth i rows None))
                              end) cols)
      (seq 0 (length rows)).

Definition m_count_nested (rows : list nrow) : list nat := row_lens rows.

(* ---------- mask-based form of the per-row filter (what the correspondence check evaluates: the
   per-record truth values come from the evaluator, row by row) ---------- *)
Definition spec_filter_mask (rows : list nrow) (masks : list (list bool)) : list nrow :=
  map2 (fun r m => nonempty_or_missing (mask_filter m (recs r))) rows masks.

(* whole-row selection of a frame column (base-layer query / dropna): tables intact *)
Definition spec_select_rows (rows : list nrow) (mask : list bool) : list nrow := mask_filter mask rows.

(* verified checker for under-determined sorting results (ties): rows' is an acceptable result of sorting
   rows by rec_le iff same length, row-wise permutation (as multisets of records, by count), sorted, and a
   row without records is missing *)
Definition record_eqb : record -> record -> bool := list_eqb val_eqb.
Fixpoint remove_first (x : record) (l : list record) : option (list record) :=
  match l with
  | [] => None
  | y :: t => if record_eqb x y then Some t else option_map (cons y) (remove_first x t)
  end.
Fixpoint perm_b (a b : list record) : bool :=
  match a with
  | [] => match b with [] => true | _ => false end
  | x :: t => match remove_first x b with Some b' => perm_b t b' | None => false end
  end.
Definition nrow_eqb : nrow -> nrow -> bool := option_eqb (list_eqb record_eqb).
Definition nrows_eqb : list nrow -> list nrow -> bool := list_eqb nrow_eqb.
Definition check_sorted_rows (rec_le : record -> record -> bool) (rows rows' : list nrow) : bool :=
  (length rows =? length rows')
  && forallb2 (fun r r' => perm_b (recs r) (recs r') && sorted_recs rec_le (recs r')
                           && match r' with Some [] => false | Some _ => true | None => length (recs r) =? 0 end)
              rows rows'.

(* ---------- the order used by sort_values on a nested layer: a parameter supplied per case ---------- *)
(* rank: an order-preserving integer for every non-null value of a key field (distinct values may tie, e.g.
   -0.0 and 0.0); nulls are placed by na_position whatever the direction; each key has its own direction *)
Definition rank_of (tbl : list (val * Z)) (v : val) : Z :=
  match find (fun p => val_eqb (fst p) v) tbl with Some p => snd p | None => 0%Z end.
Definition cmp_val (tbl : list (val * Z)) (asc na_last : bool) (a b : val) : comparison :=
  match is_null a, is_null b with
  | true, true => Eq
  | true, false => if na_last then Gt else Lt
  | false, true => if na_last then Lt else Gt
  | false, false => let c := Z.compare (rank_of tbl a) (rank_of tbl b) in if asc then c else CompOpp c
  end.
Fixpoint cmp_keys (tbl : list (val * Z)) (na_last : bool) (keys : list (nat * bool)) (a b : record) : comparison :=
  match keys with
  | [] => Eq
  | (k, asc) :: t =>
      match cmp_val tbl asc na_last (nth k a VNull) (nth k b VNull) with
      | Eq => cmp_keys tbl na_last t a b
      | c => c
      end
  end.
Definition rec_le_keys (tbl : list (val * Z)) (na_last : bool) (keys : list (nat * bool)) (a b : record) : bool :=
  match cmp_keys tbl na_last keys a b with Gt => false | _ => true end.
(* two results agree up to ties: row by row the same sequence of keys *)
Definition keys_agree (tbl : list (val * Z)) (na_last : bool) (keys : list (nat * bool)) (r1 r2 : list nrow) : bool :=
  forallb2 (fun a b => forallb2 (fun x y => match cmp_keys tbl na_last keys x y with Eq => true | _ => false end) (recs a) (recs b)
                       && Bool.eqb (match a with Some _ => true | None => false end) (match b with Some _ => true | None => false end))
           r1 r2.

(* ---------- eval on a nest (C13): values on the flat view, assignment of a field record by record ---------- *)
(* the value of an expression over the fields of one nest: one value per flat record (the evaluator is pointwise:
   contract), carrying the flat index *)
Definition m_eval_value (labels : list Z) (rows : list nrow) (e : record -> val) : list (Z * val) :=
  combine (flat_repeat labels (row_lens rows)) (map e (m_flat rows)).

(* position k of a record := v (k = width: a new field is appended) *)
Definition assign_rec (k : nat) (r : record) (v : val) : record :=
  if k <? length r then firstn k r ++ v :: skipn (S k) r else r ++ [v].

(* nest.field = values: NestedFrame.__setitem__ -> with_flat_field -> set_flat_field cuts the flat values by the row
   lengths (C06); on record-major rows: consume the values row by row, a missing row takes none *)
Fixpoint assign_rows (k : nat) (rows : list nrow) (vals : list val) : list nrow :=
  match rows with
  | [] => []
  | None :: t => None :: assign_rows k t vals
  | Some rs :: t => Some (map2 (assign_rec k) rs (firstn (length rs) vals)) :: assign_rows k t (skipn (length rs) vals)
  end.
Definition m_eval_assign (k : nat) (rows : list nrow) (vals : list val) : res (list nrow) :=
  if length vals =? length (m_flat rows) then Ok (assign_rows k rows vals) else Err.

(* a program: lines "nest.field_k = e" evaluated left to right, each on the CURRENT rows *)
Definition m_eval_program (prog : list (nat * (record -> val))) (rows : list nrow) : list nrow :=
  fold_left (fun rs ke => assign_rows (fst ke) rs (map (snd ke) (m_flat rs))) prog rows.
(* the same program run on the plain flat table *)
Definition flat_program (prog : list (nat * (record -> val))) (recs : list record) : list record :=
  fold_left (fun rs ke => map (fun r => assign_rec (fst ke) r (snd ke r)) rs) prog recs.
