(* Proofs_Steps.v — assembly: every step of the operation alphabet refines its specification
   and preserves the invariant; lifted to histories of any length by induction; layout
   independence (C04) as a corollary. *)
From Coq Require Import String List Arith Bool ZArith Lia.
Import ListNotations.
From NP Require Import Base Values Arrow Abs Kernels Logical ExtArray Codec Steps Proofs_Views
  Proofs_Codec Proofs_Select Proofs_Setitem Proofs_Fields Proofs_Transpose.

Theorem step_refines p o : inv_b p = true -> op_ok p o = true ->
  res_map abs (m_step p o) = spec_step (abs p) o.
Proof.
  intros Hi Ho. destruct o.
  - apply slice_refines; assumption.
  - apply mask_refines; assumption.
  - apply idx_refines; assumption.
  - apply take_refines; assumption.
  - apply concat_refines; assumption.
  - apply copy_refines; assumption.
  - apply dropna_refines; assumption.
  - apply pickle_refines; assumption.
  - apply setitem_refines; assumption.
  - apply viewfields_refines; assumption.
  - apply popfields_refines; assumption.
  - apply setlist_refines; assumption.
  - apply setflat_refines; assumption.
  - apply fill_refines; [assumption|assumption|exact Ho].
  - apply roundtripls_refines; assumption.
Qed.

Theorem step_inv p o p' : inv_b p = true -> op_ok p o = true ->
  m_step p o = Ok p' -> inv_b p' = true.
Proof.
  intros Hi Ho. destruct o.
  - apply slice_inv; assumption.
  - apply mask_inv; assumption.
  - apply idx_inv; assumption.
  - apply take_inv; assumption.
  - apply concat_inv; assumption.
  - apply copy_inv; assumption.
  - apply dropna_inv; assumption.
  - apply pickle_inv; assumption.
  - apply setitem_inv; assumption.
  - apply viewfields_inv; assumption.
  - apply popfields_inv; assumption.
  - apply setlist_inv; assumption.
  - apply setflat_inv; assumption.
  - apply fill_inv; assumption.
  - apply roundtripls_inv; assumption.
Qed.

(* the arguments of a whole history are well-formed w.r.t. the states the MODEL goes through *)
Fixpoint ops_ok (p : chunked) (ops : list aop) : bool :=
  match ops with
  | [] => true
  | o :: t => op_ok p o && match m_step p o with Ok p' => ops_ok p' t | Err => true end
  end.

Theorem run_inv : forall ops p p', inv_b p = true -> ops_ok p ops = true ->
  m_run p ops = Ok p' -> inv_b p' = true.
Proof.
  induction ops as [|o t IH]; intros p p' Hi Ho Hr; cbn [m_run ops_ok] in *.
  - inversion Hr; subst; exact Hi.
  - apply andb_true_iff in Ho as [Ho1 Ho2].
    destruct (m_step p o) as [q|] eqn:E; cbn [res_bind] in Hr; [|discriminate].
    apply (IH q p'); [eapply step_inv; eauto|exact Ho2|exact Hr].
Qed.

Theorem run_refines : forall ops p, inv_b p = true -> ops_ok p ops = true ->
  res_map abs (m_run p ops) = spec_run (abs p) ops.
Proof.
  induction ops as [|o t IH]; intros p Hi Ho; cbn [m_run spec_run ops_ok] in *; [reflexivity|].
  apply andb_true_iff in Ho as [Ho1 Ho2].
  pose proof (step_refines p o Hi Ho1) as HS.
  destruct (m_step p o) as [q|] eqn:E; cbn [res_bind res_map] in *.
  - rewrite <- HS. cbn [res_bind]. apply IH; [eapply step_inv; eauto|exact Ho2].
  - rewrite <- HS. reflexivity.
Qed.

(* every array born along a history satisfies the invariant (C01): the list of intermediate states *)
Fixpoint m_trace (p : chunked) (ops : list aop) : list chunked :=
  match ops with
  | [] => []
  | o :: t => match m_step p o with Ok p' => p' :: m_trace p' t | Err => [] end
  end.

Theorem trace_inv : forall ops p, inv_b p = true -> ops_ok p ops = true ->
  Forall (fun q => inv_b q = true) (m_trace p ops).
Proof.
  induction ops as [|o t IH]; intros p Hi Ho; cbn [m_trace ops_ok] in *; [constructor|].
  apply andb_true_iff in Ho as [Ho1 Ho2].
  destruct (m_step p o) as [q|] eqn:E; [|constructor].
  assert (Hq : inv_b q = true) by (eapply step_inv; eauto).
  constructor; [exact Hq|]. apply IH; assumption.
Qed.

(* C04: two physical columns denoting the same logical column are indistinguishable by any
   history of operations (same results, or both fail) *)
Theorem layout_independence : forall ops p1 p2,
  inv_b p1 = true -> inv_b p2 = true -> abs p1 = abs p2 ->
  ops_ok p1 ops = true -> ops_ok p2 ops = true ->
  res_map abs (m_run p1 ops) = res_map abs (m_run p2 ops).
Proof.
  intros ops p1 p2 H1 H2 Ha O1 O2.
  rewrite (run_refines ops p1 H1 O1), (run_refines ops p2 H2 O2), Ha. reflexivity.
Qed.
