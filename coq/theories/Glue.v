(* Glue.v — two pieces of decision logic around the packing and the parquet reader.

   NestedFrame.from_lists(df, base_columns=None, list_columns=None, name) (nestedframe/core.py): which columns are packed
   and which stay:
     neither given      every column is a list column, the result holds the nested column only;
     list_columns only  every other column is a base column (in frame order);
     base_columns only  every other column is a list column (in frame order);
     both               as given (a column in neither is dropped);
     no list column     ValueError.
   The result: the base columns in the given order, then the nested column.

   _cast_struct_cols_to_nested(df, reject_nesting) (nestedframe/io.py), column by column in frame order: a column whose Arrow
   type is a struct of lists and whose name is not rejected is cast to the nested dtype - which validates it: a ragged one
   makes the whole read fail; every other column is left as it is.  Definitions only. *)
From Coq Require Import String List Arith Bool.
Import ListNotations.
From NP Require Import Base Values Dtype Names.

Definition m_from_lists_columns (cols : list str) (base lists : option (list str)) : res (option (list str) * list str) :=
  let '(b, l) :=
    match base, lists with
    | None, None => (None, cols)
    | None, Some l => (Some (filter (fun c => negb (mem_str c l)) cols), l)
    | Some b, None => (Some b, filter (fun c => negb (mem_str c b)) cols)
    | Some b, Some l => (Some b, l)
    end in
  match l with [] => Err | _ => Ok (b, l) end.
Definition m_from_lists_result (b : option (list str)) (name : str) : list str :=
  match b with Some b => b ++ [name] | None => [name] end.

Inductive ckind := KPlain | KStructLists (rectangular : bool) | KStructOther.
Inductive cout := CNested | CUnchanged.
Fixpoint m_cast_cols (cols : list (str * ckind)) (reject : list str) : res (list (str * cout)) :=
  match cols with
  | [] => Ok []
  | (nm, k) :: t =>
      let here : res cout :=
        match k with
        | KStructLists rect => if mem_str nm reject then Ok CUnchanged else if rect then Ok CNested else Err
        | _ => Ok CUnchanged
        end in
      match here with
      | Err => Err
      | Ok o => match m_cast_cols t reject with Ok r => Ok ((nm, o) :: r) | Err => Err end
      end
  end.
