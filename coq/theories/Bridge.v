(* Bridge.v — the link between the two levels of the development: the frame-level model (Frame.v) works on
   record-major rows, the column-level specifications (Logical.v) on the field-major logical column abs p.
   nrows_of transposes each row's per-field lists into records.  The lemmas (Proofs_Bridge.v) say that the views the
   frame-level mechanisms start from - the flat records, the per-row lengths, the ordinal index - are exactly the C03
   views of the logical column, which C03 proves equal to what the library computes on ANY physical layout.
   Also: packing list-valued columns (packer.pack_lists) on the physical level, with its chunk-alignment branch.
   Definitions only. *)
From Coq Require Import String List Arith Bool ZArith.
Import ListNotations.
From NP Require Import Base Values Arrow Abs Kernels Logical Frame.

(* per-field lists of one row -> its records *)
Definition transpose_row (fs : list (list val)) : list record :=
  match fs with
  | [] => []
  | f0 :: _ => map (fun j => map (fun col => nth j col VNull) fs) (seq 0 (length f0))
  end.
Definition nrows_of (L : lcol) : list nrow := map (option_map transpose_row) (rows_of L).

(* field k of the flat records *)
Definition flat_field (k : nat) (rows : list nrow) : list val := map (fun r => nth k r VNull) (m_flat rows).

(* ---------- packer.pack_lists on the physical level ---------- *)
(* one list-valued column: name, element type, its chunks (ListArrays) *)
Definition lcolumn := (string * ety * list larr)%type.
Definition la_combine (chunks : list larr) : larr := la_of_lists (concat (map la_lists chunks)).
Definition chunk_lengths (c : lcolumn) : list nat := map la_len (snd c).

(* if every column has the same chunk lengths: one struct per chunk position; otherwise combine every column first *)
Definition m_pack_lists (cols : list lcolumn) (validate : bool) : res chunked :=
  match cols with
  | [] => Err
  | c0 :: _ =>
      let sch := map (fun c => (fst (fst c), snd (fst c))) cols in
      let aligned := forallb (fun c => list_eqb Nat.eqb (chunk_lengths c0) (chunk_lengths c)) cols in
      let chunks :=
        if aligned then
          map (fun i => sc_from_arrays (map (fun c => {| fname := fst (fst c); fty := snd (fst c);
                                                         farr := nth i (snd c) {| offs := [0]; lvalid := []; child := [] |} |}) cols) None)
              (seq 0 (length (snd c0)))
        else
          [ sc_from_arrays (map (fun c => {| fname := fst (fst c); fty := snd (fst c); farr := la_combine (snd c) |}) cols) None ] in
      let p := {| ctype := sch; chunks := chunks |} in
      (* NestedExtensionArray(struct_array, validate=validate): zero chunks are normalised to one empty chunk *)
      if validate then (if forallb same_offsets_b chunks then Ok p else Err) else Ok p
  end.

(* the rows a list column offers *)
Definition column_rows (c : lcolumn) : list (option (list val)) := concat (map la_lists (snd c)).
